/-
Correspondence driver for C18: runs the definitions of `Model/ProfileCompression.lean` at `Float` / `Nat`.
Line protocol (`C18 <op> args…`; floats are 16-hex-digit IEEE patterns, integers decimal):

  el      N L nw  h*N p*N [w*N]       → h_el*L cn2_el*L [w_el*L]              (repaired edge construction)
  elpin   N L     h*N p*N             → n h_el*L cn2_el*L                      (PINNED construction: arange edges, n = their number)
  groups  N m s*m                     → lo hi lo hi …
  valid   N m s*m                     → 0 | 1
  vic     N m s*m                     → members separated by `|`, each a blank-separated split list (`e` = empty list)
  cost    N m s*m h*N p*N             → G
  equal   N L                         → ⌊k·(N/L)⌋ in binary64 for k = 1…L-1   (numpy.linspace(0,N,L+1,dtype=int)[1:-1])
  optmin  N m fuel s*m h*N p*N        → splits ; G
  og      N L fuel R r*(R·(L-1)) h*N p*N → splits ; G ; heights*L ; cn2*L     (start = `equal`, restarts as given)
  mom     N L h*N p*N                 → moments*(2L-1)
  minfunc L x*(2L) mom0*(2L-1)        → value
  gctmout L hs cs res*(2L)            → h*L cn2*L
-/
import AoVerif.Drive.Util
import AoVerif.Model.ProfileCompression

namespace AoVerif.Drive.C18
open AoVerif AoVerif.Drive AoVerif.Model.ProfileCompression

def fn (a : Array Float) : Nat → Float := fun j => a[j]!

def natsStr (l : List Nat) : String := if l.isEmpty then "e" else " ".intercalate (l.map toString)

/-- split `l` into a prefix of length `n` and the rest; `none` when too short -/
def takeN {α : Type} (l : List α) (n : Nat) : Option (List α × List α) :=
  if l.length < n then none else some (l.take n, l.drop n)

def floatToNat? (x : Float) : Option Nat :=
  if x.isNaN || x.isInf || x < 0.0 || x > 1.0e15 then none else some x.toUInt64.toNat

/-- `⌊k·(N/L)⌋` in binary64 -/
def equalFloat (N L : Nat) : Option (List Nat) :=
  (List.range (L - 1)).foldr (fun k acc => do
      let tl ← acc
      let v ← floatToNat? (Float.floor (Nat.toFloat (k + 1) * (Nat.toFloat N / Nat.toFloat L)))
      pure (v :: tl)) (some [])

def chunks (l : List Nat) (m : Nat) : Nat → List (List Nat)
  | 0 => []
  | r + 1 => l.take m :: chunks (l.drop m) m r

def handle (args : List String) : Option String :=
  match args with
  | "el" :: sN :: sL :: sW :: rest => do
      let N ← sN.toNat?; let L ← sL.toNat?; let nw ← sW.toNat?
      if N = 0 ∨ L = 0 ∨ nw > 1 then none
      let a ← parseFloats? rest
      if a.size ≠ (2 + nw) * N then none
      let h := fn (a.extract 0 N); let p := fn (a.extract N (2 * N)); let w := fn (a.extract (2 * N) (3 * N))
      -- `elIx N L h` memoised: the edges and the slab indices are tabulated once
      let edges : Array Float := Array.ofFn (n := L) (fun i => elEdge N L h i.val)
      let ixs : Array Nat := Array.ofFn (n := N) (fun j => slabIx L (fn edges) h j.val)
      let ix : Nat → Nat := fun j => ixs[j]!
      let he := (List.range L).map (elEff N ix p h)
      let ce := (List.range L).map (elCn2 N ix p)
      let we := if nw = 1 then (List.range L).map (elEff N ix p w) else []
      pure (joinFloats (he ++ ce ++ we).toArray)
  | "elpin" :: sN :: sL :: rest => do
      let N ← sN.toNat?; let L ← sL.toNat?
      if N = 0 ∨ L = 0 then none
      let a ← parseFloats? rest
      if a.size ≠ 2 * N then none
      let h := fn (a.extract 0 N); let p := fn (a.extract N (2 * N))
      let start := minTo N h; let stop := maxTo N h; let step := hstep N L h
      let n ← floatToNat? (Float.ceil ((stop - start) / step))
      let edges : Array Float := Array.ofFn (n := n) (fun i => arangeElem start step i.val)
      let ixs : Array Nat := Array.ofFn (n := N) (fun j => slabIx n (fn edges) h j.val)
      let ix : Nat → Nat := fun j => ixs[j]!
      let he := (List.range L).map (elEff N ix p h)
      let ce := (List.range L).map (elCn2 N ix p)
      pure (toString n ++ " " ++ joinFloats (he ++ ce).toArray)
  | "groups" :: sN :: sm :: rest => do
      let N ← sN.toNat?; let m ← sm.toNat?
      let s ← parseNats? rest
      if s.size ≠ m then none
      pure (" ".intercalate ((groups s.toList N).map (fun ab => toString ab.1 ++ " " ++ toString ab.2)))
  | "valid" :: sN :: sm :: rest => do
      let N ← sN.toNat?; let m ← sm.toNat?
      let s ← parseNats? rest
      if s.size ≠ m then none
      pure (if Valid s.toList N then "1" else "0")
  | "vic" :: sN :: sm :: rest => do
      let N ← sN.toNat?; let m ← sm.toNat?
      let s ← parseNats? rest
      if s.size ≠ m then none
      pure ("|".intercalate ((vicinity s.toList N).map natsStr))
  | "cost" :: sN :: sm :: rest => do
      let N ← sN.toNat?; let m ← sm.toNat?
      let (ss, fs) ← takeN rest m
      let s ← parseNats? ss
      let a ← parseFloats? fs
      if a.size ≠ 2 * N then none
      pure (floatHex (G (fn (a.extract 0 N)) (fn (a.extract N (2 * N))) s.toList N))
  | ["equal", sN, sL] => do
      let N ← sN.toNat?; let L ← sL.toNat?
      if L = 0 then none
      let s ← equalFloat N L
      pure (natsStr s)
  | "optmin" :: sN :: sm :: sf :: rest => do
      let N ← sN.toNat?; let m ← sm.toNat?; let fuel ← sf.toNat?
      let (ss, fs) ← takeN rest m
      let s ← parseNats? ss
      let a ← parseFloats? fs
      if a.size ≠ 2 * N then none
      let r ← optMin (fn (a.extract 0 N)) (fn (a.extract N (2 * N))) N fuel s.toList
      pure (natsStr r.1 ++ " ; " ++ floatHex r.2)
  | "og" :: sN :: sL :: sf :: sR :: rest => do
      let N ← sN.toNat?; let L ← sL.toNat?; let fuel ← sf.toNat?; let R ← sR.toNat?
      if L = 0 then none
      let (rs, fs) ← takeN rest (R * (L - 1))
      let rr ← parseNats? rs
      let a ← parseFloats? fs
      if a.size ≠ 2 * N then none
      let h := fn (a.extract 0 N); let p := fn (a.extract N (2 * N))
      let start ← equalFloat N L
      let best ← ogBest h p N fuel start (chunks rr.toList (L - 1) R)
      let out := ogOut h p best.1 N
      pure (natsStr best.1 ++ " ; " ++ floatHex best.2 ++ " ; " ++ joinFloats (out.map (·.1)).toArray ++ " ; "
            ++ joinFloats (out.map (·.2)).toArray)
  | "mom" :: sN :: sL :: rest => do
      let N ← sN.toNat?; let L ← sL.toNat?
      let a ← parseFloats? rest
      if a.size ≠ 2 * N ∨ L = 0 then none
      pure (joinFloats ((List.range (2 * L - 1)).map (moments N (fn (a.extract 0 N)) (fn (a.extract N (2 * N))))).toArray)
  | "minfunc" :: sL :: rest => do
      let L ← sL.toNat?
      let a ← parseFloats? rest
      if L = 0 ∨ a.size ≠ 2 * L + (2 * L - 1) then none
      pure (floatHex (minfunc L (fn (a.extract 0 L)) (fn (a.extract L (2 * L))) (fn (a.extract (2 * L) (4 * L - 1)))))
  | "gctmout" :: sL :: rest => do
      let L ← sL.toNat?
      let a ← parseFloats? rest
      if a.size ≠ 2 * L + 2 then none
      let o := gctmOut L (fn (a.extract 2 (2 * L + 2))) a[0]! a[1]!
      pure (joinFloats ((List.range L).map o.1 ++ (List.range L).map o.2).toArray)
  | _ => none

end AoVerif.Drive.C18
