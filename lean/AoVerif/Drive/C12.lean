/- Correspondence driver operations for C12 (Zernike): the definitions of `Model/Zernike.lean` run at Nat/Int/Float. -/
import AoVerif.Drive.Util
import AoVerif.Model.Zernike
namespace AoVerif.Drive.C12
open AoVerif.Drive AoVerif.Model.Zernike

def parseNorm? : String → Option Norm
  | "noll" => some .noll
  | "p2v" => some .p2v
  | "rms" => some .rms
  | _ => none

def showIdx (p : Nat × Int) : String := toString p.1 ++ " " ++ toString p.2

def flat (a : List (List Float)) : String := " ".intercalate (a.flatten.map floatHex)

/--
`noll j`                          → `n m`            (`zernIndex`, ℕ with `Nat.sqrt`)
`nollf j`                         → `n m`            (the literal binary64 formula)
`nollrange lo hi`                 → `n m n m …`      for `lo ≤ j < hi`
`nollinv n m`                     → `j`              (`nollOf`)
`radial n m r`                    → `R_n^m(r)`
`mode n m N rot`                  → the `N·N` pixels of `zernike_nm(n, m, N, rot)`
`polymode n m N`                  → the same pixels at `rot = 0` through the integer polynomial `zernPoly n m`
`arrlist norm N rot j₁ j₂ …`      → `zernikeArray([j…], N, norm, rot)` flattened
`arrcount norm N rot J`           → `zernikeArray(J, N, norm, rot)` flattened
`phase norm N rot c₁ c₂ …`        → `phaseFromZernikes([c…], N, norm, rot)` flattened
`gammanm nzrad`                   → `n m n m …`      (the bookkeeping lists of `makegammas`)
`gamma nzrad`                     → `gamx` then `gamy`, row-major
`gammaint nzrad`                  → the cleared integer matrices, row-major
`degen N J`                       → for `j = 1 … J`: `nonconstPix ℚ j N` `nonzeroPix ℚ j N` as `0`/`1` (exact rational pixels at `rot = 0`)
`round num den`                   → `npRound num den` (`int(numpy.round(num/den))`)
-/
def handle (args : List String) : Option String :=
  match args with
  | ["noll", j] => do
      let j ← j.toNat?
      if j = 0 then none else pure (showIdx (zernIndex j))
  | ["nollf", j] => do
      let j ← j.toNat?
      if j = 0 then none else
      let r := zernIndexFloat j
      pure (toString r.1 ++ " " ++ toString r.2)
  | ["nollrange", lo, hi] => do
      let lo ← lo.toNat?
      let hi ← hi.toNat?
      if lo = 0 ∨ hi < lo then none else
      pure (" ".intercalate ((List.range (hi - lo)).map (fun i => showIdx (zernIndex (lo + i)))))
  | ["nollinv", n, m] => do
      let n ← n.toNat?
      let m ← m.toInt?
      if m.natAbs ≤ n ∧ (n - m.natAbs) % 2 = 0 then pure (toString (nollOf n m)) else none
  | ["radial", n, m, r] => do
      let n ← n.toNat?
      let m ← m.toNat?
      let r ← parseFloat? r
      if m ≤ n ∧ (n - m) % 2 = 0 then pure (floatHex (radialFunc n m r)) else none
  | ["mode", n, m, N, rot] => do
      let n ← n.toNat?
      let m ← m.toInt?
      let N ← N.toNat?
      let rot ← parseFloat? rot
      if m.natAbs ≤ n ∧ (n - m.natAbs) % 2 = 0 ∧ 0 < N then
        pure (flat [image N (modePixel n m N rot)])
      else none
  | ["polymode", n, m, N] => do
      let n ← n.toNat?
      let m ← m.toInt?
      let N ← N.toNat?
      if m.natAbs ≤ n ∧ (n - m.natAbs) % 2 = 0 ∧ 0 < N then
        pure (flat [image N (fun row col =>
          let x : Float := coord N col
          let y : Float := coord N row
          modeCartPoly n m x y * clip x y * circleMask N row col)])
      else none
  | "arrlist" :: norm :: N :: rot :: js => do
      let norm ← parseNorm? norm
      let N ← N.toNat?
      let rot ← parseFloat? rot
      let js ← parseNats? js
      if 0 < N ∧ js.all (0 < ·) then pure (flat (zernikeArrayList js.toList N norm rot)) else none
  | ["arrcount", norm, N, rot, J] => do
      let norm ← parseNorm? norm
      let N ← N.toNat?
      let rot ← parseFloat? rot
      let J ← J.toNat?
      if 0 < N then pure (flat (zernikeArrayCount J N norm rot)) else none
  | "phase" :: norm :: N :: rot :: cs => do
      let norm ← parseNorm? norm
      let N ← N.toNat?
      let rot ← parseFloat? rot
      let cs ← parseFloats? cs
      if 0 < N then pure (flat [phaseFromZernikes cs.toList N norm rot]) else none
  | ["gammanm", nzrad] => do
      let nzrad ← nzrad.toNat?
      pure (" ".intercalate ((gammaNM nzrad).map (fun p => toString p.1 ++ " " ++ toString p.2)))
  | ["gamma", nzrad] => do
      let nzrad ← nzrad.toNat?
      let nm := gammaNM nzrad
      let nz := nm.length
      let gx := (List.range nz).map (fun i => (List.range nz).map (fun j => (gamxEntry nm i j : Float)))
      let gy := (List.range nz).map (fun i => (List.range nz).map (fun j => (gamyEntry nm i j : Float)))
      pure (flat (gx ++ gy))
  | ["gammaint", nzrad] => do
      let nzrad ← nzrad.toNat?
      let nm := gammaNM nzrad
      let nz := nm.length
      let gx := (List.range nz).flatMap (fun i => (List.range nz).map (fun j => gamxInt nm i j))
      let gy := (List.range nz).flatMap (fun i => (List.range nz).map (fun j => gamyInt nm i j))
      pure (" ".intercalate ((gx ++ gy).map toString))
  | ["degen", N, J] => do
      let N ← N.toNat?
      let J ← J.toNat?
      if 0 < N then
        pure (" ".intercalate ((List.range J).map (fun i =>
          (if nonconstPix Rat (i + 1) N then "1" else "0") ++ " " ++ (if nonzeroPix Rat (i + 1) N then "1" else "0"))))
      else none
  | ["round", num, den] => do
      let num ← num.toNat?
      let den ← den.toNat?
      if 0 < den then pure (toString (npRound num den)) else none
  | _ => none

end AoVerif.Drive.C12
