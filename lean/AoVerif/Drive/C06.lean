import AoVerif.Drive.Util
import AoVerif.Model.Rng
namespace AoVerif.Drive.C06
open AoVerif.Rng

def parseOp (t : String) : Option Op :=
  match t.splitOn ":" with
  | ["c", i, s, n] => do pure (.create (← i.toNat?) (← s.toNat?) (← n.toNat?))
  | ["a", i, n] => do pure (.addRow (← i.toNat?) (← n.toNat?))
  | ["r", i] => do pure (.read (← i.toNat?))
  | ["f", s, n] => do pure (.finite (← s.toNat?) (← n.toNat?))
  | ["gs", s] => do pure (.globalSeed (← s.toNat?))
  | ["gd", n] => do pure (.globalDraw (← n.toNat?))
  | ["o"] => some .other
  | _ => none

/-- counter generator: distinct seeds give disjoint ranges, `next` returns and advances the counter -/
def seedGen (s : Nat) : Nat := (s + 1) * 1000003
def next (s : Nat) : Nat × Nat := (s + 1, s)

/-- `C06 hist <maxInst> <op>*` → per operation: which generators changed state (`i<k>`, `g`, or `-`) and the first
value drawn (identifies the stream and the position) -/
def handle (args : List String) : Option String :=
  match args with
  | "hist" :: mi :: toks => do
      let maxI ← mi.toNat?
      let ops ← toks.mapM parseOp
      let rec go (w : World Nat) (ops : List Op) (acc : List String) : List String :=
        match ops with
        | [] => acc.reverse
        | op :: rest =>
          let (w1, out) := step seedGen next w op
          let changed := (List.range maxI).filter (fun i => w1.inst i != w.inst i)
          let toks := changed.map (fun i => s!"i{i}") ++ (if w1.glob != w.glob then ["g"] else [])
          let tag := if toks.isEmpty then "-" else ",".intercalate toks
          let first := match out with | [] => "none" | a :: _ => toString a
          go w1 rest (s!"{tag}/{first}/{out.length}" :: acc)
      pure (" ".intercalate (go ⟨fun _ => none, 0⟩ ops []))
  | _ => none

end AoVerif.Drive.C06
