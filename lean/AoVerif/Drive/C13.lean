import AoVerif.Drive.Util
import AoVerif.Model.KL
namespace AoVerif.Drive.C13
open AoVerif AoVerif.Drive AoVerif.KL

/-- tables are built explicitly at the call site (a `let`-bound array captured by a lambda is shared; a function
returning a closure is not: the compiler makes its table an argument-less recomputation) -/
def tab1 (n : Nat) (f : Nat → Float) : Array Float := (Array.range n).map f
def tab2 (n m : Nat) (f : Nat → Nat → Float) : Array Float := (Array.range (n*m)).map (fun i => f (i / m) (i % m))
def out2 (n m : Nat) (f : Nat → Nat → Float) : String :=
  joinFloats ((Array.range (n*m)).map (fun i => f (i / m) (i % m)))

/-- the eigen-decompositions of the orders `0..T` as they come over the wire:
order 0: `nr-1` eigenvalues, `(nr-1)²` eigenvector entries `[k, m]`; order t ≥ 1: `nr` and `nr²` `[a, k]` -/
def offset (nr t : Nat) : Nat :=
  if t = 0 then 0 else (nr - 1) + (nr - 1) * (nr - 1) + (t - 1) * (nr + nr * nr)
def wireE (nr : Nat) (w : Array Float) (t k : Nat) : Float := w[offset nr t + k]!
def wireV (nr : Nat) (w : Array Float) (t a k : Nat) : Float :=
  if t = 0 then w[(nr - 1) + a * (nr - 1) + k]! else w[offset nr t + nr + a * nr + k]!

def handle (args : List String) : Option String :=
  match args with
  | ["radii", ris, nrs] => do
      let ri ← parseFloat? ris
      let nr ← nrs.toNat?
      pure (joinFloats ((Array.range nr).map (fun k => radii ri nr k)))
  | ["piston", nrs] => do
      let nr ← nrs.toNat?
      pure (out2 nr nr (fun i j => pistonOrth nr i j))
  | ["mat", ris, nrs, ts] => do
      let ri ← parseFloat? ris
      let nr ← nrs.toNat?
      let t ← ts.toNat?
      if nr < 2 then none else
      let radA := tab1 nr (radii ri nr)
      let rad : Nat → Float := fun k => radA[k]!
      if t = 0 then
        let zomA := tab2 nr nr (fun i j => kernel Gen.kl_stf_kolmogorov ri nr rad i j 0)
        let zom : Nat → Nat → Float := fun i j => zomA[i*nr+j]!
        -- `eighInput … 0` with the order-0 kernel table memoised
        pure (out2 (nr - 1) (nr - 1) (fun a a' => Gen.kl_fktom ri (nr : Float) * b1 nr zom a a'))
      else
        pure (out2 nr nr (fun a a' => eighInput Gen.kl_stf_kolmogorov ri nr rad t a a'))
  | "glue" :: nrs :: nfs :: Ts :: rest => do
      let nr ← nrs.toNat?
      let nfunc ← nfs.toNat?
      let T ← Ts.toNat?
      let w ← parseFloats? rest
      if nr < 2 ∨ nfunc = 0 then none else
      if w.size ≠ offset nr (T + 1) then none else
      let E := wireE nr w
      let V := wireV nr w
      let ev := evs nr E
      match findNus nr nfunc (min (T + 1) (5 * nr)) ev with
      | none => pure (if T + 1 < 5 * nr then "need-more" else "index-error")
      | some nus =>
        let flat : Nat → Float := fun x => ev (x / nr) (x % nr)
        let a := argsortDesc (nr * nus) flat
        let oi := oind nr nfunc a
        if oi.length ≠ nfunc then pure "too-few" else
        let oo := oordList nr oi
        let nord := nordOf oo
        let rab : Nat → Nat → Float := fun a i => let x := oi[i]!; kers nr V (x / nr) a (x % nr)
        pure (s!"{nus} {nord} ; " ++ joinFloats (oi.map flat).toArray ++ " ; " ++ joinNats oo.toArray ++ " ; "
              ++ joinNats ((Array.range nord).map (npoOf oo)) ++ " ; " ++ out2 nr nfunc rab)
  | ["azi", nos, npps] => do
      let nord ← nos.toNat?
      let npp ← npps.toNat?
      pure (out2 (1 + nord) npp (fun o b => azi nord npp o b))
  | "sfi" :: nrs :: npps :: nos :: os :: rest => do
      let nr ← nrs.toNat?
      let npp ← npps.toNat?
      let nord ← nos.toNat?
      let o ← os.toNat?
      let w ← parseFloats? rest
      if w.size ≠ nr then none else
      pure (out2 nr npp (sfi (fun a => w[a]!) (fun b => azi nord npp o b)))
  | ["pupil", ris, ncps, ncms] => do
      let ri ← parseFloat? ris
      let ncp ← ncps.toNat?
      let ncmar ← ncms.toNat?
      pure (joinNats ((Array.range (ncp*ncp)).map (fun i => if inAp ri ncp ncmar (i / ncp) (i % ncp) then 1 else 0)))
  | ["cr", ris, nrs, ncps, ncms] => do
      let ri ← parseFloat? ris
      let nr ← nrs.toNat?
      let ncp ← ncps.toNat?
      let ncmar ← ncms.toNat?
      pure (out2 ncp ncp (fun row col => crCoord ri nr ncp ncmar row col))
  | "masked" :: ris :: ncps :: ncms :: rest => do
      let ri ← parseFloat? ris
      let ncp ← ncps.toNat?
      let ncmar ← ncms.toNat?
      let w ← parseFloats? rest
      if w.size ≠ ncp * ncp then none else
      pure (out2 ncp ncp (fun row col => pol2car ri ncp ncmar true w[row*ncp+col]! row col))
  | "cp" :: npps :: rest => do
      let npp ← npps.toNat?
      let w ← parseFloats? rest
      pure (joinFloats (w.map (fun phi => cpCoord npp phi)))
  | "render" :: nrs :: npps :: ns :: rest => do
      -- `n` pixels: their `cr`, their `cp`, then the `nr × npp` polar table; order-1 `map_coordinates` of the table
      -- closed in azimuth (`wrapCol`)
      let nr ← nrs.toNat?
      let npp ← npps.toNat?
      let n ← ns.toNat?
      let w ← parseFloats? rest
      if w.size ≠ 2 * n + nr * npp ∨ nr < 2 ∨ npp < 1 then none else
      let pol : Nat → Nat → Float := fun a b => w[2 * n + a * npp + b]!
      let one (p : Nat) : Float :=
        let cr := w[p]!
        let cp := w[n + p]!
        let a := cr.floor.toUInt64.toNat
        let b := cp.floor.toUInt64.toNat
        bilin (wrapCol npp pol) a b (cr - cr.floor) (cp - cp.floor)
      if (Array.range n).any (fun p => w[p]! < 0 ∨ w[n + p]! < 0 ∨ w[p]!.floor.toUInt64.toNat + 1 ≥ nr
            ∨ w[n + p]!.floor.toUInt64.toNat ≥ npp) then none else
      pure (joinFloats ((Array.range n).map one))
  | _ => none

end AoVerif.Drive.C13
