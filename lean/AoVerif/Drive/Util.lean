/- Line-protocol helpers for the correspondence driver (Mathlib-free). -/
namespace AoVerif.Drive

def hexDigit? (c : Char) : Option Nat :=
  if '0' ≤ c ∧ c ≤ '9' then some (c.toNat - '0'.toNat)
  else if 'a' ≤ c ∧ c ≤ 'f' then some (c.toNat - 'a'.toNat + 10)
  else if 'A' ≤ c ∧ c ≤ 'F' then some (c.toNat - 'A'.toNat + 10)
  else none

def parseHex? (s : String) : Option Nat :=
  if s.isEmpty then none else
  s.foldl (fun acc c => match acc, hexDigit? c with
    | some a, some d => some (a * 16 + d)
    | _, _ => none) (some 0)

/-- a float is transported as the 16-hex-digit IEEE-754 bit pattern -/
def parseFloat? (s : String) : Option Float :=
  if s.length ≠ 16 then none else (parseHex? s).map (fun n => Float.ofBits n.toUInt64)

def hexOfNat (n : Nat) (width : Nat) : String :=
  let digits := "0123456789abcdef".toList.toArray
  let rec go (k : Nat) (n : Nat) (acc : List Char) : List Char :=
    match k with
    | 0 => acc
    | k+1 => go k (n / 16) (digits[n % 16]! :: acc)
  String.ofList (go width n [])

def floatHex (x : Float) : String := hexOfNat x.toBits.toNat 16

def parseFloats? (l : List String) : Option (Array Float) :=
  l.foldl (fun acc s => match acc, parseFloat? s with
    | some a, some x => some (a.push x)
    | _, _ => none) (some #[])

def parseInts? (l : List String) : Option (Array Int) :=
  l.foldl (fun acc s => match acc, s.toInt? with
    | some a, some x => some (a.push x)
    | _, _ => none) (some #[])

def parseNats? (l : List String) : Option (Array Nat) :=
  l.foldl (fun acc s => match acc, s.toNat? with
    | some a, some x => some (a.push x)
    | _, _ => none) (some #[])

def joinFloats (a : Array Float) : String := " ".intercalate (a.toList.map floatHex)
def joinInts (a : Array Int) : String := " ".intercalate (a.toList.map toString)
def joinNats (a : Array Nat) : String := " ".intercalate (a.toList.map toString)

end AoVerif.Drive
