/-
Driver operations for C02 (the same definitions of `Model/Tomo.lean`, run at binary64):

  C02 recon   N n rc  C…            reconstructor with the integer STAND-IN kernel  (2n × (N-2n) values)
  C02 wrap    k n₁…n_k rc  C…       makeTomographicReconstructor with the stand-in kernel
  C02 reconP  N n  C… P…            reconstructor with the kernel's recorded output P ((N-2n)² values)
  C02 pinvsvd q rc  U… s… Vt…       pinvFromSvd (numpy.linalg.pinv written out on numpy's SVD factors)
  C02 resvar  N n  C… R…            residualVariance

Matrices travel row-major.  The stand-in kernel `P[i,j] = 3·A[j,i] + rc + 7·i + j` is integer valued on integer
input (exact in binary64/32), not symmetric, and depends on position, on the transposed argument and on the
conditioning value, so that a wrong slice, a swapped product, a transposed factor or a dropped `rcond` all show.
-/
import AoVerif.Drive.Util
import AoVerif.Model.Tomo
namespace AoVerif.Drive.C02
open AoVerif AoVerif.Drive AoVerif.Tomo

def ofArr (cols : Nat) (a : Array Float) (off : Nat := 0) : Mat Float := fun i j => a[off + i * cols + j]!

def standin : Nat → Float → Mat Float → Mat Float :=
  fun _ rc A => fun i j => 3.0 * A j i + rc + (7 * i + j).toFloat

def outMat (rows cols : Nat) (M : Mat Float) : String :=
  joinFloats ((Array.range (rows * cols)).map (fun t => M (t / cols) (t % cols)))

def handle (args : List String) : Option String :=
  match args with
  | "recon" :: ns :: n1 :: rcs :: rest => do
      let N ← ns.toNat?
      let n ← n1.toNat?
      let rc ← parseFloat? rcs
      let a ← parseFloats? rest
      if a.size ≠ N * N ∨ 2 * n > N then none else
      some (outMat (2 * n) (N - 2 * n) (reconstructor standin N n rc (ofArr N a)))
  | "wrap" :: ks :: rest => do
      let k ← ks.toNat?
      if rest.length < k + 1 ∨ k = 0 then none else
      let subs ← parseNats? (rest.take k)
      let rc ← parseFloat? (rest.getD k "")
      let a ← parseFloats? (rest.drop (k + 1))
      let subsL := subs.toList
      let N := 2 * subsL.sum
      if a.size ≠ N * N then none else
      some (outMat (2 * subsL.headD 0) (N - 2 * subsL.headD 0)
        (makeTomographicReconstructor standin subsL rc (ofArr N a)))
  | "reconP" :: ns :: n1 :: rest => do
      let N ← ns.toNat?
      let n ← n1.toNat?
      let a ← parseFloats? rest
      if 2 * n > N then none else
      let q := N - 2 * n
      if a.size ≠ N * N + q * q then none else
      let P : Mat Float := ofArr q a (N * N)
      some (outMat (2 * n) q (reconstructor (fun _ _ _ => P) N n 0.0 (ofArr N a)))
  | "pinvsvd" :: qs :: rcs :: rest => do
      let q ← qs.toNat?
      let rc ← parseFloat? rcs
      let a ← parseFloats? rest
      if a.size ≠ 2 * q * q + q ∨ q = 0 then none else
      let U : Mat Float := ofArr q a
      let s : Nat → Float := fun i => a[q * q + i]!
      let Vt : Mat Float := ofArr q a (q * q + q)
      some (outMat q q (pinvFromSvd q rc U s Vt))
  | "resvar" :: ns :: n1 :: rest => do
      let N ← ns.toNat?
      let n ← n1.toNat?
      let a ← parseFloats? rest
      if 2 * n > N then none else
      let q := N - 2 * n
      if a.size ≠ N * N + 2 * n * q then none else
      some (floatHex (residualVariance N n (ofArr N a) (ofArr q a (N * N))))
  | _ => none

end AoVerif.Drive.C02
