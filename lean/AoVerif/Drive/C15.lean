import AoVerif.Drive.Util
import AoVerif.Model.Centroid
namespace AoVerif.Drive.C15
open AoVerif AoVerif.Drive AoVerif.Centroid

abbrev CF := Cx Float

def tw (n : Nat) (m : Nat) : CF :=
  let t : Float := 2.0 * FloatImpl.piF * m.toFloat / n.toFloat
  ⟨Float.cos t, -(Float.sin t)⟩
def twi (n : Nat) (m : Nat) : CF :=
  let t : Float := 2.0 * FloatImpl.piF * m.toFloat / n.toFloat
  ⟨Float.cos t, Float.sin t⟩
def twTable (n : Nat) : Array CF := (Array.range n).map (tw n)
def twiTable (n : Nat) : Array CF := (Array.range n).map (twi n)
/-- array cache on the `py × px` frame (the identity there); returns a structure so that the table is built once -/
def memo2 (py px : Nat) (f : Nat → Nat → CF) : Img CF :=
  let a := (Array.range (py*px)).map (fun i => f (i / px) (i % px))
  { px := fun i j => a[i*px+j]! }

/-- frame `i` of a row-major `(nf, ny, nx)` array -/
def frame (a : Array Float) (ny nx : Nat) (off : Nat) (i : Nat) : Nat → Nat → Float :=
  fun y x => a[off + (i*ny + y)*nx + x]!

def outPairs (nf : Nat) (f : Nat → Float × Float) : String :=
  joinFloats ((Array.range nf).foldl (fun acc i => let p := f i; (acc.push p.1).push p.2) #[])

def absF (z : CF) : Float := Float.sqrt (z.re * z.re + z.im * z.im)

def xcorrF (ny nx pad : Nat) (x y : Nat → Nat → Float) : Img Float :=
  let py := ny * pad
  let px := nx * pad
  let wy := twTable py; let wx := twTable px; let wiy := twiTable py; let wix := twiTable px
  crossCorrelate ny nx pad (fun m => wy[m]!) (fun m => wx[m]!) (fun m => wiy[m]!) (fun m => wix[m]!)
    ⟨1.0 / py.toFloat, 0.0⟩ ⟨1.0 / px.toFloat, 0.0⟩ ⟨0.0, 0.0⟩ Cx.conj absF (memo2 py px)
    (fun a b => ⟨x a b, 0.0⟩) (fun a b => ⟨y a b, 0.0⟩)

/-- the N-D entry of `correlation_centroid` on the flat `(nt, ny, nx)` buffer -/
def corrF (ny nx pad : Nat) (t : Float) (buf : Nat → Float) (ref : Nat → Nat → Float) (i : Nat) : Float × Float :=
  let py := ny * pad
  let px := nx * pad
  let wy := twTable py; let wx := twTable px; let wiy := twiTable py; let wix := twiTable px
  corrFlat ny nx pad (fun m => wy[m]!) (fun m => wx[m]!) (fun m => wiy[m]!) (fun m => wix[m]!)
    ⟨1.0 / py.toFloat, 0.0⟩ ⟨1.0 / px.toFloat, 0.0⟩ ⟨0.0, 0.0⟩ Cx.conj absF (memo2 py px)
    (fun v => (⟨v, 0.0⟩ : CF)) t buf ref i

/-- the 2-D entry of `correlation_centroid` -/
def corr2F (ny nx pad : Nat) (t : Float) (im : Nat → Nat → Float) (ref : Nat → Nat → Float) : Float × Float :=
  let py := ny * pad
  let px := nx * pad
  let wy := twTable py; let wx := twTable px; let wiy := twiTable py; let wix := twiTable px
  corrCentroid ny nx pad (fun m => wy[m]!) (fun m => wx[m]!) (fun m => wiy[m]!) (fun m => wix[m]!)
    ⟨1.0 / py.toFloat, 0.0⟩ ⟨1.0 / px.toFloat, 0.0⟩ ⟨0.0, 0.0⟩ Cx.conj absF (memo2 py px)
    (fun v => (⟨v, 0.0⟩ : CF)) t im ref

def handle (args : List String) : Option String :=
  match args with
  | "cog2" :: nys :: nxs :: ts :: mns :: rest => do
      let ny ← nys.toNat?; let nx ← nxs.toNat?; let t ← parseFloat? ts; let mn ← parseFloat? mns
      let a ← parseFloats? rest
      if ny = 0 ∨ nx = 0 ∨ a.size ≠ ny*nx then none else
      some (outPairs 1 (fun _ => cog2 ny nx t mn (frame a ny nx 0 0)))
  | "cogN" :: nfs :: nys :: nxs :: ts :: mns :: rest => do
      let nf ← nfs.toNat?; let ny ← nys.toNat?; let nx ← nxs.toNat?; let t ← parseFloat? ts; let mn ← parseFloat? mns
      let a ← parseFloats? rest
      if ny = 0 ∨ nx = 0 ∨ a.size ≠ nf*ny*nx then none else
      some (outPairs nf (cogFlat ny nx t mn (fun e => a[e]!)))
  | "cogNpinned" :: nfs :: nys :: nxs :: ts :: mns :: rest => do
      let nf ← nfs.toNat?; let ny ← nys.toNat?; let nx ← nxs.toNat?; let t ← parseFloat? ts; let mn ← parseFloat? mns
      let a ← parseFloats? rest
      if ny = 0 ∨ nx = 0 ∨ a.size ≠ nf*ny*nx then none else
      some (outPairs nf (cogN_pinned ny nx t mn (frame a ny nx 0)))
  | "bp2" :: nys :: nxs :: ks :: rest => do
      let ny ← nys.toNat?; let nx ← nxs.toNat?; let k ← ks.toNat?
      let a ← parseFloats? rest
      if ny = 0 ∨ nx = 0 ∨ a.size ≠ ny*nx ∨ k = 0 ∨ k > ny*nx then none else
      some (outPairs 1 (fun _ => bp2 ny nx k (frame a ny nx 0 0)))
  | "bpN" :: nfs :: nys :: nxs :: ks :: rest => do
      let nf ← nfs.toNat?; let ny ← nys.toNat?; let nx ← nxs.toNat?; let k ← ks.toNat?
      let a ← parseFloats? rest
      if ny = 0 ∨ nx = 0 ∨ a.size ≠ nf*ny*nx ∨ k = 0 ∨ k > ny*nx then none else
      some (outPairs nf (bpFlat ny nx k (fun e => a[e]!)))
  | "kth" :: ks :: rest => do
      let k ← ks.toNat?
      let a ← parseFloats? rest
      if k = 0 ∨ k > a.size then none else some (floatHex (kthLargest a.toList k))
  | "quad" :: nfs :: nys :: nxs :: rest => do
      let nf ← nfs.toNat?; let ny ← nys.toNat?; let nx ← nxs.toNat?
      let a ← parseFloats? rest
      if ny < 2 ∨ nx < 2 ∨ a.size ≠ nf*ny*nx then none else
      some (outPairs nf (quadFlat ny nx (fun e => a[e]!)))
  | "xcorr" :: nys :: nxs :: pads :: rest => do
      let ny ← nys.toNat?; let nx ← nxs.toNat?; let pad ← pads.toNat?
      let a ← parseFloats? rest
      if ny = 0 ∨ nx = 0 ∨ pad = 0 ∨ a.size ≠ 2*ny*nx then none else
      let c := xcorrF ny nx pad (frame a ny nx 0 0) (frame a ny nx (ny*nx) 0)
      let py := ny*pad; let px := nx*pad
      some (joinFloats ((Array.range (py*px)).map (fun i => c.px (i / px) (i % px))))
  | "corr" :: nfs :: nys :: nxs :: pads :: ts :: rest => do
      let nf ← nfs.toNat?; let ny ← nys.toNat?; let nx ← nxs.toNat?; let pad ← pads.toNat?; let t ← parseFloat? ts
      let a ← parseFloats? rest
      if ny = 0 ∨ nx = 0 ∨ pad = 0 ∨ a.size ≠ (nf+1)*ny*nx then none else
      some (outPairs nf (corrF ny nx pad t (fun e => a[e]!) (frame a ny nx (nf*ny*nx) 0)))
  | "corr2d" :: nys :: nxs :: pads :: ts :: rest => do
      let ny ← nys.toNat?; let nx ← nxs.toNat?; let pad ← pads.toNat?; let t ← parseFloat? ts
      let a ← parseFloats? rest
      if ny = 0 ∨ nx = 0 ∨ pad = 0 ∨ a.size ≠ 2*ny*nx then none else
      some (outPairs 1 (fun _ => corr2F ny nx pad t (frame a ny nx 0 0) (frame a ny nx (ny*nx) 0)))
  | _ => none

end AoVerif.Drive.C15
