/-
Driver operations for C04: the definitions of `Model/InfiniteCov.lean` (and the T1-generated
`Gen.phase_covariance`) run at `Nat`/`Int`/`Float`.

  C04 allowed <req>                                   → find_allowed_size
  C04 geom vk <nx> <ncol>                             → nx stencil_length nz  (r c)*nz  (xr xc)*nx
  C04 geom fried <req> <factor>                       → nx stencil_length nz  (r c)*nz  (xr xc)*nx
  C04 covmat <vk|fried> <size> <ncol|factor> px r0 L0 → n  then the n×n covariance matrix (row-major)
  C04 amat <nz> <nx> xz[nx×nz] inv[nz×nz]             → A[nx×nz]
  C04 bbt <nz> <nx> xx[nx×nx] A[nx×nz] zx[nz×nx]      → BBt[nx×nx]
  C04 bmat <nx> u[nx×nx] w[nx]                        → B[nx×nx]
  C04 row <vk|fried> <size> <ncol|factor> A[nx×nz] B[nx×nx] scrn[len×nx] b[nx] → new row[nx]
-/
import AoVerif.Drive.Util
import AoVerif.Model.InfiniteCov
import AoVerif.Gen.Formulas
namespace AoVerif.Drive.C04
open AoVerif AoVerif.Drive AoVerif.InfiniteCov

/-- the rounding hook `r32` of `covMat`: `turb.phase_covariance` converts the separations with `numpy.float64(r)`
(double precision since the repair 4518b2c; it was `numpy.float32(r)` on the pinned tree), i.e. it does not round -/
def sepRound (x : Float) : Float := x

structure Geom where
  nx : Nat
  len : Nat
  stencil : List (Nat × Nat)

def geomOf (variant : String) (size par : Nat) : Option Geom :=
  match variant with
  | "vk" => some ⟨size, size, vkStencil size par⟩
  | "fried" =>
      let nx := findAllowedSize size
      some ⟨nx, par * nx, friedStencil nx par⟩
  | _ => none

def mat (a : Array Float) (off cols : Nat) : Nat → Nat → Float := fun i j => a[off + i * cols + j]!
def vec (a : Array Float) (off : Nat) : Nat → Float := fun i => a[off + i]!
def outMat (rows cols : Nat) (f : Nat → Nat → Float) : String :=
  joinFloats ((Array.range (rows * cols)).map fun t => f (t / cols) (t % cols))
def outVec (n : Nat) (f : Nat → Float) : String := joinFloats ((Array.range n).map f)

def handle (args : List String) : Option String :=
  match args with
  | ["allowed", s] => do
      let n ← s.toNat?
      pure (toString (findAllowedSize n))
  | ["geom", variant, s1, s2] => do
      let size ← s1.toNat?
      let par ← s2.toNat?
      let g ← geomOf variant size par
      let st : List Int := g.stencil.flatMap fun p => [Int.ofNat p.1, Int.ofNat p.2]
      let xs : List Int := (xCoords g.nx).flatMap fun p => [p.1, p.2]
      pure (" ".intercalate (([g.nx, g.len, g.stencil.length].map toString) ++ (st ++ xs).map toString))
  | ["covmat", variant, s1, s2, spx, sr0, sL0] => do
      let size ← s1.toNat?
      let par ← s2.toNat?
      let px ← parseFloat? spx
      let r0 ← parseFloat? sr0
      let L0 ← parseFloat? sL0
      let g ← geomOf variant size par
      let pos := (allCoords g.stencil g.nx).toArray
      let n := pos.size
      let S := covMat (fun r => Gen.phase_covariance r r0 L0) sepRound px (fun i => pos[i]!)
      pure (toString n ++ " " ++ outMat n n S)
  | "amat" :: s1 :: s2 :: rest => do
      let nz ← s1.toNat?
      let nx ← s2.toNat?
      let a ← parseFloats? rest
      if a.size ≠ nx * nz + nz * nz then none else
      pure (outMat nx nz (aMat nz (mat a 0 nz) (mat a (nx * nz) nz)))
  | "bbt" :: s1 :: s2 :: rest => do
      let nz ← s1.toNat?
      let nx ← s2.toNat?
      let a ← parseFloats? rest
      if a.size ≠ nx * nx + nx * nz + nz * nx then none else
      pure (outMat nx nx (bbt nz (mat a 0 nx) (mat a (nx * nx) nz) (mat a (nx * nx + nx * nz) nx)))
  | "bmat" :: s1 :: rest => do
      let nx ← s1.toNat?
      let a ← parseFloats? rest
      if a.size ≠ nx * nx + nx then none else
      pure (outMat nx nx (bMat nx (mat a 0 nx) (vec a (nx * nx))))
  | "row" :: variant :: s1 :: s2 :: rest => do
      let size ← s1.toNat?
      let par ← s2.toNat?
      let g ← geomOf variant size par
      let a ← parseFloats? rest
      let nx := g.nx
      let st := g.stencil.toArray
      let nz := st.size
      if a.size ≠ nx * nz + nx * nx + g.len * nx + nx then none else
      let A := mat a 0 nz
      let B := mat a (nx * nz) nx
      let scrn := mat a (nx * nz + nx * nx) nx
      let b := vec a (nx * nz + nx * nx + g.len * nx)
      let coords : Nat → Nat × Nat := fun l => st[l]!
      match variant with
      | "vk" => pure (outVec nx (newRowOfScreen nz nx A B coords scrn b))
      | "fried" =>
          -- the reference pixel (1, 1) must exist
          if nx < 2 ∨ g.len < 2 then none else
          pure (outVec nx (newRowFriedOfScreen nz nx A B coords scrn b))
      | _ => none
  | _ => none

end AoVerif.Drive.C04
