import AoVerif.Drive.Util
import AoVerif.Gen.FormulasDispatch
import AoVerif.Model.VonKarman
/-
C08 driver operations (all at `Float`):
  `C08 f <generated name> <hex float>*`   value of the definition REGENERATED from the Python source
  `C08 m <normal form> <hex float>*`      value of a normal form of `Model/VonKarman.lean` — the right-hand sides of
                                          `vk_normal_form`, `cov_normal_form`, `shape_identity`, `D_saturates`:
        h x | h0 | kC | kD | amp r0 L0 | c0 r0 L0 | sat r0 L0 | sfpos r r0 L0 | cideal r r0 L0
-/
namespace AoVerif.Drive.C08
open AoVerif.Drive AoVerif.VonKarman

def model (name : String) (a : Array Float) : Option Float :=
  match name, a.size with
  | "h", 1 => some (hK a[0]!)
  | "h0", 0 => some (h0 : Float)
  | "kC", 0 => some (kappaC : Float)
  | "kD", 0 => some (kappaD : Float)
  | "amp", 2 => some (amp a[0]! a[1]!)
  | "c0", 2 => some (covZero a[0]! a[1]!)
  | "sat", 2 => some (sfSat a[0]! a[1]!)
  | "sfpos", 3 => some (sfPos a[0]! a[1]! a[2]!)
  | "cideal", 3 => some (covIdeal a[0]! a[1]! a[2]!)
  | _, _ => none

def handle (args : List String) : Option String :=
  match args with
  | "f" :: name :: rest => do
      let a ← parseFloats? rest
      let v ← AoVerif.Gen.evalFormula name a
      pure (floatHex v)
  | "m" :: name :: rest => do
      let a ← parseFloats? rest
      let v ← model name a
      pure (floatHex v)
  | _ => none

end AoVerif.Drive.C08
