/- Correspondence driver for C10 and C11 (shared ops): runs `Model/Propagation.lean` at binary64.
   line:  C10 <op> N p1 p2 p3 p4 re im re im …   (N×N complex field, row-major; unused parameters are sent as 0)
     as    wvl d1 d2 z   angularSpectrum
     one   wvl d1 z  _   oneStepFresnel
     two   wvl d1 d2 z   twoStepFresnel (repaired: with the final point reflection)
     twop  wvl d1 d2 z   twoStepFresnel as at the pinned commit
     lens  wvl d1 f  _   lensAgainst
     refl  _ _ _ _       the point reflection `numpy.roll(U[::-1, ::-1], 1, axis=(0, 1))`
   answer: N×N complex numbers, row-major, as hex bit patterns. -/
import AoVerif.Drive.Util
import AoVerif.Drive.C09
import AoVerif.Model.Propagation
namespace AoVerif.Drive.C10
open AoVerif AoVerif.Drive AoVerif.Fourier AoVerif.Propagation

abbrev CF := Cx Float
instance : Inhabited CF := ⟨⟨0.0, 0.0⟩⟩

def outA (a : Array CF) : String :=
  joinFloats (a.foldl (fun acc z => (acc.push z.re).push z.im) #[])

def handle (args : List String) : Option String :=
  match args with
  | op :: ns :: p1 :: p2 :: p3 :: p4 :: rest => do
      let n ← ns.toNat?
      let p1 ← parseFloat? p1
      let p2 ← parseFloat? p2
      let p3 ← parseFloat? p3
      let p4 ← parseFloat? p4
      let a ← parseFloats? rest
      if n = 0 ∨ a.size ≠ 2*n*n then none else
      let w := C09.memo1 n (C09.tw n)
      let wi := C09.memo1 n (C09.twi n)
      let x : Nat → Nat → CF := fun i j => C09.toC a (i*n+j)
      match op with
      | "as" => some (outA (angularSpectrumA n w wi x p1 p2 p3 p4))
      | "one" => some (outA (oneStepFresnelA n w x p1 p2 p3))
      | "two" => some (outA (twoStepFresnelA n w x p1 p2 p3 p4))
      | "twop" => some (outA (twoStepFresnel_pinnedA n w x p1 p2 p3 p4))
      | "lens" => some (outA (lensAgainstA n w x p1 p2 p3))
      | "refl" => some (outA (tabulate n (reflect n x)))
      | _ => none
  | _ => none

end AoVerif.Drive.C10
