import AoVerif.Drive.Util
import AoVerif.Model.Screen
namespace AoVerif.Drive.C07
open AoVerif AoVerif.Drive AoVerif.Screen

abbrev CF := Cx Float

def outGrid (n : Nat) (f : Nat → Nat → Float) : String :=
  joinFloats ((Array.range (n*n)).map (fun i => f (i / n) (i % n)))

/-- the generator stream: positions past the supplied draws are never read (sizes are checked first) -/
def stream (a : Array Float) (i : Nat) : Float := a[i]!

/-
`C07 hi      <N> <r0> <delta> <L0> <l0> <g…(2N²)>`          ft_phase_screen (mirror model: shifts, ifft2, real part)
`C07 hifft   <N> <r0> <delta> <L0> <l0> <g…(2N²)>`          ft_phase_screen(FFT=<inverse transform>): the other shift pair
`C07 shfft   <N> <r0> <delta> <L0> <l0> <g…(2N²+54)>`       ft_sh_phase_screen(FFT=<inverse transform>)
`C07 hilin   <N> <r0> <delta> <L0> <l0> <g…(2N²)>`          the explicit real-linear form the theorems go through
`C07 sh      <0|1> <N> <r0> <delta> <L0> <l0> <g…>`         ft_sh_phase_screen: 0 = as coded (one generator, 2N²+54 draws);
                                                            1 = the PINNED int-seed behaviour (stream re-read from 0,
                                                            max(2N²,54) draws) — only used to reproduce the old defect
`C07 lolin   <N> <r0> <delta> <L0> <l0> <g…(54)>`           explicit real-linear low-frequency part (mean removed)
`C07 psd     <N> <r0> <delta> <L0> <l0>`                    PSD·del_f² on the grid (DC removed), N² numbers
-/
def handle (args : List String) : Option String :=
  match args with
  | "shfft" :: ns :: rest => do
      let n ← ns.toNat?
      let a ← parseFloats? rest
      if n = 0 ∨ a.size ≠ 4 + 2*n*n + 54 then none else
      let g := stream (a.extract 4 a.size)
      some (outGrid n (shScreenFFTStream CF n a[0]! a[1]! a[2]! a[3]! g))
  | "sh" :: sh :: ns :: rest => do
      let shared ← (match sh with | "0" => some false | "1" => some true | _ => none)
      let n ← ns.toNat?
      let a ← parseFloats? rest
      if n = 0 ∨ a.size < 4 then none else
      let need := if shared then max (2*n*n) 54 else 2*n*n + 54
      if a.size ≠ 4 + need then none else
      let g := stream (a.extract 4 a.size)
      some (outGrid n (if shared then shScreenStreamPinned CF true n a[0]! a[1]! a[2]! a[3]! g
                       else shScreenStream CF n a[0]! a[1]! a[2]! a[3]! g))
  | op :: ns :: rest => do
      let n ← ns.toNat?
      let a ← parseFloats? rest
      if n = 0 ∨ a.size < 4 then none else
      let (r0, delta, L0, l0) := (a[0]!, a[1]!, a[2]!, a[3]!)
      let g := stream (a.extract 4 a.size)
      match op with
      | "hi" => if a.size ≠ 4 + 2*n*n then none else
          some (outGrid n (ftScreenStream CF n r0 delta L0 l0 g))
      | "hifft" => if a.size ≠ 4 + 2*n*n then none else
          some (outGrid n (ftScreenFFTStream CF n r0 delta L0 l0 g))
      | "hilin" => if a.size ≠ 4 + 2*n*n then none else
          some (outGrid n (ftScreenLin n r0 delta L0 l0 (hiA n g) (hiB n g)))
      | "lolin" => if a.size ≠ 4 + 54 then none else
          some (outGrid n (loScreenLin n r0 delta L0 l0 (loA 0 g) (loB 0 g)))
      | "psd" => if a.size ≠ 4 then none else
          some (outGrid n (fun i j => psdHi n r0 delta L0 l0 i j * delF n delta * delF n delta))
      | _ => none
  | _ => none

end AoVerif.Drive.C07
