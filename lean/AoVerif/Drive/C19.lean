/-
Driver operations of C19 (Mathlib-free): the model definitions of `AoVerif.Model.Estimators` run at `Float`.

  C19 sf   <n0> <n1> <nb|-> <step|-> <n0*n1 hex floats, row-major>     → `<len> v…`   (calcSF, zero-initialised buffer)
  C19 sfu  <n0> <n1> <nb|-> <step|-> <m> <m hex floats u> <n0*n1 data>  → `<len> v…`   (calcSFEmpty on the buffer u)
  C19 tps  <lead> <nF> <nS> <lead*nF*nS hex floats, row-major>          → `<len> mean… err…`
  C19 axis <frame_rate hex> <nF>                                         → `<len> v…`
  C19 xm   <n1> <nb|-> <step|->                                          → `<xm>`
-/
import AoVerif.Drive.Util
import AoVerif.Model.Estimators
namespace AoVerif.Drive.C19
open AoVerif.Drive AoVerif.Model.Estimators

def optNat? (s : String) : Option (Option Nat) :=
  if s = "-" then some none else s.toNat?.map some

def out (a : Array Float) : String :=
  if a.isEmpty then "0" else s!"{a.size} {joinFloats a}"

def handle (args : List String) : Option String :=
  match args with
  | "sf" :: n0 :: n1 :: nb :: st :: rest => do
      let n0 ← n0.toNat?
      let n1 ← n1.toNat?
      let nb ← optNat? nb
      let st ← optNat? st
      let d ← parseFloats? rest
      if d.size ≠ n0 * n1 then none
      else if st = some 0 then none
      else pure (out (calcSF n0 n1 (fun r c => d[r * n1 + c]!) nb st))
  | "sfu" :: n0 :: n1 :: nb :: st :: m :: rest => do
      let n0 ← n0.toNat?
      let n1 ← n1.toNat?
      let nb ← optNat? nb
      let st ← optNat? st
      let m ← m.toNat?
      let all ← parseFloats? rest
      if all.size ≠ m + n0 * n1 then none
      else if st = some 0 then none
      else if m ≠ sfXm nb n1 (st.getD 1) then none
      else
        let u := all.extract 0 m
        pure (out (calcSFEmpty n0 n1 (fun r c => all[m + r * n1 + c]!) nb st u))
  | "tps" :: lead :: nF :: nS :: rest => do
      let lead ← lead.toNat?
      let nF ← nF.toNat?
      let nS ← nS.toNat?
      let d ← parseFloats? rest
      if d.size ≠ lead * nF * nS then none
      else
        let f := fun i => d[i]!
        pure (out (tpsMeanBatch lead nF nS f ++ tpsErrBatch lead nF nS f))
  | ["axis", fr, nF] => do
      let fr ← parseFloat? fr
      let nF ← nF.toNat?
      pure (out (tpsAxis fr nF))
  | ["xm", n1, nb, st] => do
      let n1 ← n1.toNat?
      let nb ← optNat? nb
      let st ← optNat? st
      if st = some 0 then none else pure (toString (sfXm nb n1 (st.getD 1)))
  | _ => none

end AoVerif.Drive.C19
