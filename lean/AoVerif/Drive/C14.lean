/- Driver operations of C14: the definitions of `Model/Pupil.lean` run at `Float` / `Int`. -/
import AoVerif.Drive.Util
import AoVerif.Model.Pupil
namespace AoVerif.Drive.C14
open AoVerif.Drive AoVerif.Model.Pupil

def nanF : Float := (0.0 : Float) / 0.0

/-- row-major `n0 × n1` array as an index function; out-of-range reads are NaN (never happen: slices are clipped) -/
def maskFn (a : Array Float) (n1 : Nat) : Nat → Nat → Float := fun i j => a.getD (i * n1 + j) nanF

def bitsStr (l : List Bool) : String := String.ofList (l.map fun b => if b then '1' else '0')

def bool? (s : String) : Option Bool := if s = "1" then some true else if s = "0" then some false else none

def subapStr (s : Subap Float) : String :=
  s!"{s.x} {s.y} {floatHex s.cx} {floatHex s.cy} {floatHex s.fill}"

def pairs (a : Array Float) : List (Float × Float) :=
  (List.range (a.size / 2)).map fun k => (a.getD (2 * k) nanF, a.getD (2 * k + 1) nanF)

/--
* `circle <r> <n> <cx> <cy> <middle 0|1>` → `n*n` characters `0`/`1`, row-major
* `round <x>` → `int(round(x))`
* `bounds <subaps> <n>` → the `subaps+1` slice bounds `int(round(x*n/float(subaps)))`
* `active <subaps> <n0> <n1> <thr> <mask n0*n1 floats>` → `count | x y cx cy fill | …`
* `activeb <subaps> <n> <thr> <bits>` → the same for the `n×n` 0/1 mask whose pixel `[i,j]` is bit `i*n+j` of the number `bits`
* `fill <n0> <n1> <spacing> <npos> <2*npos floats> <mask n0*n1 floats>` → fills
* `scatter <nx> <nx*nx mask flags 0|1> <data ints…>` → `grid (nx*nx ints) | gathered | counter`
-/
def handle (args : List String) : Option String :=
  match args with
  | ["circle", r, n, cx, cy, mid] => do
      let r ← parseFloat? r
      let n ← n.toNat?
      let cx ← parseFloat? cx
      let cy ← parseFloat? cy
      let mid ← bool? mid
      pure (bitsStr (circleBits r n cx cy mid))
  | ["round", x] => do
      let x ← parseFloat? x
      pure (toString (roundHE x))
  | ["bounds", subaps, n] => do
      let subaps ← subaps.toNat?
      let n ← n.toNat?
      if subaps = 0 then none else
      pure (joinNats ((List.range (subaps + 1)).map fun x => bound (spacing n subaps : Float) x).toArray)
  | "active" :: subaps :: n0 :: n1 :: thr :: rest => do
      let subaps ← subaps.toNat?
      let n0 ← n0.toNat?
      let n1 ← n1.toNat?
      let thr ← parseFloat? thr
      let m ← parseFloats? rest
      if subaps = 0 ∨ m.size ≠ n0 * n1 then none else
      let res := findActive subaps n0 n1 (maskFn m n1) thr
      pure (" | ".intercalate (toString res.length :: res.map subapStr))
  | ["activeb", subaps, n, thr, bits] => do
      let subaps ← subaps.toNat?
      let n ← n.toNat?
      let thr ← parseFloat? thr
      let bits ← bits.toNat?
      if subaps = 0 ∨ bits ≥ 2 ^ (n * n) then none else
      let mask : Nat → Nat → Float := fun i j => if bits.testBit (i * n + j) then 1.0 else 0.0
      let res := findActive subaps n n mask thr
      pure (" | ".intercalate (toString res.length :: res.map subapStr))
  | "fill" :: n0 :: n1 :: sp :: npos :: rest => do
      let n0 ← n0.toNat?
      let n1 ← n1.toNat?
      let sp ← parseFloat? sp
      let npos ← npos.toNat?
      let v ← parseFloats? rest
      if v.size ≠ 2 * npos + n0 * n1 then none else
      let pos := pairs (v.extract 0 (2 * npos))
      let m := v.extract (2 * npos) v.size
      pure (joinFloats (computeFill (maskFn m n1) n0 n1 pos sp).toArray)
  | "scatter" :: nx :: rest => do
      let nx ← nx.toNat?
      if rest.length < nx * nx then none else
      let flags ← parseNats? (rest.take (nx * nx))
      let data ← parseInts? (rest.drop (nx * nx))
      let valid : Nat → Nat → Bool := fun x y => flags.getD (x * nx + y) 0 = 1
      if data.size < validCount nx valid then none else      -- the real code raises IndexError
      let st := scatter nx valid (fun k => data.getD k 0) (0 : Int)
      let grid := (List.range nx).flatMap fun x => (List.range nx).map fun y => st.grid x y
      pure (joinInts grid.toArray ++ " | " ++ joinInts (gather nx valid st.grid).toArray ++ " | " ++ toString st.k)
  | _ => none

end AoVerif.Drive.C14
