/- Driver operations of C14: the definitions of `Model/Pupil.lean` run at `Float` / `Int`. -/
import AoVerif.Drive.Util
import AoVerif.Model.Pupil
namespace AoVerif.Drive.C14
open AoVerif.Drive AoVerif.Model.Pupil

def nanF : Float := (0.0 : Float) / 0.0

/-- row-major `n0 × n1` array as an index function; out-of-range reads are NaN (never happen: slices are clipped) -/
def maskFn (a : Array Float) (n1 : Nat) : Nat → Nat → Float := fun i j => a.getD (i * n1 + j) nanF

def bitsStr (l : List Bool) : String := String.ofList (l.map fun b => if b then '1' else '0')

def bool? (s : String) : Option Bool := if s = "1" then some true else if s = "0" then some false else none

def subapStr (s : Subap Float) : String :=
  s!"{s.x} {s.y} {floatHex s.cx} {floatHex s.cy} {floatHex s.fill}"

def pairs (a : Array Float) : List (Float × Float) :=
  (List.range (a.size / 2)).map fun k => (a.getD (2 * k) nanF, a.getD (2 * k + 1) nanF)

/-! ### the tie refinement of `circle` (fix bdc31f8), at `Float`

`radius * radius` is rounded; where the rounded product EQUALS the (exactly computed) squared distance of a pixel the code decides
`x² + y² ≤ r²` in exact arithmetic (Python fractions).  At an ordered field that is the predicate `Model.Pupil.inside` itself, so the
theorems are untouched; at `Float` the driver does the same: the doubles are decoded into `mantissa · 2^exponent` and compared as integers. -/

/-- a finite double as `(m, e)` with value `m · 2^e` -/
def ratParts (x : Float) : Int × Int :=
  let b : Nat := x.toBits.toNat
  let sign : Nat := b / 2 ^ 63
  let ex : Nat := (b / 2 ^ 52) % 2048
  let fr : Nat := b % 2 ^ 52
  let m : Nat := if ex = 0 then fr else fr + 2 ^ 52
  let e : Int := (if ex = 0 then (1 : Int) else Int.ofNat ex) - 1075
  (if sign = 1 then -(m : Int) else (m : Int), e)

/-- `x² + y² ≤ r²` for finite doubles, exactly -/
def exactLE (x y r : Float) : Bool :=
  let (mx, ex) := ratParts x
  let (my, ey) := ratParts y
  let (mr, er) := ratParts r
  let emin := min (2 * ex) (min (2 * ey) (2 * er))
  let sh (e : Int) : Nat := (2 * e - emin).toNat
  decide (mx * mx * (2 : Int) ^ sh ex + my * my * (2 : Int) ^ sh ey ≤ mr * mr * (2 : Int) ^ sh er)

/-- `circle` at `Float`, as the code evaluates it: the rounded comparison, ties decided exactly -/
def insideF (r : Float) (n : Nat) (cx cy : Float) (middle : Bool) (i j : Nat) : Bool :=
  let x : Float := offset middle n cx j
  let y : Float := offset middle n cy i
  let d2 := x * x + y * y
  let rr := r * r
  if d2 == rr && d2.isFinite then exactLE x y r else decide (d2 ≤ rr)

def circleBitsF (r : Float) (n : Nat) (cx cy : Float) (middle : Bool) : List Bool :=
  (List.range n).flatMap fun i => (List.range n).map fun j => insideF r n cx cy middle i j

/--
* `circle <r> <n> <cx> <cy> <middle 0|1>` → `n*n` characters `0`/`1`, row-major
* `round <x>` → `int(round(x))`
* `bounds <subaps> <n>` → the `subaps+1` slice bounds `int(round(x*n/float(subaps)))`
* `active <subaps> <n0> <n1> <thr> <mask n0*n1 floats>` → `count | x y cx cy fill | …`
* `activeb <subaps> <n> <thr> <bits>` → the same for the `n×n` 0/1 mask whose pixel `[i,j]` is bit `i*n+j` of the number `bits`
* `fill <n0> <n1> <spacing> <npos> <2*npos floats> <mask n0*n1 floats>` → fills
* `scatter <nx> <nx*nx mask flags 0|1> <data ints…>` → `grid (nx*nx ints) | gathered | counter`
-/
def handle (args : List String) : Option String :=
  match args with
  | ["circle", r, n, cx, cy, mid] => do
      let r ← parseFloat? r
      let n ← n.toNat?
      let cx ← parseFloat? cx
      let cy ← parseFloat? cy
      let mid ← bool? mid
      pure (bitsStr (circleBitsF r n cx cy mid))
  | ["round", x] => do
      let x ← parseFloat? x
      pure (toString (roundHE x))
  | ["bounds", subaps, n] => do
      let subaps ← subaps.toNat?
      let n ← n.toNat?
      if subaps = 0 then none else
      pure (joinNats ((List.range (subaps + 1)).map fun x => bound (spacing n subaps : Float) x).toArray)
  | "active" :: subaps :: n0 :: n1 :: thr :: rest => do
      let subaps ← subaps.toNat?
      let n0 ← n0.toNat?
      let n1 ← n1.toNat?
      let thr ← parseFloat? thr
      let m ← parseFloats? rest
      if subaps = 0 ∨ m.size ≠ n0 * n1 then none else
      let res := findActive subaps n0 n1 (maskFn m n1) thr
      pure (" | ".intercalate (toString res.length :: res.map subapStr))
  | ["activeb", subaps, n, thr, bits] => do
      let subaps ← subaps.toNat?
      let n ← n.toNat?
      let thr ← parseFloat? thr
      let bits ← bits.toNat?
      if subaps = 0 ∨ bits ≥ 2 ^ (n * n) then none else
      let mask : Nat → Nat → Float := fun i j => if bits.testBit (i * n + j) then 1.0 else 0.0
      let res := findActive subaps n n mask thr
      pure (" | ".intercalate (toString res.length :: res.map subapStr))
  | "fill" :: n0 :: n1 :: sp :: npos :: rest => do
      let n0 ← n0.toNat?
      let n1 ← n1.toNat?
      let sp ← parseFloat? sp
      let npos ← npos.toNat?
      let v ← parseFloats? rest
      if v.size ≠ 2 * npos + n0 * n1 then none else
      let pos := pairs (v.extract 0 (2 * npos))
      let m := v.extract (2 * npos) v.size
      pure (joinFloats (computeFill (maskFn m n1) n0 n1 pos sp).toArray)
  | "scatter" :: nx :: rest => do
      let nx ← nx.toNat?
      if rest.length < nx * nx then none else
      let flags ← parseNats? (rest.take (nx * nx))
      let data ← parseInts? (rest.drop (nx * nx))
      let valid : Nat → Nat → Bool := fun x y => flags.getD (x * nx + y) 0 = 1
      if data.size < validCount nx valid then none else      -- the real code raises IndexError
      let st := scatter nx valid (fun k => data.getD k 0) (0 : Int)
      let grid := (List.range nx).flatMap fun x => (List.range nx).map fun y => st.grid x y
      pure (joinInts grid.toArray ++ " | " ++ joinInts (gather nx valid st.grid).toArray ++ " | " ++ toString st.k)
  | _ => none

end AoVerif.Drive.C14
