import AoVerif.Drive.Util
import AoVerif.Gen.Effects
import AoVerif.Gen.EffectsCorpus
namespace AoVerif.Drive.C20
open AoVerif.Effects

/-- `C20 eff <qualified function name>` → `<k> <m> | <written params…> | <global 0/1> | <pureCheck 0/1>` -/
def handle (args : List String) : Option String :=
  match args with
  | ["eff", name] => do
      let e ← AoVerif.Gen.progs.find? (fun e => e.1 == name)
      let (w, g) := summary e.2
      pure s!"{e.2.k} {e.2.m} | {" ".intercalate (w.map toString)} | {if g then 1 else 0} | {if pureCheck e.2 then 1 else 0}"
  | ["corpus", name] => do
      let e ← AoVerif.GenCorpus.progs.find? (fun e => e.1 == name)
      let (w, g) := summary e.2
      pure s!"{e.2.k} {e.2.m} | {" ".intercalate (w.map toString)} | {if g then 1 else 0} | {if pureCheck e.2 then 1 else 0}"
  | _ => none

end AoVerif.Drive.C20
