/-
Correspondence driver ops for C05 (Mathlib-free).  Runs the definitions of `Model/InfScreen.lean`.

  C05 fas <n>                                  → find_allowed_size n
  C05 cfg <vk|fried> <n> <k>                   → "<req> <nx> <len>" of the model configuration
  C05 ids <req> <nx> <len> <ops>               → the state machine over LABELS (payload Nat, no arithmetic):
        initial entry (i,j) is labelled i*nx+j, entry j of the row generated from draw number d is labelled
        len*nx + d.  Answer: "<pos> ; <op> <r> <c> <labels…> ; … ; I <r> <c> <labels…>" (one block per operation:
        what the operation returned; last block: the internal array).
  C05 hist <vk|fried> <req> <nx> <len> <nst> <i j>×nst [<refi> <refj>] <ops> <A nx×nst> <B nx×nx> <scrn len×nx> <noise…>
        the same machine at Float with the concrete row functions; noise = the generator stream from the
        object's current position on.  Answer in the same layout with hex floats.
ops is a word over a (add_row) s (.scrn) r (repr).
-/
import AoVerif.Drive.Util
import AoVerif.Model.InfScreen

namespace AoVerif.Drive.C05
open AoVerif.Drive AoVerif.InfScreen

def parseOps? (s : String) : Option (List Op) :=
  s.toList.mapM (fun ch =>
    if ch = 'a' then some Op.add else if ch = 's' then some Op.scrn else if ch = 'r' then some Op.repr else none)

/-- `r` rows of width `n` out of a flat row-major list -/
def rowsOf {α : Type} (r n : Nat) (l : List α) : List (List α) :=
  (List.range r).map (fun i => (l.drop (i * n)).take n)

def showArr {α : Type} (sh : α → String) (m : List (List α)) : String :=
  let c := (m.head?.map List.length).getD 0
  if m.all (fun r => r.length == c) then
    s!"{m.length} {c}" ++ String.join (m.flatten.map (fun x => " " ++ sh x))
  else "ragged"

def opTag : Op → String
  | .add => "a" | .scrn => "s" | .repr => "r"

def showTrace {α : Type} (sh : α → String) (pos : Nat) (tr : List (Op × Out α (List (List α))))
    (internal : List (List α)) : String :=
  let blocks := tr.map (fun p => match p.2 with
    | .arr m => opTag p.1 ++ " " ++ showArr sh m
    | .text m => opTag p.1 ++ " " ++ showArr sh m)
  " ; ".intercalate ([toString pos] ++ blocks ++ ["I " ++ showArr sh internal])

def runIds (c : Cfg) (ops : List Op) : String :=
  let s0 : State Nat := ⟨(List.range c.len).map (fun i => (List.range c.nx).map (fun j => i * c.nx + j)), 0⟩
  let f : List (List Nat) → List Nat → List Nat := fun _ b => b.map (· + c.len * c.nx)
  let ξ : Nat → Nat := id
  let fin := run c f ξ (fun m => m) s0 ops
  showTrace toString fin.pos (trace c f ξ (fun m => m) s0 ops) fin.rows

def inBounds (c : Cfg) (ij : Nat × Nat) : Bool := ij.1 < c.len && ij.2 < c.nx

def pairs : List Nat → List (Nat × Nat)
  | i :: j :: t => (i, j) :: pairs t
  | _ => []

def runHist (fried : Bool) (c : Cfg) (coords : List (Nat × Nat)) (ref : Nat × Nat) (ops : List Op)
    (A B scr : List (List Float)) (noise : Array Float) : Option String :=
  let nadd := ops.count Op.add
  -- everything is validated here, so that the `getD` below is never used
  if !(coords.all (inBounds c)) || (fried && !(inBounds c ref)) then none
  else if !(A.length == c.nx && A.all (fun r => r.length == coords.length)) then none
  else if !(B.length == c.nx && B.all (fun r => r.length == c.nx)) then none
  else if !(scr.length == c.len && scr.all (fun r => r.length == c.nx)) then none
  else if noise.size < nadd * c.nx then none
  else
    let f : List (List Float) → List Float → List Float := fun rows b =>
      ((if fried then friedRow? A B coords ref rows b else vkRow? A B coords rows b).getD [])
    let ξ : Nat → Float := fun i => noise[i]!
    let s0 : State Float := ⟨scr, 0⟩
    let fin := run c f ξ (fun m => m) s0 ops
    some (showTrace floatHex fin.pos (trace c f ξ (fun m => m) s0 ops) fin.rows)

def handle (args : List String) : Option String :=
  match args with
  | ["fas", n] => do
      let n ← n.toNat?
      pure (toString (findAllowedSize n))
  | ["cfg", v, n, k] => do
      let n ← n.toNat?
      let k ← k.toNat?
      let c ← (if v = "vk" then some (vkCfg n) else if v = "fried" then some (friedCfg n k) else none)
      pure s!"{c.req} {c.nx} {c.len}"
  | ["ids", req, nx, len, ops] => do
      let req ← req.toNat?
      let nx ← nx.toNat?
      let len ← len.toNat?
      let ops ← parseOps? ops
      pure (runIds ⟨req, nx, len⟩ ops)
  | "hist" :: v :: req :: nx :: len :: nst :: rest => do
      let fried ← (if v = "vk" then some false else if v = "fried" then some true else none)
      let req ← req.toNat?
      let nx ← nx.toNat?
      let len ← len.toNat?
      let nst ← nst.toNat?
      let nint := 2 * nst + (if fried then 2 else 0)
      if rest.length < nint + 1 then none else
      let ints ← parseNats? (rest.take nint)
      let ops ← parseOps? (rest.getD nint "")
      let fl ← parseFloats? (rest.drop (nint + 1))
      let fl := fl.toList
      let coords := pairs (ints.toList.take (2 * nst))
      let ref : Nat × Nat := if fried then (ints[2 * nst]!, ints[2 * nst + 1]!) else (0, 0)
      let nA := nx * nst
      let nB := nx * nx
      let nS := len * nx
      if fl.length < nA + nB + nS then none else
      let A := rowsOf nx nst (fl.take nA)
      let B := rowsOf nx nx ((fl.drop nA).take nB)
      let S := rowsOf len nx ((fl.drop (nA + nB)).take nS)
      let noise := (fl.drop (nA + nB + nS)).toArray
      runHist fried ⟨req, nx, len⟩ coords ref ops A B S noise
  | _ => none

end AoVerif.Drive.C05
