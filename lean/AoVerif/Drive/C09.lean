import AoVerif.Drive.Util
import AoVerif.Model.Fourier
namespace AoVerif.Drive.C09
open AoVerif AoVerif.Drive AoVerif.Fourier

abbrev CF := Cx Float

/-- twiddle tables of the FFT kernel at binary64: `ω^m = e^{-2πi m/n}` and its inverse -/
def tw (n : Nat) (m : Nat) : CF :=
  let t : Float := 2.0 * FloatImpl.piF * m.toFloat / n.toFloat
  ⟨Float.cos t, -(Float.sin t)⟩
def twi (n : Nat) (m : Nat) : CF :=
  let t : Float := 2.0 * FloatImpl.piF * m.toFloat / n.toFloat
  ⟨Float.cos t, Float.sin t⟩

def toC (a : Array Float) (i : Nat) : CF := ⟨a[2*i]!, a[2*i+1]!⟩
def out1 (n : Nat) (f : Nat → CF) : String :=
  joinFloats ((Array.range n).foldl (fun acc i => (acc.push (f i).re).push (f i).im) #[])
def out2 (n : Nat) (f : Nat → Nat → CF) : String :=
  joinFloats ((Array.range (n*n)).foldl (fun acc i => let z := f (i / n) (i % n); (acc.push z.re).push z.im) #[])

/-- `rows × cols` output, row-major -/
def outR (rows cols : Nat) (f : Nat → Nat → CF) : String :=
  joinFloats ((Array.range (rows*cols)).foldl (fun acc i => let z := f (i / cols) (i % cols); (acc.push z.re).push z.im) #[])

/-- memoise an index function on `[0,n)` so that nested transforms stay O(n²) per axis -/
def memo1 (n : Nat) (f : Nat → CF) : Nat → CF :=
  let a := (Array.range n).map f
  fun i => a[i]!
def memo2 (n : Nat) (f : Nat → Nat → CF) : Nat → Nat → CF :=
  let a := (Array.range (n*n)).map (fun i => f (i / n) (i % n))
  fun i j => a[i*n+j]!

def handle (args : List String) : Option String :=
  match args with
  | op :: ns :: ds :: rest => do
      let n ← ns.toNat?
      let d ← parseFloat? ds
      let a ← parseFloats? rest
      let dC : CF := ⟨d, 0.0⟩
      let nC : CF := ⟨n.toFloat, 0.0⟩
      let ninv : CF := ⟨1.0 / n.toFloat, 0.0⟩
      let w := memo1 n (tw n)
      let wi := memo1 n (twi n)
      if n = 0 then none else
      match op with
      | "ft" => if a.size ≠ 2*n then none else some (out1 n (ft n w dC (toC a)))
      | "ift" => if a.size ≠ 2*n then none else some (out1 n (ift n wi ninv nC dC (toC a)))
      | "rft" => if a.size ≠ 2*n then none else some (out1 (n / 2 + 1) (rft n w dC (toC a)))
      | "irft" =>
          -- here `n` is the half-spectrum length m; the signal length is 2 (m − 1)
          let nn := 2 * (n - 1)
          if a.size ≠ 2*n ∨ nn = 0 then none else
          let wi' := memo1 nn (twi nn)
          let ninv' : CF := ⟨1.0 / nn.toFloat, 0.0⟩
          some (out1 nn (irft n wi' ninv' Cx.conj ⟨nn.toFloat, 0.0⟩ dC (toC a)))
      | "ft2" => if a.size ≠ 2*n*n then none else
          let x : Nat → Nat → CF := fun i j => toC a (i*n+j)
          some (out2 n (ft2 n w dC x))
      | "ift2" => if a.size ≠ 2*n*n then none else
          let x : Nat → Nat → CF := fun i j => toC a (i*n+j)
          some (out2 n (ift2 n wi ninv nC dC x))
      | "rft2" => if a.size ≠ 2*n*n then none else
          -- real n × n input (given as complex with zero imaginary parts) → n × (n/2+1) half-spectrum
          let x : Nat → Nat → CF := fun i j => toC a (i*n+j)
          some (outR n (n / 2 + 1) (rft2 n w dC x))
      | "irft2" =>
          -- here `n` is N = data.shape[-2]; the half-spectrum length m = data.shape[-1] follows from the data size;
          -- the last axis of the result has length 2 (m − 1)
          if a.size % (2*n) ≠ 0 then none else
          let m := a.size / (2*n)
          let nn := 2 * (m - 1)
          if m = 0 ∨ nn = 0 then none else
          let wiL := memo1 nn (twi nn)
          let ninvL : CF := ⟨1.0 / nn.toFloat, 0.0⟩
          let H : Nat → Nat → CF := fun i k => toC a (i*m+k)
          some (outR n nn (irft2 n m wi ninv wiL ninvL Cx.conj nC dC H))
      | "ift2ps" => if a.size ≠ 2*n*n then none else
          let x : Nat → Nat → CF := fun i j => toC a (i*n+j)
          some (out2 n (ift2_ps n wi ninv nC dC x))
      | _ => none
  | _ => none

end AoVerif.Drive.C09
