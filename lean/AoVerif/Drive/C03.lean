/-
Driver operations of C03 (Mathlib-free): the definitions of `Model/Schedule.lean` executed on concrete payloads.

  C03 chunk <len> <workers>                 → `<chunkSize> <numChunks> <length of each chunk …>`
  C03 map <workers> <len> <k>*              → `hang` | `ok <r>*`   (args = 0..len-1, f x = 7x+3, completion order k*)
  C03 hist <nwfs> <nlayers> <threads> <op>* → one `;`-separated answer per build op
        op = T<k> | S | B | B<o>,<o>,…/<o>,…/…   (completion order of layer 0 / layer 1 / …; a missing layer = no completion)
        answer per build = `raise` | `<g>.<l>.<i>.<j><<g'>.<l'>.<i'>.<j'> …` the accumulation log (g = geometry token:
        1 = computed by this build from the constructor arguments, 0 = scribbled garbage); after ` # ` the final content of
        `self.cov_mats` (result tags, `none` if empty)
  C03 fold <N> <nlayers> <nwfs> <ntask> {<l> <i> <j> <nadd> {<r0> <c0> <h> <w> <hex f64>*}*}*
        → the float32 matrix (uint32 bit patterns in decimal, row-major) obtained by `reference` for a kernel whose `acc` replays the
          recorded float64 `+=` operands of that task into a float32 matrix and whose `mirror` is the identity (the harness
          applies the library's own `mirror_covariance_matrix` to the answer)
-/
import AoVerif.Drive.Util
import AoVerif.Model.Schedule

namespace AoVerif.Drive.C03
open AoVerif.Drive AoVerif.Model.Schedule

/-! ### chunk / map -/

def opChunk (len workers : Nat) : String :=
  let cs := chunks (chunkSize len workers) (List.range len)
  joinNats (#[chunkSize len workers, numChunks len workers] ++ (cs.map List.length).toArray)

def opMap (workers len : Nat) (order : List Nat) : String :=
  match poolMap workers order (fun x => 7 * x + 3) (List.range len) with
  | none => "hang"
  | some rs => " ".intercalate ("ok" :: rs.map toString)

/-! ### histories on the logging kernel -/

abbrev Tag := Nat × Nat × Nat × Nat          -- geometry token, layer, i, j
abbrev Log := List (Tag × Tag)               -- (target, source result)

/-- geometry tokens: `positions` yields 1, `layerGeom` passes the token of the positions it READS on, every argument
    tuple and every accumulation carries the token of the geometry it READS — so a build that used a stale or
    scribbled scratch attribute shows a 0 in its log -/
def logKernel : Kernel (Nat × Nat) Nat Nat Tag Tag Log where
  nWfs c := c.1
  nLayers c := c.2
  positions _ := 1
  layerGeom _ p := p
  mkArg _ q l i j := (q, l, i, j)
  wfs a := a
  zero _ := []
  acc _ q m l i j r := m ++ [((q, l, i, j), r)]
  mirror m := m

def showTag (t : Tag) : String := s!"{t.1}.{t.2.1}.{t.2.2.1}.{t.2.2.2}"
def showLog (m : Log) : String :=
  if m.isEmpty then "empty" else " ".intercalate (m.map fun e => showTag e.1 ++ "<" ++ showTag e.2)

def parseOrder? (s : String) : Option (List Nat) :=
  if s.isEmpty then some [] else (parseNats? (s.splitOn ",")).map Array.toList

def parseOp? (s : String) : Option (Op Nat Nat Tag Log) :=
  if s = "S" then some (.scribble 0 0 [((0, 9, 9, 9), (0, 9, 9, 9))] [(0, 8, 8, 8)])
  else if s.startsWith "T" then (s.drop 1).toString.toNat?.map .setThreads
  else if s.startsWith "B" then do
    let body := (s.drop 1).toString
    let layers ← (if body.isEmpty then some [] else (body.splitOn "/").mapM parseOrder?)
    pure (.build fun l => layers.getD l [])
  else none

def opHist (nwfs nlayers threads : Nat) (ops : List (Op Nat Nat Tag Log)) : String :=
  let o : Obj (Nat × Nat) Nat Nat Tag Log :=
    { cfg := (nwfs, nlayers), threads := threads, subapPositions := 0, layerGeom := 0, covMatrix := [], covMats := [] }
  let outs := run logKernel ops o
  let cm := (finalState logKernel ops o).covMats
  let tail := " # " ++ (if cm.isEmpty then "none" else " ".intercalate (cm.map showTag))
  (if outs.isEmpty then "nobuild" else
  ";".intercalate (outs.map fun
    | none => "raise"
    | some m => showLog m)) ++ tail

/-! ### float32 replay -/

structure AddEv where
  r0 : Nat
  c0 : Nat
  h : Nat
  w : Nat
  vals : Array Float

structure FoldCfg where
  n : Nat
  nlayers : Nat
  nwfs : Nat
  tasks : List ((Nat × Nat × Nat) × List AddEv)

/-- `view += operand` for a float32 view and a float64 operand: numpy adds in float64 and casts the sum to float32 -/
def applyAdd (n : Nat) (m : Array Float32) (e : AddEv) : Array Float32 :=
  (List.range (e.h * e.w)).foldl (fun m k =>
    let r := e.r0 + k / e.w
    let c := e.c0 + k % e.w
    let idx := r * n + c
    m.set! idx ((m[idx]!.toFloat + e.vals[k]!).toFloat32)) m

def foldKernel : Kernel FoldCfg Unit Unit (Nat × Nat × Nat) (Nat × Nat × Nat) (Nat × Array Float32) where
  nWfs c := c.nwfs
  nLayers c := c.nlayers
  positions _ := ()
  layerGeom _ _ := ()
  mkArg _ _ l i j := (l, i, j)
  wfs a := a
  zero c := (c.n, Array.replicate (c.n * c.n) (0 : Float32))
  acc c _ m _ _ _ r :=
    -- the adds recorded for the task whose RESULT is `r`, performed at the moment the model consumes that result
    match c.tasks.find? (fun t => t.1 = r) with
    | some t => (m.1, t.2.foldl (applyAdd c.n) m.2)
    | none => m
  mirror m := m   -- `mirror_covariance_matrix` stays uninterpreted: the harness applies the library's own function

/-- parse `nadd` add events -/
def parseAdds? : Nat → List String → Option (List AddEv × List String)
  | 0, rest => some ([], rest)
  | k + 1, r0 :: c0 :: h :: w :: rest => do
    let r0 ← r0.toNat?
    let c0 ← c0.toNat?
    let h ← h.toNat?
    let w ← w.toNat?
    if rest.length < h * w then none else
    let vals ← parseFloats? (rest.take (h * w))
    let (more, rest') ← parseAdds? k (rest.drop (h * w))
    pure ({ r0, c0, h, w, vals } :: more, rest')
  | _, _ => none

def parseTasks? : Nat → List String → Option (List ((Nat × Nat × Nat) × List AddEv) × List String)
  | 0, rest => some ([], rest)
  | k + 1, l :: i :: j :: nadd :: rest => do
    let l ← l.toNat?
    let i ← i.toNat?
    let j ← j.toNat?
    let nadd ← nadd.toNat?
    let (adds, rest') ← parseAdds? nadd rest
    let (more, rest'') ← parseTasks? k rest'
    pure (((l, i, j), adds) :: more, rest'')
  | _, _ => none

def addsInRange (n : Nat) (tasks : List ((Nat × Nat × Nat) × List AddEv)) : Bool :=
  tasks.all fun t => t.2.all fun e => e.r0 + e.h ≤ n && e.c0 + e.w ≤ n && e.vals.size = e.h * e.w

def opFold (n nlayers nwfs : Nat) (tasks : List ((Nat × Nat × Nat) × List AddEv)) : String :=
  let cfg : FoldCfg := { n, nlayers, nwfs, tasks }
  let m := reference foldKernel cfg
  joinNats (m.2.map fun x => x.toBits.toNat)

def handle (args : List String) : Option String :=
  match args with
  | ["chunk", len, workers] => do
    let len ← len.toNat?
    let workers ← workers.toNat?
    pure (opChunk len workers)
  | "map" :: workers :: len :: order => do
    let workers ← workers.toNat?
    let len ← len.toNat?
    let order ← parseNats? order
    pure (opMap workers len order.toList)
  | "hist" :: nwfs :: nlayers :: threads :: ops => do
    let nwfs ← nwfs.toNat?
    let nlayers ← nlayers.toNat?
    let threads ← threads.toNat?
    let ops ← ops.mapM parseOp?
    pure (opHist nwfs nlayers threads ops)
  | "fold" :: n :: nlayers :: nwfs :: ntask :: rest => do
    let n ← n.toNat?
    let nlayers ← nlayers.toNat?
    let nwfs ← nwfs.toNat?
    let ntask ← ntask.toNat?
    let (tasks, rest') ← parseTasks? ntask rest
    if !rest'.isEmpty || !addsInRange n tasks then none else
    pure (opFold n nlayers nwfs tasks)
  | _ => none

end AoVerif.Drive.C03
