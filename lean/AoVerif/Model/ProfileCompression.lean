/-
Model of `aotools/turbulence/profile_compression.py` (Mathlib-free, total, computable, scalar-polymorphic).

A profile of `N` layers is a triple of index functions `h p w : Nat → K` read on `[0, N)`.
The same definitions run at `Float` in the correspondence driver (`Drive/C18.lean`) and are what the
theorems of `Props/C18.lean` talk about at `ℝ`.

What mirrors what
* `minTo` / `maxTo`            — `h.min()` / `h.max()`
* `digitize n edge x`          — `numpy.digitize(x, bins)` for non-decreasing `bins = edge 0 … edge (n-1)`:
                                 the number of edges `≤ x` (= `searchsorted(bins, x, side='right')`)
* `elEdge`                     — the REPAIRED slab edges `h.min() + hstep * numpy.arange(L)` (fix C18-el-slab-edges)
* `arangeElem`                 — the PINNED slab edges `numpy.arange(h.min(), h.max(), hstep)`; their number
                                 `⌈(stop-start)/step⌉` is a floating-point quantity and is a parameter (`n`) of
                                 the generic definitions (`slabIx n edge`), computed at `Float` by the driver
* `slabSum`, `elCn2`, `elEff`  — the loop body of `equivalent_layers`
* `groups`                     — `_convert_splits_to_groups` (REPAIRED: no split = one group, fix C18-og-single-group)
* `insertAt`, `vicinity`       — `numpy.insert`, `_vicinity` (same enumeration order, which decides `argmin` ties)
* `repCost`, `bestRep`, `G`    — `_G` / `_Gjit`
* `optStep`, `optMin`          — `_optGroupingMinimization` (fuel = `maxiter` = 200)
* `ogBest`, `ogOut`            — `optimal_grouping`, the restarts being an ARBITRARY list of split lists
* `moments`, `minfunc`, `gctmX0`, `gctmOut` — `_moments`, `_moments_minfunc`, the start vector and the
                                 un-scaling of `GCTM`; `scipy.optimize.minimize` itself is external
-/
import AoVerif.Model.Scalar

namespace AoVerif.Model.ProfileCompression
open AoVerif

section Scalar
variable {K : Type} [Add K] [Sub K] [Mul K] [Div K] [NatCast K] [OfScientific K] [HPow K Nat K] [Transc K]
  [LE K] [DecidableLE K] [LT K] [DecidableLT K]

/-! ### equivalent layers -/

/-- `h.min()` over `h[0..N)` -/
def minTo (N : Nat) (h : Nat → K) : K :=
  (List.range N).foldl (fun acc j => if h j ≤ acc then h j else acc) (h 0)

/-- `h.max()` over `h[0..N)` -/
def maxTo (N : Nat) (h : Nat → K) : K :=
  (List.range N).foldl (fun acc j => if acc ≤ h j then h j else acc) (h 0)

/-- `numpy.digitize(x, bins)` for non-decreasing bins `edge 0 ≤ … ≤ edge (n-1)`: how many edges are `≤ x` -/
def digitize (n : Nat) (edge : Nat → K) (x : K) : Nat :=
  (List.range n).countP (fun i => decide (edge i ≤ x))

/-- `hstep = (h.max()-h.min())/L` -/
def hstep (N L : Nat) (h : Nat → K) : K := (maxTo N h - minTo N h) / (L : K)

/-- repaired code: `alt_bins = h.min() + hstep * numpy.arange(L)` (always exactly `L` edges) -/
def elEdge (N L : Nat) (h : Nat → K) (i : Nat) : K := minTo N h + hstep N L h * (i : K)

/-- pinned code: element `i` of `numpy.arange(start, stop, step)` is `start + i*((start+step)-start)` -/
def arangeElem (start step : K) (i : Nat) : K := start + (i : K) * ((start + step) - start)

/-- `ix = numpy.digitize(h, alt_bins)` for `n` edges -/
def slabIx (n : Nat) (edge : Nat → K) (h : Nat → K) (j : Nat) : Nat := digitize n edge (h j)

/-- `v[ix == i+1].sum()` -/
def slabSum (N : Nat) (ix : Nat → Nat) (v : Nat → K) (i : Nat) : K :=
  sumTo N (fun j => if ix j = i + 1 then v j else ((0 : Nat) : K))

/-- `cn2_el[i]` -/
def elCn2 (N : Nat) (ix : Nat → Nat) (p : Nat → K) (i : Nat) : K := slabSum N ix p i

/-- `((p[ix_tmp] * x[ix_tmp]**(5/3)).sum() / p[ix_tmp].sum())**(3/5)` — `h_el[i]` for `x = h`, `w_el[i]` for `x = w` -/
def elEff (N : Nat) (ix : Nat → Nat) (p x : Nat → K) (i : Nat) : K :=
  Transc.rpow
    (slabSum N ix (fun j => p j * Transc.rpow (x j) (((5 : Nat) : K) / ((3 : Nat) : K))) i / slabSum N ix p i)
    (((3 : Nat) : K) / ((5 : Nat) : K))

/-- `equivalent_layers(h, p, L)` as repaired: the slab index of layer `j` -/
def elIx (N L : Nat) (h : Nat → K) (j : Nat) : Nat := slabIx L (elEdge N L h) h j

/-! ### optimal grouping: cost -/

/-- cost of representing the layers `[a, b)` by layer `g`: `Σ_j p_j |h_j − h_g|` -/
def repCost (h p : Nat → K) (a b g : Nat) : K :=
  sumTo (b - a) (fun t => p (a + t) * Transc.abs (h (a + t) - h g))

/-- `(argmin, min)` of the representative cost over `g ∈ [a, b)`, first minimum (numpy.argmin) -/
def bestRep (h p : Nat → K) (a b : Nat) : Nat × K :=
  (List.range' (a + 1) (b - (a + 1))).foldl
    (fun best g => if repCost h p a b g < best.2 then (g, repCost h p a b g) else best)
    (a, repCost h p a b a)

/-- first minimum of a list of scored candidates (`numpy.argmin`); `none` on the empty list (numpy raises) -/
def argminFirst {α : Type} : List (α × K) → Option (α × K)
  | [] => none
  | x :: xs => some (xs.foldl (fun best c => if c.2 < best.2 then c else best) x)

end Scalar

/-! ### optimal grouping: splits, groups, vicinity (pure index arithmetic) -/

/-- `_convert_splits_to_groups` (repaired): group borders `[start, s₀+1), [s₀+1, s₁+1), …, [s_last+1, N)`;
no split gives the single group `[start, N)` -/
def groupsFrom (start : Nat) : List Nat → Nat → List (Nat × Nat)
  | [], N => [(start, N)]
  | x :: xs, N => (start, x + 1) :: groupsFrom (x + 1) xs N

def groups (s : List Nat) (N : Nat) : List (Nat × Nat) := groupsFrom 0 s N

/-- a split list is valid for `N` layers from `start`: every group `[start, s₀], [s₀+1, s₁], …, [s_last+1, N-1]` is non-empty -/
def ValidFrom (start : Nat) : List Nat → Nat → Prop
  | [], N => start < N
  | x :: xs, N => start ≤ x ∧ ValidFrom (x + 1) xs N

def Valid (s : List Nat) (N : Nat) : Prop := ValidFrom 0 s N

instance decValidFrom : (start : Nat) → (s : List Nat) → (N : Nat) → Decidable (ValidFrom start s N)
  | start, [], N => inferInstanceAs (Decidable (start < N))
  | start, x :: xs, N => @instDecidableAnd _ _ (inferInstanceAs (Decidable (start ≤ x))) (decValidFrom (x + 1) xs N)

instance (s : List Nat) (N : Nat) : Decidable (Valid s N) := decValidFrom 0 s N

/-- `numpy.insert(s, i, j)` -/
def insertAt (s : List Nat) (i j : Nat) : List Nat := s.take i ++ j :: s.drop i

/-- `grouping_borders[i] + 1` with `grouping_borders = [-1] + s + [N-1]` -/
def vlo (s : List Nat) (i : Nat) : Nat := if i = 0 then 0 else s.getD (i - 1) 0 + 1

/-- `grouping_borders[i+1]` -/
def vhi (s : List Nat) (N i : Nat) : Nat := if i < s.length then s.getD i 0 else N - 1

/-- `pre_merge` of `_vicinity`: every way of splitting one group in two -/
def preMerge (s : List Nat) (N : Nat) : List (List Nat) :=
  (List.range (s.length + 1)).flatMap (fun i =>
    (List.range' (vlo s i) (vhi s N i - vlo s i)).map (fun j => insertAt s i j))

/-- `_vicinity(s, N)`: each pre-merge candidate with one split removed again, in the code's enumeration order -/
def vicinity (s : List Nat) (N : Nat) : List (List Nat) :=
  (preMerge s N).flatMap (fun pre => (List.range pre.length).map (fun k => pre.eraseIdx k))

/-- the equal split in exact arithmetic, `⌊k·N/L⌋` for `k = 1 … L-1` (`numpy.linspace(0,N,L+1,dtype=int)[1:-1]`
evaluates `⌊k·(N/L)⌋` in binary64, which the driver does; it can differ from this by one but stays valid) -/
def equalSplit (N L : Nat) : List Nat := (List.range (L - 1)).map (fun k => (k + 1) * N / L)

section Scalar2
variable {K : Type} [Add K] [Sub K] [Mul K] [Div K] [NatCast K] [OfScientific K] [HPow K Nat K] [Transc K]
  [LE K] [DecidableLE K] [LT K] [DecidableLT K]

/-- `_G` / `_Gjit`: sum over the groups of the best representative cost -/
def G (h p : Nat → K) (s : List Nat) (N : Nat) : K :=
  (groups s N).foldl (fun acc ab => acc + (bestRep h p ab.1 ab.2).2) (0.0 : K)

/-- one sweep of `_optGroupingMinimization`: the first cheapest member of the vicinity, with its cost -/
def optStep (h p : Nat → K) (N : Nat) (old : List Nat) : Option (List Nat × K) :=
  argminFirst ((vicinity old N).map (fun v => (v, G h p v N)))

/-- `_optGroupingMinimization(start, h, p, maxiter = fuel)` -/
def optMin (h p : Nat → K) (N : Nat) : Nat → List Nat → Option (List Nat × K)
  | 0, _ => none
  | fuel + 1, old =>
    match optStep h p N old with
    | none => none
    | some c => if c.1 = old ∨ fuel = 0 then some c else optMin h p N fuel c.1

/-- keep the incumbent unless the challenger is strictly cheaper (`if G_new < G_best`) -/
def better (b c : List Nat × K) : List Nat × K := if c.2 < b.2 then c else b

/-- one restart of `optimal_grouping`: local search from `r`, keep the cheaper of incumbent and challenger -/
def ogStep (h p : Nat → K) (N fuel : Nat) (best : Option (List Nat × K)) (r : List Nat) : Option (List Nat × K) :=
  match best, optMin h p N fuel r with
  | some b, some c => some (better b c)
  | _, _ => none

/-- the search part of `optimal_grouping`: local search from `start`, then from every restart in turn -/
def ogBest (h p : Nat → K) (N fuel : Nat) (start : List Nat) (restarts : List (List Nat)) :
    Option (List Nat × K) :=
  restarts.foldl (ogStep h p N fuel) (optMin h p N fuel start)

/-- `p[group].sum()` -/
def groupSum (p : Nat → K) (a b : Nat) : K := sumTo (b - a) (fun t => p (a + t))

/-- the returned `(height, cn2)` of every group of the final grouping -/
def ogOut (h p : Nat → K) (s : List Nat) (N : Nat) : List (K × K) :=
  (groups s N).map (fun ab => (h (bestRep h p ab.1 ab.2).1, groupSum p ab.1 ab.2))

/-! ### GCTM (the optimiser is external) -/

/-- `_moments(h, p, L)[k] = Σ_j p_j h_j^k`, `k < 2L-1` -/
def moments (N : Nat) (h p : Nat → K) (k : Nat) : K := sumTo N (fun j => p j * (h j) ^ k)

/-- `_moments_minfunc(args, L, mom0)` with `args = hc ++ cc` -/
def minfunc (L : Nat) (hc cc mom0 : Nat → K) : K :=
  sumTo (2 * L - 1) (fun k => (moments L hc cc k - mom0 k) ^ (2 : Nat))

/-- the start vector `x0 = hstack([guess_h/h_scaling, guess_cn2/cn2_scaling])` -/
def gctmX0 (L : Nat) (gh gc : Nat → K) (hs cs : K) (i : Nat) : K :=
  if i < L then gh i / hs else gc (i - L) / cs

/-- `res[:L]*h_scaling, res[L:]*cn2_scaling` -/
def gctmOut (L : Nat) (res : Nat → K) (hs cs : K) : (Nat → K) × (Nat → K) :=
  (fun i => res i * hs, fun i => res (L + i) * cs)

end Scalar2

end AoVerif.Model.ProfileCompression
