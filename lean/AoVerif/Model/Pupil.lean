/-
Model of `aotools/functions/pupil.py : circle` and of `aotools/wfs/wfslib.py :
findActiveSubaps / computeFillFactor / make_subaps_2d` (property C14).  Mathlib-free, total, computable,
scalar-polymorphic: at `Float` these very definitions are what the correspondence driver runs against the real
code (every operation below is one IEEE-754 binary64 operation in both worlds, so the comparison is bit-exact);
at an ordered field they are what the theorems of `Props/C14.lean` are about.
-/
import AoVerif.Model.Scalar

namespace AoVerif.Model.Pupil

/-! ### `circle(radius, size, circle_centre, origin)` -/
section Circle
variable {K : Type} [Add K] [Sub K] [Mul K] [Div K] [NatCast K] [OfScientific K] [LE K] [DecidableLE K]

/-- `coords = numpy.arange(0.5, size, 1.0)` : the k-th pixel centre -/
def coord (k : Nat) : K := (0.5 : K) + (k : K)

/-- one coordinate of pixel `k` relative to the circle centre:
`x -= size / 2.` (only when `origin == "middle"`), then `x -= circle_centre[·]` -/
def offset (middle : Bool) (n : Nat) (c : K) (k : Nat) : K :=
  (if middle then (coord k : K) - (n : K) / ((2 : Nat) : K) else coord k) - c

/-- `mask = x * x + y * y <= radius * radius` at array position `[i, j]`
(`x` runs along the second index and belongs to `circle_centre[0]`, `y` along the first, `circle_centre[1]`) -/
def inside (r : K) (n : Nat) (cx cy : K) (middle : Bool) (i j : Nat) : Bool :=
  let x : K := offset middle n cx j
  let y : K := offset middle n cy i
  decide (x * x + y * y ≤ r * r)

/-- the value `C[i, j]` of the returned array (`C = zeros; C[mask] = 1`) -/
def circleAt (r : K) (n : Nat) (cx cy : K) (middle : Bool) (i j : Nat) : K :=
  if inside r n cx cy middle i j then ((1 : Nat) : K) else ((0 : Nat) : K)

/-- the whole array, row-major, as booleans (execution side) -/
def circleBits (r : K) (n : Nat) (cx cy : K) (middle : Bool) : List Bool :=
  (List.range n).flatMap fun i => (List.range n).map fun j => inside r n cx cy middle i j

end Circle

/-! ### rounding: `numpy.round` / Python 3 `round` of a float, both round-half-to-even -/

/-- what rounding needs from the scalar: the integer floor and the embedding of the integers -/
class FloorZ (K : Type) where
  floorZ : K → Int
  ofInt : Int → K

instance : FloorZ Float where
  floorZ x := (Float.floor x).toInt64.toInt
  ofInt := Float.ofInt

section Round
variable {K : Type} [Sub K] [OfScientific K] [LT K] [DecidableLT K] [FloorZ K]

/-- `int(numpy.round(x))` = `int(round(x))` (Python 3): nearest integer, ties to the even one.
At `Float`, `x - floor x` is exact, so this is `rint` for every finite double of magnitude < 2^63. -/
def roundHE (x : K) : Int :=
  let f := FloorZ.floorZ x
  let d : K := x - FloorZ.ofInt f
  if d < (0.5 : K) then f
  else if (0.5 : K) < d then f + 1
  else if f % 2 = 0 then f else f + 1

end Round

/-! ### `findActiveSubaps`, `computeFillFactor` -/
section Subaps
variable {K : Type} [Add K] [Sub K] [Mul K] [Div K] [NatCast K] [OfScientific K]
  [LE K] [DecidableLE K] [LT K] [DecidableLT K] [FloorZ K]

/-- `xSpacing = mask.shape[0] / float(subaps)` -/
def spacing (n subaps : Nat) : K := (n : K) / (subaps : K)

/-- `int(numpy.round(x * xSpacing))` as a slice bound (never negative for `x ≥ 0`) -/
def bound (s : K) (x : Nat) : Nat := (roundHE ((x : K) * s)).toNat

/-- the indices selected by the slice `a:b` of an axis of length `n` (`0 ≤ a`, `0 ≤ b`) -/
def sliceIdx (a b n : Nat) : List Nat := List.range' a (min b n - a)

/-- sum of the mask over `rows × cols`, row-major, left to right.
`ndarray.mean` adds in a different (pairwise, blocked) order; the two orders give the same binary64 number only when no partial
sum is rounded — masks of zeros and ones or of multiples of 1/8, the only masks the bit-exact correspondence is run on.  For
arbitrary mask values the harness compares the real code with the exact rational mean up to the summation error instead. -/
def sumOver (mask : Nat → Nat → K) (rows cols : List Nat) : K :=
  rows.foldl (fun acc i => cols.foldl (fun acc j => acc + mask i j) acc) ((0 : Nat) : K)

/-- number of pixels of `mask[a:b, c:d]` -/
def cellCount (n0 n1 a b c d : Nat) : Nat := (sliceIdx a b n0).length * (sliceIdx c d n1).length

/-- `mask[a:b, c:d].mean(dtype=numpy.float64)` (`sum / count` in double precision whatever the dtype of the mask — the repaired
code, `fixes/C14-float32-mask-mean.diff`; an empty slice gives 0/0 = NaN at `Float`) -/
def cellMean (mask : Nat → Nat → K) (n0 n1 a b c d : Nat) : K :=
  sumOver mask (sliceIdx a b n0) (sliceIdx c d n1) / ((cellCount n0 n1 a b c d : Nat) : K)

/-- the sub-aperture `(x, y)` of `findActiveSubaps` : its slice bounds -/
def cellBounds (subaps n0 n1 x y : Nat) : Nat × Nat × Nat × Nat :=
  let xs : K := spacing n0 subaps
  let ys : K := spacing n1 subaps
  (bound xs x, bound xs (x + 1), bound ys y, bound ys (y + 1))

/-- mean of sub-aperture `(x, y)` -/
def subapMean (subaps n0 n1 : Nat) (mask : Nat → Nat → K) (x y : Nat) : K :=
  let b := cellBounds (K := K) subaps n0 n1 x y
  cellMean mask n0 n1 b.1 b.2.1 b.2.2.1 b.2.2.2

def subapCount (K : Type) [Add K] [Sub K] [Mul K] [Div K] [NatCast K] [OfScientific K]
    [LT K] [DecidableLT K] [FloorZ K] (subaps n0 n1 x y : Nat) : Nat :=
  let b := cellBounds (K := K) subaps n0 n1 x y
  cellCount n0 n1 b.1 b.2.1 b.2.2.1 b.2.2.2

/-- `fill >= threshold` with `fill` the double-precision mean of the cell (the MEAN is compared with the threshold, not the sum with
`threshold * size`: the two differ at binary64 when the cell size is not a power of two); the mean of an empty slice is NaN,
for which `>=` is False -/
def isActive (subaps n0 n1 : Nat) (mask : Nat → Nat → K) (thr : K) (x y : Nat) : Bool :=
  subapCount K subaps n0 n1 x y ≠ 0 ∧ thr ≤ subapMean subaps n0 n1 mask x y

/-- one returned sub-aperture: grid cell, the coordinates `[x*xSpacing, y*ySpacing]`, and its fill factor -/
structure Subap (K : Type) where
  x : Nat
  y : Nat
  cx : K
  cy : K
  fill : K

def mkSubap (subaps n0 n1 : Nat) (mask : Nat → Nat → K) (x y : Nat) : Subap K :=
  { x := x, y := y, cx := (x : K) * spacing n0 subaps, cy := (y : K) * spacing n1 subaps,
    fill := subapMean subaps n0 n1 mask x y }

/-- `findActiveSubaps(subaps, mask, threshold, returnFill=True)` : the two nested loops with `append` -/
def findActive (subaps n0 n1 : Nat) (mask : Nat → Nat → K) (thr : K) : List (Subap K) :=
  (List.range subaps).foldl (fun acc x =>
    (List.range subaps).foldl (fun acc y =>
      if isActive subaps n0 n1 mask thr x y then acc ++ [mkSubap subaps n0 n1 mask x y] else acc) acc) []

/-- `computeFillFactor(mask, subapPos, subapSpacing)` for non-negative positions -/
def computeFill (mask : Nat → Nat → K) (n0 n1 : Nat) (pos : List (K × K)) (sp : K) : List K :=
  pos.map fun p =>
    cellMean mask n0 n1 (roundHE p.1).toNat (roundHE (p.1 + sp)).toNat (roundHE p.2).toNat (roundHE (p.2 + sp)).toNat

end Subaps

/-! ### `make_subaps_2d` : row-major scatter of per-sub-aperture data into the 2-D map
`α` is the payload (the `(frames, 2)` slab `data[:, :, k]`), with no algebraic structure at all. -/
section Scatter
variable {α : Type}

/-- state of the double loop: the map written so far and the counter `n_subap` -/
structure ScatterState (α : Type) where
  grid : Nat → Nat → α
  k : Nat

/-- loop body: `if mask[x, y] == 1: subaps_2d[:, :, x, y] = data[:, :, n_subap]; n_subap += 1` -/
def scatterStep (valid : Nat → Nat → Bool) (data : Nat → α) (st : ScatterState α) (p : Nat × Nat) : ScatterState α :=
  if valid p.1 p.2 then
    { grid := fun a b => if a = p.1 ∧ b = p.2 then data st.k else st.grid a b, k := st.k + 1 }
  else st

/-- `make_subaps_2d(data, mask)` : `valid x y` is `mask[x, y] == 1`, `nx = mask.shape[0]`, `zero` the initial fill.
The map is allocated with the dtype of the DATA (`numpy.zeros(..., dtype=data.dtype)`): its entries live in the payload type `α`,
the mask only enters through `valid` (so a boolean, integer or single-precision mask cannot change a written value). -/
def scatter (nx : Nat) (valid : Nat → Nat → Bool) (data : Nat → α) (zero : α) : ScatterState α :=
  (List.range nx).foldl (fun st x =>
    (List.range nx).foldl (fun st y => scatterStep valid data st (x, y)) st) { grid := fun _ _ => zero, k := 0 }

/-- reading a 2-D map back through the mask, `g[mask == 1]` (row-major order of the selected positions) -/
def gather (nx : Nat) (valid : Nat → Nat → Bool) (g : Nat → Nat → α) : List α :=
  (List.range nx).flatMap fun x => (List.range nx).filterMap fun y => if valid x y then some (g x y) else none

/-- number of valid positions -/
def validCount (nx : Nat) (valid : Nat → Nat → Bool) : Nat :=
  ((List.range nx).flatMap fun x => (List.range nx).filter fun y => valid x y).length

end Scatter

end AoVerif.Model.Pupil
