/-
Model of `aotools/fouriertransform.py` (C09) — Mathlib-free, polymorphic in the coefficient type `C`.

Arrays are index functions `Nat → C` with an explicit length `n`; only indices `< n` are ever read.
The DFT kernel (numpy.fft) is modelled by the naive sum against a twiddle table `w` with
`w m = ω^m`, `ω = e^{-2πi/n}` (at `ℂ`: `w m = ζ^m` for a primitive n-th root `ζ`; at `Cx Float`: cos/sin).
`wi` is the table of the inverse root and `ninv = 1/n`.
-/
import AoVerif.Model.Complex
namespace AoVerif.Fourier

variable {C : Type} [Add C] [Mul C] [OfScientific C]

/-- `numpy.fft.fftshift(x)[k] = x[(k - n//2) mod n]` -/
def fftshift (n : Nat) (x : Nat → C) : Nat → C := fun k => x ((k + (n - n / 2)) % n)
/-- `numpy.fft.ifftshift(x)[k] = x[(k + n//2) mod n]` -/
def ifftshift (n : Nat) (x : Nat → C) : Nat → C := fun k => x ((k + n / 2) % n)

/-- `numpy.fft.fft` : `X[k] = Σ_j x[j] ω^{jk}` -/
def dft (n : Nat) (w : Nat → C) (x : Nat → C) : Nat → C :=
  fun k => sumTo n (fun j => x j * w ((j * k) % n))
/-- `numpy.fft.ifft` : `x[j] = (1/n) Σ_k X[k] ω^{-jk}` -/
def idft (n : Nat) (wi : Nat → C) (ninv : C) (x : Nat → C) : Nat → C :=
  fun j => ninv * sumTo n (fun k => x k * wi ((j * k) % n))

/-- `fouriertransform.ft`: `fftshift(fft(ifftshift(data))) * delta` -/
def ft (n : Nat) (w : Nat → C) (delta : C) (x : Nat → C) : Nat → C :=
  fun k => fftshift n (dft n w (ifftshift n x)) k * delta
/-- `fouriertransform.ift`: `fftshift(ifft(ifftshift(data))) * data.shape[-1] * delta_f` -/
def ift (n : Nat) (wi : Nat → C) (ninv : C) (nC : C) (delta_f : C) (x : Nat → C) : Nat → C :=
  fun j => fftshift n (idft n wi ninv (ifftshift n x)) j * nC * delta_f

/-- the pinned (pre-fix) composition `fftshift(fft(fftshift(data))) * delta` — kept to state what was wrong -/
def ft_pinned (n : Nat) (w : Nat → C) (delta : C) (x : Nat → C) : Nat → C :=
  fun k => fftshift n (dft n w (fftshift n x)) k * delta
/-- the pinned inverse `ifftshift(ifft(ifftshift(data))) * n * delta_f` -/
def ift_pinned (n : Nat) (wi : Nat → C) (ninv : C) (nC : C) (delta_f : C) (x : Nat → C) : Nat → C :=
  fun j => ifftshift n (idft n wi ninv (ifftshift n x)) j * nC * delta_f

/-- `fouriertransform.ft2` on an `n × n` array `x a b` (a = axis −2, b = axis −1): numpy's `fft2` and the
two-axis shifts factor into the 1-D transform along each axis; `delta**2 = delta * delta`. -/
def ft2 (n : Nat) (w : Nat → C) (delta : C) (x : Nat → Nat → C) : Nat → Nat → C :=
  fun a b => ft n w delta (fun a' => ft n w delta (fun b' => x a' b') b) a
def ift2 (n : Nat) (wi : Nat → C) (ninv nC : C) (delta_f : C) (x : Nat → Nat → C) : Nat → Nat → C :=
  fun a b => ift n wi ninv nC delta_f (fun a' => ift n wi ninv nC delta_f (fun b' => x a' b') b) a

/-- `phasescreen.ift2` (no FFT object): `ifftshift(ifft2(fftshift(G))) * (N*delta_f)**2` -/
def ift1_ps (n : Nat) (wi : Nat → C) (ninv : C) (nC : C) (delta_f : C) (x : Nat → C) : Nat → C :=
  fun j => ifftshift n (idft n wi ninv (fftshift n x)) j * nC * delta_f
def ift2_ps (n : Nat) (wi : Nat → C) (ninv nC : C) (delta_f : C) (x : Nat → Nat → C) : Nat → Nat → C :=
  fun a b => ift1_ps n wi ninv nC delta_f (fun a' => ift1_ps n wi ninv nC delta_f (fun b' => x a' b') b) a


/-! ### real-input variants (`rft`, `irft`): half-spectra of `n/2+1` bins -/

/-- `numpy.fft.rfft`: bins `0 … n/2` of the DFT (only those are read) -/
def rfft (n : Nat) (w : Nat → C) (x : Nat → C) : Nat → C := dft n w x

/-- the full spectrum `numpy.fft.irfft` reconstructs from a half-spectrum for output length `n`:
bins above `n/2` are the conjugates of their mirror bins -/
def hermComplete (n : Nat) (conj : C → C) (H : Nat → C) : Nat → C :=
  fun k => if k ≤ n / 2 then H k else conj (H (n - k))

/-- `numpy.fft.irfft(H)` with the default output length `n = 2 (m − 1)` -/
def irfft (n : Nat) (wi : Nat → C) (ninv : C) (conj : C → C) (H : Nat → C) : Nat → C :=
  idft n wi ninv (hermComplete n conj H)

/-- `fouriertransform.rft`: `fftshift(rfft(fftshift(data))) * delta` (the half-spectrum of length `n/2+1` is shifted too) -/
def rft (n : Nat) (w : Nat → C) (delta : C) (x : Nat → C) : Nat → C :=
  fun k => fftshift (n / 2 + 1) (rfft n w (fftshift n x)) k * delta

/-- `fouriertransform.irft` on a half-spectrum of length `m`: `ifftshift(irfft(ifftshift(data))) * 2*(m-1) * delta_f` -/
def irft (m : Nat) (wi : Nat → C) (ninv : C) (conj : C → C) (twoM1 : C) (delta_f : C) (H : Nat → C) : Nat → C :=
  fun j => ifftshift (2 * (m - 1)) (irfft (2 * (m - 1)) wi ninv conj (ifftshift m H)) j * twoM1 * delta_f

/-! ### 2-D real-input variants (`rft2`, `irft2`)

`numpy.fft.rfft2` halves the LAST axis (`rfft` along axis −1, then the complex `fft` along axis −2); the code shifts
both axes with `fftshift` before and after, so along axis −2 the composition is `fftshift ∘ fft ∘ fftshift`
(= `ft_pinned`), along axis −1 it is the 1-D `rft`; `delta**2 = delta * delta`. -/

/-- `fouriertransform.rft2` on an `n × n` array `x a b` (a = axis −2, b = axis −1); the result has `n × (n/2+1)` bins -/
def rft2 (n : Nat) (w : Nat → C) (delta : C) (x : Nat → Nat → C) : Nat → Nat → C :=
  fun a k => ft_pinned n w delta (fun a' => rft n w delta (fun b' => x a' b') k) a

/-- `fouriertransform.irft2` on an `N × m` half-spectrum `H a k` (`N = data.shape[-2]`, `m = data.shape[-1]`):
`numpy.fft.irfft2(·, axes=(-2,-1))` is the complex `ifft` along axis −2 (length `N`, tables `wiN`, `ninvN`) followed by
`irfft` along axis −1 (output length `2 (m − 1)`, tables `wiL`, `ninvL`); both axes are `ifftshift`ed before and after;
the scale is `(N * delta_f)**2`, i.e. `N * delta_f` per axis — on BOTH axes the code uses `N = data.shape[-2]`
(`nC`), not the last-axis length `2 (m − 1)`. -/
def irft2 (N m : Nat) (wiN : Nat → C) (ninvN : C) (wiL : Nat → C) (ninvL : C) (conj : C → C) (nC : C) (delta_f : C)
    (H : Nat → Nat → C) : Nat → Nat → C :=
  fun a b => irft m wiL ninvL conj nC delta_f (fun k => ift_pinned N wiN ninvN nC delta_f (fun a' => H a' k) a) b

end AoVerif.Fourier
