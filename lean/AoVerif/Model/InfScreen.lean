/-
Infinite phase screens (`aotools/turbulence/infinitephasescreen.py`) as a state machine.  Mathlib-free.

State of one screen object = (`_scrn` as a list of rows, newest row first; number of normals drawn from the
per-instance generator `_R` since construction).  The payload type `α` of the phase values has NO algebraic
structure: the new row is an opaque function `f` of the whole working array and of the fresh draws (this
covers both `PhaseScreenVonKarman.get_new_row`, which reads the stencil entries, and
`PhaseScreenKolmogorov.get_new_row`, which additionally reads the reference point `(1,1)`).

    add_row :  new = f(_scrn, R.normal(size = nx_size))
               _scrn = numpy.append(new, _scrn, axis=0)[:stencil_length, :nx_size]
    scrn    :  _scrn[:requested_nx_size, :requested_nx_size]
    repr    :  str(scrn)

The concrete row functions (`vkRow`, `friedRow`) are given at the end, polymorphic in the scalar, for the
correspondence driver (`Float`) and for the linear-recursion theorems (`ℝ`).
-/
namespace AoVerif.InfScreen

/-- NumPy `m[:r, :c]` on a list-of-rows array -/
def crop {α : Type} (r c : Nat) (m : List (List α)) : List (List α) := (m.take r).map (List.take c)

/-- the three sizes of a screen object -/
structure Cfg where
  req : Nat      -- requested_nx_size
  nx  : Nat      -- nx_size (internal row width; = req for von Kármán, `find_allowed_size req` for Fried)
  len : Nat      -- stencil_length (number of rows kept)
deriving Repr, DecidableEq

structure State (α : Type) where
  rows : List (List α)   -- `_scrn`, newest row first
  pos  : Nat             -- how many normals have been drawn from `_R` since construction
deriving Repr

instance {α : Type} [DecidableEq α] : DecidableEq (State α) := fun a b => by
  cases a; cases b; simp only [State.mk.injEq]; exact inferInstance

/-- `R.normal(size = n)` at stream position `pos`: the next `n` values of the stream -/
def draws {β : Type} (ξ : Nat → β) (pos n : Nat) : List β := (List.range n).map (fun i => ξ (pos + i))

/-- the row `add_row` generates in state `s` -/
def newRow {α β : Type} (c : Cfg) (f : List (List α) → List β → List α) (ξ : Nat → β) (s : State α) : List α :=
  f s.rows (draws ξ s.pos c.nx)

/-- `add_row` (lines 197-206) -/
def addRow {α β : Type} (c : Cfg) (f : List (List α) → List β → List α) (ξ : Nat → β) (s : State α) : State α :=
  { rows := crop c.len c.nx (newRow c f ξ s :: s.rows), pos := s.pos + c.nx }

/-- the `scrn` property (lines 208-213) -/
def scrn {α : Type} (c : Cfg) (s : State α) : List (List α) := crop c.req c.req s.rows

inductive Op | add | scrn | repr
deriving Repr, DecidableEq

/-- what an operation hands back to the caller -/
inductive Out (α γ : Type)
  | arr (m : List (List α))     -- `add_row()` and `.scrn` return the exposed array
  | text (t : γ)                -- `repr(obj)`; `γ` and the renderer are opaque
deriving Repr

section machine
variable {α β γ : Type} (c : Cfg) (f : List (List α) → List β → List α) (ξ : Nat → β)
  (render : List (List α) → γ)

def step (s : State α) : Op → State α × Out α γ
  | .add  => let s' := addRow c f ξ s; (s', .arr (scrn c s'))
  | .scrn => (s, .arr (scrn c s))
  | .repr => (s, .text (render (scrn c s)))

/-- state after a history -/
def run (s : State α) : List Op → State α
  | [] => s
  | op :: ops => run (step c f ξ render s op).1 ops

/-- everything the caller saw during a history, in order, tagged by the operation -/
def trace (s : State α) : List Op → List (Op × Out α γ)
  | [] => []
  | op :: ops => (op, (step c f ξ render s op).2) :: trace (step c f ξ render s op).1 ops

/-- the rows generated during a history, newest first -/
def newRows (s : State α) : List Op → List (List α)
  | [] => []
  | .add :: ops => newRows (addRow c f ξ s) ops ++ [newRow c f ξ s]
  | _ :: ops => newRows s ops

end machine

/-! ### `find_allowed_size` (lines 308-323): `n = 0; while 2**n + 1 < nx: n += 1; return 2**n + 1` -/

def fasLoop (nx : Nat) : Nat → Nat → Nat
  | 0, n => n
  | fuel + 1, n => if 2 ^ n + 1 < nx then fasLoop nx fuel (n + 1) else n

/-- exponent found by the loop (fuel `nx` always suffices: `2^nx + 1 > nx`) -/
def fasExp (nx : Nat) : Nat := fasLoop nx nx 0

def findAllowedSize (nx : Nat) : Nat := 2 ^ fasExp nx + 1

/-- sizes of a `PhaseScreenVonKarman(nx_size = n)` -/
def vkCfg (n : Nat) : Cfg := { req := n, nx := n, len := n }

/-- sizes of a `PhaseScreenKolmogorov(nx_size = n, stencil_length_factor = k)` -/
def friedCfg (n k : Nat) : Cfg := { req := n, nx := findAllowedSize n, len := k * findAllowedSize n }

/-! ### the concrete row functions (scalar-polymorphic) -/

section rows
variable {K : Type} [Add K] [Sub K] [Mul K] [OfScientific K]

/-- `a.dot(b)` accumulated left to right -/
def dot (a b : List K) : K := (List.zipWith (· * ·) a b).foldl (· + ·) (0.0 : K)

def matVec (A : List (List K)) (v : List K) : List K := A.map (fun r => dot r v)

/-- `_scrn[(coords[:,0], coords[:,1])]`; out-of-range coordinates (an `IndexError` in NumPy) give `none` -/
def fetch? (rows : List (List K)) (coords : List (Nat × Nat)) : Option (List K) :=
  coords.mapM (fun ij => (rows[ij.1]?).bind (fun r => r[ij.2]?))

def vadd (a b : List K) : List K := List.zipWith (· + ·) a b

/-- `PhaseScreen.get_new_row`: `A.dot(stencil_data) + B.dot(random_data)` -/
def vkRow? (A B : List (List K)) (coords : List (Nat × Nat)) (rows : List (List K)) (b : List K) : Option (List K) :=
  (fetch? rows coords).map (fun z => vadd (matVec A z) (matVec B b))

/-- `PhaseScreenKolmogorov.get_new_row`: `A.dot(stencil_data - ref) + B.dot(random_data) + ref` -/
def friedRow? (A B : List (List K)) (coords : List (Nat × Nat)) (ref : Nat × Nat) (rows : List (List K))
    (b : List K) : Option (List K) :=
  (fetch? rows coords).bind fun z =>
  ((rows[ref.1]?).bind (fun r => r[ref.2]?)).map fun rv =>
    (vadd (matVec A (z.map (· - rv))) (matVec B b)).map (· + rv)

/-- stencil of `PhaseScreenVonKarman.set_stencil_coords`: the first `ncol` rows (all of them when `ncol ≥ len`),
row-major, as `numpy.where` returns them -/
def vkStencil (len nx ncol : Nat) : List (Nat × Nat) :=
  (List.range (min ncol len)).flatMap (fun i => (List.range nx).map (fun j => (i, j)))

end rows

end AoVerif.InfScreen
