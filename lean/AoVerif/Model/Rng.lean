/-
C06 — random streams of the screen generators (Mathlib-free).

The library owns three kinds of generator: each infinite screen instance has its own (`self._R =
numpy.random.default_rng(random_seed)`), each finite-screen call builds a local one from its `seed` argument,
and NumPy's process-global generator exists beside them.  The model is a state machine over an abstract
generator state `σ` (`seedGen : ℕ → σ`, `next : σ → σ × α`); an operation names the generator it draws from.
Which generator each library entry point uses is not assumed here: it is the table `rngOf` below, checked
against the code (a) statically by translator T2 (no screen function touches the global generator:
`Props/C06.screen_code_uses_no_global_rng`) and (b) dynamically by comparing the set of generators whose state
changed on every operation of generated histories.
-/
namespace AoVerif.Rng

/-- operations of a history.  `i` is an instance id. -/
inductive Op where
  /-- construct infinite screen `i` with an integer seed, drawing `n` values for its initial screen -/
  | create (i : Nat) (seed : Nat) (n : Nat)
  /-- `add_row` on instance `i`, drawing `n` values -/
  | addRow (i : Nat) (n : Nat)
  /-- read `scrn` / `repr` of instance `i` -/
  | read (i : Nat)
  /-- finite FFT screen (plain or sub-harmonic) with an integer seed, drawing `n` values from a local generator -/
  | finite (seed : Nat) (n : Nat)
  /-- `numpy.random.seed(s)` -/
  | globalSeed (s : Nat)
  /-- something draws `n` values from NumPy's global generator (user code, or `optimal_grouping`) -/
  | globalDraw (n : Nat)
  /-- any other library call that uses no generator -/
  | other
deriving Repr, DecidableEq, Inhabited

/-- which generator an operation uses: `some (some i)` instance `i`, `some none` the global one, `none` a local / no generator -/
def rngOf : Op → Option (Option Nat)
  | .create i _ _ => some (some i)
  | .addRow i _ => some (some i)
  | .read _ => none
  | .finite _ _ => none
  | .globalSeed _ => some none
  | .globalDraw _ => some none
  | .other => none

variable {σ α : Type}

/-- draw `n` values -/
def draw (next : σ → σ × α) : Nat → σ → σ × List α
  | 0, s => (s, [])
  | n+1, s =>
      let (s1, a) := next s
      let (s2, as) := draw next n s1
      (s2, a :: as)

structure World (σ : Type) where
  inst : Nat → Option σ
  glob : σ

/-- output of an operation: the values it drew (what the produced screen / row is a function of) -/
def step (seedGen : Nat → σ) (next : σ → σ × α) (w : World σ) : Op → World σ × List α
  | .create i seed n =>
      let (s, out) := draw next n (seedGen seed)
      ({ w with inst := fun j => if j = i then some s else w.inst j }, out)
  | .addRow i n =>
      match w.inst i with
      | none => (w, [])
      | some s0 =>
          let (s, out) := draw next n s0
          ({ w with inst := fun j => if j = i then some s else w.inst j }, out)
  | .read _ => (w, [])
  | .finite seed n => (w, (draw next n (seedGen seed)).2)
  | .globalSeed s => ({ w with glob := seedGen s }, [])
  | .globalDraw n =>
      let (s, out) := draw next n w.glob
      ({ w with glob := s }, out)
  | .other => (w, [])

/-- run a history, collecting `(operation, output)` -/
def run (seedGen : Nat → σ) (next : σ → σ × α) : World σ → List Op → World σ × List (Op × List α)
  | w, [] => (w, [])
  | w, op :: ops =>
      let (w1, out) := step seedGen next w op
      let (w2, rest) := run seedGen next w1 ops
      (w2, (op, out) :: rest)

/-- does the operation belong to instance `i`? -/
def onInst (i : Nat) : Op → Bool
  | .create j _ _ => j == i
  | .addRow j _ => j == i
  | .read j => j == i
  | _ => false

/-- outputs of the operations on instance `i`, in order -/
def outputsOf (i : Nat) (tr : List (Op × List α)) : List (List α) :=
  (tr.filter (fun e => onInst i e.1)).map (·.2)

/-- is the operation a read of `scrn` / `repr`? -/
def isRead : Op → Bool
  | .read _ => true
  | _ => false

/-! ### A LAZY variant (counter-model; not the library's behaviour)

A seeded change of the library generated the initial screen lazily, on the first access of the screen, i.e. AFTER the draws of the
first row when the caller had not looked at the screen before its first `add_row`.  `stepLazy` models that variant: `create` stores the
seeded generator and the number `n0` of initial values still to be drawn (`some n0`) without drawing; `read` draws the pending initial
screen; `addRow` draws the ROW's values first and the pending initial screen after them.  The eager definitions above are what the
property is about; the lazy ones exist so that `Props/C06.lazy_init_is_read_sensitive` can show that `reads_do_not_matter` is not a
triviality of the modelling style. -/

/-- world of the lazy variant: an instance is its generator state and the pending size of its initial screen -/
structure LazyWorld (σ : Type) where
  inst : Nat → Option (σ × Option Nat)
  glob : σ

/-- draw the pending initial screen, if any: new generator state and the values drawn -/
def flush (next : σ → σ × α) : σ × Option Nat → σ × List α
  | (s, none) => (s, [])
  | (s, some n0) => draw next n0 s

/-- one operation of the lazy variant.  Output: the values the operation drew for what it produces — `read`: the initial screen when it
is drawn here; `addRow`: the row's values (drawn BEFORE a pending initial screen, as in the seeded change) -/
def stepLazy (seedGen : Nat → σ) (next : σ → σ × α) (w : LazyWorld σ) : Op → LazyWorld σ × List α
  | .create i seed n =>
      ({ w with inst := fun j => if j = i then some (seedGen seed, some n) else w.inst j }, [])
  | .addRow i n =>
      match w.inst i with
      | none => (w, [])
      | some (s0, pending) =>
          let (s1, out) := draw next n s0
          let (s2, _) := flush next (s1, pending)
          ({ w with inst := fun j => if j = i then some (s2, none) else w.inst j }, out)
  | .read i =>
      match w.inst i with
      | none => (w, [])
      | some st =>
          let (s1, out) := flush next st
          ({ w with inst := fun j => if j = i then some (s1, none) else w.inst j }, out)
  | .finite seed n => (w, (draw next n (seedGen seed)).2)
  | .globalSeed s => ({ w with glob := seedGen s }, [])
  | .globalDraw n =>
      let (s, out) := draw next n w.glob
      ({ w with glob := s }, out)
  | .other => (w, [])

/-- run a history of the lazy variant, collecting `(operation, output)` -/
def runLazy (seedGen : Nat → σ) (next : σ → σ × α) : LazyWorld σ → List Op → LazyWorld σ × List (Op × List α)
  | w, [] => (w, [])
  | w, op :: ops =>
      let (w1, out) := stepLazy seedGen next w op
      let (w2, rest) := runLazy seedGen next w1 ops
      (w2, (op, out) :: rest)

end AoVerif.Rng
