/-
Model of `aotools/turbulence/slopecovariance.py` — `CovarianceMatrix` (property C01).  Mathlib-free.

The model mirrors the code after the three C01 fixes (`fixes/C01-*.diff`):
  * `compute_covariance_xx / _yy` use the four separations of the four end-point pairs
    (`- D(r1) - D(r4) + D(r2) + D(r3)`), not `-2·D(r1)`;
  * `wfs_covariance` also returns `cov_yx` (= `compute_covariance_xy` with the two diameters exchanged); the
    (y_i, x_j) block receives `cov_yx`, the (x_i, y_j) block receives `cov_xy` (no `fliplr(flipud(·))`);
  * `mirror_covariance_matrix` is `tril(M) + tril(M, -1).T`.

Shape of the model
  * the per-pair kernels `covXX / covYY / covXY` are the bodies of `compute_covariance_*` over an ARBITRARY
    structure function `sf` (`Props/C01.lean` proves by `rfl` that at `sf := structure_function_vk · r0 L0` they
    are the definitions REGENERATED from the source by translator T1);
  * geometry: `subapPos`, `scaleFactor`, `layerPos`, `layerDiam` are lines 88-133 of the file;
  * assembly: the matrix is a function `Nat → Nat → K`; `_make_covariance_matrix` (and `_mp`, which performs the
    same `+=` in the same order) is the left fold of the program-ordered list of block writes
    (layer, wfs_i, wfs_j ≤ wfs_i, [xx, yx, xy, yy]) over the zero matrix.
`float32` storage is NOT modelled (the model is exact over `K`).
-/
import AoVerif.Model.Scalar

namespace AoVerif.SlopeCov

variable {K : Type} [Add K] [Sub K] [Mul K] [Div K] [Neg K] [NatCast K] [OfScientific K] [HPow K Nat K] [Transc K]

/-! ### per-pair kernels (`compute_covariance_xx / yy / xy`) over a structure function `sf` -/

def covXX (sf : K → K) (seperation_0 seperation_1 : K) (subap1_diam : K) (subap2_diam : K) : K :=
  let x1 : K := (seperation_0 + ((subap2_diam - subap1_diam) * (5e-1 : K)))
  let r1 : K := (Transc.sqrt ((x1 ^ (2 : Nat)) + (seperation_1 ^ (2 : Nat))))
  let x2 : K := (seperation_0 - ((subap2_diam + subap1_diam) * (5e-1 : K)))
  let r2 : K := (Transc.sqrt ((x2 ^ (2 : Nat)) + (seperation_1 ^ (2 : Nat))))
  let x3 : K := (seperation_0 + ((subap2_diam + subap1_diam) * (5e-1 : K)))
  let r3 : K := (Transc.sqrt ((x3 ^ (2 : Nat)) + (seperation_1 ^ (2 : Nat))))
  let x4 : K := (seperation_0 - ((subap2_diam - subap1_diam) * (5e-1 : K)))
  let r4 : K := (Transc.sqrt ((x4 ^ (2 : Nat)) + (seperation_1 ^ (2 : Nat))))
  let Cxx : K := ((((-(sf r1)) - (sf r4)) + (sf r2)) + (sf r3))
  Cxx

def covYY (sf : K → K) (seperation_0 seperation_1 : K) (subap1_diam : K) (subap2_diam : K) : K :=
  let y1 : K := (seperation_1 + ((subap2_diam - subap1_diam) * (5e-1 : K)))
  let r1 : K := (Transc.sqrt ((seperation_0 ^ (2 : Nat)) + (y1 ^ (2 : Nat))))
  let y2 : K := (seperation_1 - ((subap2_diam + subap1_diam) * (5e-1 : K)))
  let r2 : K := (Transc.sqrt ((seperation_0 ^ (2 : Nat)) + (y2 ^ (2 : Nat))))
  let y3 : K := (seperation_1 + ((subap2_diam + subap1_diam) * (5e-1 : K)))
  let r3 : K := (Transc.sqrt ((seperation_0 ^ (2 : Nat)) + (y3 ^ (2 : Nat))))
  let y4 : K := (seperation_1 - ((subap2_diam - subap1_diam) * (5e-1 : K)))
  let r4 : K := (Transc.sqrt ((seperation_0 ^ (2 : Nat)) + (y4 ^ (2 : Nat))))
  let Cyy : K := ((((-(sf r1)) - (sf r4)) + (sf r2)) + (sf r3))
  Cyy

def covXY (sf : K → K) (seperation_0 seperation_1 : K) (subap1_diam : K) (subap2_diam : K) : K :=
  let x1 : K := (seperation_0 + (subap1_diam * (5e-1 : K)))
  let y1 : K := (seperation_1 - (subap2_diam * (5e-1 : K)))
  let r1 : K := (Transc.sqrt ((x1 ^ (2 : Nat)) + (y1 ^ (2 : Nat))))
  let x2 : K := (seperation_0 - (subap1_diam * (5e-1 : K)))
  let y2 : K := (seperation_1 + (subap2_diam * (5e-1 : K)))
  let r2 : K := (Transc.sqrt ((x2 ^ (2 : Nat)) + (y2 ^ (2 : Nat))))
  let x3 : K := (seperation_0 + (subap1_diam * (5e-1 : K)))
  let y3 : K := (seperation_1 + (subap2_diam * (5e-1 : K)))
  let r3 : K := (Transc.sqrt ((x3 ^ (2 : Nat)) + (y3 ^ (2 : Nat))))
  let x4 : K := (seperation_0 - (subap1_diam * (5e-1 : K)))
  let y4 : K := (seperation_1 - (subap2_diam * (5e-1 : K)))
  let r4 : K := (Transc.sqrt ((x4 ^ (2 : Nat)) + (y4 ^ (2 : Nat))))
  let Cxy : K := ((((-(sf r1)) - (sf r2)) + (sf r3)) + (sf r4))
  Cxy

/-! ### configuration -/

/-- one wavefront sensor: `idx a` is the `a`-th `(row, column)` of `numpy.where(pupil_mask == 1)` (row-major),
`nsub` their number (`pupil_mask.sum()` for a 0/1 mask) -/
structure Wfs (K : Type) where
  nsub : Nat
  idx : Nat → Nat × Nat
  diam : K
  gsAlt : K
  gsX : K
  gsY : K
  lam : K

structure Layer (K : Type) where
  alt : K
  r0 : K
  L0 : K

structure Cfg (K : Type) where
  telDiam : K
  nwfs : Nat
  wfs : Nat → Wfs K
  layers : List (Layer K)
  /-- the `xy_separations += 1e-20` of `calculate_wfs_seperations` -/
  eps : K

/-- `numpy.where(mask == 1)` of one mask row: the columns holding a one, ascending -/
def whereRow (row : List Nat) : List Nat :=
  (List.range row.length).filter (fun c => row.getD c 0 == 1)

/-- `numpy.array(numpy.where(mask == 1)).T` : `(row, column)` pairs in row-major order -/
def whereOnes (mask : List (List Nat)) : List (Nat × Nat) :=
  (List.range mask.length).flatMap (fun r => (whereRow (mask.getD r [])).map (fun c => (r, c)))

/-- the sensor the constructor + lines 90-96 make of a pupil mask: `n_subaps = pupil_mask.sum()` (for a 0/1 mask the
number of cells of `numpy.where(mask == 1)`), `idx a` = the `a`-th of those cells.  `Props/C01.lean`
(`where_links_cfg`) proves that `nsub`/`idx` of this sensor enumerate exactly the cells holding a one, in row-major order. -/
def Wfs.ofMask (mask : List (List Nat)) (diam gsAlt gsX gsY lam : K) : Wfs K :=
  ⟨(whereOnes mask).length, fun a => (whereOnes mask).getD a (0, 0), diam, gsAlt, gsX, gsY, lam⟩

/-! ### geometry (lines 88-133) -/

/-- `where(mask == 1).T * d  - D/2. - d/2.` -/
def subapPos (telDiam : K) (w : Wfs K) (a : Nat) : K × K :=
  let p := w.idx a
  ((((p.1 : Nat) : K) * w.diam - telDiam / ((2 : Nat) : K)) - w.diam / ((2 : Nat) : K),
   (((p.2 : Nat) : K) * w.diam - telDiam / ((2 : Nat) : K)) - w.diam / ((2 : Nat) : K))

/-- `1 - layer_altitude / gs_altitude` for a guide star at finite altitude (`gs_altitude != 0`), else `1` -/
def scaleFactor [LT K] [DecidableLT K] (w : Wfs K) (l : Layer K) : K :=
  if w.gsAlt < ((0 : Nat) : K) ∨ ((0 : Nat) : K) < w.gsAlt then ((1 : Nat) : K) - l.alt / w.gsAlt else ((1 : Nat) : K)

/-- `gs_position * pi/180/3600 * layer_altitude` -/
def translation (g : K) (l : Layer K) : K :=
  (((g * (Transc.pi : K)) / ((180 : Nat) : K)) / ((3600 : Nat) : K)) * l.alt

/-- projected centre of sub-aperture `a` of sensor `w` at layer `l` -/
def layerPos [LT K] [DecidableLT K] (c : Cfg K) (l : Layer K) (w a : Nat) : K × K :=
  let W := c.wfs w
  let s := scaleFactor W l
  let p := subapPos c.telDiam W a
  (s * p.1 + translation W.gsX l, s * p.2 + translation W.gsY l)

/-- projected sub-aperture diameter of sensor `w` at layer `l` -/
def layerDiam [LT K] [DecidableLT K] (c : Cfg K) (l : Layer K) (w : Nat) : K :=
  (c.wfs w).diam * scaleFactor (c.wfs w) l

/-- `calculate_wfs_seperations`: `(x2 - x1, y2 - y1) + 1e-20`, 1 = row sensor, 2 = column sensor -/
def sep [LT K] [DecidableLT K] (c : Cfg K) (l : Layer K) (i j a b : Nat) : K × K :=
  let p1 := layerPos c l i a
  let p2 := layerPos c l j b
  ((p2.1 - p1.1) + c.eps, (p2.2 - p1.2) + c.eps)

/-- `r0_scale = λ_i λ_j / (8 π² d_i d_j)` with the projected diameters -/
def r0Scale [LT K] [DecidableLT K] (c : Cfg K) (l : Layer K) (i j : Nat) : K :=
  ((c.wfs i).lam * (c.wfs j).lam)
    / (((((8 : Nat) : K) * ((Transc.pi : K) ^ (2 : Nat))) * layerDiam c l i) * layerDiam c l j)

/-- entry `(a, b)` of the four matrices returned by `wfs_covariance` for the sensor pair `(i, j)` at layer `l`;
`ey`/`ex` = "the row / column is a y-slope".
`(false,false)` = `cov_xx`, `(true,true)` = `cov_yy`, `(false,true)` = `cov_xy`, `(true,false)` = `cov_yx`. -/
def kernEntry [LT K] [DecidableLT K] (sf : K → K → K → K) (c : Cfg K) (l : Layer K) (i j : Nat)
    (ey ex : Bool) (a b : Nat) : K :=
  let s := sep c l i j a b
  let d1 := layerDiam c l i
  let d2 := layerDiam c l j
  let f : K → K := fun r => sf r l.r0 l.L0
  match ey, ex with
  | false, false => covXX f s.1 s.2 d1 d2
  | true, true => covYY f s.1 s.2 d1 d2
  | false, true => covXY f s.1 s.2 d1 d2
  | true, false => covXY f s.1 s.2 d2 d1

/-- the same entry multiplied by `r0_scale`: what is added to the matrix -/
def blockEntry [LT K] [DecidableLT K] (sf : K → K → K → K) (c : Cfg K) (l : Layer K) (i j : Nat)
    (ey ex : Bool) (a b : Nat) : K :=
  kernEntry sf c l i j ey ex a b * r0Scale c l i j

/-! ### assembly (lines 146-191 and 193-248) -/

/-- one `covariance_matrix[r0 : r0+nr, c0 : c0+nc] += blk` -/
structure Write (K : Type) where
  r0 : Nat
  c0 : Nat
  nr : Nat
  nc : Nat
  blk : Nat → Nat → K

def Write.inside (w : Write K) (r c : Nat) : Prop :=
  w.r0 ≤ r ∧ r < w.r0 + w.nr ∧ w.c0 ≤ c ∧ c < w.c0 + w.nc

instance (w : Write K) (r c : Nat) : Decidable (w.inside r c) := by unfold Write.inside; infer_instance

def Write.apply (w : Write K) (M : Nat → Nat → K) : Nat → Nat → K :=
  fun r c => if w.inside r c then M r c + w.blk (r - w.r0) (c - w.c0) else M r c

/-- `self.n_subaps[:i].sum()` -/
def offs (n : Nat → Nat) : Nat → Nat
  | 0 => 0
  | i + 1 => offs n i + n i

/-- position of slope `(sensor i, axis, sub-aperture a)` in the matrix: sensors in order, per sensor all x then all y -/
def rowIdx (n : Nat → Nat) (i : Nat) (isY : Bool) (a : Nat) : Nat :=
  2 * offs n i + (if isY then n i else 0) + a

def Cfg.nsubs (c : Cfg K) : Nat → Nat := fun w => (c.wfs w).nsub

/-- the four `+=` of one `(layer, wfs_i, wfs_j)` iteration, in program order: xx, yx, xy, yy -/
def pairWrites [LT K] [DecidableLT K] (sf : K → K → K → K) (c : Cfg K) (l : Layer K) (i j : Nat) : List (Write K) :=
  let ni := c.nsubs i
  let nj := c.nsubs j
  let x1 := offs c.nsubs i * 2
  let y1 := offs c.nsubs j * 2
  [ ⟨x1, y1, ni, nj, blockEntry sf c l i j false false⟩,
    ⟨x1 + ni, y1, ni, nj, blockEntry sf c l i j true false⟩,
    ⟨x1, y1 + nj, ni, nj, blockEntry sf c l i j false true⟩,
    ⟨x1 + ni, y1 + nj, ni, nj, blockEntry sf c l i j true true⟩ ]

def layerWrites [LT K] [DecidableLT K] (sf : K → K → K → K) (c : Cfg K) (l : Layer K) : List (Write K) :=
  (List.range c.nwfs).flatMap (fun i => (List.range (i + 1)).flatMap (fun j => pairWrites sf c l i j))

def allWrites [LT K] [DecidableLT K] (sf : K → K → K → K) (c : Cfg K) : List (Write K) :=
  c.layers.flatMap (layerWrites sf c)

def applyWrites (ws : List (Write K)) (M : Nat → Nat → K) : Nat → Nat → K :=
  ws.foldl (fun M w => w.apply M) M

/-- `_make_covariance_matrix` / `_make_covariance_matrix_mp`: the matrix before mirroring -/
def preMirror [LT K] [DecidableLT K] (sf : K → K → K → K) (c : Cfg K) : Nat → Nat → K :=
  applyWrites (allWrites sf c) (fun _ _ => ((0 : Nat) : K))

/-- `mirror_covariance_matrix`: `tril(M) + tril(M, -1).T` -/
def mirror (M : Nat → Nat → K) : Nat → Nat → K :=
  fun r c => if c ≤ r then M r c + ((0 : Nat) : K) else ((0 : Nat) : K) + M c r

/-- `CovarianceMatrix.make_covariance_matrix()` -/
def covarianceMatrix [LT K] [DecidableLT K] (sf : K → K → K → K) (c : Cfg K) : Nat → Nat → K :=
  mirror (preMirror sf c)

/-- side length `2 * total_subaps` -/
def Cfg.size (c : Cfg K) : Nat := 2 * offs c.nsubs c.nwfs

end AoVerif.SlopeCov
