/-
Effect / aliasing IR for C20 (and the RNG-source side condition of C06), with its concrete heap semantics and an
executable abstract interpreter.  Mathlib-free.  Programs in this IR are GENERATED from /repo by translator T2
(`harness/translate_effects.py`, output `Gen/Effects.lean`); `Props/C20.lean` proves the interpreter sound once and
for all, so `pureCheck p = true` (closed by `decide` on each generated program) implies that no execution of `p`
writes a buffer reachable from a parameter or touches global state.
-/
namespace AoVerif.Effects

abbrev Var := Nat
abbrev Buf := Nat

inductive Stmt where
  | skip
  /-- `x := e` where the value of `e` may share memory with any of `srcs` (slices, `.T`, `reshape`, `asarray`, …) or be fresh -/
  | assign (x : Var) (srcs : List Var)
  /-- in-place modification of the object `x` refers to (`x += …`, `x[…] = …`, `out=x`, `x.sort()`, `x.shape = …`) -/
  | write (x : Var)
  /-- writes module-level state or uses/advances a process-global random generator -/
  | globalWrite
  | seq (a b : Stmt)
  | ite (a b : Stmt)
  | loop (body : Stmt)
deriving Repr, Inhabited

structure Prog where
  /-- parameters are the variables `0 … k-1` -/
  k : Nat
  /-- all variables are `0 … m-1` -/
  m : Nat
  body : Stmt
deriving Repr, Inhabited

/-! ### concrete semantics: variables point to buffers; views share a buffer -/

structure CState where
  env : Var → Option Buf
  next : Nat
  written : List Buf
  g : Bool

def upd (env : Var → Option Buf) (x : Var) (v : Option Buf) : Var → Option Buf :=
  fun y => if y = x then v else env y

def iter (R : CState → CState → Prop) : Nat → CState → CState → Prop
  | 0, c, c' => c' = c
  | n+1, c, c' => ∃ c1, R c c1 ∧ iter R n c1 c'

/-- big-step relational semantics (non-deterministic: view or copy, either branch, any number of iterations) -/
def Exec : Stmt → CState → CState → Prop
  | .skip, c, c' => c' = c
  | .assign x srcs, c, c' =>
      c' = { c with env := upd c.env x (some c.next), next := c.next + 1 } ∨
      ∃ y ∈ srcs, c' = { c with env := upd c.env x (c.env y) }
  | .write x, c, c' =>
      (∃ b, c.env x = some b ∧ c' = { c with written := b :: c.written }) ∨ (c.env x = none ∧ c' = c)
  | .globalWrite, c, c' => c' = { c with g := true }
  | .seq s t, c, c' => ∃ c1, Exec s c c1 ∧ Exec t c1 c'
  | .ite s t, c, c' => Exec s c c' ∨ Exec t c c'
  | .loop b, c, c' => ∃ n, iter (Exec b) n c c'

/-! ### abstract interpreter -/

structure AbsState where
  /-- per variable (list index), which parameters' buffers it may refer to -/
  roots : List (List Var)
  /-- parameters whose buffer may have been written -/
  w : List Var
  g : Bool
deriving Repr

/-- lookup with default `[]` (variables beyond the table refer to nothing) -/
def get : List (List Var) → Var → List Var
  | [], _ => []
  | r :: _, 0 => r
  | _ :: rs, x+1 => get rs x

/-- update, extending the table when needed -/
def set : List (List Var) → Var → List Var → List (List Var)
  | [], 0, v => [v]
  | [], x+1, v => [] :: set [] x v
  | _ :: rs, 0, v => v :: rs
  | r :: rs, x+1, v => r :: set rs x v

/-- pointwise union (the longer table's tail is kept) -/
def joinR : List (List Var) → List (List Var) → List (List Var)
  | [], bs => bs
  | as, [] => as
  | a :: as, b :: bs => (a ++ b) :: joinR as bs

def dedup (l : List Var) : List Var := l.foldl (fun acc x => if acc.contains x then acc else acc ++ [x]) []

def init (k : Nat) : AbsState := ⟨(List.range k).map (fun x => [x]), [], false⟩
def top (k m : Nat) : AbsState := ⟨List.replicate m (List.range k), List.range k, true⟩
def join (a b : AbsState) : AbsState := ⟨joinR a.roots b.roots, a.w ++ b.w, a.g || b.g⟩

def leq (m : Nat) (a b : AbsState) : Bool :=
  ((List.range m).all fun x => (get a.roots x).all fun p => (get b.roots x).contains p) &&
  (a.w.all fun p => b.w.contains p) && (!a.g || b.g)

def absLoop (f : AbsState → AbsState) (k m : Nat) : Nat → AbsState → AbsState
  | 0, _ => top k m
  | fuel+1, a =>
      let a' := f a
      if leq m a' a then a else absLoop f k m fuel (join a a')

def abs (k m : Nat) : Stmt → AbsState → AbsState
  | .skip, a => a
  | .assign x srcs, a => { a with roots := set a.roots x (dedup (srcs.flatMap (get a.roots))) }
  | .write x, a => { a with w := dedup (a.w ++ get a.roots x) }
  | .globalWrite, a => { a with g := true }
  | .seq s t, a => abs k m t (abs k m s a)
  | .ite s t, a => join (abs k m s a) (abs k m t a)
  | .loop b, a => absLoop (abs k m b) k m (m * k + 2) a

def wf (m : Nat) : Stmt → Bool
  | .skip => true
  | .assign x srcs => decide (x < m) && srcs.all (fun y => decide (y < m))
  | .write x => decide (x < m)
  | .globalWrite => true
  | .seq s t => wf m s && wf m t
  | .ite s t => wf m s && wf m t
  | .loop b => wf m b

/-- the generated per-function obligation -/
def pureCheck (p : Prog) : Bool :=
  wf p.m p.body && decide (p.k ≤ p.m) &&
  (let r := abs p.k p.m p.body (init p.k); r.w.isEmpty && !r.g)

/-- which parameters may be written / whether global state may be touched (what the driver prints) -/
def summary (p : Prog) : List Var × Bool :=
  let r := abs p.k p.m p.body (init p.k)
  ((List.range p.k).filter (fun q => r.w.contains q), r.g)

end AoVerif.Effects
