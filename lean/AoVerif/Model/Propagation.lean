/-
Model of `aotools/opticalpropagation.py` (C10, C11) — Mathlib-free, computable, polymorphic in the real scalar `K`
(wavelength, spacings, distances, phases) and in the complex coefficient type `C` (field samples).

* `K`/`C` are tied by `CField K C` : `ofReal : K → C`, `cis θ = e^{iθ}`, the imaginary unit `i`.
  Execution: `K = Float`, `C = Cx Float` (instance below).  Theorems: `K = ℝ`, `C = ℂ` (instance in `Lemmas/Propagation.lean`).
* Every `numpy.exp(1j * θ)` of the code is `cis θ` with `θ : K` the real expression written in the code, in the code's
  order of operations; the `1e-10` added to `r1sq` in `angularSpectrum` is kept.
* Arrays are index functions `Nat → Nat → C` (first index = axis 0 = row); `numpy.meshgrid(v, v)` returns
  `x[a,b] = v[b]`, `y[a,b] = v[a]`.  Every coordinate grid is `(numpy.arange(N) - N//2) * d` (repaired code,
  fixes/C11-odd-grid-centre.diff): sample `N//2` sits at the origin, exactly where `ft2`/`ift2` (C09) put it, for even AND odd `N`
  (at the pinned commit the grids were `numpy.arange(-N/2, N/2) * d`: identical for even `N`, half a sample off-centre for odd `N`).
* The FFT kernel is the twiddle table pair `w`, `wi` of `Model/Fourier.lean`; `ft2`/`ift2` are the C09 models.
* Intermediate arrays are materialised (`tabulate`, read back with `idx`) where the Python code materialises them, so that
  the executable instance costs O(N⁴) per transform instead of O(N⁶); every propagator `p` is `idx N (pA …)` with `pA` returning
  the materialised output array (what the driver prints); `Lemmas/Propagation.lean` proves `idx N (tabulate N f) a b = f a b`
  for `a, b < N`.
* `twoStepFresnel` models the REPAIRED code (fixes/C11-twostep-orientation.diff, C11-odd-grid-centre.diff,
  C11-twostep-unit-magnification.diff): `twoStepFresnel_pinned` is the function without the final point reflection.
-/
import AoVerif.Model.Fourier
namespace AoVerif.Propagation
open AoVerif AoVerif.Fourier

/-- what the model needs to know about the pair (real scalar, complex coefficient) -/
class CField (K : Type) (C : Type) where
  ofReal : K → C
  /-- `cis θ = cos θ + i sin θ = numpy.exp(1j*θ)` -/
  cis : K → C
  /-- the imaginary unit `1j` -/
  i : C

instance : CField Float (Cx Float) where
  ofReal := fun x => ⟨x, 0.0⟩
  cis := Cx.cis
  i := ⟨0.0, 1.0⟩

/-- materialise an `N × N` array (row-major), as NumPy does for every intermediate expression -/
def tabulate {C : Type} (N : Nat) (f : Nat → Nat → C) : Array C :=
  Array.ofFn (n := N * N) (fun k => f (k.val / N) (k.val % N))
/-- read a materialised array as an index function -/
def idx {C : Type} [Inhabited C] (N : Nat) (arr : Array C) : Nat → Nat → C := fun a b => arr[a * N + b]!
/-- `tab2 N f a b = f a b` for `a, b < N` (`Lemmas/Propagation.lean`) -/
def tab2 {C : Type} [Inhabited C] (N : Nat) (f : Nat → Nat → C) : Nat → Nat → C := idx N (tabulate N f)

/-- source index of the point reflection about the centre sample `N/2` (Nat division): `2 (N/2) − a (mod N)`, i.e. `(N − a) % N` for
even `N` and `N − 1 − a` for odd `N` -/
def reflIdx (N a : Nat) : Nat := (2 * (N / 2) - a) % N

/-- point reflection about the centre sample `N//2`: `numpy.roll(U[::-1, ::-1], 1 - N % 2, axis=(0, 1))`,
i.e. `out[a, b] = U[reflIdx a, reflIdx b]` (`roll(rev, s)[a] = rev[(a − s) mod N] = U[N − 1 − ((a − s) mod N)]`, `s = 1 − N % 2`) -/
def reflect {C : Type} (N : Nat) (U : Nat → Nat → C) : Nat → Nat → C :=
  fun a b => U (reflIdx N a) (reflIdx N b)

section
variable {K C : Type} [Add K] [Sub K] [Mul K] [Div K] [Neg K] [NatCast K] [OfScientific K] [HPow K Nat K] [Transc K]
  [LE K] [DecidableLE K] [LT K] [DecidableLT K]
  [Add C] [Mul C] [Div C] [OfScientific C] [Inhabited C] [CField K C]

/-- `(numpy.arange(N) - N//2)[i]` (an integer array, converted when multiplied by the spacing) -/
def gridIdx (N : Nat) (i : Nat) : K := ((i : Nat) : K) - ((N / 2 : Nat) : K)

/-- Python `z == 0` for floats (true for ±0, false for NaN) -/
def isZero (z : K) : Prop := z ≤ ((0 : Nat) : K) ∧ ((0 : Nat) : K) ≤ z
instance (z : K) : Decidable (isZero z) := by unfold isZero; exact inferInstance

/-- optical wavevector `k = 2*numpy.pi/wvl` -/
def wavevector (wvl : K) : K := ((2 : Nat) : K) * Transc.pi / wvl

/-- the arguments `n, w, wi, ninv, nC` of the C09 `ift2` model -/
def ift2' (N : Nat) (wi : Nat → C) (df : K) (X : Nat → Nat → C) : Nat → Nat → C :=
  ift2 N wi (CField.ofReal (((1 : Nat) : K) / ((N : Nat) : K))) (CField.ofReal ((N : Nat) : K)) (CField.ofReal df) X
def ft2' (N : Nat) (w : Nat → C) (d : K) (x : Nat → Nat → C) : Nat → Nat → C :=
  ft2 N w (CField.ofReal d) x

/-! ### angularSpectrum -/

/-- phases of the three quadratic factors of `angularSpectrum`, as written in the code -/
def asTheta1 (N : Nat) (wvl d1 d2 z : K) (a b : Nat) : K :=
  let k := wavevector wvl
  let mag := d2 / d1
  let r1sq := ((d1 * gridIdx N b) ^ 2 + (d1 * gridIdx N a) ^ 2) + (1e-10 : K)
  k / ((2 : Nat) : K) * (((1 : Nat) : K) - mag) / z * r1sq
def asTheta2 (N : Nat) (wvl d1 d2 z : K) (a b : Nat) : K :=
  let k := wavevector wvl
  let mag := d2 / d1
  let df1 := ((1 : Nat) : K) / (((N : Nat) : K) * d1)
  let fsq := (df1 * gridIdx N b) ^ 2 + (df1 * gridIdx N a) ^ 2;
  -(Transc.pi ^ 2 * ((2 : Nat) : K) * z / mag / k * fsq)
def asTheta3 (N : Nat) (wvl d1 d2 z : K) (a b : Nat) : K :=
  let k := wavevector wvl
  let mag := d2 / d1
  let r2sq := (d2 * gridIdx N b) ^ 2 + (d2 * gridIdx N a) ^ 2
  k / ((2 : Nat) : K) * (mag - ((1 : Nat) : K)) / (mag * z) * r2sq

/-- `angularSpectrum(U, wvl, d1, d2, z)`:
`if z == 0: return U`; else `Q3 * ift2(Q2 * ft2(Q1 * U / mag, d1), df1)` -/
def angularSpectrumA (N : Nat) (w wi : Nat → C) (U : Nat → Nat → C) (wvl d1 d2 z : K) : Array C :=
  if isZero z then tabulate N U else
  let mag := d2 / d1
  let df1 := ((1 : Nat) : K) / (((N : Nat) : K) * d1)
  let s1 := tabulate N (fun a b => (CField.cis (asTheta1 N wvl d1 d2 z a b) : C) * U a b / CField.ofReal mag)
  let s2 := tabulate N (fun a b => (CField.cis (asTheta2 N wvl d1 d2 z a b) : C) * ft2' N w d1 (idx N s1) a b)
  tabulate N (fun a b => (CField.cis (asTheta3 N wvl d1 d2 z a b) : C) * ift2' N wi df1 (idx N s2) a b)
def angularSpectrum (N : Nat) (w wi : Nat → C) (U : Nat → Nat → C) (wvl d1 d2 z : K) : Nat → Nat → C :=
  idx N (angularSpectrumA N w wi U wvl d1 d2 z)

/-! ### oneStepFresnel -/

/-- phase `k/(2*z) * (x**2 + y**2)` on the grid of spacing `d` -/
def quadTheta (N : Nat) (wvl d z : K) (a b : Nat) : K :=
  wavevector wvl / (((2 : Nat) : K) * z) * ((gridIdx N b * d) ^ 2 + (gridIdx N a * d) ^ 2)

/-- `A = 1/(1j*wvl*z)` -/
def fresnelAmp (wvl z : K) : C :=
  (CField.ofReal ((1 : Nat) : K) : C) / ((CField.i (K := K) : C) * CField.ofReal wvl * CField.ofReal z)

/-- `oneStepFresnel(Uin, wvl, d1, z)`; output spacing `d2 = wvl*z/(N*d1)` -/
def oneStepFresnelA (N : Nat) (w : Nat → C) (U : Nat → Nat → C) (wvl d1 z : K) : Array C :=
  let d2 := wvl * z / (((N : Nat) : K) * d1)
  let s1 := tabulate N (fun a b => U a b * (CField.cis (quadTheta N wvl d1 z a b) : C))
  tabulate N (fun a b => fresnelAmp wvl z * (CField.cis (quadTheta N wvl d2 z a b) : C) * ft2' N w d1 (idx N s1) a b)
def oneStepFresnel (N : Nat) (w : Nat → C) (U : Nat → Nat → C) (wvl d1 z : K) : Nat → Nat → C :=
  idx N (oneStepFresnelA N w U wvl d1 z)

/-! ### twoStepFresnel -/

/-- intermediate-plane distance: `if 1 - m == 0: z/(1+m)  else: z/(1-m)` (fixes/C11-twostep-unit-magnification.diff; at the pinned
commit `try: z/(1-m) except ZeroDivisionError: z/(1+m)`, the same for Python floats, NaN output for NumPy scalars) -/
def twoStepDz1 (d1 d2 z : K) : K :=
  let m := d2 / d1
  if isZero (((1 : Nat) : K) - m) then z / (((1 : Nat) : K) + m) else z / (((1 : Nat) : K) - m)

/-- `d1a = wvl * abs(Dz1) / (N*d1)` -/
def twoStepD1a (N : Nat) (wvl d1 d2 z : K) : K :=
  wvl * Transc.abs (twoStepDz1 d1 d2 z) / (((N : Nat) : K) * d1)

/-- `twoStepFresnel` without the final point reflection (for even `N`: the function as it stood at the pinned commit) -/
def twoStepFresnel_pinnedA (N : Nat) (w : Nat → C) (U : Nat → Nat → C) (wvl d1 d2 z : K) : Array C :=
  let Dz1 := twoStepDz1 d1 d2 z
  let d1a := twoStepD1a N wvl d1 d2 z
  let s1 := tabulate N (fun a b => U a b * (CField.cis (quadTheta N wvl d1 Dz1 a b) : C))
  let itm := tabulate N (fun a b => fresnelAmp wvl Dz1 * (CField.cis (quadTheta N wvl d1a Dz1 a b) : C) * ft2' N w d1 (idx N s1) a b)
  let Dz2 := z - Dz1
  let s2 := tabulate N (fun a b => idx N itm a b * (CField.cis (quadTheta N wvl d1a Dz2 a b) : C))
  tabulate N (fun a b => fresnelAmp wvl Dz2 * (CField.cis (quadTheta N wvl d2 Dz2 a b) : C) * ft2' N w d1a (idx N s2) a b)
def twoStepFresnel_pinned (N : Nat) (w : Nat → C) (U : Nat → Nat → C) (wvl d1 d2 z : K) : Nat → Nat → C :=
  idx N (twoStepFresnel_pinnedA N w U wvl d1 d2 z)

/-- the repaired `twoStepFresnel`: `if Dz1 * Dz2 < 0: Uout = numpy.roll(Uout[::-1, ::-1], 1 - N % 2, axis=(0, 1))` -/
def twoStepFresnelA (N : Nat) (w : Nat → C) (U : Nat → Nat → C) (wvl d1 d2 z : K) : Array C :=
  let Dz1 := twoStepDz1 d1 d2 z
  let Dz2 := z - Dz1
  let out := twoStepFresnel_pinnedA N w U wvl d1 d2 z
  if Dz1 * Dz2 < ((0 : Nat) : K) then tabulate N (reflect N (idx N out)) else out
def twoStepFresnel (N : Nat) (w : Nat → C) (U : Nat → Nat → C) (wvl d1 d2 z : K) : Nat → Nat → C :=
  idx N (twoStepFresnelA N w U wvl d1 d2 z)

/-! ### lensAgainst -/

/-- `x2 = wvl * f * fX`, `fX = (arange(N) - N//2)/(N*d1)`; phase `k/(2*f) * (x2**2 + y2**2)` -/
def lensTheta (N : Nat) (wvl d1 f : K) (a b : Nat) : K :=
  let fX := fun i : Nat => gridIdx N i / (((N : Nat) : K) * d1)
  wavevector wvl / (((2 : Nat) : K) * f) * ((wvl * f * fX b) ^ 2 + (wvl * f * fX a) ^ 2)

/-- `exp(1j*k/(2*f) * (x2**2 + y2**2)) / (1j*wvl*f) * ft2(Uin, d1)` -/
def lensAgainstA (N : Nat) (w : Nat → C) (U : Nat → Nat → C) (wvl d1 f : K) : Array C :=
  tabulate N (fun a b => (CField.cis (lensTheta N wvl d1 f a b) : C)
      / ((CField.i (K := K) : C) * CField.ofReal wvl * CField.ofReal f) * ft2' N w d1 U a b)
def lensAgainst (N : Nat) (w : Nat → C) (U : Nat → Nat → C) (wvl d1 f : K) : Nat → Nat → C :=
  idx N (lensAgainstA N w U wvl d1 f)

end
end AoVerif.Propagation
