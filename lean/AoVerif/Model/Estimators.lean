/-
C19 — empirical estimators (Mathlib-free, scalar-polymorphic, mirrors the code that exists).

  aotools/turbulence/slopecovariance.py   calculate_structure_function(phase, nbOfPoint=None, step=None)
  aotools/turbulence/temporal_ps.py       calc_slope_temporalps(slope_data), get_tps_time_axis(frame_rate, n_frames)

Arrays are index functions with explicit lengths (a 2-D array `a` of shape (n0, n1) is `φ r c`); the output buffer of
the structure function is a real `Array K` that the loop writes into, so that the allocation is part of the model:
`sfLoop` takes the *initial contents* of the buffer as an argument (`numpy.empty` = arbitrary contents `u`,
`numpy.zeros` = `Array.replicate xm 0`).
-/
import AoVerif.Model.Scalar

namespace AoVerif.Model.Estimators
open AoVerif

/-- Python `range(start, stop, step)` for `step ≥ 1` (empty when `stop ≤ start`) -/
def pyRange (start stop step : Nat) : List Nat :=
  (List.range ((stop - start + step - 1) / step)).map (fun t => start + t * step)

/-- `xm = int(numpy.min([nbOfPoint, phase.shape[1] / step - 1]))` with `nbOfPoint = phase.shape[1] / 4` by default.
    (float division then truncation; for `n1 ≥ 1`, `step ≥ 1` and a natural `nbOfPoint` this is the value below:
    `int(n1/step − 1) = ⌊n1/step⌋ − 1` when `step ≤ n1` and `0` otherwise, and truncation commutes with `min`.) -/
def sfXm (nb : Option Nat) (n1 step : Nat) : Nat :=
  min (nb.getD (n1 / 4)) (n1 / step - 1)

section
variable {K : Type} [Add K] [Sub K] [Mul K] [Div K] [Neg K] [NatCast K] [OfScientific K] [HPow K Nat K]

/-- `numpy.mean((phase[0:-i, :] - phase[i:, :])**2)` for a phase of shape `(n0, n1)` and a lag `i ≥ 1`:
    both slices have `n0 - i` rows (none when `i ≥ n0`; the mean is then `0/0`). -/
def lagMean (n0 n1 : Nat) (φ : Nat → Nat → K) (i : Nat) : K :=
  sumTo (n0 - i) (fun r => sumTo n1 (fun c => (φ r c - φ (r + i) c) ^ (2 : Nat)))
    / ((((n0 - i) * n1 : Nat)) : K)

/-- the loop `for i in range(step, xm*step, step): sf_x[int(i/step)] = mean(...)` run on a buffer whose
    initial contents are `buf` -/
def sfLoop (n0 n1 : Nat) (φ : Nat → Nat → K) (step xm : Nat) (buf : Array K) : Array K :=
  (pyRange step (xm * step) step).foldl
    (fun b i => b.setIfInBounds (i / step) (lagMean n0 n1 φ i)) buf

/-- `calculate_structure_function` as REPAIRED (fixes/C19-sf-zero-lag.diff): the buffer is `numpy.zeros(xm)` -/
def calcSF (n0 n1 : Nat) (φ : Nat → Nat → K) (nb step : Option Nat) : Array K :=
  let st := step.getD 1
  let xm := sfXm nb n1 st
  sfLoop n0 n1 φ st xm (Array.replicate xm ((0 : Nat) : K))

/-- `calculate_structure_function` as PINNED: the buffer is `numpy.empty(xm)`, i.e. some array `u` of size `xm`
    whose contents the function does not control -/
def calcSFEmpty (n0 n1 : Nat) (φ : Nat → Nat → K) (nb step : Option Nat) (u : Array K) : Array K :=
  let st := step.getD 1
  sfLoop n0 n1 φ st (sfXm nb n1 st) u

end

section
variable {K : Type} [Add K] [Sub K] [Mul K] [Div K] [Neg K] [NatCast K] [OfScientific K] [HPow K Nat K] [Transc K]

/-- angle `2π k t / n` of the DFT kernel -/
def dftAngle (n k t : Nat) : K :=
  ((2 : Nat) : K) * Transc.pi * ((k * t : Nat) : K) / ((n : Nat) : K)

/-- real part of `numpy.fft.fft(x)[k] = Σ_t x_t e^{-2πi k t / n}` for real `x` -/
def dftRe (n : Nat) (x : Nat → K) (k : Nat) : K :=
  sumTo n (fun t => x t * Transc.cos (dftAngle n k t))

/-- imaginary part of `numpy.fft.fft(x)[k]` for real `x` -/
def dftIm (n : Nat) (x : Nat → K) (k : Nat) : K :=
  -(sumTo n (fun t => x t * Transc.sin (dftAngle n k t)))

/-- `abs(fft(x)[k])**2` -/
def pgram1 (n : Nat) (x : Nat → K) (k : Nat) : K :=
  dftRe n x k ^ (2 : Nat) + dftIm n x k ^ (2 : Nat)

/-- periodogram of a `(nF, nS)` block averaged over the last axis (sub-apertures), any bin `k` -/
def pgram (nF nS : Nat) (x : Nat → Nat → K) (k : Nat) : K :=
  sumTo nS (fun s => pgram1 nF (fun t => x t s) k) / ((nS : Nat) : K)

/-- the same quantity as PINNED (before fixes/C19-tps-single-square.diff): `tps = abs(fft)**2` is squared a second
    time (`tps = abs(tps)**2`) before the mean over sub-apertures.  Kept only to state what was wrong (D17). -/
def pgramPinned (nF nS : Nat) (x : Nat → Nat → K) (k : Nat) : K :=
  sumTo nS (fun s => (pgram1 nF (fun t => x t s) k) ^ (2 : Nat)) / ((nS : Nat) : K)

/-- number of bins kept: `[..., :int(n_frames/2), :]` -/
def tpsLen (nF : Nat) : Nat := nF / 2

/-- `calc_slope_temporalps(x)[0]` (as REPAIRED, fixes/C19-tps-single-square.diff) for one `(nF, nS)` block:
    bins `k < tpsLen nF` of `pgram` -/
def tpsMean (nF nS : Nat) (x : Nat → Nat → K) : Array K :=
  Array.ofFn (n := tpsLen nF) (fun k => pgram nF nS x k.val)

/-- `calc_slope_temporalps(x)[1]`: `tps.std(-1)/sqrt(nS)` (population standard deviation over sub-apertures) -/
def tpsErr1 (nF nS : Nat) (x : Nat → Nat → K) (k : Nat) : K :=
  let m := pgram nF nS x k
  Transc.sqrt (sumTo nS (fun s => (pgram1 nF (fun t => x t s) k - m) ^ (2 : Nat)) / ((nS : Nat) : K))
    / Transc.sqrt ((nS : Nat) : K)

def tpsErr (nF nS : Nat) (x : Nat → Nat → K) : Array K :=
  Array.ofFn (n := tpsLen nF) (fun k => tpsErr1 nF nS x k.val)

/-- block `b` of a row-major array of shape `(lead…, nF, nS)` flattened to `d` -/
def block (nF nS : Nat) (d : Nat → K) (b : Nat) : Nat → Nat → K :=
  fun t s => d ((b * nF + t) * nS + s)

/-- `calc_slope_temporalps` on an array of shape `(lead…, nF, nS)` (`lead` = product of the leading dimensions),
    output flattened row-major: shape `(lead…, nF/2)` -/
def tpsMeanBatch (lead nF nS : Nat) (d : Nat → K) : Array K :=
  Array.ofFn (n := lead * tpsLen nF) (fun o => pgram nF nS (block nF nS d (o.val / tpsLen nF)) (o.val % tpsLen nF))

def tpsErrBatch (lead nF nS : Nat) (d : Nat → K) : Array K :=
  Array.ofFn (n := lead * tpsLen nF) (fun o => tpsErr1 nF nS (block nF nS d (o.val / tpsLen nF)) (o.val % tpsLen nF))

/-- `numpy.fft.fftfreq(n, d)[k]`: `results[:N] = arange(0, N)`, `results[N:] = arange(-(n//2), 0)` with
    `N = (n-1)//2 + 1`, all times `val = 1.0/(n*d)` -/
def fftfreq (n : Nat) (d : K) (k : Nat) : K :=
  (if k < (n - 1) / 2 + 1 then ((k : Nat) : K) else -(((n - k : Nat)) : K)) * (((1 : Nat) : K) / (((n : Nat) : K) * d))

/-- `get_tps_time_axis(frame_rate, n_frames) = fftfreq(n_frames, 1./frame_rate)[:int(n_frames/2)]` -/
def tpsAxis (frameRate : K) (nF : Nat) : Array K :=
  Array.ofFn (n := tpsLen nF) (fun k => fftfreq nF (((1 : Nat) : K) / frameRate) k.val)

end

end AoVerif.Model.Estimators
