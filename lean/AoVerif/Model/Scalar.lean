/-
Scalar abstraction (DESIGN §2.1).  Mathlib-free.

Model definitions are polymorphic in the scalar `K`.  Ordinary arithmetic is requested through
the *standard* classes (`Add K`, `Mul K`, …, `OfScientific K` for decimal literals) so that at
`K = ℝ` they resolve to Mathlib's own instances (no diamonds); everything that is not field
arithmetic lives in `Transc K`.  `Transc Float` (below) is what the correspondence driver runs;
`Transc ℝ` lives in `Lemmas/RealScalar.lean` and is what the theorems are about.
-/
namespace AoVerif

/-- transcendental / special functions a closed-form model may use -/
class Transc (K : Type) where
  pi    : K
  sqrt  : K → K
  exp   : K → K
  log10 : K → K
  rpow  : K → K → K          -- real power `x ** y`
  abs   : K → K
  cos   : K → K
  sin   : K → K
  gamma : K → K              -- Euler Γ
  kv    : K → K → K          -- modified Bessel function of the second kind K_ν(x)

/-- left-to-right accumulation `f 0 + f 1 + … + f (n-1)` starting from `zero`, like a Python loop -/
def sumToFrom {K : Type} [Add K] (zero : K) (n : Nat) (f : Nat → K) : K :=
  (List.range n).foldl (fun acc i => acc + f i) zero

def sumTo {K : Type} [Add K] [OfScientific K] (n : Nat) (f : Nat → K) : K :=
  sumToFrom (0.0 : K) n f

/-! ### `Float` instance (execution side) -/

instance : HPow Float Nat Float := ⟨fun x n => Float.pow x n.toFloat⟩
instance : NatCast Float := ⟨Nat.toFloat⟩

namespace FloatImpl

/-- Lanczos approximation (g = 7, n = 9) of Γ for x > 0.5, reflection otherwise. -/
def lanczosCoef : List Float :=
  [0.99999999999980993, 676.5203681218851, -1259.1392167224028, 771.32342877765313,
   -176.61502916214059, 12.507343278686905, -0.13857109526572012, 9.9843695780195716e-6,
   1.5056327351493116e-7]

def piF : Float := 3.141592653589793

partial def gamma (x : Float) : Float :=
  if x < 0.5 then piF / (Float.sin (piF * x) * gamma (1.0 - x))
  else
    let x := x - 1.0
    let t := x + 7.5
    let a := (List.range 8).foldl
      (fun acc i => acc + lanczosCoef[i+1]! / (x + (i+1).toFloat)) lanczosCoef[0]!
    Float.sqrt (2.0 * piF) * Float.pow t (x + 0.5) * Float.exp (-t) * a

/-- K_ν(x) = ∫₀^∞ exp(−x cosh t) cosh(ν t) dt by the trapezoid rule (doubly exponential decay). -/
def kv (nu x : Float) : Float :=
  if x ≤ 0.0 then (1.0 : Float) / 0.0 else
  let h : Float := 1.0 / 16.0
  -- integrand negligible once x cosh t > 745 + ν t
  let tmax : Float := Float.log (2.0 * 800.0 / x + 2.0) + 1.0
  let n : Nat := (tmax / h).ceil.toUInt64.toNat
  let body := (List.range n).foldl (fun acc i =>
      let t := (i+1).toFloat * h
      acc + Float.exp (-(x * Float.cosh t)) * Float.cosh (nu * t)) 0.0
  h * (0.5 * Float.exp (-x) + body)

end FloatImpl

instance : Transc Float where
  pi    := FloatImpl.piF
  sqrt  := Float.sqrt
  exp   := Float.exp
  log10 := Float.log10
  rpow  := Float.pow
  abs   := Float.abs
  cos   := Float.cos
  sin   := Float.sin
  gamma := FloatImpl.gamma
  kv    := FloatImpl.kv

end AoVerif
