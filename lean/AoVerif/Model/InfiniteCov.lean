/-
Model of the construction half of `aotools/turbulence/infinitephasescreen.py` (C04) — Mathlib-free.

What is mirrored (line numbers of the pinned tree):
  * `find_allowed_size` (:308-323), `PhaseScreen.set_X_coords` (:70-77),
    `PhaseScreenVonKarman.set_stencil_coords` (:298-305), `PhaseScreen.set_stencil_coords` (Fried, :79-107);
  * positions = coords * pixel_scale, `calc_seperations[_fast]` (:109-126, :429-441);
  * `make_covmats` (:130-139) for an arbitrary covariance function `cov` (instantiated with the T1-generated
    `Gen.phase_covariance · r0 L0` by the driver and by the theorems);
  * `makeAMatrix` (:141-155) with the Cholesky solve as a parameter `inv`;
  * `makeBMatrix` (:157-171) with the SVD as parameters `u`, `w`;
  * `get_new_row` of both variants (:188-195, :411-421).
Arrays are index functions with explicit sizes; only in-range indices are ever read.
The `add_row` state machine is C05's (Model/Infinite.lean) and is not duplicated here.
-/
import AoVerif.Model.Scalar
namespace AoVerif.InfiniteCov

/-! ### sizes and coordinates (pure `Nat`/`Int`) -/

/-- the `while (2 ** n + 1) < nx_size: n += 1` loop of `find_allowed_size`, with fuel -/
def allowedExpAux (req : Nat) : Nat → Nat → Nat
  | 0, n => n
  | fuel + 1, n => if 2 ^ n + 1 < req then allowedExpAux req fuel (n + 1) else n

/-- the exponent `n` at which the loop of `find_allowed_size` stops (`req` iterations always suffice) -/
def allowedExp (req : Nat) : Nat := allowedExpAux req req 0

/-- `find_allowed_size(nx_size)` -/
def findAllowedSize (req : Nat) : Nat := 2 ^ allowedExp req + 1

/-- `set_X_coords`: the new row sits at row `-1`, columns `0 … nx-1` -/
def xCoords (nx : Nat) : List (Int × Int) := (List.range nx).map (fun (j : Nat) => ((-1 : Int), Int.ofNat j))

/-- `numpy.array(numpy.where(mask == 1)).T` on a `rows × cols` array: row-major list of the set positions -/
def whereMask (rows cols : Nat) (mask : Nat → Nat → Bool) : List (Nat × Nat) :=
  (List.range rows).flatMap fun r => (List.range cols).filterMap fun c => if mask r c then some (r, c) else none

/-- von Kármán stencil: `stencil[:n_columns] = 1` on an `nx × nx` array -/
def vkMask (ncol : Nat) : Nat → Nat → Bool := fun r _ => decide (r < ncol)
def vkStencil (nx ncol : Nat) : List (Nat × Nat) := whereMask nx nx (vkMask ncol)

/-- the `while True` loop of `set_stencil_coords` that finds `max_n`, with fuel:
`if 2 ** (max_n - 1) + 1 >= nx_size: max_n -= 1; break`, else `max_n += 1` -/
def friedMaxNAux (nx : Nat) : Nat → Nat → Nat
  | 0, k => k - 1
  | fuel + 1, k => if 2 ^ (k - 1) + 1 ≥ nx then k - 1 else friedMaxNAux nx fuel (k + 1)
def friedMaxN (nx : Nat) : Nat := friedMaxNAux nx nx 1

/-- row written for level `n`: `col - 1` with `col = int(2 ** (n - 1) + 1)` (`2 ** -1 = 0.5`, `int(1.5) = 1`) -/
def friedRow (n : Nat) : Nat := if n = 0 then 0 else 2 ^ (n - 1)

/-- `round(a / b)` to the nearest integer, ties to even (`numpy.round`), for naturals `a`, `b > 0` -/
def roundHalfEvenDiv (a b : Nat) : Nat :=
  let q := a / b
  let r := a % b
  if 2 * r < b then q else if b < 2 * r then q + 1 else if q % 2 = 0 then q else q + 1

/-- `numpy.round(numpy.linspace(0, nx - 1, npts))[k]` (exact rational reading), `npts ≥ 2` -/
def linspaceRound (nx npts k : Nat) : Nat := roundHalfEvenDiv (k * (nx - 1)) (npts - 1)

/-- the Fried stencil as a mask: level rows `n = 0 … max_n` sampled at `2^(max_n-n)+1` points, and the tail points
at rows `t*nx - 1`, `t = 1 … factor`, column `nx // 2`.  Writes only ever set entries to 1, so the order is irrelevant. -/
def friedMask (nx factor : Nat) : Nat → Nat → Bool := fun r c =>
  let maxN := friedMaxN nx
  ((List.range (maxN + 1)).any fun n =>
      decide (r = friedRow n) &&
      (List.range (2 ^ (maxN - n) + 1)).any fun k => decide (c = linspaceRound nx (2 ^ (maxN - n) + 1) k))
  || ((List.range factor).any fun t => decide (r = (t + 1) * nx - 1) && decide (c = nx / 2))

/-- `stencil_coords` of `PhaseScreenKolmogorov`: `where` over the `(factor*nx) × nx` stencil array -/
def friedStencil (nx factor : Nat) : List (Nat × Nat) := whereMask (factor * nx) nx (friedMask nx factor)

def toIntCoords (l : List (Nat × Nat)) : List (Int × Int) := l.map fun p => (Int.ofNat p.1, Int.ofNat p.2)

/-- `numpy.append(stencil_positions, X_positions, axis=0)` in coordinates: stencil first, then the new row -/
def allCoords (stencil : List (Nat × Nat)) (nx : Nat) : List (Int × Int) := toIntCoords stencil ++ xCoords nx

/-! ### positions, separations, covariance blocks (scalar-polymorphic) -/

variable {K : Type} [Add K] [Sub K] [Mul K] [Div K] [Neg K] [NatCast K] [OfScientific K] [HPow K Nat K] [Transc K]

/-- integer coordinate as a scalar (`numpy` converts the int64 coordinates to float64 exactly) -/
def ofInt (z : Int) : K := if z < 0 then -((z.natAbs : Nat) : K) else ((z.toNat : Nat) : K)

/-- the body of `calc_seperations_fast` on positions `coords * pixel_scale` -/
def sep (px : K) (p q : Int × Int) : K :=
  let x1 : K := ofInt p.1 * px
  let y1 : K := ofInt p.2 * px
  let x2 : K := ofInt q.1 * px
  let y2 : K := ofInt q.2 * px
  let delta_x : K := x2 - x1
  let delta_y : K := y2 - y1
  Transc.sqrt (delta_x ^ (2 : Nat) + delta_y ^ (2 : Nat))

/-- `cov_mat[i, j]` for the position list `pos` (stencil points, then the new row);
`r32` is a rounding hook applied to the separation before the covariance function: the pinned tree evaluated
`phase_covariance` on `numpy.float32(r)`; the repaired code (4518b2c) uses `numpy.float64(r)`, so both the driver and the exact
model instantiate it with the identity.  The theorems that mention it hold for every `r32`. -/
def covMat (cov : K → K) (r32 : K → K) (px : K) (pos : Nat → Int × Int) (i j : Nat) : K :=
  cov (r32 (sep px (pos i) (pos j)))

/-- `cov_mat[:nz, :nz]`, `[nz:, nz:]`, `[:nz, nz:]`, `[nz:, :nz]` -/
def blockZZ (S : Nat → Nat → K) (_nz : Nat) : Nat → Nat → K := fun i j => S i j
def blockXX (S : Nat → Nat → K) (nz : Nat) : Nat → Nat → K := fun i j => S (nz + i) (nz + j)
def blockZX (S : Nat → Nat → K) (nz : Nat) : Nat → Nat → K := fun i j => S i (nz + j)
def blockXZ (S : Nat → Nat → K) (nz : Nat) : Nat → Nat → K := fun i j => S (nz + i) j

/-- `numpy.dot` of an `· × m` by an `m × ·` array -/
def matMul (m : Nat) (a b : Nat → Nat → K) : Nat → Nat → K := fun i k => sumTo m (fun l => a i l * b l k)
def matVec (m : Nat) (a : Nat → Nat → K) (v : Nat → K) : Nat → K := fun i => sumTo m (fun l => a i l * v l)

/-- `makeAMatrix`: `A = cov_xz . inv_cov_zz`, `inv` being what `cho_solve(cho_factor(cov_zz), I)` returned -/
def aMat (nz : Nat) (xz inv : Nat → Nat → K) : Nat → Nat → K := matMul nz xz inv

/-- `BBt = cov_xx - A . cov_zx` -/
def bbt (nz : Nat) (xx A zx : Nat → Nat → K) : Nat → Nat → K := fun i j => xx i j - matMul nz A zx i j

/-- `L_mat`: zeros with `sqrt(W)` on the diagonal -/
def lMat (w : Nat → K) : Nat → Nat → K := fun l k => if l = k then Transc.sqrt (w k) else ((0 : Nat) : K)

/-- `makeBMatrix`: `B = u . L_mat`, `u`, `w` being what `numpy.linalg.svd(BBt)` returned -/
def bMat (nx : Nat) (u : Nat → Nat → K) (w : Nat → K) : Nat → Nat → K := matMul nx u (lMat w)

/-- `stencil_data = _scrn[(stencil_coords[:,0], stencil_coords[:,1])]` -/
def stencilData {α : Type} (scrn : Nat → Nat → α) (coords : Nat → Nat × Nat) : Nat → α :=
  fun l => scrn (coords l).1 (coords l).2

/-- `PhaseScreen.get_new_row`: `A.dot(stencil_data) + B.dot(random_data)` -/
def newRow (nz nx : Nat) (A B : Nat → Nat → K) (Z b : Nat → K) : Nat → K :=
  fun i => matVec nz A Z i + matVec nx B b i

/-- `PhaseScreenKolmogorov.get_new_row`:
`A.dot(stencil_data - reference_value) + B.dot(random_data) + reference_value` -/
def newRowFried (nz nx : Nat) (A B : Nat → Nat → K) (Z : Nat → K) (ref : K) (b : Nat → K) : Nat → K :=
  fun i => matVec nz A (fun l => Z l - ref) i + matVec nx B b i + ref

/-- the Fried row as a function of the screen: stencil read at `coords`, reference at `reference_coord = (1, 1)` -/
def newRowFriedOfScreen (nz nx : Nat) (A B : Nat → Nat → K) (coords : Nat → Nat × Nat) (scrn : Nat → Nat → K)
    (b : Nat → K) : Nat → K :=
  newRowFried nz nx A B (stencilData scrn coords) (scrn 1 1) b

/-- the von Kármán row as a function of the screen -/
def newRowOfScreen (nz nx : Nat) (A B : Nat → Nat → K) (coords : Nat → Nat × Nat) (scrn : Nat → Nat → K)
    (b : Nat → K) : Nat → K :=
  newRow nz nx A B (stencilData scrn coords) b

end AoVerif.InfiniteCov
