/-
Model of `aotools/turbulence/phasescreen.py` — `ft_phase_screen` and `ft_sh_phase_screen` (C07).  Mathlib-free.

The screen is modelled as a function of the Gaussian draws.  `K` is the real scalar, `C` the complex type
(`Cx K` when the driver runs it at `Float`, Mathlib's `ℂ` in the theorems; `CxOps` is the only bridge between the
two).  The PSD expression is NOT written here: it is `Gen.psd_ft_phase_screen` / `Gen.psd_ft_sh_phase_screen`,
regenerated from the source by translator T1 on every run.

Index conventions (numpy `meshgrid(fx, fx)`, default `indexing="xy"`): for an array element `[i, j]`
(`i` = row = axis 0, `j` = column = axis 1) `fx[i,j] = fgrid j`, `fy[i,j] = fgrid i`.
-/
import AoVerif.Model.Fourier
import AoVerif.Gen.Formulas
namespace AoVerif.Screen
open AoVerif AoVerif.Fourier

/-- what the model needs from a complex type over the real scalar `K` -/
class CxOps (K : Type) (C : Type) where
  ofParts : K → K → C
  rePart : C → K

instance {K : Type} : CxOps K (Cx K) := ⟨fun x y => ⟨x, y⟩, fun z => z.re⟩

section real
variable {K : Type} [Add K] [Sub K] [Mul K] [Div K] [Neg K] [NatCast K] [OfScientific K] [HPow K Nat K] [Transc K]

/-- `del_f = 1./(N*delta)` -/
def delF (N : Nat) (delta : K) : K := ((1 : Nat) : K) / ((N : K) * delta)

/-- `fx = numpy.arange(-N/2., N/2.) * del_f` : sample `k` is `(k − N/2)·del_f` -/
def fgrid (N : Nat) (delta : K) (k : Nat) : K := ((k : K) - (N : K) / ((2 : Nat) : K)) * delF N delta

/-- `fm = 5.92/l0/(2*numpy.pi)` -/
def fmOf (l0 : K) : K := (5.92 : K) / l0 / (((2 : Nat) : K) * (Transc.pi : K))
/-- `f0 = 1./L0` -/
def f0Of (L0 : K) : K := ((1 : Nat) : K) / L0

/-- `f = numpy.sqrt(fx**2. + fy**2.)` at `[i, j]` -/
def fabs (N : Nat) (delta : K) (i j : Nat) : K :=
  Transc.sqrt ((fgrid N delta j) ^ (2 : Nat) + (fgrid N delta i) ^ (2 : Nat))

/-- `PSD_phi` after `PSD_phi[int(N/2), int(N/2)] = 0` -/
def psdHi (N : Nat) (r0 delta L0 l0 : K) (i j : Nat) : K :=
  if i = N / 2 ∧ j = N / 2 then ((0 : Nat) : K)
  else Gen.psd_ft_phase_screen (fabs N delta i j) (fmOf l0) (f0Of L0) r0

/-- `numpy.sqrt(PSD_phi)*del_f` -/
def ampHi (N : Nat) (r0 delta L0 l0 : K) (i j : Nat) : K :=
  Transc.sqrt (psdHi N r0 delta L0 l0 i j) * delF N delta

/-- angle of the `m`-th inverse twiddle `e^{+2πi m/N}` of `numpy.fft.ifft2` -/
def twAngle (N : Nat) (m : Nat) : K := ((2 : Nat) : K) * (Transc.pi : K) * (m : K) / (N : K)

/-- phase of frequency sample `(i,j)` at pixel `(p,q)` once all the shifts are resolved (even `N`) -/
def theta (N : Nat) (i j p q : Nat) : K :=
  ((2 : Nat) : K) * (Transc.pi : K)
    * (((i : K) - (N : K) / ((2 : Nat) : K)) * ((p : K) - (N : K) / ((2 : Nat) : K))
      + ((j : K) - (N : K) / ((2 : Nat) : K)) * ((q : K) - (N : K) / ((2 : Nat) : K))) / (N : K)

/-- the screen as an explicit real-linear map of the draws: `Σ_{ij} amp_ij (a_ij cos θ − b_ij sin θ)` -/
def ftScreenLin (N : Nat) (r0 delta L0 l0 : K) (a b : Nat → Nat → K) (p q : Nat) : K :=
  sumTo N (fun i => sumTo N (fun j =>
    ampHi N r0 delta L0 l0 i j * (a i j * Transc.cos (theta N i j p q) - b i j * Transc.sin (theta N i j p q))))

/-! ### sub-harmonics -/

/-- `coords = numpy.arange(-N/2,N/2)*delta` -/
def coord (N : Nat) (delta : K) (k : Nat) : K := ((k : K) - (N : K) / ((2 : Nat) : K)) * delta

/-- `del_f = 1 / (3**p*D)`, `D = N*delta`; `pp = p − 1 ∈ {0,1,2}` -/
def delFsh (N : Nat) (delta : K) (pp : Nat) : K :=
  ((1 : Nat) : K) / (((3 ^ (pp + 1) : Nat) : K) * ((N : K) * delta))

/-- `fx = numpy.arange(-1,2) * del_f` -/
def fgridSh (N : Nat) (delta : K) (pp m : Nat) : K := ((m : K) - ((1 : Nat) : K)) * delFsh N delta pp

def fabsSh (N : Nat) (delta : K) (pp i j : Nat) : K :=
  Transc.sqrt ((fgridSh N delta pp j) ^ (2 : Nat) + (fgridSh N delta pp i) ^ (2 : Nat))

/-- `PSD_phi` of grid `p` after `PSD_phi[1,1] = 0` -/
def psdLo (N : Nat) (r0 delta L0 l0 : K) (pp i j : Nat) : K :=
  if i = 1 ∧ j = 1 then ((0 : Nat) : K)
  else Gen.psd_ft_sh_phase_screen (fabsSh N delta pp i j) (fmOf l0) (f0Of L0) r0

def ampLo (N : Nat) (r0 delta L0 l0 : K) (pp i j : Nat) : K :=
  Transc.sqrt (psdLo N r0 delta L0 l0 pp i j) * delFsh N delta pp

/-- argument of `numpy.exp(1j*2*numpy.pi*(fx[i,j]*x+fy[i,j]*y))` at pixel `[u, v]` (`x = coords[v]`, `y = coords[u]`) -/
def phaseLo (N : Nat) (delta : K) (pp i j u v : Nat) : K :=
  ((2 : Nat) : K) * (Transc.pi : K) * (fgridSh N delta pp j * coord N delta v + fgridSh N delta pp i * coord N delta u)

/-- the un-centred low-frequency screen as an explicit real-linear map of its 54 draws -/
def loRawLin (N : Nat) (r0 delta L0 l0 : K) (la lb : Nat → Nat → Nat → K) (u v : Nat) : K :=
  sumTo 3 (fun pp => sumTo 3 (fun i => sumTo 3 (fun j =>
    ampLo N r0 delta L0 l0 pp i j
      * (la pp i j * Transc.cos (phaseLo N delta pp i j u v) - lb pp i j * Transc.sin (phaseLo N delta pp i j u v)))))

/-- `x.mean()` of an `N × N` array -/
def mean2 (N : Nat) (x : Nat → Nat → K) : K :=
  sumTo N (fun u => sumTo N (fun v => x u v)) / ((N : K) * (N : K))

/-- `x - x.mean()` -/
def centre (N : Nat) (x : Nat → Nat → K) (u v : Nat) : K := x u v - mean2 N x

def loScreenLin (N : Nat) (r0 delta L0 l0 : K) (la lb : Nat → Nat → Nat → K) (u v : Nat) : K :=
  centre N (loRawLin N r0 delta L0 l0 la lb) u v

/-! ### threading of the generator stream `g` (the order in which the code draws) -/

/-- `R.normal(size=(N,N))` first call: the real parts, row-major -/
def hiA (N : Nat) (g : Nat → K) (i j : Nat) : K := g (i * N + j)
/-- second call: the imaginary parts -/
def hiB (N : Nat) (g : Nat → K) (i j : Nat) : K := g (N * N + i * N + j)
/-- sub-harmonic grid `pp`: `R.normal(size=(3,3))` (real parts) then `R.normal(size=(3,3))` (imaginary parts),
starting at stream position `off` -/
def loA (off : Nat) (g : Nat → K) (pp i j : Nat) : K := g (off + 18 * pp + 3 * i + j)
def loB (off : Nat) (g : Nat → K) (pp i j : Nat) : K := g (off + 18 * pp + 9 + 3 * i + j)

/-- stream offset of the sub-harmonic draws: `ft_sh_phase_screen` builds ONE generator `R` (from the int seed, or the
injected `Generator` itself) and hands it to `ft_phase_screen`, which consumes `2N²` draws before the sub-harmonics
are drawn.  (Pinned tree, before fix C07-sh-seed-reuse: with an int seed `ft_phase_screen` was re-seeded with the same
seed, so the sub-harmonic draws started again at position 0 — `shOffsetPinned`.) -/
def shOffset (N : Nat) : Nat := 2 * (N * N)
def shOffsetPinned (N : Nat) (intSeed : Bool) : Nat := if intSeed then 0 else 2 * (N * N)

end real

section fftobject
variable {C : Type} [Add C] [Mul C] [OfScientific C]

/-- `phasescreen.ift2(G, delta_f, FFT)` WITH an FFT object, one axis: `fftshift(FFT(fftshift(G))) * (N*delta_f)**2` — NOT the
shift pair of the default branch (`ifftshift(ifft2(fftshift(G)))`).  The object is a parameter of the code; its contract
here is "computes `numpy.fft.ifft2`" (what the docstring's "accelerated FFT object" means and what the harness passes). -/
def ift1_psFFT (n : Nat) (wi : Nat → C) (ninv : C) (nC : C) (delta_f : C) (x : Nat → C) : Nat → C :=
  fun j => fftshift n (idft n wi ninv (fftshift n x)) j * nC * delta_f
def ift2_psFFT (n : Nat) (wi : Nat → C) (ninv nC : C) (delta_f : C) (x : Nat → Nat → C) : Nat → Nat → C :=
  fun a b => ift1_psFFT n wi ninv nC delta_f (fun a' => ift1_psFFT n wi ninv nC delta_f (fun b' => x a' b') b) a

end fftobject

section complex
variable {K : Type} [Add K] [Sub K] [Mul K] [Div K] [Neg K] [NatCast K] [OfScientific K] [HPow K Nat K] [Transc K]
variable (C : Type) [Add C] [Mul C] [OfScientific C] [CxOps K C]

/-- `cos t + i sin t` -/
def cisC (t : K) : C := CxOps.ofParts (Transc.cos t) (Transc.sin t)

/-- `cn = (R.normal(size=(N,N)) + 1j*R.normal(size=(N,N))) * numpy.sqrt(PSD_phi) * del_f` -/
def cnHi (N : Nat) (r0 delta L0 l0 : K) (a b : Nat → Nat → K) (i j : Nat) : C :=
  CxOps.ofParts (a i j * Transc.sqrt (psdHi N r0 delta L0 l0 i j) * delF N delta)
           (b i j * Transc.sqrt (psdHi N r0 delta L0 l0 i j) * delF N delta)

/-- `ft_phase_screen`: `ift2(cn, 1).real`, with `phasescreen.ift2 = ifftshift(ifft2(fftshift(G))) * (N*1)**2` -/
def ftScreen (N : Nat) (r0 delta L0 l0 : K) (a b : Nat → Nat → K) (p q : Nat) : K :=
  CxOps.rePart (K := K) (C := C)
    (ift2_ps N (fun m => cisC C (twAngle N m : K))
      (CxOps.ofParts (((1 : Nat) : K) / (N : K)) ((0 : Nat) : K))
      (CxOps.ofParts (N : K) ((0 : Nat) : K))
      (CxOps.ofParts ((1 : Nat) : K) ((0 : Nat) : K))
      (cnHi C N r0 delta L0 l0 a b) p q)

/-- `ft_phase_screen(..., FFT=<inverse transform>)` -/
def ftScreenFFT (N : Nat) (r0 delta L0 l0 : K) (a b : Nat → Nat → K) (p q : Nat) : K :=
  CxOps.rePart (K := K) (C := C)
    (ift2_psFFT N (fun m => cisC C (twAngle N m : K))
      (CxOps.ofParts (((1 : Nat) : K) / (N : K)) ((0 : Nat) : K))
      (CxOps.ofParts (N : K) ((0 : Nat) : K))
      (CxOps.ofParts ((1 : Nat) : K) ((0 : Nat) : K))
      (cnHi C N r0 delta L0 l0 a b) p q)

def cnLo (N : Nat) (r0 delta L0 l0 : K) (la lb : Nat → Nat → Nat → K) (pp i j : Nat) : C :=
  CxOps.ofParts (la pp i j * Transc.sqrt (psdLo N r0 delta L0 l0 pp i j) * delFsh N delta pp)
           (lb pp i j * Transc.sqrt (psdLo N r0 delta L0 l0 pp i j) * delFsh N delta pp)

/-- `phs_lo` before `.real`: the three `SH` accumulations -/
def loRawC (N : Nat) (r0 delta L0 l0 : K) (la lb : Nat → Nat → Nat → K) (u v : Nat) : C :=
  sumTo 3 (fun pp => sumTo 3 (fun i => sumTo 3 (fun j =>
    cnLo C N r0 delta L0 l0 la lb pp i j * cisC C (phaseLo N delta pp i j u v : K))))

/-- `phs_lo.real - phs_lo.real.mean()` -/
def loScreen (N : Nat) (r0 delta L0 l0 : K) (la lb : Nat → Nat → Nat → K) (u v : Nat) : K :=
  centre N (fun u' v' => CxOps.rePart (K := K) (C := C) (loRawC C N r0 delta L0 l0 la lb u' v')) u v

/-- `ft_sh_phase_screen` for separately given draws: `phs_lo + phs_hi` -/
def shScreen (N : Nat) (r0 delta L0 l0 : K) (a b : Nat → Nat → K) (la lb : Nat → Nat → Nat → K)
    (u v : Nat) : K :=
  loScreen C N r0 delta L0 l0 la lb u v + ftScreen C N r0 delta L0 l0 a b u v

/-- `ft_phase_screen` as a function of the generator stream -/
def ftScreenStream (N : Nat) (r0 delta L0 l0 : K) (g : Nat → K) (p q : Nat) : K :=
  ftScreen C N r0 delta L0 l0 (hiA N g) (hiB N g) p q

/-- `ft_sh_phase_screen` as a function of the generator stream -/
def shScreenStream (N : Nat) (r0 delta L0 l0 : K) (g : Nat → K) (u v : Nat) : K :=
  shScreen C N r0 delta L0 l0 (hiA N g) (hiB N g) (loA (shOffset N) g) (loB (shOffset N) g) u v

/-- `ft_sh_phase_screen(..., FFT=<inverse transform>)`: the object is only handed on to `ft_phase_screen` -/
def shScreenFFT (N : Nat) (r0 delta L0 l0 : K) (a b : Nat → Nat → K) (la lb : Nat → Nat → Nat → K)
    (u v : Nat) : K :=
  loScreen C N r0 delta L0 l0 la lb u v + ftScreenFFT C N r0 delta L0 l0 a b u v

def ftScreenFFTStream (N : Nat) (r0 delta L0 l0 : K) (g : Nat → K) (p q : Nat) : K :=
  ftScreenFFT C N r0 delta L0 l0 (hiA N g) (hiB N g) p q

def shScreenFFTStream (N : Nat) (r0 delta L0 l0 : K) (g : Nat → K) (u v : Nat) : K :=
  shScreenFFT C N r0 delta L0 l0 (hiA N g) (hiB N g) (loA (shOffset N) g) (loB (shOffset N) g) u v

/-- the pinned (pre-fix) behaviour, kept to state what was wrong: `intSeed = true` re-reads the stream from position 0 -/
def shScreenStreamPinned (intSeed : Bool) (N : Nat) (r0 delta L0 l0 : K) (g : Nat → K) (u v : Nat) : K :=
  shScreen C N r0 delta L0 l0 (hiA N g) (hiB N g) (loA (shOffsetPinned N intSeed) g) (loB (shOffsetPinned N intSeed) g) u v

end complex

end AoVerif.Screen
