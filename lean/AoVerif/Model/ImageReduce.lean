/-
C16 model — binning, spline zoom, azimuthal average, encircled energy.  Mathlib-free, computable,
scalar-polymorphic; mirrors `aotools/interpolation.py` (binImgs, zoom, zoom_rbs) and
`aotools/image_processing/psf.py` (azimuthal_average, encircled_energy) together with the part of
`aotools/functions/pupil.py:circle` they use.

Images are index functions `row → col → value` with explicit dimensions (proof side: any commutative
monoid / ordered field; execution side: `Int` / `Float`, tabulated by the driver).
-/
import AoVerif.Model.Scalar

namespace AoVerif.ImageReduce

/-! ### binImgs -/
section Bin
variable {α : Type} [Add α]

/-- `tmp = zeros(...); for i in range(n): tmp += data[..., i::n]`.
Element `c` of the strided view `data[..., i::n]` is `data[..., i + n*c]`. -/
def binCols (zero : α) (n : Nat) (img : Nat → Nat → α) : Nat → Nat → α :=
  fun r c => sumToFrom zero n (fun i => img r (i + n * c))

/-- `out = zeros(...); for i in range(n): out += tmp[..., i::n, :]` -/
def binRows (zero : α) (n : Nat) (tmp : Nat → Nat → α) : Nat → Nat → α :=
  fun r c => sumToFrom zero n (fun i => tmp (i + n * r) c)

/-- the `len(data.shape) == 2` path of `binImgs`; output shape `(rows / n, cols / n)` -/
def binImgs2 (zero : α) (n : Nat) (img : Nat → Nat → α) : Nat → Nat → α :=
  binRows zero n (binCols zero n img)

/-- the N-D path of `binImgs` (`data[..., i::n]`, `tmp[..., i::n, :]`): `ι` indexes all leading axes -/
def binImgsN {ι : Type} (zero : α) (n : Nat) (stack : ι → Nat → Nat → α) : ι → Nat → Nat → α :=
  let tmp : ι → Nat → Nat → α := fun b r c => sumToFrom zero n (fun i => stack b r (i + n * c))
  fun b r c => sumToFrom zero n (fun i => tmp b (i + n * r) c)

end Bin

/-! ### numpy.linspace(0, stop, num) -/
section Lin
variable {K : Type} [NatCast K] [Mul K] [Div K]

/-- `numpy.linspace(0, stop, num)[i]`: `arange(num) * (stop / (num-1))`, last element overwritten by `stop`;
`num = 1` gives `[0.]`. -/
def linspace0 (stop : K) (num : Nat) (i : Nat) : K :=
  if num ≤ 1 then ((0 : Nat) : K)
  else if i + 1 = num then stop
  else (i : K) * (stop / ((num - 1 : Nat) : K))

end Lin

/-! ### zoom / zoom_rbs (after the fix of D10/D11) -/

/-- The external kernel `RectBivariateSpline(arange(nx), arange(ny), data, kx=order, ky=order)`:
`eval order nx ny data x y` is the fitted spline evaluated at the point `(x, y)` (x along axis 0). -/
structure SplineKernel (K : Type) where
  eval : (order nx ny : Nat) → (Nat → Nat → K) → K → K → K

section Zoom
variable {K : Type} [NatCast K] [Mul K] [Div K]

/-- real path of `zoom_rbs(array, (xSize, ySize), order)`:
`RectBivariateSpline(arange(nx), arange(ny), array, kx=order, ky=order)(coordsX, coordsY)` with
`coordsX = linspace(0, nx-1, xSize)`, `coordsY = linspace(0, ny-1, ySize)`; output shape `(xSize, ySize)` -/
def zoomRbs (S : SplineKernel K) (order nx ny : Nat) (data : Nat → Nat → K) (xSize ySize : Nat) :
    Nat → Nat → K :=
  fun i j => S.eval order nx ny data (linspace0 ((nx - 1 : Nat) : K) xSize i) (linspace0 ((ny - 1 : Nat) : K) ySize j)

/-- complex path of `zoom_rbs`: `realInterp(...) + 1j*imagInterp(...)`, a complex number being the pair (re, im) -/
def zoomRbsComplex (S : SplineKernel K) (order nx ny : Nat) (re im : Nat → Nat → K) (xSize ySize : Nat) :
    Nat → Nat → K × K :=
  fun i j => (zoomRbs S order nx ny re xSize ySize i j, zoomRbs S order nx ny im xSize ySize i j)

/-- `zoom` (repaired): checks `order ∈ {1,3,5}` (else `ValueError` = `none`) and evaluates the same spline -/
def zoom (S : SplineKernel K) (order nx ny : Nat) (data : Nat → Nat → K) (xSize ySize : Nat) :
    Option (Nat → Nat → K) :=
  if order = 1 ∨ order = 3 ∨ order = 5 then some (zoomRbs S order nx ny data xSize ySize) else none

def zoomComplex (S : SplineKernel K) (order nx ny : Nat) (re im : Nat → Nat → K) (xSize ySize : Nat) :
    Option (Nat → Nat → K × K) :=
  if order = 1 ∨ order = 3 ∨ order = 5 then some (zoomRbsComplex S order nx ny re im xSize ySize) else none

end Zoom

/-! ### pupil.circle, azimuthal_average -/
section Radial
variable {K : Type} [NatCast K] [Add K] [Sub K] [Mul K] [Div K] [LE K] [DecidableLE K]

/-- `0.5` -/
def half : K := ((1 : Nat) : K) / ((2 : Nat) : K)

/-- `coords = numpy.arange(0.5, size, 1.0)`; `coords[k] = 0.5 + k` -/
def coord (k : Nat) : K := half + (k : K)

/-- `pupil.circle(radius, size, (cx, cy), origin)[r, c] == 1`.
`x, y = meshgrid(coords, coords)`: `x` varies along columns, `y` along rows; with `origin="middle"` the
grid is shifted by `size/2.`; then by the centre; the mask is `x*x + y*y <= radius*radius`. -/
def circle (radius : K) (size : Nat) (cx cy : K) (middle : Bool) (r c : Nat) : Bool :=
  let x : K := (if middle then coord c - (size : K) / ((2 : Nat) : K) else coord c) - cx
  let y : K := (if middle then coord r - (size : K) / ((2 : Nat) : K) else coord r) - cy
  decide (x * x + y * y ≤ radius * radius)

/-- the 0/1 value stored in the mask array -/
def ind (b : Bool) : K := if b then ((1 : Nat) : K) else ((0 : Nat) : K)

/-- `array.sum()` of a `rows × cols` array (row-major accumulation; exact on integer data) -/
def sum2 (rows cols : Nat) (f : Nat → Nat → K) : K :=
  sumToFrom ((0 : Nat) : K) rows (fun r => sumToFrom ((0 : Nat) : K) cols (fun c => f r c))

/-- `ring = circle(i + 1, size) - circle(i, size)` -/
def ring (size i : Nat) (r c : Nat) : K :=
  ind (circle (((i + 1 : Nat) : K)) size ((0 : Nat) : K) ((0 : Nat) : K) true r c)
    - ind (circle ((i : Nat) : K) size ((0 : Nat) : K) ((0 : Nat) : K) true r c)

/-- numerator `(ring * data).sum()` of `azimuthal_average(data)[i]` -/
def azNum (size : Nat) (data : Nat → Nat → K) (i : Nat) : K :=
  sum2 size size (fun r c => ring size i r c * data r c)

/-- denominator `ring.sum()` -/
def azDen (size i : Nat) : K := sum2 size size (fun r c => ring (K := K) size i r c)

/-- `azimuthal_average(data)[i]`, `i < size / 2` (`size = data.shape[0]`, output length `int(size / 2)`) -/
def azimuthalAverage (size : Nat) (data : Nat → Nat → K) (i : Nat) : K :=
  azNum size data i / azDen (K := K) size i

end Radial

/-! ### numpy.interp, numpy.argmin -/
section Interp
variable {K : Type} [Add K] [Sub K] [Mul K] [Div K] [LE K] [DecidableLE K] [LT K] [DecidableLT K]

/-- largest `j < n` with `xp j ≤ x` (what `numpy.interp`'s binary search returns for sorted `xp`) -/
def lastLE (xp : Nat → K) (x : K) : Nat → Option Nat
  | 0 => none
  | n + 1 => if xp n ≤ x then some n else lastLE xp x n

/-- `numpy.interp(x, xp, fp)` for `n ≥ 1` nodes (`left = fp[0]`, `right = fp[-1]`), mirroring `arr_interp`:
below the first node → `fp[0]`; last interval start `j = n-1` → `fp[n-1]`; exactly on a node → `fp[j]`;
otherwise `slope*(x - xp[j]) + fp[j]`. -/
def interp (n : Nat) (xp fp : Nat → K) (x : K) : K :=
  match lastLE xp x n with
  | none => fp 0
  | some j =>
    if j + 1 = n then fp j
    else if x ≤ xp j then fp j
    else (fp (j + 1) - fp j) / (xp (j + 1) - xp j) * (x - xp j) + fp j

/-- `numpy.argmin(g[0..n])` over the `n + 1` values `g 0 … g n`: first index of the minimum -/
def argmin (g : Nat → K) : Nat → Nat
  | 0 => 0
  | n + 1 => if g (n + 1) < g (argmin g n) then n + 1 else argmin g n

end Interp

/-! ### encircled_energy -/
section EE
variable {K : Type} [NatCast K] [Add K] [Sub K] [Mul K] [Div K] [LE K] [DecidableLE K] [LT K] [DecidableLT K]
  [OfScientific K] [Transc K]

/-- number of radii (`npt = 20`) -/
def eeNpt : Nat := 20

/-- `rad = numpy.linspace(0, dim**(1. / e), npt)**e`, `e = 1.9` -/
def eeRadius (dim : Nat) (i : Nat) : K :=
  Transc.rpow (linspace0 (Transc.rpow (dim : K) (((1 : Nat) : K) / (1.9 : K))) eeNpt i) (1.9 : K)

/-- `pup = circle(rad[i], int(dim)*2, circle_centre=(xc, yc), origin='corner')` as 0/1 values -/
def eePup (dim : Nat) (xc yc : K) (rad : K) (r c : Nat) : K :=
  ind (circle rad (2 * dim) xc yc false r c)

/-- `numpy.sum(pup)` -/
def eeCount (dim : Nat) (xc yc : K) (rad : K) : K := sum2 (2 * dim) (2 * dim) (eePup dim xc yc rad)

/-- `rad[i] = numpy.sqrt(numpy.sum(pup) * 4 / numpy.pi)` (a diameter) -/
def eeDiam (dim : Nat) (xc yc : K) (rad : K) : K :=
  Transc.sqrt (eeCount dim xc yc rad * ((4 : Nat) : K) / Transc.pi)

/-- `ee[i] = numpy.sum(pup * data)` -/
def eeRaw (dim : Nat) (xc yc : K) (data : Nat → Nat → K) (rad : K) : K :=
  sum2 (2 * dim) (2 * dim) (fun r c => eePup dim xc yc rad r c * data r c)

/-- `rad = numpy.append(0, rad)` (21 nodes) -/
def eeXp (dim : Nat) (xc yc : K) (rad : Nat → K) (k : Nat) : K :=
  match k with
  | 0 => ((0 : Nat) : K)
  | k + 1 => eeDiam dim xc yc (rad k)

/-- `ee = numpy.append(0, ee); ee /= numpy.sum(data)` (the sum runs over the whole array `data`, whose shape
is `(2*dim, 2*dim)` for even sizes) -/
def eeFp (dim : Nat) (xc yc : K) (data : Nat → Nat → K) (rad : Nat → K) (k : Nat) : K :=
  (match k with
   | 0 => ((0 : Nat) : K)
   | k + 1 => eeRaw dim xc yc data (rad k)) / sum2 (2 * dim) (2 * dim) data

/-- `xi = numpy.linspace(0, dim, int(4 * dim))` -/
def eeXi (dim : Nat) (k : Nat) : K := linspace0 (dim : K) (4 * dim) k

/-- `yi = numpy.interp(xi, rad, ee)` for an arbitrary radius table `rad` (21 nodes after the prepended 0) -/
def eeCurveOf (dim : Nat) (xc yc : K) (data : Nat → Nat → K) (rad : Nat → K) (k : Nat) : K :=
  interp (eeNpt + 1) (eeXp dim xc yc rad) (eeFp dim xc yc data rad) (eeXi dim k)

/-- `encircled_energy(data, fraction, center=(xc, yc), eeDiameter=False)[1][k]`, `k < 4*dim` -/
def eeCurve (dim : Nat) (xc yc : K) (data : Nat → Nat → K) (k : Nat) : K :=
  eeCurveOf dim xc yc data (eeRadius dim) k

/-- index chosen by `numpy.argmin(numpy.abs(yi - fraction))` for a radius table `rad` -/
def eeIndexOf (dim : Nat) (xc yc : K) (data : Nat → Nat → K) (rad : Nat → K) (fraction : K) : Nat :=
  argmin (fun k => Transc.abs (eeCurveOf dim xc yc data rad k - fraction)) (4 * dim - 1)

/-- `encircled_energy(data, fraction, center=(xc, yc))` = `xi[argmin |yi - fraction|]` -/
def eeDiameter (dim : Nat) (xc yc : K) (data : Nat → Nat → K) (fraction : K) : K :=
  eeXi dim (eeIndexOf dim xc yc data (eeRadius dim) fraction)

end EE

end AoVerif.ImageReduce
