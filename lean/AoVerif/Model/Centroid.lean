/-
Model of `aotools/image_processing/centroiders.py` (C15) — Mathlib-free, polymorphic in the scalar `K`.

An image is an index function `img y x` (row `y` = axis −2, column `x` = axis −1) with explicit sizes `ny nx`;
only indices inside the frame are read.  A stack is `ι → Nat → Nat → K` (`ι` = the leading axes, any rank).
The file mirrors the REPAIRED code (fixes/C15-*.diff): `centre_of_gravity` has one threshold rule (subtract each
image's own threshold, clip at zero) followed by two separate moment computations (2-D path / N-D path);
`cogN_pinned` keeps the pre-fix N-D rule (zero below the threshold, no subtraction) to state what was wrong.
-/
import AoVerif.Model.Fourier
namespace AoVerif.Centroid

section real
variable {K : Type} [Add K] [Sub K] [Mul K] [Div K] [NatCast K] [OfScientific K] [LT K] [DecidableLT K]

/-- `a.sum(-1).sum(-1)` (and, in exact arithmetic, `a.sum()`): columns first, then rows -/
def sum2 (ny nx : Nat) (f : Nat → Nat → K) : K := sumTo ny (fun y => sumTo nx (fun x => f y x))

def maxK (a b : K) : K := if a < b then b else a
def minK (a b : K) : K := if b < a then b else a
/-- running maximum of `f 0 … f (n-1)` (n ≥ 1) -/
def maxTo (n : Nat) (f : Nat → K) : K := (List.range n).foldl (fun acc i => maxK acc (f i)) (f 0)
def minTo (n : Nat) (f : Nat → K) : K := (List.range n).foldl (fun acc i => minK acc (f i)) (f 0)
/-- `img.max(-1).max(-1)` (= `img.max()` for one image) -/
def max2 (ny nx : Nat) (img : Nat → Nat → K) : K := maxTo ny (fun y => maxTo nx (fun x => img y x))
def min2 (ny nx : Nat) (img : Nat → Nat → K) : K := minTo ny (fun y => minTo nx (fun x => img y x))

/-- `numpy.maximum(threshold*max, min_threshold)` -/
def thresOf (t mn m : K) : K := maxK (t * m) mn
/-- `numpy.where(img > thres, img - thres, 0)` on one pixel -/
def clipSub (th v : K) : K := if th < v then v - th else ((0 : Nat) : K)
/-- `threshold != 0` -/
def nonzero (t : K) : Bool := decide (t < ((0 : Nat) : K)) || decide (((0 : Nat) : K) < t)

/-- the threshold step of `centre_of_gravity` on one image -/
def thresholded (ny nx : Nat) (t mn : K) (img : Nat → Nat → K) : Nat → Nat → K :=
  if nonzero t then
    let th := thresOf t mn (max2 ny nx img)
    fun y x => clipSub th (img y x)
  else img

/-- first moments over the total: returns `(x_centroid, y_centroid)` like `numpy.array([x_centroid, y_centroid])` -/
def moments (ny nx : Nat) (img : Nat → Nat → K) : K × K :=
  (sum2 ny nx (fun y x => (x : K) * img y x) / sum2 ny nx img,
   sum2 ny nx (fun y x => (y : K) * img y x) / sum2 ny nx img)

/-- `centre_of_gravity`, 2-D path (`len(img.shape) == 2`) -/
def cog2 (ny nx : Nat) (t mn : K) (img : Nat → Nat → K) : K × K :=
  moments ny nx (thresholded ny nx t mn img)

/-- `centre_of_gravity`, N-D path: the thresholds of all frames are computed first (`thres[..., None, None]`),
then the moments with `.sum(-1).sum(-1)`; `i` indexes the leading axes -/
def cogN {ι : Type} (ny nx : Nat) (t mn : K) (stack : ι → Nat → Nat → K) : ι → K × K :=
  let thres : ι → K := fun i => thresOf t mn (max2 ny nx (stack i))
  let st : ι → Nat → Nat → K :=
    if nonzero t then fun i y x => clipSub (thres i) (stack i y x) else stack
  fun i => (sum2 ny nx (fun y x => (x : K) * st i y x) / sum2 ny nx (st i),
            sum2 ny nx (fun y x => (y : K) * st i y x) / sum2 ny nx (st i))

/-- the PINNED (pre-fix) N-D path: pixels below the threshold are zeroed, the others keep their value -/
def cogN_pinned {ι : Type} (ny nx : Nat) (t mn : K) (stack : ι → Nat → Nat → K) : ι → K × K :=
  let thres : ι → K := fun i => thresOf t mn (max2 ny nx (stack i))
  let st : ι → Nat → Nat → K :=
    if nonzero t then fun i y x => if stack i y x - thres i < ((0 : Nat) : K) then ((0 : Nat) : K) else stack i y x
    else stack
  fun i => moments ny nx (st i)

/-! ### brightest pixel -/

/-- `img.reshape(N)` row-major -/
def flat (ny nx : Nat) (img : Nat → Nat → K) : List K :=
  (List.range ny).flatMap (fun y => (List.range nx).map (fun x => img y x))

/-- `numpy.sort` (ascending) -/
def sortK (l : List K) : List K := l.mergeSort (fun a b => !decide (b < a))

/-- `numpy.sort(flat)[-k]` for `1 ≤ k ≤ len` -/
def kthLargest (l : List K) (k : Nat) : K := (sortK l).getD (l.length - k) ((0 : Nat) : K)

/-- `(img - p).clip(0, None)` on one pixel -/
def clip0 (v : K) : K := if v < ((0 : Nat) : K) then ((0 : Nat) : K) else v

/-- `brightest_pixel` on one image: subtract the k-th brightest value, clip at zero, centre of gravity -/
def bp2 (ny nx k : Nat) (img : Nat → Nat → K) : K × K :=
  let p := kthLargest (flat ny nx img) k
  cog2 ny nx ((0 : Nat) : K) ((0 : Nat) : K) (fun y x => clip0 (img y x - p))

/-- `brightest_pixel` on a stack (any leading axes): per-frame k-th value, then the N-D centre of gravity -/
def bpN {ι : Type} (ny nx k : Nat) (stack : ι → Nat → Nat → K) : ι → K × K :=
  let p : ι → K := fun i => kthLargest (flat ny nx (stack i)) k
  cogN ny nx ((0 : Nat) : K) ((0 : Nat) : K) (fun i y x => clip0 (stack i y x - p i))

/-! ### quad cell -/

/-- `quadCell`: `xSum = img.sum(-2)`, `ySum = img.sum(-1)`, `(xSum[1]-xSum[0], ySum[1]-ySum[0])` -/
def quadCell (ny nx : Nat) (img : Nat → Nat → K) : K × K :=
  let xSum : Nat → K := fun x => sumTo ny (fun y => img y x)
  let ySum : Nat → K := fun y => sumTo nx (fun x => img y x)
  (xSum 1 - xSum 0, ySum 1 - ySum 0)

def quadCellN {ι : Type} (ny nx : Nat) (stack : ι → Nat → Nat → K) : ι → K × K :=
  fun i => quadCell ny nx (stack i)

/-- padding offset of `correlation_centroid` (repaired): zero lag sits at index `(n·padding)/2` of the padded
correlation and is referred to the centre `n/2` of the unpadded array -/
def padOffset (n pad : Nat) : Nat := (n * pad) / 2 - n / 2
/-- the PINNED offset `n/2·(padding−1)` (a real number: half a pixel off for odd n and even padding) -/
def padOffset_pinned (n pad : Nat) : K := (n : K) / ((2 : Nat) : K) * ((pad : K) - ((1 : Nat) : K))

/-- the tail of `correlation_centroid` for one frame: thresholded centre of gravity (2-D path) of the
correlation surface `corr` (size `ny·pad × nx·pad`), minus the padding offset -/
def corrTail (ny nx pad : Nat) (t : K) (corr : Nat → Nat → K) : K × K :=
  let c := cog2 (ny * pad) (nx * pad) t ((0 : Nat) : K) corr
  (c.1 - ((padOffset nx pad : Nat) : K), c.2 - ((padOffset ny pad : Nat) : K))

/-! ### the N-D paths on the flat C-ordered buffer

The definitions `cogN`, `bpN`, `quadCellN`, `corrCentroidN` above take a stack as a FUNCTION of the frame index, so they
are "the 2-D expression for each `i`" by construction.  The real N-D code never sees frames: it works on one C-ordered
buffer of shape `(nf, ny, nx)` (any number of leading axes, flattened in C order into `nf`) with axis reductions
(`.max(-1).max(-1)`, `.sum(-1).sum(-1)`, `.sum(-2)`), broadcasting (`thres[..., None, None]`, `numpy.indices((ny, nx))`
against the stack) and fancy indexing (`[..., -nPxls]`, `[..., 1]`).  The `…Flat` definitions below spell out THAT index
arithmetic on the buffer `a : Nat → K` (element `[i, y, x]` at `(i·ny + y)·nx + x`); that they give frame `i` the answer
of the 2-D path is a theorem (`flat_eq_frames_*` in Props/C15), not a definition.  The driver runs these. -/

/-- frame `i` of a C-ordered `(nf, ny, nx)` buffer (`img[i]`) -/
def frameOf (ny nx : Nat) (a : Nat → K) (i : Nat) : Nat → Nat → K := fun y x => a ((i * ny + y) * nx + x)

/-- `b.max(-1)` on a buffer whose last axis has length `n`: the result buffer has one entry per row `r` -/
def maxLast (n : Nat) (a : Nat → K) : Nat → K := fun r => maxTo n (fun j => a (r * n + j))
/-- `b.sum(-1)` -/
def sumLast (n : Nat) (a : Nat → K) : Nat → K := fun r => sumTo n (fun j => a (r * n + j))

/-- multi-index of element `e` of a C-ordered `(nf, ny, nx)` buffer -/
def unravelF (ny nx e : Nat) : Nat := e / (ny * nx)
def unravelY (ny nx e : Nat) : Nat := (e / nx) % ny
def unravelX (nx e : Nat) : Nat := e % nx

/-- `centre_of_gravity`, N-D path, on the buffer: `thres = maximum(t*img.max(-1).max(-1), mn)` has one entry per frame and
is broadcast as `thres[..., None, None]` (element `e` reads entry `unravelF e`); `numpy.indices((ny, nx))` is broadcast
against the stack (element `e` reads `y_cent[unravelY e, unravelX e] = unravelY e`); `.sum(-1).sum(-1)` -/
def cogFlat (ny nx : Nat) (t mn : K) (a : Nat → K) : Nat → K × K :=
  let thres : Nat → K := fun i => thresOf t mn (maxLast ny (maxLast nx a) i)
  let img : Nat → K := if nonzero t then fun e => clipSub (thres (unravelF ny nx e)) (a e) else a
  let tot : Nat → K := sumLast ny (sumLast nx img)
  let mx : Nat → K := sumLast ny (sumLast nx (fun e => ((unravelX nx e : Nat) : K) * img e))
  let my : Nat → K := sumLast ny (sumLast nx (fun e => ((unravelY ny nx e : Nat) : K) * img e))
  fun i => (mx i / tot i, my i / tot i)

/-- `brightest_pixel` on the buffer: `img.reshape(lead + (ny*nx,))` is the same buffer with rows of length `ny·nx`;
`numpy.sort(…)[..., -k]` per row; `pxlValues[..., None, None]` broadcast; clip; N-D centre of gravity -/
def bpFlat (ny nx k : Nat) (a : Nat → K) : Nat → K × K :=
  let p : Nat → K := fun i => kthLargest ((List.range (ny * nx)).map (fun j => a (i * (ny * nx) + j))) k
  cogFlat ny nx ((0 : Nat) : K) ((0 : Nat) : K) (fun e => clip0 (a e - p (unravelF ny nx e)))

/-- `quadCell` on the buffer: `xSum = img.sum(-2)` is a `(nf, nx)` buffer (entry `r` = frame `r / nx`, column `r % nx`),
`ySum = img.sum(-1)` a `(nf, ny)` buffer; `xSum[..., 1] - xSum[..., 0]`, `ySum[..., 1] - ySum[..., 0]` -/
def quadFlat (ny nx : Nat) (a : Nat → K) : Nat → K × K :=
  let xSum : Nat → K := fun r => sumTo ny (fun y => a (((r / nx) * ny + y) * nx + r % nx))
  let ySum : Nat → K := sumLast nx a
  fun i => (xSum (i * nx + 1) - xSum (i * nx + 0), ySum (i * ny + 1) - ySum (i * ny + 0))

end real

/-! ### cross-correlation through the DFT kernel of C09 -/
section cplx
variable {C : Type} [Add C] [Mul C] [OfScientific C] {K : Type}

/-- an image returned as a VALUE (a structure, so that the compiled definition computes its `let`-bound
intermediate arrays once per call instead of once per pixel read) -/
structure Img (K : Type) where
  px : Nat → Nat → K
  /-- a second (unused) field: a one-field structure would be compiled as its field, i.e. as a function again -/
  tag : Nat := 0

/-- `numpy.fft.fft2(x, s=[Py, Px])` zero-pads at the end of each axis -/
def zeroPad (ny nx : Nat) (zero : C) (x : Nat → Nat → C) : Nat → Nat → C :=
  fun a b => if a < ny ∧ b < nx then x a b else zero

/-- `numpy.fft.fft2` = 1-D transforms along the last axis (cached), then along the first -/
def dft2 (memo : (Nat → Nat → C) → Img C) (py px : Nat) (wy wx : Nat → C) (x : Nat → Nat → C) : Img C :=
  let rows := memo (fun a' b => Fourier.dft px wx (fun b' => x a' b') b)
  memo (fun a b => Fourier.dft py wy (fun a' => rows.px a' b) a)
def idft2 (memo : (Nat → Nat → C) → Img C) (py px : Nat) (wiy wix : Nat → C) (ninvy ninvx : C)
    (x : Nat → Nat → C) : Img C :=
  let rows := memo (fun a' b => Fourier.idft px wix ninvx (fun b' => x a' b') b)
  memo (fun a b => Fourier.idft py wiy ninvy (fun a' => rows.px a' b) a)

/-- `cross_correlate(x, y, padding)`: `fftshift(abs(ifft2(fft2(x) * conj(fft2(y)))))` on the padded size.
`wy wx` are the twiddle tables of the padded lengths, `wiy wix` those of the inverse roots.
`memo` is the identity (`Img.mk`) in every theorem; the driver passes an array cache (the identity on the frame) so
that the intermediate spectra are computed once, as numpy does. -/
def crossCorrelate (ny nx pad : Nat) (wy wx wiy wix : Nat → C) (ninvy ninvx zero : C)
    (conj : C → C) (absC : C → K) (memo : (Nat → Nat → C) → Img C) (x y : Nat → Nat → C) : Img K :=
  let py := ny * pad
  let px := nx * pad
  let fy := dft2 memo py px wy wx (zeroPad ny nx zero y)
  let ref := memo (fun a b => conj (fy.px a b))
  let frame := dft2 memo py px wy wx (zeroPad ny nx zero x)
  let prod := memo (fun a b => frame.px a b * ref.px a b)
  let cc := idft2 memo py px wiy wix ninvy ninvx prod.px
  { px := fun a b => absC (cc.px ((a + (py - py / 2)) % py) ((b + (px - px / 2)) % px)) }

/-- `correlation_centroid` for one frame: remove the minimum of the frame and of the reference, correlate,
thresholded centre of gravity (2-D path) of the correlation, subtract the padding offset -/
def corrCentroid [Add K] [Sub K] [Mul K] [Div K] [NatCast K] [OfScientific K] [LT K] [DecidableLT K]
    (ny nx pad : Nat) (wy wx wiy wix : Nat → C) (ninvy ninvx zero : C)
    (conj : C → C) (absC : C → K) (memo : (Nat → Nat → C) → Img C) (ofReal : K → C)
    (t : K) (im ref : Nat → Nat → K) : K × K :=
  let mi := min2 ny nx im
  let mr := min2 ny nx ref
  corrTail ny nx pad t
    (crossCorrelate ny nx pad wy wx wiy wix ninvy ninvx zero conj absC memo
      (fun a b => ofReal (im a b - mi)) (fun a b => ofReal (ref a b - mr))).px

/-- `correlation_centroid` on a `(t, y, x)` stack: each frame against the same reference -/
def corrCentroidN [Add K] [Sub K] [Mul K] [Div K] [NatCast K] [OfScientific K] [LT K] [DecidableLT K] {ι : Type}
    (ny nx pad : Nat) (wy wx wiy wix : Nat → C) (ninvy ninvx zero : C)
    (conj : C → C) (absC : C → K) (memo : (Nat → Nat → C) → Img C) (ofReal : K → C)
    (t : K) (stack : ι → Nat → Nat → K) (ref : Nat → Nat → K) : ι → K × K :=
  fun i => corrCentroid ny nx pad wy wx wiy wix ninvy ninvx zero conj absC memo ofReal t (stack i) ref

/-- `correlation_centroid` on a C-ordered `(nt, ny, nx)` buffer: `im = (im.T - im.min((1, 2))).T` (the per-frame minima
are broadcast along the two frame axes: element `e` reads entry `unravelF e`), then the Python loop over `im[frame]` -/
def corrFlat [Add K] [Sub K] [Mul K] [Div K] [NatCast K] [OfScientific K] [LT K] [DecidableLT K]
    (ny nx pad : Nat) (wy wx wiy wix : Nat → C) (ninvy ninvx zero : C)
    (conj : C → C) (absC : C → K) (memo : (Nat → Nat → C) → Img C) (ofReal : K → C)
    (t : K) (a : Nat → K) (ref : Nat → Nat → K) : Nat → K × K :=
  let mins : Nat → K := fun i => min2 ny nx (frameOf ny nx a i)
  let im : Nat → K := fun e => a e - mins (unravelF ny nx e)
  let mr := min2 ny nx ref
  fun i => corrTail ny nx pad t
    (crossCorrelate ny nx pad wy wx wiy wix ninvy ninvx zero conj absC memo
      (fun u v => ofReal (frameOf ny nx im i u v)) (fun u v => ofReal (ref u v - mr))).px

end cplx

end AoVerif.Centroid
