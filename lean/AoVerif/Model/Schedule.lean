/-
Model of `aotools/turbulence/slopecovariance.py` as far as property C03 is concerned: WHICH results are combined in
WHICH order — never what the numbers are.  Mathlib-free, total, computable.

All payload types are type variables with NO algebraic laws:
  `C`  constructor arguments of `CovarianceMatrix` (never written by a build)
  `P`  `self.subap_positions`                       (lines 90-96)
  `Q`  `self.subap_layer_positions` + `self.subap_layer_diameters` (lines 100-133)
  `A`  one argument tuple handed to `wfs_covariance` (lines 157-161 / 205-209)
  `ρ`  one result `(cov_xx, cov_yy, cov_xy, cov_yx)` of `wfs_covariance` (four blocks since the C01 cross-block fix)
  `α`  the float32 matrix `self.covariance_matrix`
so an equality proved here says that the same operations are applied to the same operands in the same order, which is
what bit-identical floating point results need.
-/
namespace AoVerif.Model.Schedule

/-! ### the task list of one layer -/

/-- `for wfs_i in range(n): for wfs_j in range(wfs_i+1)` — the loop nest of lines 153-156, 202-204 and 214-215 -/
def pairs (n : Nat) : List (Nat × Nat) :=
  (List.range n).flatMap fun i => (List.range (i + 1)).map fun j => (i, j)

/-! ### `multiprocessing.Pool.map`

`Pool.map(func, iterable)` = `_map_async(...).get()`:
  * `chunksize, extra = divmod(len(iterable), len(self._pool) * 4); if extra: chunksize += 1;
     if len(iterable) == 0: chunksize = 0`
  * `_get_tasks` cuts the iterable into consecutive chunks of that size (`itertools.islice`);
  * chunk number `i` is executed by SOME worker at SOME time (`mapstar`: `list(map(func, chunk))`);
  * when it completes, `MapResult._set(i, …)` stores its result list in position `i` (`_value[i*cs:(i+1)*cs] = …`);
  * `get()` returns once every chunk has completed: the stored results, in position order.
The scheduler is modelled by the ORDER in which chunks complete — an arbitrary list of chunk numbers. -/

/-- `Pool._map_async`'s chunk size for `len` items on `workers` processes.  Meaningful for `workers ≥ 1` only:
    `Pool(0)` raises `ValueError` before any `map` (and `divmod(len, 0)` would raise); at `workers = 0` Lean's
    `n % 0 = n`, `n / 0 = 0` make this definition return 1 — an artefact no theorem about the library relies on
    (`build` returns `none` for `threads = 0`; `Props/C03.lean`: `chunkSize_spec`, `poolMap_eq_pos`). -/
def chunkSize (len workers : Nat) : Nat :=
  if len = 0 then 0
  else if len % (workers * 4) = 0 then len / (workers * 4) else len / (workers * 4) + 1

/-- `Pool._get_tasks`: consecutive chunks of `c` items (`c = 0`: `islice(it, 0)` is empty at once — no chunk) -/
def chunks {ι : Type} (c : Nat) (l : List ι) : List (List ι) :=
  if _h : c = 0 ∨ l = [] then [] else l.take c :: chunks c (l.drop c)
termination_by l.length
decreasing_by
  have h1 : c ≠ 0 := fun e => _h (Or.inl e)
  have h2 : l ≠ [] := fun e => _h (Or.inr e)
  have : 0 < l.length := List.length_pos_iff.mpr h2
  simp only [List.length_drop]
  omega

/-- the result slots after the pieces of `work` completed in the order `order`: completion of piece `k` stores
    `run work[k]` in slot `k`; a number that names no piece stores nothing -/
def complete {σ τ : Type} (work : List σ) (run : σ → τ) (order : List Nat) : List (Option τ) :=
  order.foldl (fun slots k => match work[k]? with
    | some w => slots.set k (some (run w))
    | none => slots) (List.replicate work.length none)

/-- all slots filled → their contents in position order; an unfilled slot → `none` (`get()` never returns) -/
def allSome {τ : Type} : List (Option τ) → Option (List τ)
  | [] => some []
  | none :: _ => none
  | some x :: r => (allSome r).map (x :: ·)

/-- `multiprocessing.Pool(workers).map(f, args)` when the chunks complete in the order `order` -/
def poolMap {A ρ : Type} (workers : Nat) (order : List Nat) (f : A → ρ) (args : List A) : Option (List ρ) :=
  (allSome (complete (chunks (chunkSize args.length workers) args) (List.map f) order)).map List.flatten

/-- number of chunks of a `map` over `len` items on `workers` processes
    (`MapResult._number_left = length//chunksize + bool(length % chunksize)`) -/
def numChunks (len workers : Nat) : Nat :=
  let c := chunkSize len workers
  if c = 0 then 0 else if len % c = 0 then len / c else len / c + 1

/-! ### what the library is made of -/

/-- the pure pieces of the construction; every one is an uninterpreted function -/
structure Kernel (C P Q A ρ α : Type) where
  /-- `self.n_wfs` -/
  nWfs : C → Nat
  /-- `self.n_layers` -/
  nLayers : C → Nat
  /-- lines 90-96 -/
  positions : C → P
  /-- lines 100-133 (reads `self.subap_positions` as just written) -/
  layerGeom : C → P → Q
  /-- the argument tuple of `wfs_covariance` for (layer, wfs_i, wfs_j): lines 157-161 and 205-209 -/
  mkArg : C → Q → Nat → Nat → Nat → A
  /-- `wfs_covariance` (= `wfs_covariance_mpwrap` on the packed tuple) -/
  wfs : A → ρ
  /-- `numpy.zeros((2*total, 2*total))` as float32: lines 148, 197 -/
  zero : C → α
  /-- the four `+=` of one (layer, wfs_i, wfs_j): lines 163-191 and 218-246 (reads `n_subaps`, `wfs_wavelengths`,
      `subap_layer_diameters`) -/
  acc : C → Q → α → Nat → Nat → Nat → ρ → α
  /-- `mirror_covariance_matrix` -/
  mirror : α → α

variable {C P Q A ρ α : Type}

/-! ### `_make_covariance_matrix` (threads == 1) -/

/-- one pass of the `layer_n` loop body, lines 152-191: nested loops, each result used where it is computed -/
def singleLayer (K : Kernel C P Q A ρ α) (c : C) (q : Q) (m : α) (l : Nat) : α :=
  (List.range (K.nWfs c)).foldl (fun m i =>
    (List.range (i + 1)).foldl (fun m j => K.acc c q m l i j (K.wfs (K.mkArg c q l i j))) m) m

def assembleSingle (K : Kernel C P Q A ρ α) (c : C) (q : Q) : α :=
  (List.range (K.nLayers c)).foldl (singleLayer K c q) (K.zero c)

/-! ### `_make_covariance_matrix_mp` -/

/-- lines 213-248: `thread_n = 0; for wfs_i…: for wfs_j…: … = self.cov_mats[thread_n]; …; thread_n += 1`
    (`none` = IndexError) -/
def consume (step : α → Nat → Nat → ρ → α) : List (Nat × Nat) → Nat → List ρ → α → Option α
  | [], _, _, m => some m
  | (i, j) :: ps, t, rs, m =>
    match rs[t]? with
    | some r => consume step ps (t + 1) rs (step m i j r)
    | none => none

/-- lines 201-209: the argument list of one layer -/
def layerArgs (K : Kernel C P Q A ρ α) (c : C) (q : Q) (l : Nat) : List A :=
  (pairs (K.nWfs c)).map fun p => K.mkArg c q l p.1 p.2

/-- one pass of the `layer_n` loop body, lines 201-248; `order` = completion order of this `map` call's chunks.
    Returns the new matrix and the new `self.cov_mats`. -/
def mpLayer (K : Kernel C P Q A ρ α) (c : C) (q : Q) (workers : Nat) (order : List Nat) (m : α) (l : Nat) :
    Option (α × List ρ) :=
  match poolMap workers order K.wfs (layerArgs K c q l) with
  | none => none
  | some covMats =>
    (consume (fun m i j r => K.acc c q m l i j r) (pairs (K.nWfs c)) 0 covMats m).map fun m' => (m', covMats)

/-- the whole of `_make_covariance_matrix_mp(threads)`; `sched l` = completion order during layer `l`;
    `cm0` = the previous content of `self.cov_mats` (kept when there is no layer) -/
def assembleMP (K : Kernel C P Q A ρ α) (c : C) (q : Q) (workers : Nat) (sched : Nat → List Nat) (cm0 : List ρ) :
    Option (α × List ρ) :=
  (List.range (K.nLayers c)).foldl (fun st l => match st with
    | none => none
    | some (m, _) => mpLayer K c q workers (sched l) m l) (some (K.zero c, cm0))

/-! ### the object as a state machine -/

/-- a `CovarianceMatrix` instance: constructor arguments + `threads` + the scratch attributes a build writes -/
structure Obj (C P Q ρ α : Type) where
  cfg : C
  threads : Nat
  subapPositions : P
  layerGeom : Q
  covMatrix : α
  covMats : List ρ

/-- `make_covariance_matrix()`; `none` = the call raises / never returns (Pool(0), a chunk that never completes).
    Every read of a scratch attribute below is a read of the *field of the current object state*. -/
def build (K : Kernel C P Q A ρ α) (o : Obj C P Q ρ α) (sched : Nat → List Nat) : Obj C P Q ρ α × Option α :=
  let o1 := { o with subapPositions := K.positions o.cfg }
  let o2 := { o1 with layerGeom := K.layerGeom o1.cfg o1.subapPositions }
  if o2.threads = 1 then
    let o3 := { o2 with covMatrix := assembleSingle K o2.cfg o2.layerGeom }
    let o4 := { o3 with covMatrix := K.mirror o3.covMatrix }
    (o4, some o4.covMatrix)
  else if o2.threads = 0 then (o2, none)          -- Pool(0): ValueError
  else
    match assembleMP K o2.cfg o2.layerGeom o2.threads sched o2.covMats with
    | none => (o2, none)
    | some (m, cm) =>
      let o3 := { o2 with covMatrix := m, covMats := cm }
      let o4 := { o3 with covMatrix := K.mirror o3.covMatrix }
      (o4, some o4.covMatrix)

/-- what a caller can do to an instance between builds -/
inductive Op (P Q ρ α : Type) where
  /-- `obj.threads = k` -/
  | setThreads (k : Nat)
  /-- `obj.make_covariance_matrix()` under the schedule `sched` -/
  | build (sched : Nat → List Nat)
  /-- anything that leaves garbage in the scratch attributes: in-place edits of the returned matrix (it IS
      `obj.covariance_matrix`), of `obj.cov_mats`, of the position lists -/
  | scribble (p : P) (q : Q) (m : α) (rs : List ρ)

/-- run a history; the outputs of its builds, in order -/
def run (K : Kernel C P Q A ρ α) : List (Op P Q ρ α) → Obj C P Q ρ α → List (Option α)
  | [], _ => []
  | .setThreads k :: h, o => run K h { o with threads := k }
  | .build s :: h, o => (build K o s).2 :: run K h (build K o s).1
  | .scribble p q m rs :: h, o =>
    run K h { o with subapPositions := p, layerGeom := q, covMatrix := m, covMats := rs }

/-- the state after a history -/
def finalState (K : Kernel C P Q A ρ α) : List (Op P Q ρ α) → Obj C P Q ρ α → Obj C P Q ρ α
  | [], o => o
  | .setThreads k :: h, o => finalState K h { o with threads := k }
  | .build s :: h, o => finalState K h (build K o s).1
  | .scribble p q m rs :: h, o =>
    finalState K h { o with subapPositions := p, layerGeom := q, covMatrix := m, covMats := rs }

/-- the matrix the property says every build returns: a function of the constructor arguments only -/
def reference (K : Kernel C P Q A ρ α) (c : C) : α :=
  K.mirror (assembleSingle K c (K.layerGeom c (K.positions c)))

end AoVerif.Model.Schedule
