/- Executable complex numbers over any scalar (used at `Float` by the driver).  Mathlib-free.
   The theorems never mention `Cx`: they instantiate the same model definitions at Mathlib's `ℂ`. -/
import AoVerif.Model.Scalar
namespace AoVerif

structure Cx (K : Type) where
  re : K
  im : K
deriving Repr, Inhabited

namespace Cx
variable {K : Type} [Add K] [Sub K] [Mul K] [Neg K]

instance : Add (Cx K) := ⟨fun a b => ⟨a.re + b.re, a.im + b.im⟩⟩
instance : Sub (Cx K) := ⟨fun a b => ⟨a.re - b.re, a.im - b.im⟩⟩
instance : Neg (Cx K) := ⟨fun a => ⟨-a.re, -a.im⟩⟩
instance : Mul (Cx K) := ⟨fun a b => ⟨a.re * b.re - a.im * b.im, a.re * b.im + a.im * b.re⟩⟩
instance [OfScientific K] : OfScientific (Cx K) := ⟨fun m s e => ⟨OfScientific.ofScientific m s e, (0.0 : K)⟩⟩
instance [NatCast K] [OfScientific K] : NatCast (Cx K) := ⟨fun n => ⟨(n : K), (0.0 : K)⟩⟩

def ofReal [OfScientific K] (x : K) : Cx K := ⟨x, 0.0⟩
def smul (a : K) (z : Cx K) : Cx K := ⟨a * z.re, a * z.im⟩
def conj (z : Cx K) : Cx K := ⟨z.re, -z.im⟩
def normSq (z : Cx K) : K := z.re * z.re + z.im * z.im
/-- `cis θ = cos θ + i sin θ` -/
def cis [Transc K] (t : K) : Cx K := ⟨Transc.cos t, Transc.sin t⟩
def div [Div K] (a b : Cx K) : Cx K :=
  let d := b.re * b.re + b.im * b.im
  ⟨(a.re * b.re + a.im * b.im) / d, (a.im * b.re - a.re * b.im) / d⟩
instance [Div K] : Div (Cx K) := ⟨div⟩

end Cx
end AoVerif
