/-
Model of `aotools/functions/zernike.py` (+ the `pupil.circle` mask it uses).  Mathlib-free, total, computable,
scalar-polymorphic: the same definitions are run at `Float`/`Nat`/`Int` by `Drive/C12.lean` and are what
`Props/C12.lean` proves theorems about (at ℕ, ℤ, ℚ, ℝ).

Mirrors the code as it is:
* `zernIndex`      — `n = int((-1+sqrt(8(j-1)+1))/2)`, `p = j - n(n+1)/2`, `k = n%2`, `m = int((p+k)/2)*2-k`, sign from `j%2`;
                     on ℕ with `Nat.sqrt` (`zernIndexFloat` is the literal binary64 formula, run by the driver only);
* `radialFunc`     — the factorial sum, term by term, in the code's operation order;
* `modeCart`       — `sqrt(n+1)` / `sqrt(2(n+1))` times radial part times `cos(mθ+rot)` / `sin(|m|θ+rot)`, written in
                     Cartesian form (`r^m cos mθ = Re (x+iy)^m`; the polar reading is theorem `mode_polar`);
* `modePixel`      — grid coordinates `(i - N/2 + 0.5)/(N/2)`, clip `R ≤ 1`, times `circle(N/2, N)`;
* `zernikeArray*`  — list / count dispatch, `p2v` and `rms` normalisation; `phaseFromZernikes` — accumulation loop;
* `makegammas`     — the (n, m) bookkeeping loop and rules a–d for both matrices.
-/
import AoVerif.Model.Scalar

namespace AoVerif.Model.Zernike
open AoVerif

/-! ### Noll index arithmetic -/

/-- radial order of Noll index `j` : `int((-1 + sqrt(8(j-1)+1))/2)` -/
def nollN (j : Nat) : Nat := (Nat.sqrt (8 * (j - 1) + 1) - 1) / 2

/-- `|m|` of Noll index `j` : `int((p+k)/2)*2 - k` with `p = j - n(n+1)/2`, `k = n % 2` -/
def nollAbsM (j : Nat) : Nat :=
  let n := nollN j
  let p := j - n * (n + 1) / 2
  let k := n % 2
  ((p + k) / 2) * 2 - k

/-- `zernIndex(j) = [n, m]` -/
def zernIndex (j : Nat) : Nat × Int :=
  let a := nollAbsM j
  (nollN j, if a = 0 then 0 else if j % 2 = 0 then (a : Int) else -(a : Int))

/-- explicit inverse of `zernIndex` on `{(n, m) | |m| ≤ n, n - |m| even}` -/
def nollOf (n : Nat) (m : Int) : Nat :=
  let t := n * (n + 1) / 2
  let a := t + m.natAbs
  if m = 0 then t + 1
  else if (a % 2 = 0) = (0 < m) then a else a + 1

/-- the code's formula executed literally in binary64 (driver only; `zernIndex_float_agrees` is the argument
that it coincides with `zernIndex` below 2⁴⁹) -/
def zernIndexFloat (j : Nat) : Int × Int :=
  let jf : Float := (8 * (j - 1) + 1).toFloat
  let n : Int := (((-1.0 : Float) + Float.sqrt jf) / 2.0).toInt64.toInt
  let nn : Int := n * (n + 1)
  let p : Float := j.toFloat - (Float.ofInt nn) / 2.0
  let k : Int := n % 2
  let m : Int := ((p + Float.ofInt k) / 2.0).toInt64.toInt * 2 - k
  (n, if m = 0 then 0 else if j % 2 = 0 then m else -m)

/-! ### radial polynomial -/

def fact : Nat → Nat
  | 0 => 1
  | n + 1 => (n + 1) * fact n

section Scalar
variable {K : Type} [Add K] [Sub K] [Mul K] [Div K] [Neg K] [NatCast K] [OfScientific K] [HPow K Nat K]

/-- `(-1)**i * x` -/
def altSign (i : Nat) (x : K) : K := if i % 2 = 0 then x else -x

/-- one pass of the loop of `zernikeRadialFunc`:
`r**(n-2i) * ((-1)**i * (n-i)!) / (i! * ((n+m)/2-i)! * ((n-m)/2-i)!)` -/
def radialTerm (n m i : Nat) (r : K) : K :=
  (r ^ (n - 2 * i) * altSign i ((fact (n - i) : Nat) : K))
    / ((fact i * fact ((n + m) / 2 - i) * fact ((n - m) / 2 - i) : Nat) : K)

/-- `zernikeRadialFunc(n, m, r)` -/
def radialFunc (n m : Nat) (r : K) : K :=
  sumTo ((n - m) / 2 + 1) (fun i => radialTerm n m i r)

/-- the same sum with `r^(n-2i)` replaced by `t^((n-m)/2-i)`:  `radialFunc n m r = r^m * radialQuot n m (r^2)` -/
def radialQuotTerm (n m i : Nat) (t : K) : K :=
  (t ^ ((n - m) / 2 - i) * altSign i ((fact (n - i) : Nat) : K))
    / ((fact i * fact ((n + m) / 2 - i) * fact ((n - m) / 2 - i) : Nat) : K)

def radialQuot (n m : Nat) (t : K) : K :=
  sumTo ((n - m) / 2 + 1) (fun i => radialQuotTerm n m i t)

/-- coefficient of `r^(n-2i)` in `R_n^m` -/
def radialCoef (n m i : Nat) : K :=
  altSign i ((fact (n - i) : Nat) : K) / ((fact i * fact ((n + m) / 2 - i) * fact ((n - m) / 2 - i) : Nat) : K)

/-- `∫₀¹ R_n^m(ρ) R_n'^m(ρ) ρ dρ`, integrated term by term: `Σ_{i,i'} c_i c'_i' / (n-2i + n'-2i' + 2)` -/
def radialInner (n n' m : Nat) : K :=
  sumTo ((n - m) / 2 + 1) (fun i => sumTo ((n' - m) / 2 + 1) (fun i' =>
    radialCoef n m i * radialCoef n' m i' / (((n - 2 * i + (n' - 2 * i') + 2 : Nat) : K))))

/-- `(Re (x+iy)^m, Im (x+iy)^m) = (r^m cos mθ, r^m sin mθ)` -/
def cs : Nat → K → K → K × K
  | 0, _, _ => (((1 : Nat) : K), ((0 : Nat) : K))
  | m + 1, x, y => let p := cs m x y; (x * p.1 - y * p.2, x * p.2 + y * p.1)

variable [Transc K]

/-- the value `Z` of `zernike_nm` before clipping, at the point `(x, y)` -/
def modeCart (n : Nat) (m : Int) (rot x y : K) : K :=
  let t := x ^ 2 + y ^ 2
  if m = 0 then Transc.sqrt (((n + 1 : Nat) : K)) * radialQuot n 0 t
  else
    let a := m.natAbs
    let p := cs a x y
    if 0 < m then
      Transc.sqrt (((2 * (n + 1) : Nat) : K)) * radialQuot n a t * (p.1 * Transc.cos rot - p.2 * Transc.sin rot)
    else
      Transc.sqrt (((2 * (n + 1) : Nat) : K)) * radialQuot n a t * (p.2 * Transc.cos rot + p.1 * Transc.sin rot)

/-- `coords[i] = (i - N/2 + 0.5)/(N/2)` -/
def coord (N i : Nat) : K := (((i : Nat) : K) - ((N : Nat) : K) / ((2 : Nat) : K) + (0.5 : K)) / (((N : Nat) : K) / ((2 : Nat) : K))

variable [LE K] [DecidableLE K]

/-- `circle(N/2., N)[row, col]` : pixel centres `(i + 0.5) - N/2`, inside iff `x² + y² ≤ (N/2)²` -/
def circleMask (N row col : Nat) : K :=
  let x : K := (((col : Nat) : K) + (0.5 : K)) - ((N : Nat) : K) / ((2 : Nat) : K)
  let y : K := (((row : Nat) : K) + (0.5 : K)) - ((N : Nat) : K) / ((2 : Nat) : K)
  let rad : K := ((N : Nat) : K) / ((2 : Nat) : K)
  if x * x + y * y ≤ rad * rad then ((1 : Nat) : K) else ((0 : Nat) : K)

/-- `numpy.less_equal(R, 1.0)` with `R = sqrt(X**2 + Y**2)` -/
def clip (x y : K) : K :=
  if Transc.sqrt (x ^ 2 + y ^ 2) ≤ ((1 : Nat) : K) then ((1 : Nat) : K) else ((0 : Nat) : K)

/-- `zernike_nm(n, m, N, rot)[row, col]`  (`X` varies along columns, `Y` along rows) -/
def modePixel (n : Nat) (m : Int) (N : Nat) (rot : K) (row col : Nat) : K :=
  let x : K := coord N col
  let y : K := coord N row
  modeCart n m rot x y * clip x y * circleMask N row col

/-- `zernike_noll(j, N, rot)[row, col]` -/
def nollPixel (j N : Nat) (rot : K) (row col : Nat) : K :=
  let nm := zernIndex j
  modePixel nm.1 nm.2 N rot row col

/-! ### arrays: images are row-major lists of length `N*N` -/

def image (N : Nat) (f : Nat → Nat → K) : List K :=
  (List.range N).flatMap (fun r => (List.range N).map (fun c => f r c))

def nollImage (j N : Nat) (rot : K) : List K := image N (nollPixel j N rot)
def circleImage (N : Nat) : List K := image N (fun r c => (circleMask N r c : K))

end Scalar

section Normalise
variable {K : Type} [Add K] [Sub K] [Mul K] [Div K] [Neg K] [NatCast K] [OfScientific K] [HPow K Nat K] [Transc K]
  [LE K] [DecidableLE K]

/-- `a.max()` / `a.min()` of a non-empty array (first element wins ties; `0` for the empty list) -/
def listMax : List K → K
  | [] => ((0 : Nat) : K)
  | a :: l => l.foldl (fun acc b => if acc ≤ b then b else acc) a

def listMin : List K → K
  | [] => ((0 : Nat) : K)
  | a :: l => l.foldl (fun acc b => if b ≤ acc then b else acc) a

def listSum (l : List K) : K := l.foldl (fun acc b => acc + b) (0.0 : K)

inductive Norm | noll | p2v | rms
  deriving DecidableEq, Repr

/-- the normalisation block at the end of `zernikeArray`, for one mode -/
def normalise (norm : Norm) (N : Nat) (img : List K) : List K :=
  match norm with
  | .noll => img
  | .p2v => let d := listMax img - listMin img; img.map (fun v => v / d)
  | .rms =>
      let s := Transc.sqrt (listSum (img.map (fun v => v ^ 2)) / listSum (circleImage N : List K))
      img.map (fun v => v / s)

/-- `zernikeArray(J, N, norm, rot)` for a list `J` of Noll indices -/
def zernikeArrayList (js : List Nat) (N : Nat) (norm : Norm) (rot : K) : List (List K) :=
  js.map (fun j => normalise norm N (nollImage j N rot))

/-- `zernikeArray(J, N, norm, rot)` for a count `J`: modes 1 … J -/
def zernikeArrayCount (J N : Nat) (norm : Norm) (rot : K) : List (List K) :=
  (List.range J).map (fun i => normalise norm N (nollImage (i + 1) N rot))

/-- `phase += Zs[z] * zCoeffs[z]`, pixel by pixel -/
def axpy (phase img : List K) (c : K) : List K := List.zipWith (fun p v => p + v * c) phase img

/-- `phaseFromZernikes(zCoeffs, size, norm, rot)` -/
def phaseFromZernikes (coeffs : List K) (N : Nat) (norm : Norm) (rot : K) : List K :=
  let zs := zernikeArrayCount coeffs.length N norm rot
  (List.zip zs coeffs).foldl (fun phase zc => axpy phase zc.1 zc.2) (List.replicate (N * N) (0.0 : K))

end Normalise

/-! ### makegammas -/

/-- the `(n, m)` lists built by the first loop of `makegammas` (`m ≥ 0`; sine/cosine told apart by index parity) -/
def gammaOrder (p : Nat) : List (Nat × Nat) :=
  (List.range (p + 1)).flatMap (fun q =>
    if (p - q) % 2 = 0 then (if q > 0 then [(p, q), (p, q)] else [(p, q)]) else [])

def gammaNM (nzrad : Nat) : List (Nat × Nat) :=
  (0, 0) :: (List.range nzrad).flatMap (fun p => gammaOrder (p + 1))

section Gamma
variable {K : Type} [Add K] [Sub K] [Mul K] [Div K] [Neg K] [NatCast K] [OfScientific K] [HPow K Nat K] [Transc K]

/-- rule a -/
def gammaA (ni mi nj mj : Nat) : K :=
  if mi = 0 ∨ mj = 0 then
    Transc.sqrt (2.0 : K) * Transc.sqrt ((((ni + 1 : Nat) : K)) * (((nj + 1 : Nat) : K)))
  else Transc.sqrt ((((ni + 1 : Nat) : K)) * (((nj + 1 : Nat) : K)))

/-- does rule b or c zero the x entry?  (`i`, `j` are the 0-based positions) -/
def gamxZero (mi mj i j : Nat) : Bool :=
  (if mi = 0 then (j + 1) % 2 == 1
   else if mj = 0 then (i + 1) % 2 == 1
   else (i + 1) % 2 != (j + 1) % 2)
  || ((mj : Int) - (mi : Int)).natAbs != 1

def gamyZero (mi mj i j : Nat) : Bool :=
  (if mi = 0 then (j + 1) % 2 == 0
   else if mj = 0 then (i + 1) % 2 == 0
   else (i + 1) % 2 == (j + 1) % 2)
  || ((mj : Int) - (mi : Int)).natAbs != 1

/-- rule d of the y matrix: is the entry negated? -/
def gamyNeg (mi mj i : Nat) : Bool :=
  if mi = 0 then false
  else if mj = 0 then false
  else if mj = mi + 1 then (i + 1) % 2 == 1
  else if mj + 1 = mi then (i + 1) % 2 == 0
  else false

def gamxEntry (nm : List (Nat × Nat)) (i j : Nat) : K :=
  let a := nm.getD i (0, 0)
  let b := nm.getD j (0, 0)
  if j ≤ i then (if gamxZero a.2 b.2 i j then (0.0 : K) else gammaA a.1 a.2 b.1 b.2) else (0.0 : K)

def gamyEntry (nm : List (Nat × Nat)) (i j : Nat) : K :=
  let a := nm.getD i (0, 0)
  let b := nm.getD j (0, 0)
  if j ≤ i then
    (if gamyZero a.2 b.2 i j then (0.0 : K)
     else if gamyNeg a.2 b.2 i then gammaA a.1 a.2 b.1 b.2 * (-(1.0 : K)) else gammaA a.1 a.2 b.1 b.2)
  else (0.0 : K)

end Gamma

/-! ### integer forms used by the kernel-checked tables

Dividing row `i` of `∂Z_i = Σ_j γ_ij Z_j` by the normalisation constant `c_i` of `Z_i = c_i P_i`
(`c = √(n+1)` for `m = 0`, `√(2(n+1))` otherwise) leaves integers: `γ_ij c_j / c_i = (n_j+1)·(2 if m_i = 0 else 1)`. -/

def gamxInt (nm : List (Nat × Nat)) (i j : Nat) : Int :=
  let a := nm.getD i (0, 0)
  let b := nm.getD j (0, 0)
  if j ≤ i ∧ gamxZero a.2 b.2 i j = false then ((b.1 + 1) * (if a.2 = 0 then 2 else 1) : Nat) else 0

def gamyInt (nm : List (Nat × Nat)) (i j : Nat) : Int :=
  let a := nm.getD i (0, 0)
  let b := nm.getD j (0, 0)
  if j ≤ i ∧ gamyZero a.2 b.2 i j = false then
    (if gamyNeg a.2 b.2 i then -1 else 1) * (((b.1 + 1) * (if a.2 = 0 then 2 else 1) : Nat) : Int)
  else 0


/-! ### integer polynomials in `x, y` (monomial lists) — the exact form of the modes used by the kernel-checked tables -/

/-- a monomial `c · x^a · y^b` is `(a, b, c)` -/
abbrev Poly := List (Nat × Nat × Int)

namespace Poly

def coeff (p : Poly) (a b : Nat) : Int :=
  p.foldl (fun acc t => if t.1 = a ∧ t.2.1 = b then acc + t.2.2 else acc) 0

/-- add one monomial, merging with an existing one of the same exponents -/
def addMono (t : Nat × Nat × Int) : Poly → Poly
  | [] => [t]
  | s :: p => if s.1 = t.1 ∧ s.2.1 = t.2.1 then (s.1, s.2.1, s.2.2 + t.2.2) :: p else s :: addMono t p

def norm (p : Poly) : Poly := p.foldl (fun acc t => addMono t acc) []

def smul (c : Int) (p : Poly) : Poly := if c = 0 then [] else p.map (fun t => (t.1, t.2.1, c * t.2.2))

def add (p q : Poly) : Poly := norm (p ++ q)

def mul (p q : Poly) : Poly :=
  norm (p.flatMap (fun s => q.map (fun t => (s.1 + t.1, s.2.1 + t.2.1, s.2.2 * t.2.2))))

def pow (p : Poly) : Nat → Poly
  | 0 => [(0, 0, 1)]
  | k + 1 => mul p (pow p k)

/-- formal `∂/∂x`, `∂/∂y` -/
def dx (p : Poly) : Poly := p.map (fun t => (t.1 - 1, t.2.1, (t.1 : Int) * t.2.2))
def dy (p : Poly) : Poly := p.map (fun t => (t.1, t.2.1 - 1, (t.2.1 : Int) * t.2.2))

def degLe (p : Poly) (d : Nat) : Bool := p.all (fun t => t.1 + t.2.1 ≤ d)

section Eval
variable {K : Type} [Add K] [Mul K] [Neg K] [NatCast K] [HPow K Nat K]

def intCast (c : Int) : K := if c < 0 then -((c.natAbs : Nat) : K) else ((c.natAbs : Nat) : K)

def eval (p : Poly) (x y : K) : K :=
  p.foldl (fun acc t => acc + intCast t.2.2 * x ^ t.1 * y ^ t.2.1) ((0 : Nat) : K)

end Eval
end Poly

def polyX : Poly := [(1, 0, 1)]
def polyY : Poly := [(0, 1, 1)]

/-- `(Re (x+iy)^m, Im (x+iy)^m)` as polynomials — the polynomial twin of `cs` -/
def csPoly : Nat → Poly × Poly
  | 0 => ([(0, 0, 1)], [])
  | m + 1 =>
      let p := csPoly m
      (Poly.add (Poly.mul polyX p.1) (Poly.smul (-1) (Poly.mul polyY p.2)),
       Poly.add (Poly.mul polyX p.2) (Poly.mul polyY p.1))

/-- the integer `(-1)^i (n-i)! / (i! ((n+m)/2-i)! ((n-m)/2-i)!)` (a multinomial coefficient: the division is exact) -/
def radialCoefInt (n m i : Nat) : Int :=
  let q : Nat := fact (n - i) / (fact i * fact ((n + m) / 2 - i) * fact ((n - m) / 2 - i))
  if i % 2 = 0 then (q : Int) else -(q : Int)

/-- polynomial twin of `radialQuot n m (x² + y²)` -/
def radialQuotPoly (n m : Nat) : Poly :=
  let t : Poly := [(2, 0, 1), (0, 2, 1)]
  (List.range ((n - m) / 2 + 1)).foldl
    (fun acc i => Poly.add acc (Poly.smul (radialCoefInt n m i) (Poly.pow t ((n - m) / 2 - i)))) []

/-- `Z_n^m / c_n^m` at `rot = 0` as an integer polynomial: `modeCart n m 0 x y = c · eval (zernPoly n m) x y` -/
def zernPoly (n : Nat) (m : Int) : Poly :=
  if m = 0 then radialQuotPoly n 0
  else if 0 < m then Poly.mul (radialQuotPoly n m.natAbs) (csPoly m.natAbs).1
  else Poly.mul (radialQuotPoly n m.natAbs) (csPoly m.natAbs).2

/-- the mode at `rot = 0` evaluated through its integer polynomial (run by the driver against the code: ties `zernPoly` to it) -/
def modeCartPoly {K : Type} [Add K] [Mul K] [Neg K] [NatCast K] [HPow K Nat K] [Transc K] (n : Nat) (m : Int) (x y : K) : K :=
  (if m = 0 then Transc.sqrt (((n + 1 : Nat) : K)) else Transc.sqrt (((2 * (n + 1) : Nat) : K))) * Poly.eval (zernPoly n m) x y

def nollPoly (j : Nat) : Poly := zernPoly (zernIndex j).1 (zernIndex j).2

/-- `∂P_i − Σ_j g_ij P_j` for the x (resp. y) matrix of `makegammas nzrad`; the table says all its coefficients vanish -/
def gammaResidual (useY : Bool) (nzrad i : Nat) : Poly :=
  let nm := gammaNM nzrad
  let d := if useY then Poly.dy (nollPoly (i + 1)) else Poly.dx (nollPoly (i + 1))
  d ++ (List.range nm.length).flatMap (fun j =>
    Poly.smul (-(if useY then gamyInt nm i j else gamxInt nm i j)) (nollPoly (j + 1)))

/-! ### exact pixels of the Noll modes at `rot = 0` (run at ℚ): discharge the non-degeneracy side conditions of `rms_unit` / `p2v_unit` -/

section Exact
variable {K : Type} [Add K] [Sub K] [Mul K] [Div K] [Neg K] [NatCast K] [OfScientific K] [HPow K Nat K] [LE K] [DecidableLE K]

/-- `coord` / `circleMask` again, the same expressions without the (unused) `Transc` parameter, so that they also run at ℚ
(`coord_eq_coordE`, `circleMask_eq_maskE` in `Props/C12.lean`: definitionally equal) -/
def coordE (N i : Nat) : K := (((i : Nat) : K) - ((N : Nat) : K) / ((2 : Nat) : K) + (0.5 : K)) / (((N : Nat) : K) / ((2 : Nat) : K))

def maskE (N row col : Nat) : K :=
  let x : K := (((col : Nat) : K) + (0.5 : K)) - ((N : Nat) : K) / ((2 : Nat) : K)
  let y : K := (((row : Nat) : K) + (0.5 : K)) - ((N : Nat) : K) / ((2 : Nat) : K)
  let rad : K := ((N : Nat) : K) / ((2 : Nat) : K)
  if x * x + y * y ≤ rad * rad then ((1 : Nat) : K) else ((0 : Nat) : K)

/-- pixel `(row, col)` of `zernike_noll(j, N)` at `rot = 0`, divided by the (positive) Noll constant of the mode: the integer
polynomial `nollPoly j` at the pixel centre times the two indicator factors of `zernike_nm` (clip and `circle(N/2, N)`, the same
indicator in exact arithmetic — `clip_eq_mask`) -/
def polyPixel (j N row col : Nat) : K :=
  Poly.eval (nollPoly j) (coordE N col) (coordE N row) * maskE N row col * maskE N row col

end Exact

/-- some pixel differs from pixel (0, 0)  ⟺  the mode is not constant on the `N`-grid -/
def nonconstPix (K : Type) [Add K] [Sub K] [Mul K] [Div K] [Neg K] [NatCast K] [OfScientific K] [HPow K Nat K] [LE K] [DecidableLE K]
    [DecidableEq K] (j N : Nat) : Bool :=
  (List.range N).any (fun r => (List.range N).any (fun c => decide (polyPixel (K := K) j N r c ≠ polyPixel (K := K) j N 0 0)))

/-- some pixel is non-zero  ⟺  the mode is not identically zero on the `N`-grid -/
def nonzeroPix (K : Type) [Add K] [Sub K] [Mul K] [Div K] [Neg K] [NatCast K] [OfScientific K] [HPow K Nat K] [LE K] [DecidableLE K]
    [DecidableEq K] (j N : Nat) : Bool :=
  (List.range N).any (fun r => (List.range N).any (fun c => decide (polyPixel (K := K) j N r c ≠ ((0 : Nat) : K))))

/-- the `(j, N)` with `j ≤ 28`, `N ≤ 12` whose mode at `rot = 0` is CONSTANT on the grid (`norm="p2v"` divides by zero): every mode for
`N = 1`; piston, defocus and ten more for `N = 2`; piston and Noll 15, 25 for `N = 3`; none for `4 ≤ N ≤ 12` -/
def constExcl (j N : Nat) : Bool :=
  N == 1 || (N == 2 && [1, 4, 6, 11, 12, 14, 15, 22, 24, 25, 26, 28].contains j) || (N == 3 && [1, 15, 25].contains j)

/-- the `(j, N)` with `j ≤ 28`, `N ≤ 12` whose mode at `rot = 0` is identically ZERO on the grid (`norm="rms"` divides by zero) -/
def zeroExcl (j N : Nat) : Bool :=
  (N == 1 && !([1, 4, 11, 22].contains j)) || (N == 2 && [4, 6, 12, 15, 22, 24, 25, 28].contains j) || (N == 3 && [15, 25].contains j)

/-! ### `int(numpy.round(x))` of the count path of `zernikeArray` -/

/-- `int(numpy.round(num/den))` for a non-negative rational: nearest integer, ties to even -/
def npRound (num den : Nat) : Nat :=
  let q := num / den
  let r2 := 2 * (num % den)
  if r2 < den then q else if den < r2 then q + 1 else if q % 2 = 0 then q else q + 1

/-- the count path of `zernikeArray` for a non-negative float count `J = Jn/Jd` and size `N = Nn/Nd`:
`maxJ = int(numpy.round(J))`, `N = int(numpy.round(N))`, then modes `1 … maxJ` -/
def zernikeArrayCountF {K : Type} [Add K] [Sub K] [Mul K] [Div K] [Neg K] [NatCast K] [OfScientific K] [HPow K Nat K] [Transc K]
    [LE K] [DecidableLE K] (Jn Jd Nn Nd : Nat) (norm : Norm) (rot : K) : List (List K) :=
  zernikeArrayCount (npRound Jn Jd) (npRound Nn Nd) norm rot

end AoVerif.Model.Zernike
