/-
Normal forms of the closed-form von Kármán statistics (C08; reused by C01/C04/C05).  Mathlib-free, scalar-polymorphic:
at `Float` the driver runs these against the real code, at `ℝ` `Props/C08.lean` proves that the definitions
REGENERATED from the Python source are equal to them.

  h(x)   = x^(5/6) · K_{5/6}(x)                      (`hK`;  `kv` is the opaque Bessel function of `Transc`)
  h₀     = 2^(−1/6) · Γ(5/6)                         (its limit at 0⁺ — hypothesis H1, not a theorem here)
  κ_D    = 0.17253                                   (constant of `structure_function_vk` / `stf_vonKarman`)
  κ_C    = Γ(11/6) Γ(5/6) π^(−8/3) (24 Γ(6/5)/5)^(5/6)   (the same constant as implied by `phase_covariance`)
-/
import AoVerif.Model.Scalar

namespace AoVerif.VonKarman

variable {K : Type} [Add K] [Sub K] [Mul K] [Div K] [Neg K] [NatCast K] [OfScientific K] [HPow K Nat K] [Transc K]

/-- `h(x) = x^(5/6) K_{5/6}(x)` -/
def hK (x : K) : K :=
  Transc.rpow x (((5 : Nat) : K) / ((6 : Nat) : K)) * Transc.kv (((5 : Nat) : K) / ((6 : Nat) : K)) x

/-- `h₀ = 2^(−1/6) Γ(5/6)` -/
def h0 : K :=
  Transc.rpow ((2 : Nat) : K) ((-((1 : Nat) : K)) / ((6 : Nat) : K)) * Transc.gamma (((5 : Nat) : K) / ((6 : Nat) : K))

def kappaD : K := (17253e-5 : K)

/-- `κ_C = Γ(11/6) Γ(5/6) π^(−8/3) (24 Γ(6/5) / 5)^(5/6)` -/
def kappaC : K :=
  Transc.gamma (((11 : Nat) : K) / ((6 : Nat) : K)) * Transc.gamma (((5 : Nat) : K) / ((6 : Nat) : K))
    * Transc.rpow (Transc.pi : K) ((-((8 : Nat) : K)) / ((3 : Nat) : K))
    * Transc.rpow (((24 : Nat) : K) * Transc.gamma (((6 : Nat) : K) / ((5 : Nat) : K)) / ((5 : Nat) : K))
        (((5 : Nat) : K) / ((6 : Nat) : K))

/-- `(L0/r0)^(5/3)` -/
def amp (r0 L0 : K) : K := Transc.rpow (L0 / r0) (((5 : Nat) : K) / ((3 : Nat) : K))

/-- dimensionless argument `2πr/L0` -/
def xarg (r L0 : K) : K := ((2 : Nat) : K) * (Transc.pi : K) * r / L0

/-- the phase variance `C₀ = κ_C/2 · (L0/r0)^(5/3)` (value of the covariance in the limit r → 0⁺ under H1) -/
def covZero (r0 L0 : K) : K := kappaC / ((2 : Nat) : K) * amp r0 L0

/-- ideal covariance for r > 0: `C(r) = κ_C/2 · (L0/r0)^(5/3) · h(2πr/L0)/h₀` -/
def covIdeal (r r0 L0 : K) : K := covZero r0 L0 * (hK (xarg r L0) / h0)

/-- normal form of the structure function for r > 0: `D(r) = κ_D (L0/r0)^(5/3) (1 − h(2πr/L0)/h₀)` -/
def sfPos (r r0 L0 : K) : K := kappaD * amp r0 L0 * (((1 : Nat) : K) - hK (xarg r L0) / h0)

/-- saturation value `κ_D (L0/r0)^(5/3)` -/
def sfSat (r0 L0 : K) : K := kappaD * amp r0 L0

end AoVerif.VonKarman
