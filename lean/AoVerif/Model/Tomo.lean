/-
Model of `aotools.turbulence.slopecovariance.create_tomographic_covariance_reconstructor` and of the method
`CovarianceMatrix.make_tomographic_reconstructor` that wraps it (C02).  Mathlib-free, scalar-polymorphic.

    cov_onoff   = covariance_matrix[:2*n, 2*n:]
    cov_offoff  = covariance_matrix[2*n:, 2*n:]
    icov_offoff = numpy.linalg.pinv(cov_offoff, rcond=svd_conditioning)      -- EXTERNAL KERNEL (parameter `pinv`)
    tomo_recon  = cov_onoff.dot(icov_offoff)

Matrices are index functions `Nat → Nat → K` with explicit sizes (DESIGN §2.1).  The pseudo-inverse is a parameter;
its contract ("SVD-truncated pseudo-inverse") is written down in executable form as `pinvFromSvd`, mirroring
numpy.linalg.pinv line by line, so that the harness can run it on numpy's own SVD factors and the theorems can
quantify over every kernel that meets it.
-/
import AoVerif.Model.Scalar

namespace AoVerif.Tomo

/-- a matrix as an index function; sizes are carried separately -/
abbrev Mat (K : Type) := Nat → Nat → K

section
variable {K : Type} [Add K] [Mul K] [OfScientific K]

/-- `A.dot(B)` for `A : a×m`, `B : m×b` (inner dimension `m`), accumulated left to right -/
def matMul (m : Nat) (A B : Mat K) : Mat K := fun i j => sumTo m (fun k => A i k * B k j)

def transpose (A : Mat K) : Mat K := fun i j => A j i

/-- `covariance_matrix[:2*n, :2*n]` (not used by the code; it is the on-axis auto-covariance of the property) -/
def covOnOn (_n : Nat) (C : Mat K) : Mat K := fun i j => C i j
/-- `covariance_matrix[:2*n, 2*n:]` -/
def covOnOff (n : Nat) (C : Mat K) : Mat K := fun i j => C i (2 * n + j)
/-- `covariance_matrix[2*n:, :2*n]` -/
def covOffOn (n : Nat) (C : Mat K) : Mat K := fun i j => C (2 * n + i) j
/-- `covariance_matrix[2*n:, 2*n:]` -/
def covOffOff (n : Nat) (C : Mat K) : Mat K := fun i j => C (2 * n + i) (2 * n + j)

/-- `create_tomographic_covariance_reconstructor(C, n, rcond)` for an `N×N` matrix `C`; the result is
`2n × (N-2n)`.  `pinv q rcond A` is the external pseudo-inverse kernel applied to a `q×q` matrix. -/
def reconstructor (pinv : Nat → K → Mat K → Mat K) (N n : Nat) (rcond : K) (C : Mat K) : Mat K :=
  matMul (N - 2 * n) (covOnOff n C) (pinv (N - 2 * n) rcond (covOffOff n C))

/-- `CovarianceMatrix.make_tomographic_reconstructor(svd_conditioning)`: the stored matrix has size
`2·Σ n_subaps`, and the number of on-axis sub-apertures handed over is `n_subaps[0]`. -/
def makeTomographicReconstructor (pinv : Nat → K → Mat K → Mat K) (nSubaps : List Nat) (rcond : K)
    (C : Mat K) : Mat K :=
  reconstructor pinv (2 * nSubaps.sum) (nSubaps.headD 0) rcond C

/-- `trace` of a `p×p` matrix -/
def trace (p : Nat) (A : Mat K) : K := sumTo p (fun i => A i i)

end

section
variable {K : Type} [Add K] [Sub K] [Mul K] [OfScientific K]

/-- the expected squared residual `E|s_on − R s_off|²` of a linear estimator `R : 2n × (N-2n)` when the slopes
have covariance `C`:  `tr(C_onon − R C_offon − C_onoff Rᵀ + R C_offoff Rᵀ)` -/
def residualVariance (N n : Nat) (C R : Mat K) : K :=
  let q := N - 2 * n
  trace (2 * n) (fun i j =>
    covOnOn n C i j - matMul q R (covOffOn n C) i j - matMul q (covOnOff n C) (transpose R) i j
      + matMul q (matMul q R (covOffOff n C)) (transpose R) i j)

end

section
variable {K : Type} [Add K] [Mul K] [Div K] [NatCast K] [OfScientific K] [LT K] [DecidableLT K]

/-- `amax(s)` as a left-to-right running maximum (numpy's reduction; `s` non-empty) -/
def sigMax (q : Nat) (σ : Nat → K) : K :=
  (List.range q).foldl (fun m i => if m < σ i then σ i else m) (σ 0)

/-- the reciprocal-with-truncation step of numpy.linalg.pinv:
`large = s > cutoff; s = divide(1, s, where=large); s[~large] = 0` -/
def truncInv (cutoff : K) (s : K) : K := if cutoff < s then ((1 : Nat) : K) / s else ((0 : Nat) : K)

/-- numpy.linalg.pinv written out on the factors `u, s, vt = svd(a)`:
`cutoff = rcond * amax(s)`; `res = matmul(transpose(vt), multiply(s[..., newaxis], transpose(u)))`, i.e.
`res[i,j] = Σ_k vt[k,i] · (s⁺[k] · u[j,k])`. -/
def pinvFromSvd (q : Nat) (rcond : K) (U : Mat K) (σ : Nat → K) (Vt : Mat K) : Mat K :=
  let cutoff := rcond * sigMax q σ
  fun i j => sumTo q (fun k => Vt k i * (truncInv cutoff (σ k) * U j k))

end

end AoVerif.Tomo
