/-
Model of `aotools/functions/karhunenLoeve.py` (C13).  Mathlib-free, scalar-polymorphic: at `Float` it is what the
correspondence driver runs, at `ℝ` it is what the theorems of `Props/C13.lean` are about.

External numerical kernels are PARAMETERS here: the per-order eigen-decompositions returned by `numpy.linalg.eigh`
(`V t a k`, `E t k`), the index permutation returned by `numpy.argsort` (`a : List Nat`) and the spline evaluation of
`map_coordinates` (`interp`).  `numpy.fft.fft` of a real sequence enters through its defining sum (`rdftRe`).
The three constants `d`, `fnorm`, `fktom` are the definitions REGENERATED from the source by translator T1.
-/
import AoVerif.Model.Scalar
import AoVerif.Gen.Formulas

namespace AoVerif.KL
open AoVerif

section scalar
variable {K : Type} [Add K] [Sub K] [Mul K] [Div K] [Neg K] [NatCast K] [OfScientific K] [HPow K Nat K] [Transc K]

/-! ### radial grid, kernel -/

/-- `gkl_radii(ri, nr)[k]` : `d = (1 - ri**2)/nr ; r2 = ri**2 + d*arange(nr) + d/16 ; sqrt(r2)` -/
def radii (ri : K) (nr : Nat) (k : Nat) : K :=
  let d : K := Gen.kl_radii_d ri (nr : K)
  Transc.sqrt (ri ^ (2 : Nat) + d * (k : K) + d / ((16 : Nat) : K))

/-- `np.arange(nth) * 2 * np.pi / nth` at index `c` -/
def thetaK (n c : Nat) : K := (((c : K) * ((2 : Nat) : K)) * (Transc.pi : K)) / (n : K)

/-- real part of `numpy.fft.fft(x)[p]` for a real sequence `x` of length `n` (defining sum of the external FFT) -/
def rdftRe (n : Nat) (x : Nat → K) (p : Nat) : K :=
  sumTo n (fun c => x c * Transc.cos (thetaK n (p * c)))

section kernel
variable [LE K] [DecidableLE K]

/-- `np.maximum(x, 0)` -/
def clamp0 (x : K) : K := if x ≤ ((0 : Nat) : K) then ((0 : Nat) : K) else x

/-- `dist2 = ra**2 + rb**2 - 2*ra*rb*cos(theta_c)` ; `0.5 * sqrt(maximum(dist2, 0))` : half the distance between two
grid points whose azimuths differ by `c` steps (the argument handed to the structure function) -/
def halfDist (ra rb : K) (n c : Nat) : K :=
  (0.5 : K) * Transc.sqrt (clamp0
    (ra ^ (2 : Nat) + rb ^ (2 : Nat) - ((2 : Nat) : K) * ra * rb * Transc.cos (thetaK n c)))

/-- the value computed in the body of the double loop of `gkl_kernel` for `j ≤ i` -/
def kernLow (stf : K → K) (ri : K) (nr : Nat) (rad : Nat → K) (i j p : Nat) : K :=
  let nth := 5 * nr
  Gen.kl_fnorm ri * (((2 : Nat) : K) * (Transc.pi : K) / (nth : K))
    * rdftRe nth (fun c => stf (halfDist (rad i) (rad j) nth c)) p

/-- `gkl_kernel(ri, nr, rad)[i, j, p]` (the lower triangle is computed, the upper one mirrored) -/
def kernel (stf : K → K) (ri : K) (nr : Nat) (rad : Nat → K) (i j p : Nat) : K :=
  if j ≤ i then kernLow stf ri nr rad i j p else kernLow stf ri nr rad j i p

end kernel

/-! ### piston filtering and the matrices handed to `eigh` -/

/-- `piston_orth(nr)[i, j]` -/
def pistonOrth (nr i j : Nat) : K :=
  if j + 1 < nr then
    let rnm : K := ((1 : Nat) : K) / Transc.sqrt ((((j + 1) * (j + 2) : Nat)) : K)
    if i ≤ j then rnm
    else if i = j + 1 then (-((1 : Nat) : K)) * ((j + 1 : Nat) : K) * rnm
    else ((0 : Nat) : K)
  else if j + 1 = nr then ((1 : Nat) : K) / Transc.sqrt (nr : K)
  else ((0 : Nat) : K)

/-- `np.dot(np.dot(s, zom), s.T)[a, a']` with `s = piston_orth(nr).T` -/
def b1 (nr : Nat) (zom : Nat → Nat → K) (a a' : Nat) : K :=
  sumTo nr (fun j => (sumTo nr (fun i => pistonOrth nr i a * zom i j)) * pistonOrth nr j a')

/-- the matrix handed to `eigh` for azimuthal order `t` (`t = 0`: its leading `(nr-1)×(nr-1)` block is used) -/
def eighInput [LE K] [DecidableLE K] (stf : K → K) (ri : K) (nr : Nat) (rad : Nat → K) (t a a' : Nat) : K :=
  if t = 0 then Gen.kl_fktom ri (nr : K) * b1 nr (fun i j => kernel stf ri nr rad i j 0) a a'
  else Gen.kl_fktom ri (nr : K) * kernel stf ri nr rad a a' t

/-- `v1` : `v1[0:nr-1, 0:nr-1] = v0.T ; v1[nr-1, nr-1] = 1` -/
def v1 (nr : Nat) (v0 : Nat → Nat → K) (m k : Nat) : K :=
  if m + 1 < nr ∧ k + 1 < nr then v0 k m
  else if m + 1 = nr ∧ k + 1 = nr then ((1 : Nat) : K)
  else ((0 : Nat) : K)

/-- `vs = np.dot(v1, s)` : `vs[m, a]`, `s[k, a] = piston_orth(nr)[a, k]` -/
def vs0 (nr : Nat) (v0 : Nat → Nat → K) (m a : Nat) : K :=
  sumTo nr (fun k => v1 nr v0 m k * pistonOrth nr a k)

/-- radial functions `kers[a, k, t]` after the eigen-decompositions:
`kers[:, :, 0] = sqrt(nr) * vs.T`, `kers[:, :, t] = sqrt(2*nr) * V_t` -/
def kers (nr : Nat) (V : Nat → Nat → Nat → K) (t a k : Nat) : K :=
  if t = 0 then Transc.sqrt (nr : K) * vs0 nr (V 0) k a
  else Transc.sqrt (((2 * nr : Nat)) : K) * V t a k

/-- `evs[k, t]` : order 0 has the `nr-1` eigenvalues of the filtered block followed by an appended 0 -/
def evs (nr : Nat) (E : Nat → Nat → K) (t k : Nat) : K :=
  if t = 0 then (if k + 1 < nr then E 0 k else ((0 : Nat) : K)) else E t k

/-! ### azimuthal functions, polar synthesis -/

/-- `gkl_azimuthal(nord, npp)[o, b]` -/
def azi (nord npp : Nat) (o b : Nat) : K :=
  let theta : K := (b : K) * (((2 : Nat) : K) * (Transc.pi : K) / (npp : K))
  if o = 0 then ((1 : Nat) : K)
  else if o < nord then
    (if o % 2 = 1 then Transc.cos (((o / 2 + 1 : Nat) : K) * theta)
     else Transc.sin (((o / 2 : Nat) : K) * theta))
  else ((0 : Nat) : K)

/-- `gkl_sfi` : the polar function is the outer product of its radial and azimuthal factors -/
def sfi (radcol : Nat → K) (azrow : Nat → K) (a b : Nat) : K := radcol a * azrow b

/-! ### Cartesian geometry of `pcgeom` / `pol2car` -/

/-- `ax[row, col]` as a function of `col` (and `ay[row, col]` as a function of `row`) -/
def axc (ncp ncmar i : Nat) : K :=
  ((i : K) - (0.5 : K) * ((ncp - 1 : Nat) : K)) / ((0.5 : K) * ((ncp - 2 * ncmar : Nat) : K))

def cr2 (ncp ncmar row col : Nat) : K := axc ncp ncmar col ^ (2 : Nat) + axc ncp ncmar row ^ (2 : Nat)

variable [LE K] [DecidableLE K]

/-- `ap = (cr2 >= ri**2) & (cr2 <= 1.)` -/
def inAp (ri : K) (ncp ncmar row col : Nat) : Bool :=
  decide (ri ^ (2 : Nat) ≤ (cr2 (K := K) ncp ncmar row col)) && decide ((cr2 (K := K) ncp ncmar row col) ≤ ((1 : Nat) : K))

/-- `pupil = np.array(ap, dtype='float')` -/
def pupil (ri : K) (ncp ncmar row col : Nat) : K :=
  if inAp ri ncp ncmar row col then ((1 : Nat) : K) else ((0 : Nat) : K)

/-- `pol2car(geom, pol, mask)` at one pixel; `interp` is the value returned by `map_coordinates` there -/
def pol2car (ri : K) (ncp ncmar : Nat) (mask : Bool) (interp : K) (row col : Nat) : K :=
  if mask then interp * pupil ri ncp ncmar row col else interp

/-- `np.clip(x, lo, hi)` -/
def clip (x lo hi : K) : K := if x ≤ lo then lo else if hi ≤ x then hi else x

/-- `np.concatenate((pol, pol[:, :1]), axis=1)` of the repaired `pol2car` : column `npp` is column 0 again, the azimuth
is closed -/
def wrapCol {α : Type} (npp : Nat) (pol : Nat → Nat → α) (a b : Nat) : α := if b = npp then pol a 0 else pol a b

/-- order-1 interpolation between two neighbouring samples, weight `u` on the second one -/
def lerp (u x y : K) : K := (((1 : Nat) : K) - u) * x + u * y

/-- `map_coordinates(pol, [[a + u], [b + v]], order=1)` for `0 ≤ u, v < 1` : bilinear interpolation in the cell
`(a, b)` -/
def bilin (pol : Nat → Nat → K) (a b : Nat) (u v : K) : K :=
  lerp u (lerp v (pol a b) (pol a (b + 1))) (lerp v (pol (a + 1) b) (pol (a + 1) (b + 1)))

/-- azimuthal interpolation coordinate `cp` of a pixel from its angle index `phi = (arctan2 + 2π) % 2π · npp/2π`
(repaired `pcgeom`: the upper clip no longer cuts the last cell off) -/
def cpCoord (npp : Nat) (phi : K) : K := clip phi (1e-3 : K) ((npp : K) - (1e-3 : K))

/-- radial interpolation coordinate `cr` of a pixel -/
def crCoord (ri : K) (nr ncp ncmar row col : Nat) : K :=
  clip (((cr2 (K := K) ncp ncmar row col) - ri ^ (2 : Nat)) / (((1 : Nat) : K) - ri ^ (2 : Nat)) * (nr : K))
    (1e-3 : K) ((nr : K) - (1.001 : K))

end scalar

/-! ### selection, sorting, pairing (pure index glue) -/

/-- the body of the pairing loop: an index of order 0 (`x < nr`) is emitted once, any other index twice -/
def expand (nr : Nat) : List Nat → List Nat
  | [] => []
  | x :: xs => if x < nr then x :: expand nr xs else x :: x :: expand nr xs

/-- `oind[0:nfunc]` from `a = argsort(-evs)[0:nfunc]` -/
def oind (nr nfunc : Nat) (a : List Nat) : List Nat := (expand nr (a.take nfunc)).take nfunc

/-- `oord[i]` for the function at position `i` whose flat index is `x` :
`2*tord - floor((tord >= 1) & odd)` -/
def oordAt (nr i x : Nat) : Nat := 2 * (x / nr) - (if 1 ≤ x / nr ∧ i % 2 = 1 then 1 else 0)

def oordList (nr : Nat) (l : List Nat) : List Nat := l.mapIdx (fun i x => oordAt nr i x)

/-- `nord = max(oord) + 1` -/
def nordOf (oord : List Nat) : Nat := oord.foldl max 0 + 1

/-- `npo[o]` = number of selected functions of azimuthal index `o` -/
def npoOf (oord : List Nat) (o : Nat) : Nat := oord.count o

section loop
variable {K : Type} [LT K] [DecidableLT K]

/-- number of `k < nr` with `f k > x` -/
def countGt (nr : Nat) (f : Nat → K) (x : K) : Nat :=
  (List.range nr).countP (fun k => decide (x < f k))

/-- `2*sum(egtmxn) - sum(egtmxn[:, 0])` over the orders `0..t` -/
def loopCount (nr : Nat) (ev : Nat → Nat → K) (t : Nat) (x : K) : Nat :=
  2 * ((List.range (t + 1)).foldl (fun acc s => acc + countGt nr (ev s) x) 0) - countGt nr (ev 0) x

/-- `np.max(newev)` (nr ≥ 1) -/
def maxOf (nr : Nat) (f : Nat → K) : K :=
  (List.range nr).foldl (fun acc k => if acc < f k then f k else acc) (f 0)

/-- `nus` : the first order `t ≥ 1` after whose decomposition at least `nfunc` functions have an eigenvalue larger
than every eigenvalue of order `t`; `none` when no order `< nt` qualifies (the code then indexes out of range) -/
def findNus (nr nfunc nt : Nat) (ev : Nat → Nat → K) : Option Nat :=
  (List.range' 1 (nt - 1)).find? (fun t => decide (nfunc ≤ loopCount nr ev t (maxOf nr (ev t))))

/-- `np.argsort(-evs)` for pairwise distinct values (ties are resolved by position here, arbitrarily by NumPy) -/
def argsortDesc (n : Nat) (f : Nat → K) : List Nat :=
  (List.range n).mergeSort (fun x y => !decide (f x < f y))

end loop

end AoVerif.KL
