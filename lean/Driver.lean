/- Correspondence driver: one operation per line on stdin, one answer per line on stdout.
   Unknown or malformed lines answer `bad-op`; nothing is ever defaulted. -/
import AoVerif.Drive.T1

open AoVerif.Drive

def dispatch (line : String) : String :=
  let toks := (line.splitOn " ").filter (· ≠ "")
  let r : Option String := match toks with
    | "T1" :: rest => T1.handle rest
    | _ => none
  r.getD "bad-op"

partial def loop (h : IO.FS.Stream) (out : IO.FS.Stream) : IO Unit := do
  let line ← h.getLine
  if line.isEmpty then return ()
  out.putStrLn (dispatch (line.trimAscii.toString))
  loop h out

def main : IO Unit := do
  let out ← IO.getStdout
  loop (← IO.getStdin) out
  out.flush
