import AoVerif.Model.Scalar
import AoVerif.Gen.Formulas
import AoVerif.Gen.FormulasDispatch
import AoVerif.Lemmas.RealScalar
import AoVerif.Audit
import AoVerif.Drive.T1
import AoVerif.Props.C17
