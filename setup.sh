#!/bin/sh
# Offline build of the verification framework (MANIFEST.setup_cmd): regenerate the translated models from
# /repo's working tree and build every Lean module (models, lemmas, property theorems, driver libraries).
set -e
cd "$(dirname "$0")"
export PYTHONPATH="${AOVERIF_REPO:-/repo}:$(pwd)"
/venv/bin/python -W ignore -m harness.regen || echo "setup: translator reported a problem (checks will report it)"
cd lean
# a module that fails to build here (e.g. an obligation regenerated from a changed source tree) must not stop the
# others from being built: every check rebuilds and reports on its own targets
lake build 2>&1 | grep -v '^warning\|^Hint\|^Note\|\[apply\]\|^$\|unused\|omit\|consider' | tail -40
exit 0
