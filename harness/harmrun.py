"""Evaluate one HARMLESS change (written by an independent sub-agent that saw only the property text and was asked for a realistic
change that does NOT break the property: refactoring, ulp-level reformulation, correct optimisation, compatible API extension):
   python -m harness.harmrun <Cxx> <X> <dir with patch_X.diff demo_X.py meta_X.json> [--also Cyy ...]
1. confirm, in a scratch worktree, that the change applies, the repository's test-suite still passes and the property demonstration
   exits 0 without and with the change;  2. apply it to the target tree, run ./check <Cxx> --tier quick, undo it;  3. store
   everything under /verif/harmless/<Cxx>-<X>/ (patch.diff, demo.py, meta.json with what was run and what the check said).
An exit 1 here is a FALSE ALARM candidate: either the proof/correspondence no longer checks although the property holds (reported
with no-failing-input-found — expected for some rewrites, see DESIGN §7) or the oracle flagged a concrete input (then either the
change is not harmless after all or the oracle demands more than the property — both are examined by hand)."""
import json
import os
import shutil
import subprocess
import sys
import time

VERIF = os.path.dirname(os.path.dirname(os.path.abspath(__file__)))
PY = "/venv/bin/python"
# the tree the change is applied to while our checks run (default: /repo itself, as the protocol asks; a scratch worktree of
# /repo may be given to evaluate seeds in parallel with other work — the recorded run is repeated on /repo at the end)
TARGET = os.environ.get("SEED_REPO", "/repo")


def sh(cmd, cwd=None, env=None, timeout=3600):
    e = dict(os.environ)
    e.update(env or {})
    p = subprocess.run(cmd, cwd=cwd, env=e, capture_output=True, text=True, timeout=timeout)
    return p.returncode, (p.stdout + p.stderr)


def main():
    pid, x, src = sys.argv[1], sys.argv[2], sys.argv[3]
    also = []
    if "--also" in sys.argv:
        i = sys.argv.index("--also") + 1
        while i < len(sys.argv) and not sys.argv[i].startswith("--"):
            also.append(sys.argv[i]); i += 1
    # the name under which the change is stored (second-round changes A/B of a property are stored as C/D)
    label = sys.argv[sys.argv.index("--label") + 1] if "--label" in sys.argv else x
    patch = os.path.join(src, "patch_%s.diff" % x)
    demo = os.path.join(src, "demo_%s.py" % x)
    meta = json.load(open(os.path.join(src, "meta_%s.json" % x)))
    out = os.path.join(VERIF, "harmless", "%s-%s" % (pid, label))
    os.makedirs(out, exist_ok=True)
    shutil.copy(patch, os.path.join(out, "patch.diff"))
    shutil.copy(demo, os.path.join(out, "demo.py"))
    ran = {}
    # 1. confirm in a scratch worktree
    wt = "/tmp/harmcheck_%s_%s" % (pid, label)
    sh(["git", "-C", "/repo", "worktree", "remove", "--force", wt])
    rc, o = sh(["git", "-C", "/repo", "worktree", "add", "--detach", wt, "HEAD"])
    assert rc == 0, o
    try:
        env = {"PYTHONPATH": wt}
        ran["demo_unchanged_exit"] = sh([PY, os.path.join(out, "demo.py")], cwd=wt, env=env, timeout=1800)[0]
        rc, o = sh(["git", "apply", os.path.join(out, "patch.diff")], cwd=wt)
        if rc != 0:
            # the tree moved on since the change was written (later fix: commits touched neighbouring lines): re-base it
            rc, o = sh(["git", "apply", "--3way", os.path.join(out, "patch.diff")], cwd=wt)
            if rc == 0:
                _, d = sh(["git", "diff", "HEAD"], cwd=wt)
                open(os.path.join(out, "patch.diff"), "w").write(d)
                sh(["git", "reset", "-q"], cwd=wt)
                ran["patch_rebased"] = True
        ran["patch_applies"] = rc == 0
        rc, o = sh([PY, "-m", "pytest", "-q", "-p", "no:cacheprovider", "test"], cwd=wt, timeout=3600)
        ran["test_suite_with_change"] = o.strip().splitlines()[-1] if o.strip() else ""
        ran["test_suite_passes_with_change"] = rc == 0
        rc, o = sh([PY, os.path.join(out, "demo.py")], cwd=wt, env=env, timeout=1800)
        ran["demo_changed_exit"] = rc
        ran["demo_changed_output"] = o[-1500:]
    finally:
        sh(["git", "-C", "/repo", "worktree", "remove", "--force", wt])
    confirmed = ran.get("patch_applies") and ran.get("test_suite_passes_with_change") and \
        ran.get("demo_unchanged_exit") == 0 and ran.get("demo_changed_exit") == 0
    ran["confirmed"] = bool(confirmed)
    # 2. run our checks against it
    results = {}
    if confirmed:
        rc, o = sh(["git", "-C", TARGET, "status", "--porcelain"])
        assert o.strip() == "", TARGET + " is not clean: " + o
        rc, o = sh(["git", "-C", TARGET, "apply", os.path.join(out, "patch.diff")])
        assert rc == 0, o
        try:
            for prop in [pid] + also:
                for tier in ("quick",):
                    t0 = time.time()
                    rc, o = sh([os.path.join(VERIF, "check"), prop, "--tier", tier], cwd=VERIF, env={"VERIF_SEED": "0", "AOVERIF_REPO": TARGET}, timeout=7200)
                    vio = [l for l in o.splitlines() if l.startswith("VIOLATION") or l.startswith("  failing input") or l.startswith("  no longer")]
                    results["%s:%s" % (prop, tier)] = {"exit": rc, "wall_s": round(time.time() - t0, 1), "lines": vio[:6]}
                    if rc == 1 or prop != pid:
                        break
        finally:
            sh(["git", "-C", TARGET, "checkout", "--", "."])
            sh(["git", "-C", TARGET, "clean", "-fdq", "aotools"])
        # leave the evidence / Gen files as the unchanged tree produces them
        for prop in [pid] + also:
            sh([os.path.join(VERIF, "check"), prop, "--tier", "quick"], cwd=VERIF, env={"VERIF_SEED": "0", "AOVERIF_REPO": TARGET}, timeout=7200)
    caught = any(r["exit"] != 0 for k, r in results.items())
    concrete = any(r["exit"] == 1 and not any("no-failing-input-found" in l for l in r["lines"]) for k, r in results.items())
    meta.update({"written_by": "independent sub-agent given only the property text and a scratch worktree",
                 "what_i_ran": ran, "check_results": results, "checks_ran_against": TARGET, "check_alarmed": caught,
                 "alarm_names_concrete_input": concrete})
    json.dump(meta, open(os.path.join(out, "meta.json"), "w"), indent=1)
    print(json.dumps({"id": "%s-%s" % (pid, label), "confirmed": ran["confirmed"], "alarmed": caught, "concrete": concrete,
                      "results": {k: (v["exit"], v["wall_s"]) for k, v in results.items()}}))


if __name__ == "__main__":
    main()
