"""Entry point: python -m harness.runcheck <Cxx> [--tier quick|thorough] [--replay file]"""
import argparse
import importlib
import os
import sys
import traceback
import warnings

warnings.filterwarnings("ignore")
HERE = os.path.dirname(os.path.abspath(__file__))
sys.path.insert(0, os.environ.get("AOVERIF_REPO", "/repo"))
sys.path.insert(0, os.path.dirname(HERE))

from harness import common  # noqa: E402


def library_exception(ex):
    """'<file>:<function>' of the innermost frame inside the library under test if the exception came out of a call INTO the library
    made by the harness (a library frame lies below the last harness frame); None for a failure of the harness itself"""
    repo = os.path.realpath(os.environ.get("AOVERIF_REPO", "/repo")) + os.sep + "aotools" + os.sep
    frames = traceback.extract_tb(ex.__traceback__)
    last_harness = max([i for i, f in enumerate(frames) if os.path.realpath(f.filename).startswith(os.path.dirname(HERE) + os.sep)], default=-1)
    libs = [f for f in frames[last_harness + 1:] if os.path.realpath(f.filename).startswith(repo)]
    if not libs:
        return None
    f = libs[-1]
    return "%s:%s" % (os.path.relpath(os.path.realpath(f.filename), os.path.dirname(repo.rstrip(os.sep))), f.name)


def main():
    ap = argparse.ArgumentParser()
    ap.add_argument("prop")
    ap.add_argument("--tier", default=os.environ.get("VERIF_TIER", "quick"), choices=["quick", "thorough"])
    ap.add_argument("--replay", default=None)
    a = ap.parse_args()
    seed = int(os.environ.get("VERIF_SEED", "0") or 0)
    os.environ["AOTOOLS_AOTOOLS_VERIF"] = "1"
    try:
        mod = importlib.import_module("harness.props." + a.prop.lower())
        tier = a.tier
        if a.replay:
            import json
            rec = json.load(open(a.replay))
            print("REPLAY %s" % json.dumps(rec.get("failure") or rec.get("broken"), indent=1, default=str)[:4000])
            if hasattr(mod, "replay"):
                return mod.replay(rec)
            seed, tier = int(rec.get("seed", seed)), rec.get("tier", tier)   # default: re-run the recorded run
        chk = common.Check(a.prop, tier, seed)
        try:
            mod.run(chk)
        except Exception as ex:
            lib = library_exception(ex)
            tb = traceback.format_exc()
            last = str(getattr(chk, "last_case", None))
            if lib is not None:
                # the LIBRARY raised on an input the generators produce (none of them raises on the unchanged tree): that is a
                # concrete failing input, not a harness crash; the rest of this run's oracle was not executed
                traceback.print_exc()
                chk.fail("exception:%s:%s" % (lib, type(ex).__name__),
                         "the library raised %s: %s in %s on a generated in-domain input (last case: %s)"
                         % (type(ex).__name__, str(ex)[:200], lib, last[:300]),
                         {"kind": "library-exception", "traceback": tb[-3000:], "last_case": last[:2000]})
                chk.notes.append("run aborted by a library exception; remaining oracle sections were not executed")
            elif isinstance(ex, (OSError, MemoryError, common.LeanError, ImportError)) or os.environ.get("VERIF_STRICT_HARNESS"):
                raise                     # infrastructure: exit 2
            else:
                # an ordinary Python exception inside the check's own evaluation code.  On the unchanged tree every check runs to the
                # end for every seed (that is tested), so this is the implementation returning something the evaluation cannot
                # digest (another shape, a non-finite number where an exact one is expected …): the property is no longer shown to
                # hold — a broken evaluation, reported like a broken correspondence (no failing input could be named)
                traceback.print_exc()
                chk.broke("evaluation", "the check's evaluation code raised %s: %s — the implementation returned something the "
                          "evaluation does not expect (last case: %s)" % (type(ex).__name__, str(ex)[:200], last[:300]), tb[-3000:])
        rc = chk.finish()
    except Exception:
        traceback.print_exc()
        print("INFRASTRUCTURE-ERROR property=%s (exit 2, not a verdict)" % a.prop)
        return 2
    if rc == 0:
        print("OK property=%s tier=%s seed=%d theorems=%d corr=%d oracle=%d wall=%.1fs"
              % (a.prop, tier, seed, len(chk.obligations), chk.corr_cases, chk.oracle_cases,
                 __import__("time").time() - chk.t0))
    return rc


if __name__ == "__main__":
    sys.exit(main())
