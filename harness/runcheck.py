"""Entry point: python -m harness.runcheck <Cxx> [--tier quick|thorough] [--replay file]"""
import argparse
import importlib
import os
import sys
import traceback
import warnings

warnings.filterwarnings("ignore")
HERE = os.path.dirname(os.path.abspath(__file__))
sys.path.insert(0, os.environ.get("AOVERIF_REPO", "/repo"))
sys.path.insert(0, os.path.dirname(HERE))

from harness import common  # noqa: E402


def main():
    ap = argparse.ArgumentParser()
    ap.add_argument("prop")
    ap.add_argument("--tier", default=os.environ.get("VERIF_TIER", "quick"), choices=["quick", "thorough"])
    ap.add_argument("--replay", default=None)
    a = ap.parse_args()
    seed = int(os.environ.get("VERIF_SEED", "0") or 0)
    os.environ["AOTOOLS_AOTOOLS_VERIF"] = "1"
    try:
        mod = importlib.import_module("harness.props." + a.prop.lower())
        tier = a.tier
        if a.replay:
            import json
            rec = json.load(open(a.replay))
            print("REPLAY %s" % json.dumps(rec.get("failure") or rec.get("broken"), indent=1, default=str)[:4000])
            if hasattr(mod, "replay"):
                return mod.replay(rec)
            seed, tier = int(rec.get("seed", seed)), rec.get("tier", tier)   # default: re-run the recorded run
        chk = common.Check(a.prop, tier, seed)
        mod.run(chk)
        rc = chk.finish()
    except Exception:
        traceback.print_exc()
        print("INFRASTRUCTURE-ERROR property=%s (exit 2, not a verdict)" % a.prop)
        return 2
    if rc == 0:
        print("OK property=%s tier=%s seed=%d theorems=%d corr=%d oracle=%d wall=%.1fs"
              % (a.prop, tier, seed, len(chk.obligations), chk.corr_cases, chk.oracle_cases,
                 __import__("time").time() - chk.t0))
    return rc


if __name__ == "__main__":
    sys.exit(main())
