"""The recorded pass of the two experiments on independent changes (DESIGN §7.1, §8):
   * seeded property-BREAKING changes (six rounds; stored as seeded/<id>-<A…L>/), which the target check must catch, and
   * HARMLESS changes (two rounds; stored as harmless/<id>-<A…F>/), on which it must stay silent.

  python -m harness.campaign confirm [--jobs 8] [--labels IJ] [ids…]   phase A: every change is confirmed in its own scratch worktree of /repo
        (applies — re-based with --3way where later fix: commits moved its lines —, the repository's test-suite passes with it, its
        demonstration exits 0 without it and 1 / 0 with it).  Touches neither /repo nor the checks; runs in parallel.
  python -m harness.campaign run [ids…]                  phase B: every confirmed change is applied to /repo ITSELF
        (`git -C /repo apply`), `./check <id>` is run from /verif (quick; thorough too if quick misses a breaking change), and the
        change is undone straight afterwards (`git -C /repo checkout -- .`).  Serial; nothing else may use /repo meanwhile.
  python -m harness.campaign refresh                     a clean quick run of every check, so that evidence/ and Gen/ describe /repo as it is.

The sources are the raw deliveries of the sub-agents (notes/seed_inbox/<round>/<id>/, notes/harm_inbox/<id>/; a `patch_X_rebased.diff`
next to a `patch_X.diff` is the hand re-based version and is the one used)."""
import hashlib
import json
import os
import shutil
import subprocess
import sys
import time
from concurrent.futures import ThreadPoolExecutor

VERIF = os.path.dirname(os.path.dirname(os.path.abspath(__file__)))
PY = "/venv/bin/python"
TARGET = os.environ.get("SEED_REPO", "/repo")
ROUNDS = (("seed", "AB", "AB"), ("seed2", "AB", "CD"), ("seed3", "AB", "EF"), ("seed4", "AB", "GH"), ("seed5", "AB", "IJ"), ("seed6", "AB", "KL"))
HARM_ROUNDS = (("harm_inbox", "ABC", "ABC"), ("harm_inbox2", "ABC", "DEF"))
ALL = ["C%02d" % i for i in range(1, 21)]


def sh(cmd, cwd=None, env=None, timeout=3600):
    e = dict(os.environ)
    e.update(env or {})
    try:
        p = subprocess.run(cmd, cwd=cwd, env=e, capture_output=True, text=True, timeout=timeout)
        return p.returncode, (p.stdout + p.stderr)
    except subprocess.TimeoutExpired as ex:
        return 124, "timeout after %ss: %s" % (timeout, ex)


def changes(ids):
    """(kind, id, label, patch, demo, meta) for every delivered change"""
    out = []
    for pid in ids:
        for rnd, xs, labels in ROUNDS:
            d = os.path.join(VERIF, "notes", "seed_inbox", rnd, pid)
            for x, l in zip(xs, labels):
                p = os.path.join(d, "patch_%s_rebased.diff" % x)
                if not os.path.exists(p):
                    p = os.path.join(d, "patch_%s.diff" % x)
                if os.path.exists(p) and os.path.exists(os.path.join(d, "meta_%s.json" % x)):
                    out.append(("seeded", pid, l, p, os.path.join(d, "demo_%s.py" % x), os.path.join(d, "meta_%s.json" % x), rnd))
        for rnd, xs, labels in HARM_ROUNDS:
            d = os.path.join(VERIF, "notes", rnd, pid)
            for x, l in zip(xs, labels):
                p = os.path.join(d, "patch_%s_rebased.diff" % x)
                if not os.path.exists(p):
                    p = os.path.join(d, "patch_%s.diff" % x)
                if os.path.exists(p):
                    out.append(("harmless", pid, l, p, os.path.join(d, "demo_%s.py" % x), os.path.join(d, "meta_%s.json" % x), rnd))
    return out


def head():
    return sh(["git", "-C", "/repo", "rev-parse", "HEAD"])[1].strip()


def confirm_one(ch):
    kind, pid, label, patch, demo, metaf, rnd = ch
    out = os.path.join(VERIF, kind, "%s-%s" % (pid, label))
    os.makedirs(out, exist_ok=True)
    meta = json.load(open(metaf))
    sha = hashlib.sha256(open(patch, "rb").read()).hexdigest()[:16]
    old = {}
    if os.path.exists(os.path.join(out, "meta.json")):
        try:
            old = json.load(open(os.path.join(out, "meta.json")))
        except Exception:
            old = {}
    if old.get("source_patch_sha") == sha and old.get("confirmed_at_repo_head") == head() and old.get("what_i_ran", {}).get("confirmed") is True:
        if sh(["git", "-C", "/repo", "apply", "--check", os.path.join(out, "patch.diff")])[0] == 0:
            return "%s-%s %s: confirmed earlier (%s)" % (pid, label, kind, old["what_i_ran"]["confirmed"])
    shutil.copy(patch, os.path.join(out, "patch.diff"))
    shutil.copy(demo, os.path.join(out, "demo.py"))
    ran = {}
    wt = "/tmp/campaign_%s_%s_%s" % (kind, pid, label)
    sh(["git", "-C", "/repo", "worktree", "remove", "--force", wt])
    rc, o = sh(["git", "-C", "/repo", "worktree", "add", "--detach", wt, "HEAD"])
    if rc != 0:
        return "%s-%s: cannot create worktree: %s" % (pid, label, o[-200:])
    try:
        env = {"PYTHONPATH": wt, "OPENBLAS_NUM_THREADS": "2"}
        ran["demo_unchanged_exit"] = sh([PY, os.path.join(out, "demo.py")], cwd=wt, env=env, timeout=2400)[0]
        rc, o = sh(["git", "apply", os.path.join(out, "patch.diff")], cwd=wt)
        if rc != 0:
            rc, o = sh(["git", "apply", "--3way", os.path.join(out, "patch.diff")], cwd=wt)
            if rc == 0:
                _, d = sh(["git", "diff", "HEAD"], cwd=wt)
                open(os.path.join(out, "patch.diff"), "w").write(d)
                sh(["git", "reset", "-q"], cwd=wt)
                ran["patch_rebased"] = True
        ran["patch_applies"] = rc == 0
        rc, o = sh([PY, "-m", "pytest", "-q", "-p", "no:cacheprovider", "test"], cwd=wt, env={"OPENBLAS_NUM_THREADS": "2"}, timeout=3600)
        ran["test_suite_with_change"] = o.strip().splitlines()[-1] if o.strip() else ""
        ran["test_suite_passes_with_change"] = rc == 0
        rc, o = sh([PY, os.path.join(out, "demo.py")], cwd=wt, env=env, timeout=2400)
        ran["demo_changed_exit"] = rc
        ran["demo_changed_output"] = o[-1200:]
    finally:
        sh(["git", "-C", "/repo", "worktree", "remove", "--force", wt])
    want = (lambda r: r not in (0, None, 124)) if kind == "seeded" else (lambda r: r == 0)
    ran["confirmed"] = bool(ran.get("patch_applies") and ran.get("test_suite_passes_with_change") and
                            ran.get("demo_unchanged_exit") == 0 and want(ran.get("demo_changed_exit")))
    meta.update({"written_by": "independent sub-agent given only the property text and a scratch worktree", "round": rnd,
                 "source_patch": os.path.relpath(patch, VERIF), "source_patch_sha": sha, "confirmed_at_repo_head": head(), "what_i_ran": ran})
    meta.pop("check_results", None)
    if old.get("source_patch_sha") == sha and old.get("check_results"):
        # the same change re-confirmed at a later library HEAD (after a fix: commit elsewhere): the recorded verdicts stay, with the HEAD they
        # were recorded at; `run` replaces them when the change is run again
        for k in ("check_results", "checks_ran_against", "caught_by_target_check", "caught_with_concrete_input", "check_alarmed",
                  "alarm_names_concrete_input"):
            if k in old:
                meta[k] = old[k]
        meta["check_results_recorded_at_repo_head"] = old.get("check_results_recorded_at_repo_head", str(old.get("confirmed_at_repo_head", ""))[:7])
    if old.get("not_kept"):
        meta["not_kept"] = old["not_kept"]          # a change superseded by a later fix: stays recorded as not kept
    json.dump(meta, open(os.path.join(out, "meta.json"), "w"), indent=1)
    return "%s-%s %s: confirmed=%s (tests: %s; demo %s -> %s)" % (pid, label, kind, ran["confirmed"], ran.get("test_suite_with_change"),
                                                                  ran.get("demo_unchanged_exit"), ran.get("demo_changed_exit"))


def run_one(ch):
    kind, pid, label, *_ = ch
    out = os.path.join(VERIF, kind, "%s-%s" % (pid, label))
    mp = os.path.join(out, "meta.json")
    if not os.path.exists(mp):
        return "%s-%s: not confirmed yet (run `confirm` first)" % (pid, label)
    meta = json.load(open(mp))
    if not meta.get("what_i_ran", {}).get("confirmed"):
        return "%s-%s %s: NOT CONFIRMED, skipped" % (pid, label, kind)
    rc, o = sh(["git", "-C", TARGET, "status", "--porcelain"])
    assert o.strip() == "", TARGET + " is not clean: " + o
    rc, o = sh(["git", "-C", TARGET, "apply", os.path.join(out, "patch.diff")])
    assert rc == 0, o
    results = {}
    try:
        for tier in (("quick", "thorough") if kind == "seeded" else ("quick",)):
            t0 = time.time()
            rc, o = sh([os.path.join(VERIF, "check"), pid, "--tier", tier], cwd=VERIF, env={"VERIF_SEED": "0", "AOVERIF_REPO": TARGET}, timeout=7200)
            vio = [l for l in o.splitlines() if l.startswith("VIOLATION") or l.startswith("  failing input") or l.startswith("  no longer")]
            results["%s:%s" % (pid, tier)] = {"exit": rc, "wall_s": round(time.time() - t0, 1), "lines": [l[:600] for l in vio[:6]]}
            if rc == 1:
                break
    finally:
        sh(["git", "-C", TARGET, "checkout", "--", "."])
        sh(["git", "-C", TARGET, "clean", "-fdq", "aotools"])
    alarmed = any(r["exit"] != 0 for r in results.values())
    concrete = any(r["exit"] == 1 and not any("no-failing-input-found" in l for l in r["lines"]) for r in results.values())
    meta.update({"check_results": results, "checks_ran_against": TARGET, "check_results_recorded_at_repo_head": head()[:7]})
    if kind == "seeded":
        meta.update({"caught_by_target_check": any(r["exit"] == 1 for r in results.values()), "caught_with_concrete_input": concrete})
    else:
        meta.update({"check_alarmed": alarmed, "alarm_names_concrete_input": concrete})
    json.dump(meta, open(mp, "w"), indent=1)
    return "%s-%s %s: %s" % (pid, label, kind, {k: (v["exit"], v["wall_s"]) for k, v in results.items()})


def main():
    mode = sys.argv[1]
    args = sys.argv[2:]
    jobs = 8
    if "--jobs" in args:
        i = args.index("--jobs")
        jobs = int(args[i + 1])
        args = args[:i] + args[i + 2:]
    labels = None
    if "--labels" in args:                     # e.g. --labels IJDEF: only the changes stored under these letters
        i = args.index("--labels")
        labels = args[i + 1]
        args = args[:i] + args[i + 2:]
    kind = None
    if "--kind" in args:                       # seeded | harmless
        i = args.index("--kind")
        kind = args[i + 1]
        args = args[:i] + args[i + 2:]
    ids = [a for a in args if a.startswith("C")] or ALL
    _changes = changes

    def changes_(ids):
        return [c for c in _changes(ids) if (labels is None or c[2] in labels) and (kind is None or c[0] == kind)]
    if mode == "confirm":
        def safe(ch):
            try:
                return confirm_one(ch)
            except Exception as ex:
                return "%s-%s %s: ERROR %s: %s" % (ch[1], ch[2], ch[0], type(ex).__name__, ex)
        with ThreadPoolExecutor(jobs) as ex:
            for line in ex.map(safe, changes_(ids)):
                print(line, flush=True)
    elif mode == "run":
        for ch in changes_(ids):
            print(run_one(ch), flush=True)
    elif mode == "refresh":
        for pid in ids:
            rc, o = sh([os.path.join(VERIF, "check"), pid, "--tier", "quick"], cwd=VERIF, env={"VERIF_SEED": "0", "AOVERIF_REPO": TARGET}, timeout=7200)
            print(o.strip().splitlines()[-1] if o.strip() else "%s: no output (exit %d)" % (pid, rc), flush=True)
    else:
        print(__doc__)
        return 2
    return 0


if __name__ == "__main__":
    sys.exit(main())
