"""T2 regression corpus: idioms by which a function can modify its argument or keep hidden state (collected by an
independent reviewer: 14 of them were judged pure by the first version of translator T2).  The C20 check translates this
file on every run and requires every function named m<k>_… to be FLAGGED (pureCheck = false) and every function named
ok<k>_… to be ACCEPTED (pureCheck = true).  It is never imported or executed."""
import numpy
_CALLS = []
_STATE = {}
_G = numpy.random.default_rng(12345)

def m1_astype_nocopy(image):
    image = image.astype(float, copy=False)
    image /= image.max()
    return float(image.std())

def m2_positional_out(image):
    numpy.subtract(image, image.min(), image)
    return float(image.std())

def m3_kw_out(image):
    numpy.divide(image, image.max(), out=image)
    return float(image.std())

def m4_rng_in_compare(image):
    if numpy.random.random() < 0.5:
        return 0.0
    return float(image.std())

def m5_module_list_append(image):
    _CALLS.append(1)
    return float(image.std()) * len(_CALLS)

def m5b_module_dict_store(image):
    _STATE["n"] = _STATE.get("n", 0) + 1
    return float(image.std()) * _STATE["n"]

def m6_array_nocopy(image):
    image = numpy.array(image, copy=False)
    image -= image.min()
    return float(image.std())

def m7_ufunc_at(image):
    numpy.add.at(image, 0, 1)
    return float(image.std())

def m8_nested(image):
    def helper():
        image[0] = 0
    helper()
    return float(image.std())

def m9_clip_positional(image):
    numpy.clip(image, 0, None, image)
    return float(image.std())

def m10_func_attr(image):
    m10_func_attr.n = getattr(m10_func_attr, "n", 0) + 1
    return float(image.std()) * m10_func_attr.n

def m11_boolop_call(image):
    ok = image.size > 0 and image.sort() is None
    return float(image.std())

def m12_asarray(image):
    im = numpy.asarray(image)
    im[0] = 0
    return float(im.std())

def m13_comprehension(image):
    [row.sort() for row in image]
    return float(image.std())

def m14_nan_to_num(image):
    numpy.nan_to_num(image, copy=False)
    return float(image.std())

def m15_getstate_seed(image):
    numpy.random.seed(0)
    return float(image.std())

def m16_legacy_import(image):
    from numpy.random import rand
    return float(image.std()) * rand()

def m17_ravel_write(image):
    flat = image.ravel()
    flat[0] = 0
    return float(image.std())

def ok7_flatten_copy(image):
    flat = image.flatten()
    flat[0] = 0
    return float(flat.std())

def m19_setitem_via_dunder(image):
    image.__setitem__(0, 0)
    return float(image.std())

def m20_lambda(image):
    f = lambda: image.fill(0)
    f()
    return 0.0


def m21_module_generator(image):
    return float(image.std()) * _G.normal()

def m22_alias_then_write_in_branch(image, flag):
    w = image
    if flag:
        w = image[1:]
    w[0] = 0
    return float(image.std())

def m23_loop_carried_alias(image):
    a = numpy.zeros(3)
    for k in range(3):
        a[0] = 1
        a = image
    return float(image.std())

def m24_imported_shuffle(image):
    from random import shuffle
    shuffle(image)
    return 0.0

def m25_keyword_output(image):
    numpy.cumsum(image, out=image)
    return 0.0

def ok1_copy_then_write(image):
    w = image.copy()
    w -= w.min()
    return float(w.std())

def ok2_arithmetic_new_array(image):
    image = image / image.max()
    image -= image.min()
    return float(image.std())

def ok3_array_default_copy(image):
    w = numpy.array(image, dtype=float)
    w[0] = 0
    return float(w.std())

def ok4_astype_default_copy(image):
    w = image.astype(float)
    w /= w.max()
    return float(w.std())

def ok5_local_generator(image, seed=None):
    R = numpy.random.default_rng(seed)
    return float(image.std()) * R.normal()

def ok6_where(image):
    out = numpy.where(image > 0, image, 0)
    out[0] = 1
    return float(out.std())
