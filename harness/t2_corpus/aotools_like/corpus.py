"""T2 regression corpus: idioms by which a function can modify its argument or keep hidden state (collected by an
independent reviewer: 14 of them were judged pure by the first version of translator T2).  The C20 check translates this
file on every run and requires every function named m<k>_… to be FLAGGED (pureCheck = false) and every function named
ok<k>_… to be ACCEPTED (pureCheck = true).  It is never imported or executed."""
import numpy
_CALLS = []
_STATE = {}
_G = numpy.random.default_rng(12345)

def m1_astype_nocopy(image):
    image = image.astype(float, copy=False)
    image /= image.max()
    return float(image.std())

def m2_positional_out(image):
    numpy.subtract(image, image.min(), image)
    return float(image.std())

def m3_kw_out(image):
    numpy.divide(image, image.max(), out=image)
    return float(image.std())

def m4_rng_in_compare(image):
    if numpy.random.random() < 0.5:
        return 0.0
    return float(image.std())

def m5_module_list_append(image):
    _CALLS.append(1)
    return float(image.std()) * len(_CALLS)

def m5b_module_dict_store(image):
    _STATE["n"] = _STATE.get("n", 0) + 1
    return float(image.std()) * _STATE["n"]

def m6_array_nocopy(image):
    image = numpy.array(image, copy=False)
    image -= image.min()
    return float(image.std())

def m7_ufunc_at(image):
    numpy.add.at(image, 0, 1)
    return float(image.std())

def m8_nested(image):
    def helper():
        image[0] = 0
    helper()
    return float(image.std())

def m9_clip_positional(image):
    numpy.clip(image, 0, None, image)
    return float(image.std())

def m10_func_attr(image):
    m10_func_attr.n = getattr(m10_func_attr, "n", 0) + 1
    return float(image.std()) * m10_func_attr.n

def m11_boolop_call(image):
    ok = image.size > 0 and image.sort() is None
    return float(image.std())

def m12_asarray(image):
    im = numpy.asarray(image)
    im[0] = 0
    return float(im.std())

def m13_comprehension(image):
    [row.sort() for row in image]
    return float(image.std())

def m14_nan_to_num(image):
    numpy.nan_to_num(image, copy=False)
    return float(image.std())

def m15_getstate_seed(image):
    numpy.random.seed(0)
    return float(image.std())

def m16_legacy_import(image):
    from numpy.random import rand
    return float(image.std()) * rand()

def m17_ravel_write(image):
    flat = image.ravel()
    flat[0] = 0
    return float(image.std())

def ok7_flatten_copy(image):
    flat = image.flatten()
    flat[0] = 0
    return float(flat.std())

def m19_setitem_via_dunder(image):
    image.__setitem__(0, 0)
    return float(image.std())

def m20_lambda(image):
    f = lambda: image.fill(0)
    f()
    return 0.0


def m21_module_generator(image):
    return float(image.std()) * _G.normal()

def m22_alias_then_write_in_branch(image, flag):
    w = image
    if flag:
        w = image[1:]
    w[0] = 0
    return float(image.std())

def m23_loop_carried_alias(image):
    a = numpy.zeros(3)
    for k in range(3):
        a[0] = 1
        a = image
    return float(image.std())

def m24_imported_shuffle(image):
    from random import shuffle
    shuffle(image)
    return 0.0

def m25_keyword_output(image):
    numpy.cumsum(image, out=image)
    return 0.0

def ok1_copy_then_write(image):
    w = image.copy()
    w -= w.min()
    return float(w.std())

def ok2_arithmetic_new_array(image):
    image = image / image.max()
    image -= image.min()
    return float(image.std())

def ok3_array_default_copy(image):
    w = numpy.array(image, dtype=float)
    w[0] = 0
    return float(w.std())

def ok4_astype_default_copy(image):
    w = image.astype(float)
    w /= w.max()
    return float(w.std())

def ok5_local_generator(image, seed=None):
    R = numpy.random.default_rng(seed)
    return float(image.std()) * R.normal()

def ok6_where(image):
    out = numpy.where(image > 0, image, 0)
    out[0] = 1
    return float(out.std())


# ---------------------------------------------------------------------------------------------------------------------
# round 5 (generator audit): further idioms T2 already classifies correctly, fixed here as regression cases.
# Idioms T2 still judges PURE although they modify the argument / keep state (reported, NOT in this corpus, T2 is a shared file):
#   operator.iadd(image, 1); numpy.nditer(image, op_flags=["readwrite"]) writes; functools.lru_cache on a function returning an
#   array; numpy.lib.stride_tricks.as_strided(image, ...) / numpy.frombuffer(image, ...) treated as fresh; setattr(image, "shape", ..);
#   scipy.linalg.inv(image, overwrite_a=True) (overwrite_* keywords); del J[0]; numpy.squeeze(image)[0] = 0 (the FUNCTION squeeze);
#   a nested def that writes its own parameter, called with the argument; map(lambda r: r.fill(0), image).
# Idioms T2 flags although they are pure (conservative, harmless as long as the library does not use them): writing into a
# fancy-indexed / boolean-masked copy (image[[0, 1]], image[image > 0]); list(J) followed by append.
import numpy as np
_COUNT = 0
_LAST = None
_CACHE = {}

def m30_for_rows_inplace(image):
    for row in image:
        row -= row.min()
    return float(image.std())

def m31_tuple_unpack_views(image):
    a, b = image
    a *= 2
    return float(b.std())

def m32_flat_assign(image):
    image.flat[0] = 0
    return 0.0

def m33_real_attr_assign(image):
    image.real = 0
    return 0.0

def m34_T_write(image):
    image.T[0] = 0
    return 0.0

def m35_shape_attr_assign(image):
    image.shape = (-1,)
    return float(image.std())

def m37_ndarray_dunder_iadd(image):
    image.__iadd__(1)
    return 0.0

def m39_einsum_out(image):
    numpy.einsum("ij->ij", image, out=image)
    return 0.0

def m40_global_counter(image):
    global _COUNT
    _COUNT += 1
    return float(image.std()) * _COUNT

def m41_global_last_result(image):
    global _LAST
    if _LAST is None:
        _LAST = image.std()
    return float(_LAST)

def m42_mutable_default(image, cache={}):
    cache[image.shape] = image.std()
    return float(len(cache))

def m43_mutable_default_list(image, seen=[]):
    seen.append(image.shape)
    return float(len(seen))

def m44_cache_dict_setdefault(image):
    return _CACHE.setdefault(image.shape, image.std())

def m46_split_views(image):
    parts = numpy.split(image, 2)
    parts[0][...] = 0
    return 0.0

def m47_hsplit_views(image):
    a, b = numpy.hsplit(image, 2)
    b += 1
    return 0.0

def m50_memoryview(image):
    mv = memoryview(image)
    mv[0] = 0
    return 0.0

def m53_byteswap_inplace(image):
    image.byteswap(inplace=True)
    return 0.0

def m54_walrus_alias(image):
    if (w := image) is not None:
        w[0] = 0
    return 0.0

def m55_starred_alias(image, *rest):
    for r in rest:
        r[0] = 0
    return 0.0

def m56_kwargs_alias(image, **kw):
    kw["out"][0] = 0
    return 0.0

def m57_list_of_views(image):
    views = [image[i] for i in range(2)]
    views[0][...] = 0
    return 0.0

def m58_dict_of_views(image):
    d = {"a": image}
    d["a"][0] = 0
    return 0.0

def m59_zip_rows(image, other):
    for a, b in zip(image, other):
        a += b
    return 0.0

def m60_enumerate_rows(image):
    for i, row in enumerate(image):
        row[0] = i
    return 0.0

def m61_np_alias_module(image):
    np.subtract(image, 1, out=image)
    return 0.0

def m62_matmul_out(image):
    numpy.matmul(image, image, out=image)
    return 0.0

def m63_take_out(image):
    numpy.take(image, [0], out=image[:1])
    return 0.0

def m64_ravel_method_write(image):
    image.ravel()[0] = 0
    return 0.0

def m65_subscript_augassign(image):
    image[0] += 1
    return 0.0

def m66_slice_assign(image):
    image[...] = 0
    return 0.0

def m68_list_append_param(J):
    J.append(1)
    return 0.0

def m69_list_sort_param(J):
    J.sort()
    return 0.0

def m70_dict_update_param(d):
    d.update(a=1)
    return 0.0

def m71_pop_param(J):
    return J.pop()

def m72_ternary_alias(image, flag):
    w = image if flag else image.copy()
    w[0] = 0
    return 0.0

def m73_try_alias(image):
    try:
        w = image.reshape(-1)
    except ValueError:
        w = image.copy()
    w[0] = 0
    return 0.0

def m74_while_alias(image):
    w = image.copy()
    n = 0
    while n < 2:
        w[0] = 0
        w = image
        n += 1
    return 0.0

def m75_return_inplace_method(image):
    return image.clip(0, 1, out=image)

def m76_np_random_seed(image):
    numpy.random.seed(0)
    return 0.0

def m77_augassign_attr_of_param(obj):
    obj.data -= 1
    return 0.0

def m79_moveaxis_write(image):
    numpy.moveaxis(image, 0, -1)[0] = 0
    return 0.0

def m80_broadcast_arrays(image):
    a, = numpy.broadcast_arrays(image)
    a.flags.writeable = True
    a[0] = 0
    return 0.0

def m81_atleast_2d_write(image):
    w = numpy.atleast_2d(image)
    w[0] = 0
    return 0.0

def m82_with_errstate_write(image):
    with numpy.errstate(all="ignore"):
        image /= image.max()
    return 0.0

def m85_imag_write(image):
    image.imag[0] = 0
    return 0.0

def m86_view_dtype_write(image):
    image.view(numpy.uint8)[0] = 0
    return 0.0

def m87_copyto(image):
    numpy.copyto(image, 0)
    return 0.0

def m88_partition(image):
    image.partition(2)
    return 0.0

def m89_resize(image):
    image.resize((2, 2), refcheck=False)
    return 0.0

def ok12_arith_then_out(image):
    w = image * 2
    numpy.sqrt(w, out=w)
    return float(w.std())

def ok13_zeros_like_fill(image):
    w = numpy.zeros_like(image)
    w += image
    return float(w.std())

def ok14_concatenate_copy(image):
    w = numpy.concatenate([image, image])
    w[0] = 0
    return float(w.std())

def ok15_sorted_copy(image):
    w = numpy.sort(image, axis=None)
    w[0] = 0
    return float(w.std())

def ok17_local_dict(image):
    d = {}
    d["a"] = image.std()
    return float(d["a"])

def ok18_meshgrid(image):
    x, y = numpy.meshgrid(numpy.arange(3), numpy.arange(3))
    x -= 1
    return float(image.std() + x.sum())

def ok19_fft_copy(image):
    w = numpy.fft.fft2(image)
    w *= 2
    return float(abs(w).sum())

def ok20_tril_copy(image):
    w = numpy.tril(image)
    w[0] = 0
    return float(w.std())

# ---- idioms reported by the round-5 audit of C19/C20 as judged pure by T2; handled since (closures, operator module, licences to overwrite)
import operator
import scipy.linalg
from numpy.lib.stride_tricks import as_strided
from operator import iadd as _iadd

def m90_operator_iadd(image):
    operator.iadd(image, 1)
    return 0.0

def m91_operator_iadd_imported(image):
    _iadd(image, 1)
    return 0.0

def m92_nditer_readwrite(image):
    for x in numpy.nditer(image, op_flags=["readwrite"]):
        x[...] = 0
    return 0.0

def m93_nditer_with_block(image):
    with numpy.nditer(image, op_flags=[["readwrite"]]) as it:
        for x in it:
            x[...] = 2 * x
    return 0.0

def m94_as_strided_write(image):
    w = numpy.lib.stride_tricks.as_strided(image, shape=(2,), strides=(8,))
    w[0] = 0
    return 0.0

def m95_as_strided_imported(image):
    w = as_strided(image, shape=(2,), strides=(8,))
    w += 1
    return 0.0

def m96_frombuffer_write(image):
    w = numpy.frombuffer(image, dtype=numpy.uint8)
    w[0] = 0
    return 0.0

def m97_setattr_shape(image):
    setattr(image, "shape", (image.size,))
    return 0.0

def m98_overwrite_a(image):
    return scipy.linalg.inv(image, overwrite_a=True)

def m99_overwrite_b(image, rhs):
    return scipy.linalg.solve(image, rhs, overwrite_b=True)

def m100_del_item(J):
    del J[0]
    return len(J)

def m101_squeeze_function_write(image):
    numpy.squeeze(image)[0] = 0
    return 0.0

def m102_nested_def_writes_parameter(image):
    def clear(a):
        a[0] = 0
    clear(image)
    return 0.0

def m103_nested_def_returns_view(image):
    def first(a):
        return a[0]
    w = first(image)
    w[...] = 0
    return 0.0

def m104_map_lambda_fill(image):
    list(map(lambda r: r.fill(0), image))
    return 0.0

def m105_named_lambda(image):
    clear = lambda a: a.fill(0)
    clear(image)
    return 0.0

def m106_apply_along_axis_closure(image):
    def clear(r):
        r[0] = 0
        return r
    numpy.apply_along_axis(clear, 0, image)
    return 0.0

def m107_sorted_key_lambda(J):
    return sorted(J, key=lambda r: r.sort())

def m108_operator_setitem(image):
    operator.setitem(image, 0, 0)
    return 0.0

def m109_ravel_function_write(image):
    numpy.ravel(image)[0] = 0
    return 0.0

def m110_nested_def_keyword(image):
    def clear(n, a=None):
        a[n] = 0
    clear(0, a=image)
    return 0.0

def m111_real_if_close_write(image):
    w = numpy.real_if_close(image)
    w[0] = 0
    return 0.0

def m112_lambda_view_then_write(image):
    rows = list(map(lambda r: r[::2], image))
    rows[0][0] = 0
    return 0.0

def ok21_nested_def_on_copy(image):
    def clear(a):
        a[0] = 0
        return a
    w = clear(image.copy())
    return float(w.std())

def ok22_lambda_pure(image):
    f = lambda a: a * 2
    w = f(image)
    w[0] = 0
    return float(w.std())

def ok23_overwrite_local(image):
    w = image @ image.T
    return scipy.linalg.inv(w, overwrite_a=True)

def ok24_overwrite_false(image):
    return scipy.linalg.inv(image, overwrite_a=False)

def ok25_nested_def_shadowing(image):
    def scale(image):
        image = image * 2
        image[0] = 0
        return image
    return float(scale(image).std())

def ok26_del_local_name(image):
    w = image * 2
    del w
    return float(image.std())

def ok27_map_pure_lambda(image):
    return sum(map(lambda r: float(r.sum()), image))

def ok28_nditer_readonly(image):
    s = 0.0
    for x in numpy.nditer(image):
        s += float(x)
    return s

def ok29_operator_add(image):
    w = operator.add(image, 1)
    w[0] = 0
    return float(w.std())

# ---- process-wide settings (round 6)
import warnings
import os

def m113_seterr(image):
    numpy.seterr(divide="ignore", invalid="ignore")
    s = float(image.sum() / image.size)
    numpy.seterr(divide="warn", invalid="warn")
    return s

def m114_printoptions(image):
    numpy.set_printoptions(precision=3)
    return float(image.std())

def m115_simplefilter(image):
    warnings.simplefilter("ignore")
    return float(image.std())

def m116_environ(image):
    os.environ["OMP_NUM_THREADS"] = "1"
    return float(image.std())

def ok30_errstate_block(image):
    with numpy.errstate(divide="ignore", invalid="ignore"):
        s = float(image.sum() / image.size)
    return s

def ok31_catch_warnings(image):
    with warnings.catch_warnings():
        warnings.simplefilter("ignore")
        s = float(image.sum() / image.size)
    return s
