"""Regenerate every translated model (Gen/) from /repo's working tree."""
import sys
from . import translate_formulas as T1

def main():
    rc = 0
    try:
        T1.main()
    except Exception as ex:
        print("T1:", ex)
        rc = 1
    try:
        from . import translate_effects as T2
        T2.main()
    except ImportError:
        pass
    except Exception as ex:
        print("T2:", ex)
        rc = 1
    return rc

if __name__ == "__main__":
    sys.exit(main())
