"""C15 — centroiders locate, shift, scale and batch consistently."""
import numpy

from .. import common

MANIFEST = {
    "text": "Lean 4 theorems about a hand-written model of centroiders.py (Model/Centroid.lean), for EVERY frame size ny x nx, "
            "every stack index type (any rank), every image over a linearly ordered field: single bright pixel -> its (x, y) for "
            "centre of gravity (any threshold < 1) and brightest pixel (k >= 2); invariance under multiplication by c > 0; "
            "exact equivariance under any circular shift that keeps the content inside the frame (with thresholds); N-D path = "
            "2-D path frame by frame for every centroider, with the N-D path modelled on ONE flat C-ordered buffer (axis reductions, "
            "thres[..., None, None] / numpy.indices broadcasting, reshape-sort-[..., -k], .sum(-2), (im.T - im.min((1,2))).T as index "
            "arithmetic: flat_eq_frames_*); brightest-pixel statements are about the code for 1 <= k <= ny*nx; quad-cell sign under mirroring; the FFT pipeline of cross_correlate is the "
            "circular cross-correlation (any field with roots of unity) and, over C on real non-negative images, the correlation "
            "centroid of a frame displaced by s from its reference is exactly (nx//2 + sx, ny//2 + sy) for every padding and "
            "threshold < 1 when the correlation does not wrap around the padded frame; stated on the un-padded inputs "
            "(corr_displacement_of_roll): im = numpy.roll(ref, s), content of ref in a box that stays inside the frame, lags "
            "s ± (w-1) inside [-(P//2), P - P//2 - 1] (automatic for padding >= 2). The model is tied to the code by "
            "running the same Lean definitions at binary64 against the real functions (bit-exact on integer images with dyadic "
            "thresholds, 1e-9 on the FFT correlation; the real code gets the values as float64, uint8, uint16, int32 or float32 arrays); a "
            "direct oracle evaluates every clause on the real code, over those dtypes, scale factors 1e-16..1e16, single pixels of "
            "value 1e-20..1e12 and non-C memory layouts.",
    "note": "Trusted: Lean kernel + standard axioms; numpy.fft2/ifft2 = nested naive DFT sums (checked by the correlation "
            "correspondence to 1e-9); numpy.sort = ascending sort; binary64 rounding not modelled. Reading of the property: 'all "
            "centroiders' in the scale/shift clauses = centre_of_gravity, brightest_pixel, correlation_centroid (quadCell returns an "
            "un-normalised difference signal and has its own clause: sign under mirroring; its degree-1 homogeneity is proved "
            "instead); 'array centre' = index n//2 (the fftshift origin, as in C09); images must make the centroid defined "
            "(positive total after thresholding). The displacement theorem's padded-frame hypotheses are reduced in Lean to the "
            "un-padded inputs (roll of a boxed content, lag window); 'content' = pixels above the array minimum, which "
            "correlation_centroid subtracts first.",
    "technique": "Lean 4 proof (Finset re-indexing, order statistics by sorting/counting, roots-of-unity orthogonality, ordered-field "
                 "algebra) + differential correspondence with the real code + oracle search",
}
REQUIRED = ["cog_single_pixel", "bp_single_pixel", "cog_scale_invariant", "cog_scale_invariant_floor", "bp_scale_invariant",
            "cog_shift_equivariant", "bp_shift_equivariant",
            "corr_tail_displacement", "corr_tail_scale_invariant", "corr_tail_shift_equivariant",
            "xcorr_is_circular_correlation", "corr_displacement",
            "corr_hdisp_of_roll", "corr_hnowrap_of_box", "corr_displacement_of_box", "corr_displacement_of_roll",
            "corr_displacement_of_roll_pad_ge_two", "corr_displacement_of_roll_nonneg", "corr_displacement_of_roll_stack",
            "stack_eq_frames_cog", "stack_eq_frames_bp", "stack_eq_frames_quad", "stack_eq_frames_corr",
            "flat_eq_frames_cog", "flat_eq_frames_bp", "flat_eq_frames_quad", "flat_eq_frames_corr",
            "kthLargest_outside_domain", "bp_scale_invariant_in_domain",
            "quad_mirror_sign", "quad_scale_linear", "pad_offset_even", "pad_offset_pinned_odd_fails", "cogN_pinned_fails"]
TOL = 1e-9
TOL32 = 1e-4          # binary32 images: c*img is rounded to 24 bits before the centroider sees it (observed <= 4.8e-7 quick seeds 0-12, 7.1e-7 thorough)
DTYPES = ["float64", "float64", "uint8", "uint16", "int32", "float32"]
INT_MAX = {"uint8": 255, "uint16": 65535, "int32": 10 ** 9}
# positive constants of the scale clause: 1e-16 ... 1e16 (faint and bright images), plus in-dtype integer factors
SCALES = [2.0, 0.5, 3.0, 1.7, 1000.0, 1e-3, 2.5e-7, 1e-6, 1e-12, 1e-16, 1e6, 1e12, 1e16]
SINGLE_VALUES = [1, 3, 31, 0.125, 1000.0, 1e-6, 1e-20, 5e-12, 1e-12, 2.5e-7, 1e6, 1e12]
THRESHOLDS = [0.0, 0.125, 0.25, 0.375, 0.5, 0.625, 0.75, 0.875]


def _C():
    from aotools.image_processing import centroiders
    return centroiders


# --------------------------------------------------------------------------- generators
def gen_image(rng, nprng, ny, nx, kind=None):
    """non-negative integer-valued float image with at least one positive pixel"""
    kind = kind or rng.choice(["dense", "dense", "sparse", "blob", "flatbg"])
    if kind == "dense":
        img = nprng.integers(0, 32, size=(ny, nx))
    elif kind == "sparse":
        img = nprng.integers(0, 32, size=(ny, nx)) * (nprng.random((ny, nx)) < 0.3)
    elif kind == "flatbg":
        img = nprng.integers(0, 8, size=(ny, nx)) + 3
    else:
        img = numpy.zeros((ny, nx), dtype=int)
        wy, wx = rng.randint(1, max(1, ny // 2)), rng.randint(1, max(1, nx // 2))
        y0, x0 = rng.randint(0, ny - wy), rng.randint(0, nx - wx)
        img[y0:y0 + wy, x0:x0 + wx] = nprng.integers(1, 32, size=(wy, wx))
    img = img.astype(float)
    if img.max() <= 0:
        img[rng.randrange(ny), rng.randrange(nx)] = float(rng.randint(1, 31))
    return img


def gen_stack(rng, nprng, lead, ny, nx):
    st = numpy.empty(lead + (ny, nx))
    for idx in numpy.ndindex(*lead):
        st[idx] = gen_image(rng, nprng, ny, nx)
    return st


def gen_content(rng, nprng, ny, nx, room=1):
    """image whose non-zero content sits in a window with at least `room` free pixels available on some side;
    returns (img, (y0, y1, x0, x1)) with content inside rows [y0,y1) and columns [x0,x1)"""
    wy, wx = rng.randint(1, max(1, ny - room)), rng.randint(1, max(1, nx - room))
    y0, x0 = rng.randint(0, ny - wy), rng.randint(0, nx - wx)
    img = numpy.zeros((ny, nx))
    img[y0:y0 + wy, x0:x0 + wx] = nprng.integers(0, 32, size=(wy, wx))
    img[y0, x0 + rng.randrange(wx)] = rng.randint(1, 31)        # content really touches its box
    img[y0 + wy - 1, x0 + rng.randrange(wx)] = rng.randint(1, 31)
    img[y0 + rng.randrange(wy), x0] = rng.randint(1, 31)
    img[y0 + rng.randrange(wy), x0 + wx - 1] = rng.randint(1, 31)
    return img, (y0, y0 + wy, x0, x0 + wx)


def bp_fraction(rng, n):
    """a fraction and the pixel count k >= 2 it selects (computed the way the documentation says: round(f * n));
    half of the draws are exact k/n, the others any real fraction in (1.5/n, 1]"""
    for _ in range(100):
        if rng.random() < 0.5:
            k = rng.randint(2, n)
            f = k / float(n)
        else:
            f = rng.uniform(1.5 / n, 1.0)
            k = int(round(f * n))
        if int(round(f * n)) == k and 2 <= k <= n:
            return f, k
    return 1.0, n


def bp_defined(img, k):
    """the k-th brightest value is below the maximum, so the brightest-pixel centroid is defined"""
    flat = numpy.sort(img.reshape(img.shape[:-2] + (-1,)))
    return bool(numpy.all(flat[..., -k] < flat[..., -1]))


def hexes(a):
    return " ".join(common.f2h(v) for v in numpy.asarray(a, dtype=float).ravel())


def pairs(ans, lead):
    """driver answer 'x0 y0 x1 y1 …' -> array shaped like the real functions' output (2,)+lead"""
    v = numpy.array([common.h2f(h) for h in ans.split()]).reshape(-1, 2)
    return v.T.reshape((2,) + tuple(lead))


def same_bits(a, b):
    a, b = numpy.asarray(a, dtype=float), numpy.asarray(b, dtype=float)
    if a.shape != b.shape:
        return False
    return bool(numpy.all((a == b) | (numpy.isnan(a) & numpy.isnan(b))))


def call(fn, *args, **kw):
    """run the real function on private copies; returns (result array | None, error text | None)"""
    try:
        args = [a.copy() if isinstance(a, numpy.ndarray) else a for a in args]
        return numpy.asarray(fn(*args, **kw), dtype=float), None
    except Exception as ex:                                   # an exception inside the documented domain is a failure
        return None, "%s: %s" % (type(ex).__name__, ex)


def call_raw(fn, *args, **kw):
    """run the real function on the arrays AS GIVEN (memory layout preserved: no copy); every caller builds the arrays
    fresh, and argument purity is checked separately"""
    try:
        return numpy.asarray(fn(*args, **kw), dtype=float), None
    except Exception as ex:
        return None, "%s: %s" % (type(ex).__name__, ex)


def layouts(a):
    """the same pixel values (same shape, same dtype) in other memory layouts: [(name, array)]"""
    out = [("fortran", numpy.asfortranarray(a)),
           ("T-view", numpy.ascontiguousarray(numpy.swapaxes(a, -1, -2)).swapaxes(-1, -2)),
           ("reversed", a[..., ::-1, ::-1].copy()[..., ::-1, ::-1])]
    big = numpy.zeros(a.shape[:-2] + (2 * a.shape[-2], 3 * a.shape[-1]), dtype=a.dtype)
    big[..., ::2, ::3] = a
    out.append(("strided", big[..., ::2, ::3]))
    if a.ndim > 2:
        out.append(("lead-last", numpy.moveaxis(numpy.ascontiguousarray(numpy.moveaxis(a, 0, -1)), -1, 0)))
    for nm, v in out:
        assert v.shape == a.shape and v.dtype == a.dtype and numpy.array_equal(v, a), nm
    return out


# --------------------------------------------------------------------------- correspondence
def correspondence(chk, quick):
    C = _C()
    rng = chk.rng
    nprng = numpy.random.default_rng(rng.getrandbits(32))
    lines, expect = [], []          # expect: (kind, impl result or error, lead, description, tolerance scale or None)
    nrep = 150 if quick else 1500

    def add(line, impl, err, lead, desc, tol=None):
        lines.append(line)
        expect.append((impl, err, lead, desc, tol))

    for it in range(nrep):
        ny, nx = rng.randint(1, 12), rng.randint(1, 12)
        if ny * nx < 2:
            nx = 2
        t = rng.choice(THRESHOLDS)
        mn = rng.choice([0.0, 0.0, 0.5, 2.0, 5.25])
        img = gen_image(rng, nprng, ny, nx)
        # the real code gets the image in one of the detector/array dtypes (integer values <= 34 are exact in all of them; the
        # thresholds k/8, the floors and every intermediate are exact in binary32 too); the model gets the same values
        dt = rng.choice(DTYPES)
        # ---- centre_of_gravity, 2-D path
        r, e = call(C.centre_of_gravity, img.astype(dt), threshold=t, min_threshold=mn)
        add("C15 cog2 %d %d %s %s %s" % (ny, nx, common.f2h(t), common.f2h(mn), hexes(img)), r, e, (),
            ("cog2", ny, nx, t, mn, dt))
        # ---- N-D path, rank 3 and 4
        lead = rng.choice([(1,), (2,), (3,), (4,), (2, 2), (2, 3), (3, 1)])
        st = gen_stack(rng, nprng, lead, ny, nx)
        nf = int(numpy.prod(lead))
        r, e = call(C.centre_of_gravity, st.astype(dt), threshold=t, min_threshold=mn)
        add("C15 cogN %d %d %d %s %s %s" % (nf, ny, nx, common.f2h(t), common.f2h(mn), hexes(st)), r, e, lead,
            ("cogN", ny, nx, t, mn, lead, dt))
        # ---- brightest pixel
        f, k = bp_fraction(rng, ny * nx)
        r, e = call(C.brightest_pixel, img.astype(dt), f)
        add("C15 bp2 %d %d %d %s" % (ny, nx, k, hexes(img)), r, e, (), ("bp2", ny, nx, k, dt))
        r, e = call(C.brightest_pixel, st.astype(dt), f)
        add("C15 bpN %d %d %d %d %s" % (nf, ny, nx, k, hexes(st)), r, e, lead, ("bpN", ny, nx, k, lead, dt))
        # ---- quad cell (2x2 is the intended use; the code reads columns/rows 0 and 1 of any frame)
        qy, qx = (2, 2) if it % 3 else (rng.randint(2, 5), rng.randint(2, 5))
        qlead = rng.choice([(), (1,), (3,), (2, 2)])
        q = nprng.integers(0, 32, size=qlead + (qy, qx)).astype(float)
        r, e = call(C.quadCell, q.astype(dt))
        add("C15 quad %d %d %d %s" % (int(numpy.prod(qlead)) if qlead else 1, qy, qx, hexes(q)), r, e, qlead,
            ("quad", qy, qx, qlead, dt))
    # ---- FFT correlation (tolerance: FFT vs naive DFT, cos/sin tables, hypot)
    ncorr = 30 if quick else 300
    for it in range(ncorr):
        ny, nx = rng.randint(2, 8), rng.randint(2, 8)
        pad = rng.choice([1, 1, 2, 3]) if ny * nx <= 36 else rng.choice([1, 2])
        x, y = gen_image(rng, nprng, ny, nx), gen_image(rng, nprng, ny, nx)
        r, e = call(C.cross_correlate, x, y, padding=pad)
        lines.append("C15 xcorr %d %d %d %s %s" % (ny, nx, pad, hexes(x), hexes(y)))
        expect.append((r, e, "grid", ("xcorr", ny, nx, pad), float(x.sum() * y.max() + 1.0)))
        nf = rng.randint(1, 3)
        t = rng.choice([0.0, 0.25, 0.5])
        st = gen_stack(rng, nprng, (nf,), ny, nx)
        r, e = call(C.correlation_centroid, st, y, threshold=t, padding=pad)
        add("C15 corr %d %d %d %d %s %s %s" % (nf, ny, nx, pad, common.f2h(t), hexes(st), hexes(y)), r, e, (nf,),
            ("corr", ny, nx, pad, t, nf), tol=float(max(ny, nx) * pad))
        if it % 2 == 0:                                       # the 2-D entry of correlation_centroid
            r, e = call(C.correlation_centroid, st[0], y, threshold=t, padding=pad)
            add("C15 corr2d %d %d %d %s %s %s" % (ny, nx, pad, common.f2h(t), hexes(st[0]), hexes(y)), r, e, (1,),
                ("corr2d", ny, nx, pad, t), tol=float(max(ny, nx) * pad))
    ans = common.run_driver(lines, "C15")
    nbad = 0
    for a, (impl, err, lead, desc, tol) in zip(ans, expect):
        chk.corr_cases += 1
        chk.count("corr:" + desc[0])
        chk.case(("corr",) + tuple(desc), sample={"op": desc[0], "args": list(map(str, desc[1:]))})
        what = None
        if a == "bad-op":
            what = "driver rejected %s" % (desc,)
        elif err is not None:
            what = "real %s raised %s on a valid input %s" % (desc[0], err, desc)
        else:
            if lead == "grid":
                m = numpy.array([common.h2f(h) for h in a.split()]).reshape(impl.shape) if len(a.split()) == impl.size else None
                if m is None or numpy.abs(m - impl).max() > TOL * tol:
                    what = "model cross_correlate differs from the code at %s (max err %s)" % (
                        desc, "shape" if m is None else float(numpy.abs(m - impl).max()))
            else:
                m = pairs(a, lead)
                if tol is None:
                    if not same_bits(m, impl):
                        what = "model %s differs from the code (exact arithmetic) at %s: model %s code %s" % (
                            desc[0], desc, m.ravel()[:6].tolist(), impl.ravel()[:6].tolist())
                elif m.shape != impl.shape or not numpy.all(numpy.abs(m - impl) <= TOL * tol):
                    what = "model %s differs from the code at %s: model %s code %s" % (
                        desc[0], desc, m.ravel()[:6].tolist(), impl.ravel()[:6].tolist())
        if what:
            nbad += 1
            if nbad <= 6:
                chk.broke("correspondence", what)


# --------------------------------------------------------------------------- oracle
def oracle(chk, quick):
    C = _C()
    rng = chk.rng
    nprng = numpy.random.default_rng(rng.getrandbits(32))
    nmax = 12 if quick else 16

    def bad(key, what, **rep):
        chk.fail(key, what, rep)

    worst = {}          # comparison kind -> largest observed |error| / (1 + |expected|) among the comparisons that passed

    def near(a, b, tol=TOL, kind=None, nan_ok=False):
        """nan_ok: for comparisons of two CALLS on the same pixel values (stack vs frame alone, one layout vs another): where
        the centroid is undefined (a constant frame is all zero after correlation_centroid removed its minimum: 0/0) both
        calls return NaN, and NaN in the same positions is the same answer"""
        if a is None or b is None or a.shape != b.shape:
            return False
        with numpy.errstate(invalid="ignore"):
            d = numpy.abs(a - b) / (1 + numpy.abs(b))
        if nan_ok:
            d = numpy.where(numpy.isnan(a) & numpy.isnan(b), 0.0, d)
        ok = bool(numpy.all(d <= tol))                            # a NaN compares False
        if ok and kind and d.size:
            worst[kind] = max(worst.get(kind, 0.0), float(d.max()))
        return ok

    def rk(lead):
        return "2d" if not lead else "rank%d" % (len(lead) + 2)

    def dk(dt):                                                   # key suffix: binary64 keeps the keys of the earlier versions
        return "" if dt == "float64" else ":" + dt

    def tl(dt):
        return TOL32 if dt == "float32" else TOL

    centroiders = {
        "centre_of_gravity": lambda a, p: C.centre_of_gravity(a, threshold=p["t"]),
        "brightest_pixel": lambda a, p: C.brightest_pixel(a, p["f"]),
    }

    # ---------------- 1. single bright pixel (any array dtype; values from 1e-20 to 1e12: a centroid does not depend on how
    # faint or bright the pixel is)
    for it in range(100 if quick else 1500):
        ny, nx = rng.randint(1, nmax), rng.randint(1, nmax)
        if ny * nx < 2:
            ny = 2
        dt = rng.choice(DTYPES)
        y0, x0 = rng.randrange(ny), rng.randrange(nx)
        v = rng.choice([1, 3, 31, 200, INT_MAX[dt]]) if dt in INT_MAX else float(rng.choice(SINGLE_VALUES))
        img = numpy.zeros((ny, nx), dtype=dt)
        img[y0, x0] = v
        chk.oracle_cases += 1
        chk.count("oracle:single" + dk(dt))
        chk.case(("single", ny, nx, y0, x0, v, dt), sample={"clause": "single pixel", "shape": [ny, nx], "at": [y0, x0], "v": v, "dtype": dt} if it < 1 else None)
        want = numpy.array([float(x0), float(y0)])
        for lead in ((), (1,), (2,)):
            a = numpy.broadcast_to(img, lead + img.shape).copy()
            w = want.reshape((2,) + (1,) * len(lead)) * numpy.ones((2,) + lead)
            for t in rng.sample(THRESHOLDS, 3):
                r, e = call(C.centre_of_gravity, a, threshold=t)
                if not near(r, w, kind="single"):
                    bad("single:centre_of_gravity:" + rk(lead) + dk(dt), "centre_of_gravity(single pixel %r at (y=%d,x=%d) of %dx%d %s, threshold=%r, %s) = %s, expected (%d,%d)"
                        % (v, y0, x0, ny, nx, dt, t, rk(lead), e or r.ravel().tolist(), x0, y0), shape=[ny, nx], y0=y0, x0=x0, v=v, threshold=t, lead=lead, dtype=dt)
            f, k = bp_fraction(rng, ny * nx)
            r, e = call(C.brightest_pixel, a, f)
            if not near(r, w, kind="single"):
                bad("single:brightest_pixel:" + rk(lead) + dk(dt), "brightest_pixel(single pixel %r at (y=%d,x=%d) of %dx%d %s, fraction %r = %d px, %s) = %s, expected (%d,%d)"
                    % (v, y0, x0, ny, nx, dt, f, k, rk(lead), e or r.ravel().tolist(), x0, y0), shape=[ny, nx], y0=y0, x0=x0, v=v, fraction=f, lead=lead, dtype=dt)

    # ---------------- 2-4. scale, shift, stack = frames, purity of the arguments
    for it in range(150 if quick else 2500):
        ny, nx = rng.randint(2, nmax), rng.randint(2, nmax)
        lead = rng.choice([(), (1,), (2,), (3,), (4,), (2, 2), (3, 2)])
        t = rng.choice(THRESHOLDS)
        f, k = bp_fraction(rng, ny * nx)
        dt = rng.choice(DTYPES)                 # detector frames are unsigned integers; pixel values <= 31 fit every dtype
        for _ in range(50):
            st = gen_stack(rng, nprng, lead, ny, nx)
            if bp_defined(st, k):
                break
        else:
            continue
        st = st.astype(dt)
        par = {"t": t, "f": f}
        chk.oracle_cases += 1
        chk.count("oracle:stack:" + rk(lead) + dk(dt))
        chk.case(("stack", ny, nx, lead, t, k, dt), sample={"clause": "scale/stack", "shape": list(lead) + [ny, nx], "threshold": t, "fraction": f, "dtype": dt} if it < 2 else None)
        # two positive constants: a real factor from 1e-16 to 1e16 (the product is binary64, or binary32 for a binary32 image) and
        # a small integer factor with the product kept in the image's own dtype (31*7 < 255)
        factors = [rng.choice(SCALES), rng.choice([2, 3, 7])]
        for name, fn in centroiders.items():
            thr = ("thr" if t else "nothr") if name == "centre_of_gravity" else "frac"
            base, e = call(fn, st, par)
            if base is None or base.shape != (2,) + lead or not numpy.all(numpy.isfinite(base)):
                bad("stack:%s:%s:%s" % (name, thr, rk(lead)) + dk(dt), "%s on a %s %s stack of shape %s (threshold %r, fraction %r) gives %s instead of a finite (2,)+%s array"
                    % (name, rk(lead), dt, st.shape, t, f, e or (base.shape if base.shape != (2,) + lead else "non-finite values"), lead),
                    fn=name, img=st.tolist(), threshold=t, fraction=f, dtype=dt)
                continue
            # scale invariance (min_threshold = 0)
            for c in factors:
                scaled = c * st
                sc, e = call(fn, scaled, par)
                if not near(sc, base, tl(dt), kind="scale" + dk(str(scaled.dtype))):
                    bad("scale:%s:%s" % (name, rk(lead)) + dk(dt), "%s(%r*img) = %s differs from %s(img) = %s (shape %s, %s, threshold %r, fraction %r)"
                        % (name, c, e or sc.ravel()[:4].tolist(), name, base.ravel()[:4].tolist(), st.shape, dt, t, f), fn=name, img=st.tolist(), c=c, threshold=t, fraction=f, dtype=dt)
            # a stack gives the same answers as each frame processed alone
            if lead:
                for idx in numpy.ndindex(*lead):
                    one, e = call(fn, st[idx], par)
                    if not near(one, base[(slice(None),) + idx], kind="stack", nan_ok=True):
                        bad("stack:%s:%s:%s" % (name, thr, rk(lead)) + dk(dt), "%s of a %s %s stack, frame %s: %s; the same frame alone: %s (threshold %r, fraction %r)"
                            % (name, rk(lead), dt, idx, base[(slice(None),) + idx].tolist(), e or one.tolist(), t, f), fn=name, img=st.tolist(), frame=list(idx), threshold=t, fraction=f, dtype=dt)
                        break
            # the caller's array is left alone (its content feeds the next call: frames after stack)
            keep = st.copy()
            try:
                fn(keep, par)
            except Exception:
                pass
            if keep.shape != st.shape or keep.dtype != st.dtype or not numpy.array_equal(keep, st):
                bad("inplace:%s:%s:%s" % (name, thr if name == "centre_of_gravity" else "frac", "2d" if not lead else "stack"), "%s modified its argument (shape %s, %s, threshold %r, fraction %r): %d pixels changed"
                    % (name, st.shape, dt, t, f, int((keep != st).sum()) if keep.shape == st.shape else -1), fn=name, img=st.tolist(), threshold=t, fraction=f, dtype=dt)
        # no state leaks between calls: the same input gives the same answer after other inputs have been processed
        for name, fn in centroiders.items():
            first, _ = call(fn, st, par)
            call(fn, 3.0 * st[..., ::-1, :] + 1.0, par)
            again, e = call(fn, st, par)
            if first is not None and not same_bits(first, again if again is not None else numpy.array([])):
                bad("history:%s:%s" % (name, rk(lead)), "%s gives a different answer for the same input after another input was processed: %s then %s"
                    % (name, first.ravel()[:4].tolist(), e or again.ravel()[:4].tolist()), fn=name, img=st.tolist(), threshold=t, fraction=f, dtype=dt)
        # quad cell on 2x2 frames: stack = frames, mirroring, purity.  qf = the pixel values in binary64 (the expected signal is
        # computed from them, never from an unsigned array), q = the same values in the drawn dtype
        qf = nprng.integers(0, 32, size=lead + (2, 2)).astype(float)
        q = qf.astype(dt)
        qb, e = call(C.quadCell, q)
        if qb is None or qb.shape != (2,) + lead:
            bad("stack:quadCell:" + rk(lead) + dk(dt), "quadCell on shape %s %s gives %s" % (q.shape, dt, e or qb.shape), img=qf.tolist(), dtype=dt)
        else:
            for idx in numpy.ndindex(*lead):
                one, e = call(C.quadCell, q[idx])
                if not near(one, qb[(slice(None),) + idx], nan_ok=True):
                    bad("stack:quadCell:" + rk(lead) + dk(dt), "quadCell of a %s stack differs from the frame alone at %s: %s vs %s"
                        % (dt, idx, qb[(slice(None),) + idx].tolist(), e or one.tolist()), img=qf.tolist(), frame=list(idx), dtype=dt)
                    break
            mx, _ = call_raw(C.quadCell, q[..., :, ::-1])           # mirrored views (negative strides), as a caller would write them
            my, _ = call_raw(C.quadCell, q[..., ::-1, :])
            if not (near(mx, qb * numpy.array([-1.0, 1.0]).reshape((2,) + (1,) * len(lead)))
                    and near(my, qb * numpy.array([1.0, -1.0]).reshape((2,) + (1,) * len(lead)))):
                bad("quad:mirror:" + rk(lead) + dk(dt), "quadCell does not change sign under mirroring: %s img %s -> %s, x-mirrored -> %s, y-mirrored -> %s"
                    % (dt, qf.tolist(), qb.tolist(), None if mx is None else mx.tolist(), None if my is None else my.tolist()), img=qf.tolist(), dtype=dt)
            # the signal is (right - left, bottom - top) column/row sums
            if not near(qb, numpy.array([qf[..., :, 1].sum(-1) - qf[..., :, 0].sum(-1), qf[..., 1, :].sum(-1) - qf[..., 0, :].sum(-1)])):
                bad("quad:definition:" + rk(lead) + dk(dt), "quadCell is not (right-left, bottom-top) on the %s image %s: %s" % (dt, qf.tolist(), qb.tolist()), img=qf.tolist(), dtype=dt)
            keep = q.copy()
            C.quadCell(keep)
            if keep.dtype != q.dtype or not numpy.array_equal(keep, q):
                bad("inplace:quadCell", "quadCell modified its argument", img=qf.tolist(), dtype=dt)

    # ---------------- 3. shift equivariance (content stays inside the frame; numpy.roll moves it)
    for it in range(150 if quick else 2500):
        ny, nx = rng.randint(2, nmax), rng.randint(2, nmax)
        img, (y0, y1, x0, x1) = gen_content(rng, nprng, ny, nx)
        ky, kx = rng.randint(-y0, ny - y1), rng.randint(-x0, nx - x1)
        if (ky, kx) == (0, 0) and it % 4:
            continue
        t = rng.choice(THRESHOLDS)
        f, k = bp_fraction(rng, ny * nx)
        if not bp_defined(img, k):
            k = 2
            f = 2.0 / (ny * nx)
            if int(round(f * ny * nx)) != 2 or not bp_defined(img, 2):
                continue
        par = {"t": t, "f": f}
        dt = rng.choice(DTYPES)
        img = img.astype(dt)
        moved = numpy.roll(img, (ky, kx), axis=(0, 1))
        chk.oracle_cases += 1
        chk.count("oracle:shift" + dk(dt))
        chk.case(("shift", ny, nx, ky, kx, t, k, dt), sample={"clause": "shift", "shape": [ny, nx], "box": [y0, y1, x0, x1], "shift": [ky, kx], "threshold": t} if it < 2 else None)
        for name, fn in centroiders.items():
            for lead in ((), (2,)):
                a = numpy.broadcast_to(img, lead + img.shape).copy()
                b = numpy.broadcast_to(moved, lead + img.shape).copy()
                r0, e0 = call(fn, a, par)
                r1, e1 = call(fn, b, par)
                d = numpy.array([float(kx), float(ky)]).reshape((2,) + (1,) * len(lead))
                if r0 is None or r1 is None or not numpy.all(numpy.isfinite(r0)) or not near(r1, r0 + d, kind="shift"):
                    bad("shift:%s:%s" % (name, rk(lead)) + dk(dt), "%s: content shifted by (dy=%d,dx=%d) inside a %dx%d %s frame moves the centroid from %s to %s (threshold %r, fraction %r)"
                        % (name, ky, kx, ny, nx, dt, e0 or r0.ravel().tolist(), e1 or r1.ravel().tolist(), t, f), fn=name, img=img.tolist(), shift=[ky, kx], threshold=t, fraction=f, lead=lead, dtype=dt)

    # ---------------- 5. correlation centroid: displaced by s from the array centre n//2, any padding; scale; stack; purity
    for it in range(120 if quick else 2000):
        ny, nx = rng.randint(2, nmax), rng.randint(2, nmax)
        pad = rng.choice([1, 2, 3, 4] if quick else [1, 2, 3, 4, 5, 6])
        if it < 4:                      # always some elongated frames with padding >= 2 (the two axes have different padding offsets)
            (ny, nx), pad = [(12, 20), (20, 12), (3, 16), (15, 4)][it], 2 + it % 2
        py, px = ny * pad, nx * pad
        # content box of extent (wy, wx) and displacement (sy, sx) whose correlation lags s ± (w-1) fit the shifted
        # window [-(P//2), P - P//2 - 1] of the padded correlation, with the displaced content still inside the frame
        wy, wx = rng.randint(1, max(1, (ny + 1) // 2)), rng.randint(1, max(1, (nx + 1) // 2))
        y0, x0 = rng.randint(0, ny - wy), rng.randint(0, nx - wx)
        loy, hiy = max(-y0, -(py // 2) + (wy - 1)), min(ny - wy - y0, py - py // 2 - 1 - (wy - 1))
        lox, hix = max(-x0, -(px // 2) + (wx - 1)), min(nx - wx - x0, px - px // 2 - 1 - (wx - 1))
        if loy > hiy or lox > hix:
            continue
        sy, sx = rng.randint(loy, hiy), rng.randint(lox, hix)
        bg = float(rng.choice([0, 0, 5]))
        ref = numpy.full((ny, nx), bg)
        ref[y0:y0 + wy, x0:x0 + wx] += nprng.integers(1, 32, size=(wy, wx))
        if bg and wy * wx == ny * nx:
            continue
        # pixel values <= 36 in binary64 or an integer dtype (numpy.fft transforms binary32 images in single precision, whose
        # 1e-7 noise floor over the whole padded frame is not a displacement error: binary32 is left to the other clauses)
        cdt = rng.choice(["float64", "float64", "uint8", "uint16", "int32"])
        ref = ref.astype(cdt)
        im = numpy.roll(ref, (sy, sx), axis=(0, 1))
        t = rng.choice([0.0, 0.0, 0.25, 0.5])
        want = numpy.array([[nx // 2 + sx], [ny // 2 + sy]], dtype=float)
        cls = "%s-n:%s-pad" % ("odd" if (ny % 2 or nx % 2) else "even", "even" if pad % 2 == 0 else "odd")
        chk.oracle_cases += 1
        chk.count("oracle:corr:" + cls + dk(cdt))
        chk.count("oracle:corr:" + ("square" if ny == nx else "non-square") + (":pad>=2" if pad >= 2 else ":pad1"))
        chk.case(("corr", ny, nx, pad, sy, sx, t, bg, cdt), sample={"clause": "correlation displacement", "shape": [ny, nx], "padding": pad, "s": [sy, sx], "threshold": t} if it < 2 else None)
        r, e = call(C.correlation_centroid, im[None], ref, threshold=t, padding=pad)
        if not near(r, want, kind="corr"):
            bad("corr:displacement:" + cls, "correlation_centroid of a %dx%d %s image displaced by (dy=%d,dx=%d) from its reference, padding=%d, threshold=%r: %s, expected centre (%d,%d) + s = %s"
                % (ny, nx, cdt, sy, sx, pad, t, e or r.ravel().tolist(), nx // 2, ny // 2, want.ravel().tolist()), ref=ref.tolist(), s=[sy, sx], padding=pad, threshold=t, dtype=cdt)
        if r is not None:
            r2, e = call(C.correlation_centroid, im, ref, threshold=t, padding=pad)          # the 2-D entry = a one-frame stack
            if not near(r2, r, nan_ok=True):
                bad("stack:correlation_centroid:2d", "correlation_centroid of a single 2-D image %s differs from the one-frame stack %s"
                    % (e or r2.ravel().tolist(), r.ravel().tolist()), ref=ref.tolist(), s=[sy, sx], padding=pad, threshold=t)
            c = rng.choice(SCALES)              # the correlation surface scales as c (c*c when both arrays are scaled)
            r3, e = call(C.correlation_centroid, c * im[None], ref, threshold=t, padding=pad)
            if not near(r3, r, kind="corr-scale", nan_ok=True):
                bad("scale:correlation_centroid", "correlation_centroid(%r*im) = %s differs from %s" % (c, e or r3.ravel().tolist(), r.ravel().tolist()),
                    ref=ref.tolist(), s=[sy, sx], padding=pad, threshold=t, c=c, dtype=cdt)
            r5, e = call(C.correlation_centroid, c * im[None], c * ref, threshold=t, padding=pad)
            if not near(r5, r, kind="corr-scale", nan_ok=True):
                bad("scale:correlation_centroid:both", "correlation_centroid(%r*im, %r*ref) = %s differs from correlation_centroid(im, ref) = %s (%dx%d, padding %d, threshold %r)"
                    % (c, c, e or r5.ravel().tolist(), r.ravel().tolist(), ny, nx, pad, t), ref=ref.tolist(), s=[sy, sx], padding=pad, threshold=t, c=c, dtype=cdt)
        # a stack of general frames against one reference = each frame alone
        nf = rng.randint(2, 4)
        st = gen_stack(rng, nprng, (nf,), ny, nx)
        g = gen_image(rng, nprng, ny, nx)
        rs, e = call(C.correlation_centroid, st, g, threshold=t, padding=pad)
        ok = rs is not None and rs.shape == (2, nf)
        for i in range(nf):
            one, e1 = call(C.correlation_centroid, st[i], g, threshold=t, padding=pad)
            ok = ok and one is not None and near(one.reshape(2), rs[:, i], nan_ok=True)     # a constant frame: NaN in both
        if not ok:
            bad("stack:correlation_centroid:rank3", "correlation_centroid of a stack differs from the frames alone (%dx%d, %d frames, padding %d, threshold %r)"
                % (ny, nx, nf, pad, t), im=st.tolist(), ref=g.tolist(), padding=pad, threshold=t)
        # no state leaks between calls: a second, different reference of the same shape (the point-mirrored one, undisplaced)
        # must again come out at the array centre
        ref2 = ref[::-1, ::-1].copy()
        want2 = numpy.array([[nx // 2], [ny // 2]], dtype=float)
        r4, e = call(C.correlation_centroid, ref2[None], ref2, threshold=t, padding=pad)
        if not near(r4, want2):
            bad("history:correlation_centroid", "correlation_centroid of an undisplaced pair (%dx%d, padding %d) processed after other references of the same shape: "
                "%s, expected the array centre %s" % (ny, nx, pad, e or r4.ravel().tolist(), want2.ravel().tolist()),
                ref=ref2.tolist(), earlier_ref=ref.tolist(), padding=pad, threshold=t)
        # round 6: … also when the caller REFRESHES ONE reference buffer in place between calls (a reference updated every few frames):
        # the second call must see the new contents (seeded change C15-L memoised the reference transform keyed on the array's identity)
        buf = numpy.array(ref, dtype=float)
        call_raw(C.correlation_centroid, numpy.asarray(im, dtype=float)[None], buf, threshold=t, padding=pad)      # the buffer AS IS, no copy
        buf[...] = ref2
        r6, e = call_raw(C.correlation_centroid, numpy.asarray(ref2, dtype=float)[None], buf, threshold=t, padding=pad)
        if not near(r6, want2):
            bad("history:correlation_centroid:buffer-refilled", "correlation_centroid of an undisplaced pair (%dx%d, padding %d) whose reference "
                "is the buffer of the previous call, refilled in place: %s, expected the array centre %s"
                % (ny, nx, pad, e or r6.ravel().tolist(), want2.ravel().tolist()), ref=ref2.tolist(), earlier_ref=ref.tolist(), padding=pad, threshold=t)
        for nm, arr in (("im:2d", st[0].copy()), ("im:stack", st.copy())):
            keep_i, keep_r = arr.copy(), g.copy()
            try:
                C.correlation_centroid(keep_i, keep_r, threshold=t, padding=1)
            except Exception:
                pass
            if keep_i.shape != arr.shape or not numpy.array_equal(keep_i, arr):
                bad("inplace:correlation_centroid:" + nm, "correlation_centroid modified its image argument (shape %s -> %s)" % (arr.shape, keep_i.shape), im=arr.tolist(), ref=g.tolist())
            if not numpy.array_equal(keep_r, g):
                bad("inplace:correlation_centroid:ref", "correlation_centroid modified its reference argument", im=arr.tolist(), ref=g.tolist())

    # ---------------- 6. the domain of corr_displacement_of_roll_pad_ge_two: padding >= 2, content box of ANY extent up to the
    # whole frame, ANY roll that keeps the box inside the frame (no lag condition), with or without a constant background
    # (drawn after all other clauses, so that their samples are those of the earlier version of this check)
    for it in range(60 if quick else 1500):
        ny, nx = rng.randint(1, nmax), rng.randint(1, nmax)
        pad = rng.choice([2, 3, 4] if quick else [2, 3, 4, 5, 6])
        if it % 4 == 1:
            # padded lengths n·padding with a prime factor above 11 (13, 17, 19 … pixels across): not a length FFT libraries like, so an
            # implementation that pads on to the next fast length instead (seeded change C15-J) moves the zero lag there and only there
            ny = rng.choice([13, 17, 19, 23, 29, 31, ny])
            nx = rng.choice([13, 17, 19, 23, 29, 31, nx])
        wy, wx = rng.randint(1, ny), rng.randint(1, nx)
        y0, x0 = rng.randint(0, ny - wy), rng.randint(0, nx - wx)
        sy, sx = rng.randint(-y0, ny - wy - y0), rng.randint(-x0, nx - wx - x0)
        bg = float(rng.choice([0, 0, 5]))
        ref = numpy.full((ny, nx), bg)
        ref[y0:y0 + wy, x0:x0 + wx] += nprng.integers(1, 32, size=(wy, wx))
        if ref.min() == ref.max():          # constant reference: no content, centroid undefined
            continue
        im = numpy.roll(ref, (sy, sx), axis=(0, 1))
        t = rng.choice([0.0, 0.0, 0.25, 0.5, 0.875])
        want = numpy.array([[nx // 2 + sx], [ny // 2 + sy]], dtype=float)
        cls = "%s-n:%s-pad" % ("odd" if (ny % 2 or nx % 2) else "even", "even" if pad % 2 == 0 else "odd")
        chk.oracle_cases += 1
        chk.count("oracle:corr-anybox:" + cls)
        chk.case(("corr-anybox", ny, nx, pad, wy, wx, sy, sx, t, bg), sample={"clause": "correlation displacement, padding >= 2, any box", "shape": [ny, nx], "box": [wy, wx], "padding": pad, "s": [sy, sx], "threshold": t} if it < 2 else None)
        r, e = call(C.correlation_centroid, im[None], ref, threshold=t, padding=pad)
        if not near(r, want):
            bad("corr:displacement:anybox:" + cls, "correlation_centroid of a %dx%d image (content box %dx%d) displaced by (dy=%d,dx=%d) from its reference, padding=%d, threshold=%r: %s, expected centre (%d,%d) + s = %s"
                % (ny, nx, wy, wx, sy, sx, pad, t, e or r.ravel().tolist(), nx // 2, ny // 2, want.ravel().tolist()), ref=ref.tolist(), s=[sy, sx], padding=pad, threshold=t)

    # ---------------- 7. an image is its pixel values: the same values handed over in another memory layout (Fortran order, a
    # transposed view, reversed / strided views, a stack whose frame axis is the fastest one) are the same image — the stack
    # clause with the stack and its frames in different layouts, the scale clause with c = 1
    for it in range(40 if quick else 600):
        ny, nx = rng.randint(2, nmax), rng.randint(2, nmax)
        lead = rng.choice([(), (), (2,), (3,), (2, 2)])
        t = rng.choice(THRESHOLDS)
        f, k = bp_fraction(rng, ny * nx)
        dt = rng.choice(DTYPES)
        for _ in range(50):
            st = gen_stack(rng, nprng, lead, ny, nx)
            if bp_defined(st, k):
                break
        else:
            continue
        st = st.astype(dt)
        qf = nprng.integers(0, 32, size=lead + (2, 2)).astype(float)
        g = gen_image(rng, nprng, ny, nx).astype(dt if dt != "float32" else "float64")
        ci = st.reshape((-1, ny, nx))[:3].astype(g.dtype)          # correlation_centroid takes (y, x) or (t, y, x)
        if not lead:
            ci = ci[0]
        pad = rng.choice([1, 2])
        jobs = [("centre_of_gravity", st, lambda a: C.centre_of_gravity(a, threshold=t)),
                ("brightest_pixel", st, lambda a: C.brightest_pixel(a, f)),
                ("quadCell", qf.astype(dt), lambda a: C.quadCell(a)),
                ("correlation_centroid", ci, lambda a: C.correlation_centroid(a, numpy.asfortranarray(g) if not a.flags.c_contiguous else g, threshold=t, padding=pad))]
        chk.oracle_cases += 1
        chk.count("oracle:layout:" + rk(lead) + dk(dt))
        chk.case(("layout", ny, nx, lead, t, k, dt, pad), sample={"clause": "memory layout", "shape": list(lead) + [ny, nx], "threshold": t, "fraction": f, "dtype": dt} if it < 1 else None)
        for name, arr, fn in jobs:
            arr = numpy.ascontiguousarray(arr)
            base, e = call_raw(fn, arr.copy())
            if base is None:
                bad("layout:%s:C" % name, "%s raised %s on a C-ordered %s array of shape %s" % (name, e, arr.dtype, arr.shape), fn=name, img=arr.tolist(), threshold=t, fraction=f, dtype=str(arr.dtype))
                continue
            for lname, view in layouts(arr):
                r, e = call_raw(fn, view)
                if not near(r, base, kind="layout", nan_ok=True):
                    bad("layout:%s:%s" % (name, lname), "%s of the same %s pixel values (shape %s) in %s layout (strides %s) = %s, C-ordered copy: %s (threshold %r, fraction %r = %d px, padding %d)"
                        % (name, arr.dtype, arr.shape, lname, view.strides, e or r.ravel()[:4].tolist(), base.ravel()[:4].tolist(), t, f, k, pad),
                        fn=name, img=arr.tolist(), layout=lname, threshold=t, fraction=f, padding=pad, dtype=str(arr.dtype))
                if not numpy.array_equal(view, arr):
                    bad("inplace:%s:%s" % (name, lname), "%s modified its %s-layout argument" % (name, lname), fn=name, img=arr.tolist(), layout=lname)
    if worst:
        chk.notes.append("largest observed |error|/(1+|expected|) among passing comparisons, per kind: "
                         + ", ".join("%s %.2g" % kv for kv in sorted(worst.items())))


# --------------------------------------------------------------------------- round 5: generator audit
R5_DTYPES = ["int8", "int16", "uint32", "int64", "uint64", ">f8", ">f4", ">u2", ">i4", "<u2", "float32", "longdouble"]
R5_MAX = {"int8": 127, "int16": 32767, "uint32": 2 ** 32 - 1, "int64": 2 ** 40, "uint64": 2 ** 40, ">u2": 65535, "<u2": 65535,
          ">i4": 2 ** 31 - 1}
R5_TOL32 = 1e-4       # binary32 pixel values against the same values in binary64: observed <= 2.4e-7 (quick seeds 0-11, thorough seed 0)
NONDYADIC_THRESHOLDS = [0.1, 0.3, 0.7, 0.9, 0.99, 1e-3, 1.0 / 3]


def oracle_round5(chk, quick):
    """input classes no earlier section produces (generator audit): frames with more than 2^8 / 2^16 pixels along an axis, stacks
    deeper than 2^8 / 2^10 frames whose frames differ in brightness by 1e6, rank-5 stacks, further array dtypes (signed narrow
    integers, 32/64-bit unsigned, big-endian FITS types) with pixel values up to the dtype's maximum, thresholds that are no binary
    fractions and thresholds / paddings given as NumPy scalars or 0-d arrays, positional vs keyword spelling, the package-level
    names, read-only and broadcast (zero-stride) arrays"""
    import aotools
    import aotools.image_processing
    C = _C()
    rng = chk.rng
    nprng = numpy.random.default_rng(rng.getrandbits(32))
    worst = {}

    def bad(key, what, **rep):
        chk.fail(key, what, rep)

    def near(a, b, tol=TOL, kind=None):
        if a is None or b is None or a.shape != b.shape:
            return False
        with numpy.errstate(invalid="ignore"):
            d = numpy.abs(a - b) / (1 + numpy.abs(b))
        d = numpy.where(numpy.isnan(a) & numpy.isnan(b), 0.0, d)
        ok = bool(numpy.all(d <= tol))
        if ok and kind and d.size:
            worst[kind] = max(worst.get(kind, 0.0), float(d.max()))
        return ok

    # ---------------- A. long axes: a single bright pixel / a small blob beyond index 2^8 and 2^16, moved by a long shift
    shapes = [(1, 70000), (70000, 1), (300, 260), (2, 2 ** 17 + 3), (513, 129)] if quick else \
        [(1, 70000), (70000, 1), (300, 260), (2, 2 ** 17 + 3), (513, 129), (1024, 1024), (3, 2 ** 18 + 1), (257, 256), (66000, 3)]
    for (ny, nx) in shapes:
        dt = rng.choice(DTYPES)
        y0, x0 = rng.randrange(ny // 2, ny), rng.randrange(nx // 2, nx)          # in the far half: indices beyond 2^8 / 2^16
        v = rng.choice([1, 3, 31, 200, INT_MAX[dt]]) if dt in INT_MAX else float(rng.choice(SINGLE_VALUES))
        img = numpy.zeros((ny, nx), dtype=dt)
        img[y0, x0] = v
        want = numpy.array([float(x0), float(y0)])
        chk.oracle_cases += 1
        chk.count("oracle:single:large")
        chk.case(("single-large", ny, nx, y0, x0, v, dt))
        t = rng.choice(THRESHOLDS)
        k = rng.randint(2, 50)
        f = k / float(ny * nx)
        if int(round(f * nx * ny)) != k:
            f, k = 2.5 / (ny * nx), 2 if int(round(2.5 / (ny * nx) * nx * ny)) == 2 else None
        for lead in ((), (2,)):
            a = numpy.broadcast_to(img, lead + img.shape).copy()
            w = want.reshape((2,) + (1,) * len(lead)) * numpy.ones((2,) + lead)
            r, e = call(C.centre_of_gravity, a, threshold=t)
            if not near(r, w, kind="single-large"):
                bad("single:centre_of_gravity:large", "centre_of_gravity(single pixel %r at (y=%d,x=%d) of a %dx%d %s frame, threshold=%r, lead %s) = %s, expected (%d,%d)"
                    % (v, y0, x0, ny, nx, dt, t, lead, e or r.ravel().tolist(), x0, y0), shape=[ny, nx], y0=y0, x0=x0, v=v, threshold=t, lead=lead, dtype=dt)
            if k:
                r, e = call(C.brightest_pixel, a, f)
                if not near(r, w, kind="single-large"):
                    bad("single:brightest_pixel:large", "brightest_pixel(single pixel %r at (y=%d,x=%d) of a %dx%d %s frame, %d px, lead %s) = %s, expected (%d,%d)"
                        % (v, y0, x0, ny, nx, dt, k, lead, e or r.ravel().tolist(), x0, y0), shape=[ny, nx], y0=y0, x0=x0, v=v, fraction=f, lead=lead, dtype=dt)
        # a 3x3 blob moved by a long shift
        by, bx = min(3, ny), min(3, nx)
        blob = nprng.integers(1, 32, size=(by, bx))
        p0y, p0x = rng.randint(0, max(0, ny // 4 - by)), rng.randint(0, max(0, nx // 4 - bx))
        ky, kx = rng.randint(0, ny - by - p0y), rng.randint(0, nx - bx - p0x)
        a = numpy.zeros((ny, nx), dtype=dt)
        b = numpy.zeros((ny, nx), dtype=dt)
        a[p0y:p0y + by, p0x:p0x + bx] = blob
        b[p0y + ky:p0y + ky + by, p0x + kx:p0x + kx + bx] = blob
        r0, e0 = call(C.centre_of_gravity, a, threshold=t)
        r1, e1 = call(C.centre_of_gravity, b, threshold=t)
        if r0 is None or r1 is None or not numpy.all(numpy.isfinite(r0)) or not near(r1, r0 + numpy.array([float(kx), float(ky)]), kind="shift-large"):
            bad("shift:centre_of_gravity:large", "centre_of_gravity: a %dx%d blob shifted by (dy=%d,dx=%d) inside a %dx%d %s frame moves the centroid from %s to %s (threshold %r)"
                % (by, bx, ky, kx, ny, nx, dt, e0 or r0.tolist(), e1 or r1.tolist(), t), shape=[ny, nx], blob=blob.tolist(), at=[p0y, p0x], shift=[ky, kx], threshold=t, dtype=dt)

    # ---------------- B. deep stacks (more frames than 2^8 / 2^10) whose frames differ in brightness, rank-5 stacks
    for lead in ([(300,), (1030,), (2, 1, 3), (3, 2, 2)] if quick else [(300,), (1030,), (70000,), (2, 1, 3), (3, 2, 2), (260, 2), (1, 1, 1, 2)]):
        ny, nx = (rng.randint(2, 6), rng.randint(2, 6)) if lead != (70000,) else (2, 3)
        t = rng.choice(THRESHOLDS[1:] + NONDYADIC_THRESHOLDS)
        f, k = bp_fraction(rng, ny * nx)
        nf = int(numpy.prod(lead))
        st = nprng.integers(0, 32, size=lead + (ny, nx)).astype(float)
        st[..., 0, 0] = 31.0                                   # a unique brightest pixel: brightest-pixel centroids are defined
        st[..., ny - 1, nx - 1] = numpy.minimum(st[..., ny - 1, nx - 1], 30.0)
        srt = numpy.sort(st.reshape(lead + (-1,)))
        st[srt[..., -k] >= 31.0] *= 0.0
        st[..., 0, 0] = 31.0
        if not bp_defined(st, k):
            k, f = 2, 2.0 / (ny * nx)
            if int(round(f * nx * ny)) != 2 or not bp_defined(st, 2):
                continue
        gain = 10.0 ** nprng.integers(-3, 4, size=lead)          # frame brightness 1e-3 … 1e3 (a scintillating / variable source)
        st = st * gain[..., None, None]
        chk.oracle_cases += 1
        chk.count("oracle:stack:deep:rank%d" % (len(lead) + 2))
        chk.case(("stack-deep", lead, ny, nx, t, k))
        pick = [tuple(int(i) for i in numpy.unravel_index(j, lead)) for j in
                sorted(set([0, 1, nf - 1, nf // 2, min(nf - 1, 255), min(nf - 1, 256), min(nf - 1, 257), min(nf - 1, 1024)] + [rng.randrange(nf) for _ in range(12)]))]
        for name, fn in (("centre_of_gravity", lambda a: C.centre_of_gravity(a, threshold=t)),
                         ("centre_of_gravity:nothr", lambda a: C.centre_of_gravity(a)),
                         ("brightest_pixel", lambda a: C.brightest_pixel(a, f))):
            base, e = call(fn, st)
            if base is None or base.shape != (2,) + lead:
                bad("stack:%s:deep" % name, "%s on a stack of shape %s gives %s instead of a (2,)+%s array" % (name, st.shape, e or base.shape, lead),
                    fn=name, shape=list(st.shape), threshold=t, fraction=f)
                continue
            for idx in pick:
                one, e = call(fn, st[idx])
                if not near(one, base[(slice(None),) + idx], kind="stack-deep"):
                    bad("stack:%s:deep" % name, "%s of a stack of shape %s (frames of brightness 1e-3…1e3), frame %s: %s; the same frame alone: %s (threshold %r, fraction %r)"
                        % (name, st.shape, idx, base[(slice(None),) + idx].tolist(), e or one.tolist(), t, f), fn=name, frame=list(idx), img=st[idx].tolist(),
                        shape=list(st.shape), threshold=t, fraction=f, note="stack = integers(0,32)*10**integers(-3,4) per frame; frame listed")
                    break
        q = nprng.integers(0, 32, size=lead + (2, 2)).astype(float) * gain[..., None, None]
        qb, e = call(C.quadCell, q)
        want = numpy.array([q[..., :, 1].sum(-1) - q[..., :, 0].sum(-1), q[..., 1, :].sum(-1) - q[..., 0, :].sum(-1)])
        if not near(qb, want, kind="stack-deep"):
            bad("stack:quadCell:deep", "quadCell on a stack of shape %s is not (right-left, bottom-top) per frame: %s"
                % (q.shape, e or ("shape %s" % (qb.shape,) if qb.shape != want.shape else "first difference at frame %s"
                                     % (numpy.argwhere(~numpy.isclose(qb, want, rtol=1e-9, atol=0))[0][1:].tolist(),))), shape=list(q.shape),
                note="frames = integers(0,32) * 10**integers(-3,4) per frame")
    # correlation_centroid: many frames, each with its own sky background and brightness
    for nt in ([40, 300] if quick else [40, 300, 1030]):
        ny, nx = rng.randint(3, 7), rng.randint(3, 7)
        pad = rng.choice([1, 2, 3])
        t = rng.choice([0.0, 0.25, 0.5])
        st = gen_stack(rng, nprng, (nt,), ny, nx) * (10.0 ** nprng.integers(-2, 3, size=nt))[:, None, None] + nprng.integers(0, 50, size=nt)[:, None, None]
        g = gen_image(rng, nprng, ny, nx)
        chk.oracle_cases += 1
        chk.count("oracle:corr:deep")
        chk.case(("corr-deep", nt, ny, nx, pad, t))
        rs, e = call(C.correlation_centroid, st, g, threshold=t, padding=pad)
        if rs is None or rs.shape != (2, nt):
            bad("stack:correlation_centroid:deep", "correlation_centroid of %d %dx%d frames gives %s" % (nt, ny, nx, e or rs.shape), nt=nt, shape=[ny, nx], padding=pad, threshold=t)
            continue
        for i in sorted(set([0, nt - 1, min(nt - 1, 256)] + [rng.randrange(nt) for _ in range(10)])):
            one, e1 = call(C.correlation_centroid, st[i], g, threshold=t, padding=pad)
            if one is None or not near(one.reshape(2), rs[:, i], kind="corr-deep"):
                bad("stack:correlation_centroid:deep", "correlation_centroid of a stack of %d frames (own background and brightness per frame), frame %d: %s; the frame alone: %s (%dx%d, padding %d, threshold %r)"
                    % (nt, i, rs[:, i].tolist(), e1 or one.ravel().tolist(), ny, nx, pad, t), im=st[i].tolist(), ref=g.tolist(), frame=i, nt=nt, padding=pad, threshold=t)
                break

    # ---------------- C. an image is its pixel values: further array dtypes, pixel values up to the dtype's maximum
    for it in range(60 if quick else 900):
        ny, nx = rng.randint(2, 12), rng.randint(2, 12)
        lead = rng.choice([(), (), (2,), (3,), (2, 2)])
        dt = R5_DTYPES[it % len(R5_DTYPES)]
        isint = dt in R5_MAX
        hi = R5_MAX.get(dt, 0)
        if isint:
            top = rng.choice([hi, hi, max(2, hi // 3), 31])
            vals = nprng.integers(0, top, size=lead + (ny, nx), endpoint=True)
            vals[nprng.random(vals.shape) < 0.3] = 0
            vals[..., rng.randrange(ny), rng.randrange(nx)] = top
        else:
            vals = nprng.uniform(0, 1, size=lead + (ny, nx)) ** 3 * rng.choice([1.0, 1e3, 1e-3])
            vals[nprng.random(vals.shape) < 0.3] = 0
            vals[..., rng.randrange(ny), rng.randrange(nx)] = 2.0 * vals.max() + 1e-3
        arr = vals.astype(dt)
        ref64 = arr.astype(numpy.float64)                        # the SAME values (every integer here is < 2^53) in binary64
        if not isint and dt != "longdouble":
            arr = ref64.astype(dt)
        tol = R5_TOL32 if dt in ("float32", ">f4") else TOL
        t = rng.choice(THRESHOLDS + NONDYADIC_THRESHOLDS)
        f, k = bp_fraction(rng, ny * nx)
        qv = (nprng.integers(0, hi, size=lead + (2, 2), endpoint=True) if isint else nprng.uniform(0, 1, size=lead + (2, 2)))
        q = numpy.asarray(qv).astype(dt)
        q64 = q.astype(numpy.float64)
        g = gen_image(rng, nprng, ny, nx)
        pad = rng.choice([1, 2])
        ci, ci64 = arr.reshape((-1, ny, nx))[:3], ref64.reshape((-1, ny, nx))[:3]
        if not lead:
            ci, ci64 = ci[0], ci64[0]
        jobs = [("centre_of_gravity", arr, ref64, lambda a: C.centre_of_gravity(a, threshold=t)),
                ("quadCell", q, q64, lambda a: C.quadCell(a))]
        if bp_defined(ref64, k):
            jobs.append(("brightest_pixel", arr, ref64, lambda a: C.brightest_pixel(a, f)))
        if dt not in ("float32", ">f4", "longdouble") and all(fr.min() < fr.max() for fr in ci64.reshape((-1, ny, nx))):
            jobs.append(("correlation_centroid", ci, ci64, lambda a: C.correlation_centroid(a, g, threshold=0.25 * (it % 2), padding=pad)))
        chk.oracle_cases += 1
        chk.count("oracle:dtype-values:" + dt)
        chk.case(("dtype-values", ny, nx, lead, dt, t, k, it))
        for name, a_dt, a_64, fn in jobs:
            base, e0 = call_raw(fn, a_64.copy())
            r, e = call_raw(fn, a_dt.copy())
            if base is None or not numpy.all(numpy.isfinite(base)):
                continue                                                       # undefined centroid (not this clause's subject)
            if not near(r, base, tol, kind="dtype-values" + (":binary32" if tol != TOL else "")):
                bad("dtype:%s:%s" % (name, dt), "%s of a %s array of shape %s (values up to %r) = %s, of the same pixel values as float64: %s (threshold %r, fraction %r = %d px, padding %d)"
                    % (name, dt, a_dt.shape, a_64.max(), e or r.ravel()[:4].tolist(), base.ravel()[:4].tolist(), t, f, k, pad),
                    fn=name, img=a_64.tolist(), dtype=dt, threshold=t, fraction=f, padding=pad, ref=g.tolist() if name == "correlation_centroid" else None)

    # ---------------- D. thresholds that are no binary fractions; thresholds / paddings as NumPy scalars and 0-d arrays;
    # positional and keyword spelling; the package-level names
    spaces = [("aotools", aotools), ("aotools.image_processing", aotools.image_processing)]
    for it in range(60 if quick else 900):
        ny, nx = rng.randint(2, 12), rng.randint(2, 12)
        lead = rng.choice([(), (2,), (3,), (2, 2)])
        t = rng.choice(NONDYADIC_THRESHOLDS)
        f, k = bp_fraction(rng, ny * nx)
        for _ in range(50):
            st = gen_stack(rng, nprng, lead, ny, nx)
            if bp_defined(st, k):
                break
        else:
            continue
        chk.oracle_cases += 1
        chk.count("oracle:threshold:non-dyadic")
        chk.case(("threshold-nd", ny, nx, lead, t, k, it))
        base, e = call(C.centre_of_gravity, st, threshold=t)
        if base is None or base.shape != (2,) + lead or not numpy.all(numpy.isfinite(base)):
            bad("stack:centre_of_gravity:thr:nondyadic", "centre_of_gravity(shape %s, threshold=%r) gives %s" % (st.shape, t, e or base.tolist()), img=st.tolist(), threshold=t)
            continue
        c = rng.choice(SCALES)
        sc, e = call(C.centre_of_gravity, c * st, threshold=t)
        if not near(sc, base, kind="scale-nondyadic"):
            bad("scale:centre_of_gravity:nondyadic", "centre_of_gravity(%r*img, threshold=%r) = %s differs from centre_of_gravity(img) = %s (shape %s)"
                % (c, t, e or sc.ravel()[:4].tolist(), base.ravel()[:4].tolist(), st.shape), img=st.tolist(), c=c, threshold=t)
        for idx in numpy.ndindex(*lead):
            one, e = call(C.centre_of_gravity, st[idx], threshold=t)
            if not near(one, base[(slice(None),) + idx], kind="stack-nondyadic"):
                bad("stack:centre_of_gravity:thr:nondyadic", "centre_of_gravity of a stack (threshold %r), frame %s: %s; the same frame alone: %s"
                    % (t, idx, base[(slice(None),) + idx].tolist(), e or one.tolist()), img=st.tolist(), frame=list(idx), threshold=t)
                break
        # the same number in another spelling is the same threshold (a float32 threshold only when it is exactly representable)
        t2 = rng.choice(THRESHOLDS[1:]) if it % 2 else t
        b2, _ = call(C.centre_of_gravity, st, threshold=t2)
        forms = [("numpy.float64", numpy.float64(t2)), ("0-d array", numpy.array(t2)), ("positional", None)]
        if float(numpy.float32(t2)) == t2:
            forms.append(("numpy.float32", numpy.float32(t2)))
        for fname, tv in forms:
            r, e = call(C.centre_of_gravity, st, t2) if fname == "positional" else call(C.centre_of_gravity, st, threshold=tv)
            if not near(r, b2, kind="threshold-form"):
                bad("argform:centre_of_gravity:threshold:%s" % fname, "centre_of_gravity(img, threshold %s %r) = %s differs from threshold=%r (Python float): %s (shape %s)"
                    % (fname, t2, e or r.ravel()[:4].tolist(), t2, b2.ravel()[:4].tolist(), st.shape), img=st.tolist(), threshold=t2, form=fname)
        bb, _ = call(C.brightest_pixel, st, f)
        for fname, kw in (("keyword", dict(threshold=f)), ("numpy.float64", dict(threshold=numpy.float64(f))), ("0-d array", dict(threshold=numpy.array(f)))):
            r, e = call(C.brightest_pixel, st, **kw)
            if bb is not None and not near(r, bb, kind="threshold-form"):
                bad("argform:brightest_pixel:fraction:%s" % fname, "brightest_pixel(img, threshold=%r as %s) = %s differs from the positional Python float: %s (shape %s)"
                    % (f, fname, e or r.ravel()[:4].tolist(), bb.ravel()[:4].tolist(), st.shape), img=st.tolist(), fraction=f, form=fname)
        g = gen_image(rng, nprng, ny, nx)
        ci = st.reshape((-1, ny, nx))[:3]
        pad = rng.choice([1, 2, 3])
        tc = rng.choice([0.0, 0.25, 0.3])
        bc, _ = call(C.correlation_centroid, ci, g, threshold=tc, padding=pad)
        for fname, args, kw in (("numpy-int64 padding", (), dict(threshold=tc, padding=numpy.int64(pad))), ("positional", (tc, pad), {}),
                                ("numpy.float64 threshold", (), dict(threshold=numpy.float64(tc), padding=pad)),
                                ("numpy-int32 padding", (), dict(threshold=tc, padding=numpy.int32(pad)))):
            r, e = call(C.correlation_centroid, ci, g, *args, **kw)
            if bc is not None and not near(r, bc, kind="threshold-form"):
                bad("argform:correlation_centroid:%s" % fname, "correlation_centroid(im, ref, threshold=%r, padding=%d) written with %s = %s differs from the plain call: %s (%dx%d)"
                    % (tc, pad, fname, e or r.ravel()[:4].tolist(), bc.ravel()[:4].tolist(), ny, nx), im=ci.tolist(), ref=g.tolist(), threshold=tc, padding=pad, form=fname)
        if pad == 1:                                                            # the defaults: threshold 0, padding 1
            b0, _ = call(C.correlation_centroid, ci, g, threshold=0.0, padding=1)
            r, e = call(C.correlation_centroid, ci, g)
            if b0 is not None and not near(r, b0):
                bad("argform:correlation_centroid:defaults", "correlation_centroid(im, ref) = %s differs from threshold=0, padding=1: %s" % (e or r.ravel()[:4].tolist(), b0.ravel()[:4].tolist()),
                    im=ci.tolist(), ref=g.tolist())
        # the names exported by the package are the same functions
        sname, space = spaces[it % 2]
        q = nprng.integers(0, 32, size=lead + (2, 2)).astype(float)
        for name, args, kw in (("centre_of_gravity", (st,), dict(threshold=t)), ("brightest_pixel", (st, f), {}), ("quadCell", (q,), {}),
                               ("correlation_centroid", (ci, g), dict(threshold=tc, padding=pad)), ("cross_correlate", (ci[0], g), dict(padding=pad))):
            r0, _ = call(getattr(C, name), *args, **kw)
            r1, e = call(getattr(space, name, None) or (lambda *a, **k: (_ for _ in ()).throw(AttributeError("%s has no attribute %s" % (sname, name)))), *args, **kw)
            if r0 is not None and not (r1 is not None and same_bits(r0, r1)):
                bad("alias:%s.%s" % (sname, name), "%s.%s gives %s where aotools.image_processing.centroiders.%s gives %s" % (sname, name, e or r1.ravel()[:4].tolist(), name, r0.ravel()[:4].tolist()),
                    fn=name, namespace=sname)

    # ---------------- E. read-only arrays (memory-mapped frames) and broadcast, zero-stride stacks (one frame repeated)
    for it in range(30 if quick else 400):
        ny, nx = rng.randint(2, 12), rng.randint(2, 12)
        t = rng.choice(THRESHOLDS)
        f, k = bp_fraction(rng, ny * nx)
        dt = rng.choice(DTYPES)
        for _ in range(50):
            img = gen_image(rng, nprng, ny, nx)
            if bp_defined(img, k):
                break
        else:
            continue
        img = img.astype(dt)
        nrep = rng.randint(2, 4)
        qf = nprng.integers(0, 32, size=(2, 2)).astype(dt)
        g = gen_image(rng, nprng, ny, nx)
        g.setflags(write=False)
        pad = rng.choice([1, 2])
        chk.oracle_cases += 1
        chk.count("oracle:layout:readonly")
        chk.case(("readonly", ny, nx, t, k, dt, nrep, it))
        jobs = [("centre_of_gravity", img, lambda a: C.centre_of_gravity(a, threshold=t)),
                ("brightest_pixel", img, lambda a: C.brightest_pixel(a, f)),
                ("quadCell", qf, lambda a: C.quadCell(a))]
        if dt != "float32" and img.min() < img.max():
            jobs.append(("correlation_centroid", img, lambda a: C.correlation_centroid(a, g, threshold=t, padding=pad)))
        for name, one, fn in jobs:
            base, e = call_raw(fn, one.copy())
            if base is None or base.size != 2:
                continue
            base = base.reshape(2)
            for lname in ("readonly", "broadcast", "readonly-stack"):
                if lname == "readonly":
                    v, lead = one.copy(), ()
                    v.setflags(write=False)
                elif lname == "broadcast":
                    v, lead = numpy.broadcast_to(one, (nrep,) + one.shape), (nrep,)
                else:
                    v, lead = numpy.stack([one] * nrep), (nrep,)
                    v.setflags(write=False)
                r, e = call_raw(fn, v)
                want = base.reshape((2,) + (1,) * len(lead)) * numpy.ones((2,) + lead)
                if r is not None and not lead and r.size == 2:
                    r = r.reshape(2)                                        # correlation_centroid of one image: shape (2, 1)
                if not near(r, want, kind="layout-readonly"):
                    bad("layout:%s:%s" % (name, lname), "%s of a %s %s array of shape %s = %s; of a private writable copy of one frame: %s (threshold %r, fraction %r)"
                        % (name, lname, dt, v.shape, e or r.ravel()[:4].tolist(), base.tolist(), t, f), fn=name, img=one.tolist(), layout=lname, lead=list(lead), threshold=t, fraction=f, padding=pad, dtype=dt)
    if worst:
        chk.notes.append("round-5 sections, largest observed |error|/(1+|expected|) among passing comparisons, per kind: "
                         + ", ".join("%s %.2g" % kv for kv in sorted(worst.items())))


def run(chk):
    quick = chk.tier == "quick"
    chk.rule = ("correspondence: Lean model at binary64 vs centroiders.* — bit-exact for centre_of_gravity (2-D path, and the N-D path "
                "modelled on the flat C-ordered buffer, ranks 3-4, thresholds k/8, min_threshold dyadic), brightest_pixel (pixel counts "
                "from exact and from general fractions), quadCell on integer-valued images of size <= 12x12 handed to the real code as "
                "float64 / uint8 / uint16 / int32 / float32 arrays; 1e-9*scale for cross_correlate / correlation_centroid (FFT vs naive "
                "DFT), sizes <= 8, padding <= 3; oracle: every clause of the property on the real code (tolerance 1e-9*(1+|expected|) px; "
                "1e-4 when the compared image is binary32), over array dtypes, scale factors 1e-16..1e16, single pixels of value "
                "1e-20..1e12, elongated frames, and the same pixel values in Fortran / transposed / reversed / strided / frame-axis-last "
                "memory layouts; plus argument purity; distinct = distinct (clause, sizes, parameters, dtype)")
    chk.assumptions = [
        "numpy.fft.fft2/ifft2 are the nested naive DFT sums and numpy.sort is an ascending sort (checked through the correspondence)",
        "binary64 rounding is not modelled (exact comparison only where the arithmetic is exact)",
        "stack = frames: the four stack_eq_frames_* theorems are true by construction (cogN/bpN/quadCellN/corrCentroidN are defined "
        "as 'the 2-D expression for frame i', their proofs are rfl). The clause rests on (a) flat_eq_frames_*: the N-D code's own "
        "index arithmetic on one C-ordered buffer (axis reductions, thres[..., None, None], numpy.indices broadcast, "
        "reshape-sort-[..., -k], .sum(-2), (im.T - im.min((1,2))).T) gives frame i the 2-D answer — proved; (b) the bit-exact tie of "
        "those flat definitions to the real N-D code on sampled stacks (that numpy's reductions/broadcasting ARE that index "
        "arithmetic is sampled, not proved); (c) the oracle's stack-vs-frame comparison",
        "memory layout and dtype are outside the model (an image is a function of pixel indices over a field): that the real code "
        "gives the same answer for the same pixel values in uint8/uint16/int32/float32 arrays and in non-C-contiguous layouts is "
        "only sampled by the oracle (unsigned wrap-around was a genuine defect: fixes/C15-unsigned-dtype.diff); binary32 images "
        "are compared at 1e-4 because c*img is rounded to 24 bits before the centroider sees it; correlation_centroid on binary32 "
        "images is not exercised (numpy.fft transforms them in single precision)",
        "correlation displacement (corr_displacement_of_roll) is proved for im = numpy.roll(ref, s) with the content of ref (pixels "
        "above its minimum) in a box that stays inside the frame and lags s ± (w-1) inside [-(P//2), P - P//2 - 1] (automatic for "
        "padding >= 2); for padding 1 displacements outside that lag window are outside the theorem (the correlation wraps there) and "
        "are not drawn by the oracle either",
        "quadCell is read as a difference SIGNAL (own clause); its scale law proved is homogeneity of degree 1, not invariance",
        "brightest_pixel: int(round(threshold*nx*ny)) is computed by the harness, the model takes the pixel count k; the model "
        "mirrors the code only for 1 <= k <= ny*nx (kthLargest_outside_domain: k = 0 reads numpy's smallest element but the model's "
        "default 0, k > ny*nx raises IndexError in numpy); the driver rejects and the harness never draws other k",
        "the inplace:* and history:* oracle keys (argument purity, no state between calls) go beyond the text of C15 — they are "
        "C20's subject and are kept here only because the stack-vs-frames comparison reuses its input arrays",
    ]
    chk.build_and_audit("AoVerif.Props.C15", "AoVerif.Props.C15", REQUIRED)
    try:
        correspondence(chk, quick)
    except common.LeanError as ex:
        chk.broke("correspondence", "driver failed", str(ex))
    oracle(chk, quick)
    oracle_round5(chk, quick)
