"""C11 — propagators form a group and agree with each other and with theory."""
import math

import numpy

from .. import common
from . import c10

MANIFEST = {
    "text": "Lean 4 theorems on the C10 model of aotools.opticalpropagation over the complex numbers, for every even grid size N (group laws: "
            "every N>=1) and the FFT kernel e^{-2 pi i/N}: angularSpectrum at unit magnification is a one-parameter group (z=0 is the identity, "
            "AS(z1) after AS(z2) equals AS(z1+z2) for every split including zero and opposite signs, AS(-z) undoes AS(z)); with magnification m the "
            "return trip with 1/m is the identity times the explicit constant phase coming from the 1e-10 in r1sq; oneStepFresnel / lensAgainst "
            "output sample (a,b) IS the centred Riemann sum of the Fresnel-Kirchhoff (Fraunhofer) integral with kernel exp(+i pi |x2-x1|^2/(lambda z))/(i lambda z) "
            "at (x,y)=((b-N/2)d2,(a-N/2)d2), which fixes kernel sign, scale and orientation; twoStepFresnel is two chained one-step sums and "
            "(after the orientation repair) lands on the grid +(a-N/2)d2. Model tied to the code by the C10 correspondence; the oracle evaluates "
            "group laws, the direct O(N^4) Fresnel sums, cross-propagator agreement on matching grids with an asymmetric off-centre beam, the "
            "analytic Gaussian beam (width, curvature, Gouy phase) and the Airy pattern on the real code.",
    "note": "Trusted: Lean kernel + propext/Classical.choice/Quot.sound; numpy.fft = naive DFT (checked to 1e-9); binary64 rounding not modelled. "
            "Agreement of the discrete sums with the continuous Fresnel integral (Gaussian beam, Airy, angular-spectrum vs Fresnel sampling) is "
            "an approximation statement and stays numeric (bounds stated in the evidence).",
    "technique": "Lean 4 proof (roots of unity, phase algebra over Finset sums) + differential correspondence with the real code + oracle search",
}
REQUIRED = ["as_zero", "as_add", "as_neg", "as_mag_inverse", "oneStep_is_fresnel_sum", "lens_is_fraunhofer_sum",
            "twoStep_is_two_steps", "twoStep_pinned_is_two_sums", "twoStep_orientation", "twoStep_pinned_point_reflected"]
TOL = 1e-9


# --------------------------------------------------------------------------- reference sums (O(N^3), separable kernel)
def grid(n, d):
    return (numpy.arange(n) - n / 2.0) * d


def fresnel_sum(U, wvl, z, d1, X):
    """(1/(i λ z)) Σ_{a',b'} U[a',b'] exp(+iπ((X_b-x_b')² + (X_a-x_a')²)/(λ z)) d1²  at output coordinates X (both axes)"""
    x1 = grid(U.shape[0], d1)
    Km = numpy.exp(1j * numpy.pi * (X[:, None] - x1[None, :]) ** 2 / (wvl * z))
    return Km @ U @ Km.T * (d1 * d1 / (1j * wvl * z))


def fraunhofer_sum(U, wvl, f, d1, X):
    """exp(iπ|X|²/(λf))/(iλf) Σ U[a',b'] exp(-2πi (X_b x_b' + X_a x_a')/(λ f)) d1²"""
    x1 = grid(U.shape[0], d1)
    Km = numpy.exp(-2j * numpy.pi * X[:, None] * x1[None, :] / (wvl * f))
    q = numpy.exp(1j * numpy.pi * X ** 2 / (wvl * f))
    return (q[:, None] * q[None, :]) * (Km @ U @ Km.T) * (d1 * d1 / (1j * wvl * f))


def reflect(U):
    return numpy.roll(U[::-1, ::-1], 1, axis=(0, 1))


def two_stage(U, wvl, d1, d2, z, n):
    """the two-stage Fresnel sum of twoStepFresnel on the honest (signed) intermediate grid, at output coordinates +(a-N/2) d2"""
    m = d2 / d1
    Dz1 = z / (1 - m) if m != 1 else z / (1 + m)
    Dz2 = z - Dz1
    s1 = wvl * Dz1 / (n * d1)
    V = fresnel_sum(U, wvl, Dz1, d1, grid(n, s1))
    return fresnel_sum(V, wvl, Dz2, s1, grid(n, d2))


# --------------------------------------------------------------------------- oracle
def oracle(chk, quick):
    from aotools import opticalpropagation as op
    rng = chk.rng
    nprng = numpy.random.default_rng(rng.getrandbits(32))

    def relerr(a, b):
        return float(numpy.abs(a - b).max()) / (float(numpy.abs(b).max()) + 1e-300)

    # ---- group laws of angularSpectrum (exact discrete identities)
    # the group laws are proved for every N >= 1 and the property does not restrict them to even grids: odd sizes included
    sizes = [2, 3, 4, 5, 6, 8, 9, 16, 17, 32, 33] + ([] if quick else [7, 10, 12, 24, 63, 64, 65, 128])
    reps = 3 if quick else 10
    for n in sizes:
        for rep in range(reps):
            wvl, d1, z = c10.geometry(rng, n)
            kind = rng.choice(["gauss", "dyadic", "delta", "blob"])
            U = c10.rand_field(nprng, n, kind)
            sc = float(numpy.abs(U).max())
            rp = dict(N=n, wvl=wvl, d1=d1, z=z, data=kind, seed=chk.seed, U=c10._small(U))
            chk.oracle_cases += 1
            chk.count("group:N=%d" % n)
            chk.case(("group", n, wvl, d1, z, kind), sample={"law": "as_add/as_neg/as_mag_inverse", "N": n, "wvl": wvl, "d1": d1, "z": z} if rep == 0 and n == 8 else None)
            out0 = op.angularSpectrum(U.copy(), wvl, d1, d1 * rng.choice(c10.MAGS), 0.0)
            if out0.shape != U.shape or not numpy.array_equal(out0, U):
                chk.fail("group:as_zero", "angularSpectrum(U, z=0) ≠ U (N=%d)" % n, rp)
            # any split, including opposite signs and a zero part
            t = rng.choice([0.0, 1.0, rng.uniform(-2, 3), rng.uniform(0, 1)])
            z1, z2 = t * z, z - t * z
            whole = op.angularSpectrum(U.copy(), wvl, d1, d1, z)
            parts = op.angularSpectrum(op.angularSpectrum(U.copy(), wvl, d1, d1, z2), wvl, d1, d1, z1)
            if not numpy.abs(parts - whole).max() <= TOL * sc:
                chk.fail("group:as_add", "AS(z1)∘AS(z2) ≠ AS(z1+z2): err %.3g (N=%d wvl=%g d1=%g z1=%g z2=%g)"
                         % (float(numpy.abs(parts - whole).max()), n, wvl, d1, z1, z2), dict(rp, z1=z1, z2=z2))
            back = op.angularSpectrum(whole, wvl, d1, d1, -z)
            if not numpy.abs(back - U).max() <= TOL * sc:
                chk.fail("group:as_neg", "AS(-z)∘AS(z) ≠ id: err %.3g (N=%d wvl=%g d1=%g z=%g)" % (float(numpy.abs(back - U).max()), n, wvl, d1, z), rp)
            m = rng.choice([0.5, 0.75, 1.5, 2.0, rng.uniform(0.4, 2.5)])
            d2 = m * d1
            rt = op.angularSpectrum(op.angularSpectrum(U.copy(), wvl, d1, d2, z), wvl, d2, d1, -z)
            c = (2 * math.pi / wvl) / 2 * 1e-10 * (d1 * d1 - d2 * d2) / (d1 * d2 * z)
            if not numpy.abs(rt - numpy.exp(1j * c) * U).max() <= TOL * sc:
                chk.fail("group:as_mag_inverse", "AS(1/m,-z)∘AS(m,z) ≠ e^{ic}·id with c=%.6g: err %.3g, against plain id %.3g (N=%d wvl=%g d1=%g d2=%g z=%g)"
                         % (c, float(numpy.abs(rt - numpy.exp(1j * c) * U).max()), float(numpy.abs(rt - U).max()), n, wvl, d1, d2, z), dict(rp, d2=d2, c=c))

    # ---- each single-FFT propagator IS the centred Fresnel / Fraunhofer sum (sign, scale, orientation)
    sizes = [2, 4, 6, 8, 16] + ([] if quick else [10, 12, 32, 64])
    for n in sizes:
        for rep in range(reps):
            wvl, d1, z = c10.geometry(rng, n)
            kind = rng.choice(["gauss", "delta", "blob", "dyadic"])
            U = c10.rand_field(nprng, n, kind)
            rp = dict(N=n, wvl=wvl, d1=d1, z=z, data=kind, seed=chk.seed, U=c10._small(U))
            chk.oracle_cases += 1
            chk.count("sum:N=%d" % n)
            chk.count("sum:z%s" % ("+" if z > 0 else "-"))
            chk.case(("sum", n, wvl, d1, z, kind), sample={"identity": "direct Fresnel sums", "N": n, "wvl": wvl, "d1": d1, "z": z, "data": kind} if rep == 0 and n == 8 else None)
            dd = wvl * z / (n * d1)
            one = op.oneStepFresnel(U.copy(), wvl, d1, z)
            ref = fresnel_sum(U, wvl, z, d1, grid(n, dd))
            if not relerr(one, ref) <= TOL:
                chk.fail("fresnel-sum:oneStepFresnel", "oneStepFresnel ≠ (1/iλz) Σ U e^{+iπ|x2-x1|²/λz} d1² at x2=(a-N/2)d2: rel err %.3g; against the conjugate "
                         "kernel %.3g; against the reflected grid %.3g (N=%d wvl=%g d1=%g z=%g)"
                         % (relerr(one, ref), relerr(one, numpy.conj(fresnel_sum(numpy.conj(U), wvl, z, d1, grid(n, dd)))), relerr(one, reflect(ref)), n, wvl, d1, z), rp)
            lens = op.lensAgainst(U.copy(), wvl, d1, z)
            refl_ = fraunhofer_sum(U, wvl, z, d1, grid(n, dd))
            if not relerr(lens, refl_) <= TOL:
                chk.fail("fraunhofer-sum:lensAgainst", "lensAgainst ≠ e^{iπ|x2|²/λf}/(iλf) Σ U e^{-2πi x1·x2/λf} d1²: rel err %.3g (N=%d wvl=%g d1=%g f=%g)"
                         % (relerr(lens, refl_), n, wvl, d1, z), rp)
            for m in (rng.choice([0.5, 0.75, 1.5, 2.0]), 1.0, rng.uniform(0.4, 2.5)):
                d2 = m * d1
                chk.count("two:m%s1" % ("<" if m < 1 else ">" if m > 1 else "="))
                two = op.twoStepFresnel(U.copy(), wvl, d1, d2, z)
                ref2 = two_stage(U, wvl, d1, d2, z, n)
                if not relerr(two, ref2) <= TOL:
                    if relerr(two, reflect(ref2)) <= TOL:
                        chk.fail("orientation:twoStepFresnel:point-reflected",
                                 "twoStepFresnel returns the two-stage Fresnel field point-reflected about the centre sample (index j -> N-j): rel err %.3g on the grid "
                                 "+(a-N/2)d2, %.3g on the reflected one (N=%d wvl=%g d1=%g d2=%g z=%g, %s input)"
                                 % (relerr(two, ref2), relerr(two, reflect(ref2)), n, wvl, d1, d2, z, kind), dict(rp, d2=d2))
                    else:
                        chk.fail("fresnel-sum:twoStepFresnel", "twoStepFresnel ≠ the two chained Fresnel sums: rel err %.3g (N=%d wvl=%g d1=%g d2=%g z=%g)"
                                 % (relerr(two, ref2), n, wvl, d1, d2, z), dict(rp, d2=d2))

    # ---- cross-propagator agreement on matching grids, asymmetric off-centre resolved beam (numeric: discretisation bound)
    for n in ([64] if quick else [64, 128]):
        for rep in range(2 if quick else 6):
            wvl, d1 = 1e-6, 1e-3
            x = grid(n, d1)
            X, Y = numpy.meshgrid(x, x)
            cx, cy = rng.uniform(2, 6) * 1e-3 * rng.choice([-1, 1]), rng.uniform(1, 4) * 1e-3 * rng.choice([-1, 1])
            U = numpy.exp(-((X - cx) ** 2 / (2 * (4e-3) ** 2) + (Y - cy) ** 2 / (2 * (3e-3) ** 2))).astype(complex)
            for m in (0.75, 1.5, rng.uniform(0.6, 0.9), rng.uniform(1.2, 1.8)):
                for sgn in (1, -1):
                    z = sgn * 20.0
                    chk.oracle_cases += 1
                    chk.case(("cross", n, m, z, cx, cy))
                    chk.count("cross:as-two")
                    a_ = op.angularSpectrum(U.copy(), wvl, d1, m * d1, z)
                    t_ = op.twoStepFresnel(U.copy(), wvl, d1, m * d1, z)
                    e = relerr(t_, a_)
                    if not e <= 1e-3:
                        ef = relerr(reflect(t_), a_)
                        key = "orientation:twoStepFresnel:point-reflected" if ef <= 1e-3 else "cross:angularSpectrum-vs-twoStepFresnel"
                        chk.fail(key, "twoStepFresnel and angularSpectrum disagree on the same grid: rel err %.3g (%.3g after point-reflecting one of them); "
                                 "N=%d m=%g z=%g, Gaussian centred at (%.2g, %.2g) m" % (e, ef, n, m, z, cx, cy), dict(N=n, wvl=wvl, d1=d1, d2=m * d1, z=z, cx=cx, cy=cy))
            # angular spectrum onto the one-step grid d2 = λz/(N d1)
            for m in (1.0, 1.5):
                z = m * n * d1 * d1 / wvl
                chk.oracle_cases += 1
                chk.case(("cross1", n, m, cx, cy))
                chk.count("cross:as-one")
                a_ = op.angularSpectrum(U.copy(), wvl, d1, m * d1, z)
                o_ = op.oneStepFresnel(U.copy(), wvl, d1, z)
                e = relerr(o_, a_)
                if not e <= 1e-3:
                    chk.fail("cross:angularSpectrum-vs-oneStepFresnel", "oneStepFresnel and angularSpectrum disagree on the same grid: rel err %.3g (reflected %.3g, "
                             "conjugated %.3g); N=%d m=%g z=%g" % (e, relerr(reflect(o_), a_), relerr(numpy.conj(o_), a_), n, m, z), dict(N=n, wvl=wvl, d1=d1, z=z, cx=cx, cy=cy))

    # ---- analytic Gaussian beam: width, curvature, Gouy phase (numeric: aliasing bound)
    for n in ([128] if quick else [128, 256]):
        for rep in range(3 if quick else 10):
            wvl, d1 = 1e-6, 1e-3 * rng.choice([1.0, 0.5])
            w0 = rng.uniform(6, 9) * d1
            zR = math.pi * w0 * w0 / wvl
            z = rng.choice([-1, 1]) * rng.uniform(0.3, 1.0) * zR
            x = grid(n, d1)
            X, Y = numpy.meshgrid(x, x)
            r2 = X ** 2 + Y ** 2
            U = numpy.exp(-r2 / w0 ** 2).astype(complex)
            wz = w0 * math.sqrt(1 + (z / zR) ** 2)
            Rz = z * (1 + (zR / z) ** 2)
            ana = (w0 / wz) * numpy.exp(-r2 / wz ** 2) * numpy.exp(1j * (math.pi * r2 / (wvl * Rz) - math.atan(z / zR)))
            chk.oracle_cases += 1
            chk.case(("gauss", n, w0, z))
            chk.count("gaussian-beam")
            for name, out in (("angularSpectrum", op.angularSpectrum(U.copy(), wvl, d1, d1, z)),
                              ("twoStepFresnel", None)):
                if out is None:
                    continue
                e = relerr(out, ana)
                if not e <= 1e-6:
                    chk.fail("gaussian-beam:" + name, "%s of a Gaussian beam (w0=%.3g, z=%.3g=%.2f zR) differs from the analytic beam by %.3g of the peak "
                             "(conjugate solution: %.3g)" % (name, w0, z, z / zR, e, relerr(out, numpy.conj(ana))), dict(N=n, wvl=wvl, d1=d1, w0=w0, z=z))
            # magnified: the beam on the output grid m*d1
            m = rng.choice([0.75, 1.5])
            X2, Y2 = numpy.meshgrid(grid(n, m * d1), grid(n, m * d1))
            r22 = X2 ** 2 + Y2 ** 2
            ana2 = (w0 / wz) * numpy.exp(-r22 / wz ** 2) * numpy.exp(1j * (math.pi * r22 / (wvl * Rz) - math.atan(z / zR)))
            for name, out in (("angularSpectrum", op.angularSpectrum(U.copy(), wvl, d1, m * d1, z)),
                              ("twoStepFresnel", op.twoStepFresnel(U.copy(), wvl, d1, m * d1, z))):
                # the 1e-10 in r1sq contributes the constant phase k/2 (1-m)/z 1e-10 to angularSpectrum
                ph = numpy.exp(1j * (math.pi / wvl) * (1 - m) / z * 1e-10) if name == "angularSpectrum" else 1.0
                e = relerr(out, ana2 * ph)
                if not e <= 1e-5:
                    chk.fail("gaussian-beam:" + name, "%s (m=%g) of a Gaussian beam (w0=%.3g, z=%.2f zR) differs from the analytic beam by %.3g of the peak "
                             "(conjugate solution: %.3g)" % (name, m, w0, z / zR, e, relerr(out, numpy.conj(ana2))), dict(N=n, wvl=wvl, d1=d1, d2=m * d1, w0=w0, z=z))

    # ---- Airy pattern of a circular aperture in the focal plane of lensAgainst (numeric: pixelated-edge bound)
    from scipy.special import j1
    for n in ([128] if quick else [128, 256]):
        for rep in range(2 if quick else 6):
            wvl, d1, f = 1e-6, 1e-3, rng.choice([-1, 1]) * rng.uniform(5, 20)
            R = rng.uniform(0.12, 0.2) * n * d1
            # area-weighted (8x8 supersampled) aperture so that the edge error is O(1/(8R_px))
            ss = 8
            xs = (numpy.arange(n * ss) + 0.5) * (d1 / ss) - (n / 2.0) * d1 - d1 / 2
            XS, YS = numpy.meshgrid(xs, xs)
            ap = ((XS ** 2 + YS ** 2) <= R * R).reshape(n, ss, n, ss).mean(axis=(1, 3)).astype(complex)
            out = op.lensAgainst(ap, wvl, d1, f)
            x2 = grid(n, wvl * f / (n * d1))
            X2, Y2 = numpy.meshgrid(x2, x2)
            rho = numpy.sqrt(X2 ** 2 + Y2 ** 2)
            arg = 2 * math.pi * R * rho / (wvl * abs(f))
            with numpy.errstate(invalid="ignore", divide="ignore"):
                airy = numpy.where(arg == 0, 1.0, 2 * j1(arg) / arg)
            ana = numpy.exp(1j * math.pi * rho ** 2 / (wvl * f)) / (1j * wvl * f) * math.pi * R * R * airy
            chk.oracle_cases += 1
            chk.case(("airy", n, R, f))
            chk.count("airy")
            e = relerr(out, ana)
            if not e <= 2e-2:
                chk.fail("airy:lensAgainst", "focal-plane field of a circular aperture (R=%.3g m, f=%.3g m, N=%d) differs from the Airy amplitude by %.3g of the peak"
                         % (R, f, n, e), dict(N=n, wvl=wvl, d1=d1, f=f, R=R))


def pinned_tie(chk, quick):
    """ties `twoStepFresnel_pinned` (the model the proved defect statement `twoStep_pinned_point_reflected` is about) to the code: the repaired
    function differs from it exactly by the final point reflection, which is an involution"""
    from aotools import opticalpropagation as op
    nprng = numpy.random.default_rng(chk.rng.getrandbits(32))
    lines, expect, desc = [], [], []
    for it in range(6 if quick else 30):
        n = chk.rng.choice([2, 4, 6, 8])
        U = c10.rand_field(nprng, n, chk.rng.choice(["gauss", "delta", "blob"]))
        wvl, d1, z = c10.geometry(chk.rng, n)
        m = c10.MAGS[it % len(c10.MAGS)]
        d2 = m * d1
        Dz1 = z / (1 - m) if m != 1 else z / (1 + m)
        out = op.twoStepFresnel(U.copy(), wvl, d1, d2, z)
        lines.append(c10.line("twop", n, (wvl, d1, d2, z), U))
        expect.append(reflect(out) if Dz1 * (z - Dz1) < 0 else out)
        desc.append(("twop", n, wvl, d1, d2, z))
    ans = common.run_driver(lines, "C10")
    for a, e, ds in zip(ans, expect, desc):
        chk.corr_cases += 1
        chk.case(("corr",) + ds)
        chk.count("corr:pinned-model")
        ok = a != "bad-op" and float(numpy.abs(c10.parse_c(a, e.shape) - e).max()) <= c10.TOL * (float(numpy.abs(e).max()) + 1e-300)
        if not ok:
            chk.broke("correspondence", "model twoStepFresnel_pinned differs from the un-reflected twoStepFresnel at N=%d params=%s" % (ds[1], list(ds[2:])))


def run(chk):
    quick = chk.tier == "quick"
    chk.rule = ("correspondence: as C10 (same model, same driver ops); oracle on the real code: group laws of angularSpectrum (z=0 exact; any split z1+z2 incl. "
                "zero/opposite signs, -z, magnified return trip with the explicit constant phase; err <= 1e-9*max|U|), oneStepFresnel / lensAgainst / "
                "twoStepFresnel against the direct centred Fresnel sums on the grid +(a-N/2)d2 (rel err <= 1e-9, N<=16, thorough <=64), cross-propagator "
                "agreement for an asymmetric off-centre Gaussian (rel 1e-3), analytic Gaussian beam incl. curvature and Gouy phase (rel 1e-6; magnified 1e-5), "
                "Airy amplitude (2% of peak); distinct = distinct (family, N, geometry, data kind)")
    chk.assumptions = ["numpy.fft kernels = naive DFT sums (contract checked numerically each run)",
                       "binary64 rounding is not modelled: the theorems are about exact complex arithmetic",
                       "agreement of the discrete Fresnel sums with the continuous Fresnel integral (Gaussian beam: width, curvature, Gouy phase; Airy pattern; "
                       "angular-spectrum vs Fresnel sampling on matching grids) is an approximation statement: numeric only, bounds 1e-6 / 1e-5 / 2e-2 / 1e-3 of the peak "
                       "on resolved inputs"]
    chk.build_and_audit("AoVerif.Props.C11", "AoVerif.Props.C11", REQUIRED)
    c10.kernel_contract(chk)
    try:
        c10.correspondence(chk, quick, 28 if quick else 160)
        pinned_tie(chk, quick)
    except common.LeanError as ex:
        chk.broke("correspondence", "driver failed", str(ex))
    oracle(chk, quick)
