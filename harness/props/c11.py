"""C11 — propagators form a group and agree with each other and with theory."""
import math

import numpy

from .. import common
from . import c10

MANIFEST = {
    "text": "Lean 4 theorems on the C10 model of aotools.opticalpropagation over the complex numbers, for every even grid size N (group laws: "
            "every N>=1) and the FFT kernel e^{-2 pi i/N}: angularSpectrum at unit magnification is a one-parameter group (z=0 is the identity, "
            "AS(z1) after AS(z2) equals AS(z1+z2) for every split including zero and opposite signs, AS(-z) undoes AS(z)); with magnification m the "
            "return trip with 1/m is the identity times the explicit constant phase coming from the 1e-10 in r1sq; oneStepFresnel / lensAgainst "
            "output sample (a,b) IS the centred Riemann sum of the Fresnel-Kirchhoff (Fraunhofer) integral with kernel exp(+i pi |x2-x1|^2/(lambda z))/(i lambda z) "
            "at (x,y)=((b-N/2)d2,(a-N/2)d2), which fixes kernel sign, scale and orientation; twoStepFresnel is two chained one-step sums and "
            "(after the orientation repair) lands on the grid +(a-N/2)d2. Model tied to the code by the C10 correspondence; the oracle evaluates "
            "group laws and whole programs of steps, the direct Fresnel and angular-spectrum sums (even and odd N), cross-propagator agreement on matching "
            "grids with an asymmetric off-centre beam, the analytic Gaussian beam (width, curvature, Gouy phase) and the Airy pattern of an off-centre "
            "elliptical aperture on the real code. Further theorems: a program of steps equals one step over the summed distance (runAS_eq_sum, every N); "
            "the transfer phase is exactly -pi lambda z |f|^2/m on f=(j-N//2)/(N d1) (as_transfer_phase) and angularSpectrum at m=1 IS the direct "
            "angular-spectrum sum (as_is_spectrum_sum).",
    "note": "Trusted: Lean kernel + propext/Classical.choice/Quot.sound; numpy.fft = naive DFT (checked to 1e-9); binary64 rounding not modelled. "
            "Agreement of the discrete sums with the continuous Fresnel integral (Gaussian beam, Airy, angular-spectrum vs Fresnel sampling) is "
            "an approximation statement and stays numeric (bounds stated in the evidence).",
    "technique": "Lean 4 proof (roots of unity, phase algebra over Finset sums) + differential correspondence with the real code + oracle search",
}
REQUIRED = ["as_zero", "as_add", "as_neg", "as_mag_inverse", "oneStep_is_fresnel_sum", "lens_is_fraunhofer_sum",
            "twoStep_is_two_steps", "twoStep_pinned_is_two_sums", "twoStep_orientation", "twoStep_pinned_point_reflected",
            "runAS_eq_sum", "runAS_eq_of_sum_eq", "as_transfer_phase", "as_transfer_phase_even", "as_is_spectrum_sum",
            "oneStep_is_fresnel_sum_anyN", "lens_is_fraunhofer_sum_anyN", "twoStep_pinned_is_two_sums_anyN", "twoStep_orientation_anyN"]
TOL = 1e-9


# --------------------------------------------------------------------------- reference sums (O(N^3), separable kernel)
def grid(n, d):
    """coordinates of the samples: sample n//2 at the origin (where ft2/ift2 centre, for even and odd n)"""
    return (numpy.arange(n) - n // 2) * d


def fresnel_sum(U, wvl, z, d1, X):
    """(1/(i λ z)) Σ_{a',b'} U[a',b'] exp(+iπ((X_b-x_b')² + (X_a-x_a')²)/(λ z)) d1²  at output coordinates X (both axes)"""
    x1 = grid(U.shape[0], d1)
    Km = numpy.exp(1j * numpy.pi * (X[:, None] - x1[None, :]) ** 2 / (wvl * z))
    return Km @ U @ Km.T * (d1 * d1 / (1j * wvl * z))


def fraunhofer_sum(U, wvl, f, d1, X):
    """exp(iπ|X|²/(λf))/(iλf) Σ U[a',b'] exp(-2πi (X_b x_b' + X_a x_a')/(λ f)) d1²"""
    x1 = grid(U.shape[0], d1)
    Km = numpy.exp(-2j * numpy.pi * X[:, None] * x1[None, :] / (wvl * f))
    q = numpy.exp(1j * numpy.pi * X ** 2 / (wvl * f))
    return (q[:, None] * q[None, :]) * (Km @ U @ Km.T) * (d1 * d1 / (1j * wvl * f))


def spectrum_sum(U, wvl, d1, d2, z):
    """the direct angular-spectrum sum (Lean: as_is_spectrum_sum + as_transfer_phase): with m = d2/d1, f_j = (j - N//2)/(N d1),
    Q3 · Σ_f e^{+2πi f·x2'} e^{-iπ λ z |f|²/m} [ Σ_x1 (Q1 U/m)(x1) e^{-2πi f·x1} d1² ] df²   (x2' = x2/m: the scaled output grid),
    Q1 = e^{i k/2 (1-m)/z (|x1|²+1e-10)}, Q3 = e^{i k/2 (m-1)/(m z) |x2|²}"""
    n = U.shape[0]
    m = d2 / d1
    k = 2 * numpy.pi / wvl
    x1 = grid(n, d1)
    x2 = grid(n, d2)
    f = grid(n, 1.0 / (n * d1))
    r1 = x1[None, :] ** 2 + x1[:, None] ** 2 + 1e-10
    r2 = x2[None, :] ** 2 + x2[:, None] ** 2
    F = numpy.exp(-2j * numpy.pi * f[:, None] * x1[None, :])          # F[p, a'] ; x1 f = (a'-c)(p-c)/N
    H = numpy.exp(-1j * numpy.pi * wvl * z / m * (f[None, :] ** 2 + f[:, None] ** 2))
    spec = F @ (numpy.exp(1j * k / 2 * (1 - m) / z * r1) * U / m) @ F.T * d1 * d1
    Fi = numpy.conj(F).T                                              # Fi[a, p]
    return numpy.exp(1j * k / 2 * (m - 1) / (m * z) * r2) * (Fi @ (H * spec) @ Fi.T) / (n * d1) ** 2


def reflect(U):
    """point reflection about the centre sample n//2"""
    return numpy.roll(U[::-1, ::-1], 1 - U.shape[0] % 2, axis=(0, 1))


def two_stage(U, wvl, d1, d2, z, n):
    """the two-stage Fresnel sum of twoStepFresnel on the honest (signed) intermediate grid, at output coordinates +(a-N//2) d2"""
    Dz1 = z / (1 - d2 / d1) if d2 != d1 else z / 2
    Dz2 = z - Dz1
    s1 = wvl * Dz1 / (n * d1)
    V = fresnel_sum(U, wvl, Dz1, d1, grid(n, s1))
    return fresnel_sum(V, wvl, Dz2, s1, grid(n, d2))


CROSS_TWO_TOL = 1e-9     # angularSpectrum vs twoStepFresnel on the same grid, off-centre asymmetric Gaussian, N = 64..129, m != 1, after removing the
#                          constant phase that the 1e-10 in angularSpectrum's r1sq contributes (k/2 (1-m)/z 1e-10, up to 1.3e-5 rad here — the whole
#                          of the 1.2e-5 "discretisation error" seen before): the two discrete operators coincide (observed <= 2.4e-15 over 12 seeds)
CROSS_ONE_TOL = 2e-5     # angularSpectrum vs oneStepFresnel on the one-step grid: a genuine sampling difference (observed <= 2.0e-7 over 12 seeds)
GAUSS_TOL = 1e-9         # angularSpectrum at m=1 vs the analytic beam, N = 65, 128, 129 (observed <= 3.1e-14 over 12 seeds)
GAUSS_MAG_TOL = 1e-7     # magnified beam (m = 3/4, 3/2), angularSpectrum and twoStepFresnel, N >= 96 (observed <= 3e-10; at N = 65 the output grid of
#                          m = 3/4 cuts the beam at 4.4 w(z): 8e-6, not used)
AIRY_TOL = 5e-3          # focal-plane amplitude of an off-centre elliptical aperture against the periodised, pixel-integrated Airy amplitude
#                          (observed <= 2.6e-4: truncation of the image sum at |p|,|q| <= 2 and the 16x16 sub-pixel coverage)


LONG_TOL = 1e-9          # 150 same-sign angularSpectrum steps against one step over the total (observed <= 9.9e-14 over 75 seeds)


def sum_tol(n):
    """direct-sum identities: rounding of O(N²) terms with phases up to ~1e3-1e5 rad (observed <= 1e-12 for N<32, <= 1e-10 for N<=65)"""
    return 1e-9 if n < 32 else 1e-8


def geometry_large(rng, n):
    """(wvl, d1, z) for a large grid: |z| = c·N d1²/λ (the one-step output spacing is c·d1), c in {1/2, 1, 2, 4}: the quadratic phases stay
    below ~π N/2 rad, so the direct sums are still accurate to ~1e-10 (c10.geometry's menus would give 1e6 rad at N = 256)"""
    wvl = rng.choice([500e-9, 1.55e-6, 2.2e-6])
    d1 = rng.choice([1e-3, 2.5e-3, 5e-3])
    z = rng.choice([-1, 1]) * n * d1 * d1 / wvl * rng.choice([0.5, 1.0, 2.0, 4.0])
    return float(wvl), float(d1), float(z)


def exact_all(chk, op, n, Uin, U, wvl, d1, d2, z, rp, what):
    """all four propagators against their direct sums for one double-precision (field, geometry); Uin is the caller's array (handed over as
    it is, so that a history can re-use one object), U a pristine copy of its values; `what` says where in a history this call sits"""
    tol = sum_tol(n)
    dd = wvl * z / (n * d1)
    odd = ":odd" if n % 2 else ""
    with numpy.errstate(all="ignore"):
        outs = (("fresnel-sum:oneStepFresnel", op.oneStepFresnel(Uin, wvl, d1, z), fresnel_sum(U, wvl, z, d1, grid(n, dd))),
                ("fraunhofer-sum:lensAgainst", op.lensAgainst(Uin, wvl, d1, z), fraunhofer_sum(U, wvl, z, d1, grid(n, dd))),
                ("spectrum-sum:angularSpectrum", op.angularSpectrum(Uin, wvl, d1, d2, z), spectrum_sum(U, wvl, d1, d2, z)),
                ("fresnel-sum:twoStepFresnel", op.twoStepFresnel(Uin, wvl, d1, d2, z), two_stage(U, wvl, d1, d2, z, n)))
    for key, out, ref in outs:
        e = float(numpy.abs(out - ref).max()) / (float(numpy.abs(ref).max()) + 1e-300) if out.shape == ref.shape else float("nan")
        c10.obs(chk, "history:%s[tol %g]" % (key.split(":")[0], tol), e)
        if not e <= tol:
            if key.endswith("twoStepFresnel") and out.shape == ref.shape and float(numpy.abs(out - reflect(ref)).max()) <= tol * float(numpy.abs(ref).max()):
                key = "orientation:twoStepFresnel:point-reflected"
            chk.fail(key + odd, "%s ≠ its direct sum, rel err %.3g, %s (N=%d wvl=%g d1=%g d2=%g z=%g)" % (key.split(":")[1], e, what, n, wvl, d1, d2, z),
                     dict(rp, N=n, wvl=wvl, d1=d1, d2=d2, z=z, history=what))
    if not numpy.array_equal(Uin, U):
        chk.fail("inplace:caller-array" + odd, "the caller's input array was modified by a propagator call, %s (N=%d)" % (what, n), dict(rp, N=n, history=what))


# --------------------------------------------------------------------------- oracle
def oracle(chk, quick):
    from aotools import opticalpropagation as op
    op = common.Guarded(op, chk)
    rng = chk.rng
    nprng = numpy.random.default_rng(rng.getrandbits(32))
    it = rng.randint(0, 9)

    def relerr(a, b):
        return float(numpy.abs(a - b).max()) / (float(numpy.abs(b).max()) + 1e-300)

    def quiet(f, *a):
        with numpy.errstate(all="ignore"):
            r = f(*a)
        # complex128 on the unchanged tree; a propagator that hands back e.g. a bool / integer input unchanged must reach the comparisons
        # below as numbers, not break them (bool arrays do not subtract)
        return r.astype(complex) if isinstance(r, numpy.ndarray) and r.dtype.kind in "biuf" else r

    # ---- group laws of angularSpectrum (exact discrete identities)
    # the group laws are proved for every N >= 1 and the property does not restrict them to even grids: odd sizes included
    # round 5: the single-sample grid, sizes with a large prime factor (13, 26 = 2·13, 37 …) and grids beyond 2^16 / 2^18 elements
    sizes = [1, 2, 3, 4, 5, 6, 8, 9, 13, 16, 17, 26, 32, 33, 256, 512] + ([] if quick else [7, 10, 12, 24, 34, 37, 63, 64, 65, 128, 257, 260, 1024])
    reps = 3 if quick else 10
    for n in sizes:
        for rep in range(reps if n < 200 else 1 if quick else 2):
            it += 1
            wvl, d1, z = c10.geometry(rng, n) if n < 200 else geometry_large(rng, n)
            kind = rng.choice(["gauss", "dyadic", "delta", "blob"])
            cls = c10.FIELD_CLASSES[it % len(c10.FIELD_CLASSES)]
            Uin, U, c64 = c10.present_field(c10.rand_field(nprng, n, kind), cls)
            # return trip: the menu, a free value, and (round 5) magnifications next to 1 down to 1 ± 2^-30 (observed <= 5e-13) and, on small
            # grids, a ten-fold demagnification (observed <= 1.8e-11 for N <= 33; m = 10 reaches 1.4e-9 by phase rounding alone: not used);
            # whole class against TOL = 1e-9: <= 1.5e-11 over 100 quick seeds, 5.1e-11 in a thorough run
            m = rng.choice([0.5, 0.75, 1.5, 2.0, rng.uniform(0.4, 2.5), 1.0 + rng.choice([-1, 1]) * 2.0 ** -rng.randint(9, 30)] + ([0.1] if n <= 17 else []))
            sc = c10.Scalars(rng, it, wvl, d1, m, z)
            (o_w, o_1, o_2, o_z), (wvl, d1, d2, z) = sc.obj, sc.val
            # a complex64 field is promoted to double precision by angularSpectrum's first product (observed: the laws hold to 6e-16
            # for such fields, as for complex128 ones), so the group laws are asked to rounding for it too; only single-precision
            # SCALARS (k, the magnification … evaluated in float32) get the wide tolerance
            tol = c10.LOWP_TOL if sc.lowp else TOL
            scl = float(numpy.abs(U).max())
            rp = dict(N=n, wvl=wvl, d1=d1, z=z, data=kind, field=cls, scalar_kinds=sc.label(), seed=chk.seed, U=c10._small(U))
            chk.oracle_cases += 1
            chk.count("group:N=%d" % n)
            chk.count("group:field=%s" % cls)
            for kk in sc.kinds:
                chk.count("group:scalar=%s" % kk)
            chk.case(("group", n, wvl, d1, z, kind, cls, sc.label()),
                     sample={"law": "as_add/as_neg/as_mag_inverse/program", "N": n, "wvl": wvl, "d1": d1, "z": z} if rep == 0 and n == 8 else None)
            for z0 in (0.0, 0, numpy.float64(0.0), numpy.array(0.0), -0.0, numpy.float32(0.0), numpy.int64(0), numpy.int32(0), numpy.array(0)):
                out0 = numpy.asarray(op.angularSpectrum(Uin, o_w, o_1, o_2, z0))
                if out0.shape != U.shape or not numpy.array_equal(out0, U):
                    chk.fail("group:as_zero", "angularSpectrum(U, z=%r) ≠ U (N=%d)" % (z0, n), rp)
            # any split, including opposite signs and a zero part
            t = rng.choice([0.0, 1.0, rng.uniform(-2, 3), rng.uniform(0, 1)])
            z1, z2 = t * z, z - t * z
            whole = quiet(op.angularSpectrum, Uin, o_w, o_1, o_1, o_z)
            parts = quiet(op.angularSpectrum, quiet(op.angularSpectrum, Uin, o_w, o_1, o_1, z2), o_w, o_1, o_1, z1)
            e = c10.obs(chk, "as_add[tol %g]" % tol, float(numpy.abs(parts - whole).max()) / scl)
            if not e <= tol:
                chk.fail("group:as_add", "AS(z1)∘AS(z2) ≠ AS(z1+z2): err %.3g (N=%d wvl=%g d1=%g z1=%g z2=%g)"
                         % (e * scl, n, wvl, d1, z1, z2), dict(rp, z1=z1, z2=z2))
            # a whole program of steps with the same total (Lean: runAS_eq_sum)
            ks = rng.randint(2, 5)
            steps = [rng.choice([0.0, rng.uniform(-1.5, 1.5) * z, rng.uniform(0, 1) * z]) for _ in range(ks - 1)]
            steps.append(z - sum(steps))
            prog = Uin
            for st in steps:
                prog = quiet(op.angularSpectrum, prog, o_w, o_1, o_1, st)
            ptol = tol * ks * max(1.0, sum(abs(st) for st in steps) / abs(z))      # rounding of the phases grows with the path length
            e = c10.obs(chk, "program[tol %g·k·path/|z|]" % tol, float(numpy.abs(prog - whole).max()) / scl / (ptol / tol))
            if not e <= tol:
                chk.fail("group:as_program", "a program of %d angularSpectrum steps %s with total %g ≠ one step over the total: err %.3g (N=%d wvl=%g d1=%g)"
                         % (ks, steps, z, e * scl * ptol / tol, n, wvl, d1), dict(rp, steps=steps))
            back = quiet(op.angularSpectrum, whole, o_w, o_1, o_1, -o_z)
            e = c10.obs(chk, "as_neg[tol %g]" % tol, float(numpy.abs(back - U).max()) / scl)
            if not e <= tol:
                chk.fail("group:as_neg", "AS(-z)∘AS(z) ≠ id: err %.3g (N=%d wvl=%g d1=%g z=%g)" % (e * scl, n, wvl, d1, z), rp)
            rt = quiet(op.angularSpectrum, quiet(op.angularSpectrum, Uin, o_w, o_1, o_2, o_z), o_w, o_2, o_1, -o_z)
            c = (2 * math.pi / wvl) / 2 * 1e-10 * (d1 * d1 - d2 * d2) / (d1 * d2 * z)
            e = c10.obs(chk, "as_mag_inverse[tol %g]" % tol, float(numpy.abs(rt - numpy.exp(1j * c) * U).max()) / scl)
            if not e <= tol:
                chk.fail("group:as_mag_inverse", "AS(1/m,-z)∘AS(m,z) ≠ e^{ic}·id with c=%.6g: err %.3g, against plain id %.3g (N=%d wvl=%g d1=%g d2=%g z=%g)"
                         % (c, e * scl, float(numpy.abs(rt - U).max()), n, wvl, d1, d2, z), dict(rp, d2=d2, c=c))

    # ---- each single-FFT propagator IS the centred Fresnel / Fraunhofer sum, angularSpectrum IS the direct angular-spectrum sum
    # (kernel sign, scale, frequency grid, orientation); odd sizes included: every grid is centred on sample N//2
    # round 5: N = 1, sizes with a large prime factor (13, 26, 37), one grid beyond 2^16 elements (thorough: beyond 2^18)
    sizes = [1, 2, 4, 5, 6, 7, 8, 13, 16, 26, 33, 256] + ([] if quick else [3, 9, 10, 12, 32, 34, 37, 64, 65, 257, 260, 512])
    ci = rng.randint(0, 16)                                   # rotation of the field classes: its own counter (`it` advances by 6 per case here)
    for n in sizes:
        for rep in range(reps if n < 200 else 1):
            it += 1
            ci += 1
            wvl, d1, z = c10.geometry(rng, n) if n < 200 else geometry_large(rng, n)
            if rep % 3 == 2 or n >= 200:
                # round 5: the same problem in other units of length (µm … 1000 km): all phases — hence the accuracy of the direct sums — are
                # unchanged, every length-valued parameter moves by up to 12 decades (absolute thresholds on z, wvl or the spacings show up).
                # Spacings stay >= 0.5 µm: below, the library's own +1e-10 m² in r1sq swamps r1sq itself (a constant phase of 1e5..1e9 rad at
                # m != 1, whose rounding alone reached 2.4e-7 at d1 = 1 nm when this was tried) — a quirk of the code kept in the model
                unit = rng.choice([u for u in (1e-6, 1e-3, 1e3, 1e6) if d1 * u >= 5e-7])
                wvl, d1, z = wvl * unit, d1 * unit, z * unit
                chk.count("sum:unit=%g" % unit)
            kind = rng.choice(["gauss", "delta", "blob", "dyadic"])
            cls = c10.FIELD_CLASSES[ci % len(c10.FIELD_CLASSES)]
            Uin, U, c64 = c10.present_field(c10.rand_field(nprng, n, kind), cls)
            kinds = [k_ if k_ != "f32" else "f64" for k_ in c10.Scalars(rng, it, wvl, d1, 1.0, z).kinds]   # these identities are checked to 1e-9: double precision only
            # a single-precision field (complex64 / float32) is transformed in single precision by lensAgainst only; the other three promote
            # it to double with their first product and are held to the double-precision bound (round 5; observed <= 1e-12)
            tol_lens = c10.C64_TOL if c10.single("lens", c64) else sum_tol(n)
            tol = sum_tol(n)
            chk.oracle_cases += 1
            chk.count("sum:N=%d" % n)
            chk.count("sum:z%s" % ("+" if z > 0 else "-"))
            chk.count("sum:field=%s" % cls)
            chk.case(("sum", n, wvl, d1, z, kind, cls, "/".join(kinds)),
                     sample={"identity": "direct Fresnel / angular-spectrum sums", "N": n, "wvl": wvl, "d1": d1, "z": z, "data": kind} if rep == 0 and n in (7, 8) else None)
            sc = c10.Scalars(rng, it, wvl, d1, 1.0, z, kinds)
            (o_w, o_1, _, o_z), (wvl, d1, _, z) = sc.obj, sc.val
            rp = dict(N=n, wvl=wvl, d1=d1, z=z, data=kind, field=cls, scalar_kinds=sc.label(), seed=chk.seed, U=c10._small(U))
            dd = wvl * z / (n * d1)
            one = quiet(op.oneStepFresnel, Uin, o_w, o_1, o_z)
            ref = fresnel_sum(U, wvl, z, d1, grid(n, dd))
            e = c10.obs(chk, "fresnel-sum:one[tol %g]" % tol, relerr(one, ref))
            if not e <= tol:
                chk.fail("fresnel-sum:oneStepFresnel" + (":odd" if n % 2 else ""),
                         "oneStepFresnel ≠ (1/iλz) Σ U e^{+iπ|x2-x1|²/λz} d1² at x2=(a-N//2)d2: rel err %.3g; against the conjugate "
                         "kernel %.3g; against the reflected grid %.3g; against grids centred on (N-1)/2+1/2 %.3g (N=%d wvl=%g d1=%g z=%g)"
                         % (e, relerr(one, numpy.conj(fresnel_sum(numpy.conj(U), wvl, z, d1, grid(n, dd)))), relerr(one, reflect(ref)),
                            relerr(one, fresnel_sum(U, wvl, z, d1, (numpy.arange(n) - n / 2.0) * dd)), n, wvl, d1, z), rp)
            lens = quiet(op.lensAgainst, Uin, o_w, o_1, o_z)
            refl_ = fraunhofer_sum(U, wvl, z, d1, grid(n, dd))
            e = c10.obs(chk, "fraunhofer-sum[tol %g]" % tol_lens, relerr(lens, refl_))
            if not e <= tol_lens:
                chk.fail("fraunhofer-sum:lensAgainst" + (":odd" if n % 2 else ""),
                         "lensAgainst ≠ e^{iπ|x2|²/λf}/(iλf) Σ U e^{-2πi x1·x2/λf} d1²: rel err %.3g (transposed %.3g, reflected %.3g) (N=%d wvl=%g d1=%g f=%g)"
                         % (e, relerr(lens.T, refl_), relerr(reflect(lens), refl_), n, wvl, d1, z), rp)
            deep = 1.0 + rng.choice([-1, 1]) * 2.0 ** -rng.randint(12, 30)      # round 5: AS only (the two-step intermediate plane z/(1-m) is then
            #                                                                       1e4..1e9 |z| away: phase rounding, not a property of the code)
            for m in (rng.choice([0.5, 0.75, 1.5, 2.0]), 1.0, rng.uniform(0.4, 2.5), c10.near_unit(rng), deep):
                it += 1
                scm = c10.Scalars(rng, it, wvl, d1, m, z, kinds)
                (o_w, o_1, o_2, o_z), (wvl, d1, d2, z) = scm.obj, scm.val
                chk.count("two:m%s1" % ("<" if d2 < d1 else ">" if d2 > d1 else "="))
                for kk in scm.kinds:
                    chk.count("sum:scalar=%s" % kk)
                rpm = dict(rp, d2=d2, scalar_kinds=scm.label())
                asp = quiet(op.angularSpectrum, Uin, o_w, o_1, o_2, o_z)
                refa = spectrum_sum(U, wvl, d1, d2, z)
                e = c10.obs(chk, "spectrum-sum[tol %g]" % tol, relerr(asp, refa))
                if not e <= tol:
                    chk.fail("spectrum-sum:angularSpectrum" + (":odd" if n % 2 else ""),
                             "angularSpectrum ≠ Q3·IDFT[e^{-iπλz|f|²/m}·DFT[Q1·U/m]] with f=(j-N//2)/(N d1): rel err %.3g; against the conjugate transfer "
                             "function %.3g (N=%d wvl=%g d1=%g d2=%g z=%g)" % (e, relerr(asp, spectrum_sum(U, wvl, d1, d2, -z) if d1 == d2 else refa), n, wvl, d1, d2, z), rpm)
                if m is deep:
                    continue
                two = quiet(op.twoStepFresnel, Uin, o_w, o_1, o_2, o_z)
                ref2 = two_stage(U, wvl, d1, d2, z, n)
                if not numpy.isfinite(two).all():
                    chk.fail("scalar-kind:twoStepFresnel:unit-magnification-nan" if d1 == d2 else "nonfinite:twoStepFresnel",
                             "twoStepFresnel returns NaN/inf samples for wvl=%r d1=%r d2=%r z=%r (N=%d)" % (o_w, o_1, o_2, o_z, n), rpm)
                    continue
                e = c10.obs(chk, "fresnel-sum:two[tol %g]" % tol, relerr(two, ref2))
                if not e <= tol:
                    if relerr(two, reflect(ref2)) <= tol or (n % 2 and relerr(numpy.roll(two, -1, axis=(0, 1)), ref2) <= tol):
                        chk.fail("orientation:twoStepFresnel:point-reflected" + (":odd" if n % 2 else ""),
                                 "twoStepFresnel returns the two-stage Fresnel field point-reflected / shifted about the centre sample: rel err %.3g on the grid "
                                 "+(a-N//2)d2, %.3g on the reflected one (N=%d wvl=%g d1=%g d2=%g z=%g, %s input)"
                                 % (e, relerr(two, reflect(ref2)), n, wvl, d1, d2, z, kind), rpm)
                    else:
                        chk.fail("fresnel-sum:twoStepFresnel" + (":odd" if n % 2 else ""), "twoStepFresnel ≠ the two chained Fresnel sums: rel err %.3g (N=%d wvl=%g d1=%g d2=%g z=%g)"
                                 % (e, n, wvl, d1, d2, z), rpm)

    # ---- round 5: HISTORIES.  One process, one sampling, one caller array: every call of a sequence in which exactly one of (z, sign of z, wvl,
    # d1, d2, both spacings, the field, N) changes between consecutive calls — returning to the first geometry in between — is compared with
    # its direct sum.  Whatever a propagator remembers between calls (plane grids, transfer functions, chirps, results) must be keyed on all of
    # its arguments and on the field's CONTENTS; all four quadrants (sign z) x (m < 1, m > 1) of the two-step reflection occur in each sequence.
    wvl, d1, z = c10.geometry(rng, 8)
    m = rng.choice([0.5, 0.75, 1.5, 2.0])
    for n in ([6, 7, 8, 6] if quick else [4, 5, 6, 7, 8, 9, 16, 6, 13, 5]):
        Uin = c10.rand_field(nprng, n, rng.choice(["delta", "gauss", "blob"]))
        V = c10.rand_field(nprng, n, "gauss")
        base = (wvl, d1, m * d1, z)
        seq = [("first call", base), ("z scaled by 2.5", (wvl, d1, m * d1, 2.5 * z)), ("back to the first geometry", base),
               ("sign of z flipped", (wvl, d1, m * d1, -z)), ("back to the first geometry", base),
               ("wavelength doubled", (2 * wvl, d1, m * d1, z)), ("back to the first geometry", base),
               ("input spacing doubled, output spacing kept", (wvl, 2 * d1, m * d1, z)), ("back to the first geometry", base),
               ("output spacing changed to d1/m", (wvl, d1, d1 / m, z)), ("sign of z flipped at magnification 1/m", (wvl, d1, d1 / m, -z)),
               ("back to the first geometry", base), ("unit magnification", (wvl, d1, d1, z)), ("back to the first geometry", base),
               ("both spacings doubled", (wvl, 2 * d1, 2 * m * d1, z)), ("back to the first geometry", base)]
        for step, (what, g) in enumerate(seq):
            if step == len(seq) - 2:
                Uin[...] = V                                  # the SAME array object refilled with another field, then the first geometry again
                what += ", caller's array refilled with another field"
            chk.oracle_cases += 1
            chk.case(("history", n, step) + g)
            chk.count("history:N=%d" % n)
            exact_all(chk, op, n, Uin, Uin.copy(), g[0], g[1], g[2], g[3], dict(seed=chk.seed, step=step, U=c10._small(Uin)),
                      "call %d of a history on one grid (%s)" % (step + 1, what))
    # a program with more steps than any small cache or ring buffer is long: 150 angularSpectrum steps (distinct distances, a few of them
    # repeated non-consecutively) whose distances sum to z, against one step over z
    for n in ([8, 9] if quick else [4, 8, 9, 16, 33]):
        wvl, d1, z = c10.geometry(rng, n)
        U = c10.rand_field(nprng, n, rng.choice(["gauss", "blob", "delta"]))
        ks = 150
        w = [rng.uniform(0.5, 1.5) for _ in range(ks - 1)]
        for j in range(10, ks - 1, 17):
            w[j] = w[j % 5]                                   # one of the first five distances again, after many other calls
        steps = [z * 0.9 * wj / sum(w) for wj in w]
        steps.append(z - sum(steps))
        chk.oracle_cases += 1
        chk.case(("long-program", n, wvl, d1, z))
        chk.count("group:long-program")
        prog = U
        for st in steps:
            prog = quiet(op.angularSpectrum, prog, wvl, d1, d1, st)
        whole = quiet(op.angularSpectrum, U, wvl, d1, d1, z)
        e = c10.obs(chk, "long-program[tol %g]" % LONG_TOL, float(numpy.abs(prog - whole).max()) / float(numpy.abs(U).max()))
        if not e <= LONG_TOL:
            chk.fail("group:as_program", "a program of %d angularSpectrum steps with total %g ≠ one step over the total: err %.3g (N=%d wvl=%g d1=%g)"
                     % (ks, z, e, n, wvl, d1), dict(N=n, wvl=wvl, d1=d1, z=z, steps=steps, seed=chk.seed, U=c10._small(U)))

    # ---- cross-propagator agreement on matching grids, asymmetric off-centre resolved beam (numeric: discretisation bound)
    for n in ([64, 65] if quick else [64, 65, 128, 129]):
        for rep in range(2 if quick else 6):
            wvl, d1 = 1e-6, 1e-3
            x = grid(n, d1)
            X, Y = numpy.meshgrid(x, x)
            cx, cy = rng.uniform(2, 6) * 1e-3 * rng.choice([-1, 1]), rng.uniform(1, 4) * 1e-3 * rng.choice([-1, 1])
            U = numpy.exp(-((X - cx) ** 2 / (2 * (4e-3) ** 2) + (Y - cy) ** 2 / (2 * (3e-3) ** 2))).astype(complex)
            for m in (0.75, 1.5, rng.uniform(0.6, 0.9), rng.uniform(1.2, 1.8)):
                for sgn in (1, -1):
                    it += 1
                    z = sgn * 20.0
                    kinds = [k_ if k_ != "f32" else "0d" for k_ in c10.Scalars(rng, it, wvl, d1, m, z).kinds]
                    sc = c10.Scalars(rng, it, wvl, d1, m, z, kinds)
                    chk.oracle_cases += 1
                    chk.case(("cross", n, m, z, cx, cy, sc.label()))
                    chk.count("cross:as-two:N=%d" % n)
                    a_ = op.angularSpectrum(U.copy(), *sc.obj) * numpy.exp(-1j * (math.pi / wvl) * (1 - m) / z * 1e-10)
                    t_ = op.twoStepFresnel(U.copy(), *sc.obj)
                    e = c10.obs(chk, "cross:as-two[tol %g]" % CROSS_TWO_TOL, relerr(t_, a_))
                    if not e <= CROSS_TWO_TOL:
                        ef = relerr(reflect(t_), a_)
                        key = "orientation:twoStepFresnel:point-reflected" if ef <= CROSS_TWO_TOL else "cross:angularSpectrum-vs-twoStepFresnel"
                        chk.fail(key + (":odd" if n % 2 else ""), "twoStepFresnel and angularSpectrum disagree on the same grid: rel err %.3g (%.3g after point-reflecting one of them); "
                                 "N=%d m=%g z=%g, Gaussian centred at (%.2g, %.2g) m" % (e, ef, n, m, z, cx, cy), dict(N=n, wvl=wvl, d1=d1, d2=m * d1, z=z, cx=cx, cy=cy))
            # angular spectrum onto the one-step grid d2 = λz/(N d1)
            for m in (1.0, 1.5):
                z = m * n * d1 * d1 / wvl
                chk.oracle_cases += 1
                chk.case(("cross1", n, m, cx, cy))
                chk.count("cross:as-one:N=%d" % n)
                a_ = op.angularSpectrum(U.copy(), wvl, d1, m * d1, z) * numpy.exp(-1j * (math.pi / wvl) * (1 - m) / z * 1e-10)
                o_ = op.oneStepFresnel(U.copy(), wvl, d1, z)
                e = c10.obs(chk, "cross:as-one[tol %g]" % CROSS_ONE_TOL, relerr(o_, a_))
                if not e <= CROSS_ONE_TOL:
                    chk.fail("cross:angularSpectrum-vs-oneStepFresnel" + (":odd" if n % 2 else ""), "oneStepFresnel and angularSpectrum disagree on the same grid: rel err %.3g (reflected %.3g, "
                             "conjugated %.3g); N=%d m=%g z=%g" % (e, relerr(reflect(o_), a_), relerr(numpy.conj(o_), a_), n, m, z), dict(N=n, wvl=wvl, d1=d1, z=z, cx=cx, cy=cy))

    # ---- analytic Gaussian beam: width, curvature, Gouy phase (numeric: aliasing bound); the waist scales with the grid so that the beam
    # stays resolved (w0 >= 3.4 samples) and contained (edge at >= 5.5 w(z))
    for n in ([65, 128, 129, 256, 512] if quick else [65, 96, 128, 129, 255, 256, 260, 512, 1024]):     # round 5: grids beyond 2^16 / 2^18 elements
        for rep in range((3 if n < 200 else 1) if quick else (10 if n < 500 else 3)):
            wvl, d1 = 1e-6, 1e-3 * rng.choice([1.0, 0.5])
            w0 = rng.uniform(6.8, 8.6) * d1 * min(n, 128) / 128.0
            zR = math.pi * w0 * w0 / wvl
            z = rng.choice([-1, 1]) * rng.uniform(0.3, 0.7) * zR
            x = grid(n, d1)
            X, Y = numpy.meshgrid(x, x)
            r2 = X ** 2 + Y ** 2
            U = numpy.exp(-r2 / w0 ** 2).astype(complex)
            wz = w0 * math.sqrt(1 + (z / zR) ** 2)
            Rz = z * (1 + (zR / z) ** 2)
            ana = (w0 / wz) * numpy.exp(-r2 / wz ** 2) * numpy.exp(1j * (math.pi * r2 / (wvl * Rz) - math.atan(z / zR)))
            chk.oracle_cases += 1
            chk.case(("gauss", n, w0, z))
            chk.count("gaussian-beam:N=%d" % n)
            out = op.angularSpectrum(U.copy(), wvl, d1, d1, z)
            e = c10.obs(chk, "gaussian[tol %g]" % GAUSS_TOL, relerr(out, ana))
            if not e <= GAUSS_TOL:
                chk.fail("gaussian-beam:angularSpectrum" + (":odd" if n % 2 else ""), "angularSpectrum of a Gaussian beam (w0=%.3g, z=%.3g=%.2f zR, N=%d) differs from the analytic beam by %.3g "
                         "of the peak (conjugate solution: %.3g)" % (w0, z, z / zR, n, e, relerr(out, numpy.conj(ana))), dict(N=n, wvl=wvl, d1=d1, w0=w0, z=z))
            # magnified: the beam on the output grid m*d1
            if n < 96:
                continue
            m = rng.choice([0.75, 1.5])
            X2, Y2 = numpy.meshgrid(grid(n, m * d1), grid(n, m * d1))
            r22 = X2 ** 2 + Y2 ** 2
            ana2 = (w0 / wz) * numpy.exp(-r22 / wz ** 2) * numpy.exp(1j * (math.pi * r22 / (wvl * Rz) - math.atan(z / zR)))
            for name, out in (("angularSpectrum", op.angularSpectrum(U.copy(), wvl, d1, m * d1, z)),
                              ("twoStepFresnel", op.twoStepFresnel(U.copy(), wvl, d1, m * d1, z))):
                # the 1e-10 in r1sq contributes the constant phase k/2 (1-m)/z 1e-10 to angularSpectrum
                ph = numpy.exp(1j * (math.pi / wvl) * (1 - m) / z * 1e-10) if name == "angularSpectrum" else 1.0
                e = c10.obs(chk, "gaussian-magnified[tol %g]" % GAUSS_MAG_TOL, relerr(out, ana2 * ph))
                if not e <= GAUSS_MAG_TOL:
                    chk.fail("gaussian-beam:" + name + (":odd" if n % 2 else ""), "%s (m=%g) of a Gaussian beam (w0=%.3g, z=%.2f zR, N=%d) differs from the analytic beam by %.3g of the peak "
                             "(conjugate solution: %.3g)" % (name, m, w0, z / zR, n, e, relerr(out, numpy.conj(ana2))), dict(N=n, wvl=wvl, d1=d1, d2=m * d1, w0=w0, z=z))

    # ---- Airy pattern in the focal plane of lensAgainst (numeric: aliasing bound).  The aperture is an OFF-CENTRE ELLIPSE (semi-axes Rx != Ry,
    # centre (x0, y0)): the pattern is the Airy amplitude in the stretched radius times the linear phase e^{-2πi(X x0 + Y y0)/λf}, so a
    # transposed, reflected or conjugated output differs at O(1); pixels are area-weighted, i.e. the aperture is convolved with the
    # pixel box before sampling, which multiplies the pattern by sinc(X d1/λf) sinc(Y d1/λf) exactly, and sampling periodises it (image sum)
    from scipy.special import j1
    for n in ([128, 129] if quick else [128, 129, 256]):
        for rep in range(2 if quick else 6):
            wvl, d1, f = 1e-6, 1e-3, rng.choice([-1, 1]) * rng.uniform(5, 20)
            Rx = rng.uniform(0.12, 0.2) * n * d1
            Ry = Rx * rng.choice([rng.uniform(0.55, 0.8), rng.uniform(1.25, 1.6)])
            x0, y0 = rng.uniform(1.5, 6) * d1 * rng.choice([-1, 1]), rng.uniform(1.5, 6) * d1 * rng.choice([-1, 1])
            ss = 16
            xs = ((numpy.arange(n * ss) + 0.5) / ss - 0.5 - n // 2) * d1         # sub-pixel centres; pixel j covers [(j-n//2-1/2) d1, (j-n//2+1/2) d1]
            XS, YS = numpy.meshgrid(xs, xs)
            ap = ((((XS - x0) / Rx) ** 2 + ((YS - y0) / Ry) ** 2) <= 1.0).reshape(n, ss, n, ss).mean(axis=(1, 3)).astype(complex)
            out = op.lensAgainst(ap, wvl, d1, f)
            x2 = grid(n, wvl * f / (n * d1))
            X2, Y2 = numpy.meshgrid(x2, x2)

            def pattern(X, Y):
                arg = 2 * math.pi * numpy.sqrt((Rx * X) ** 2 + (Ry * Y) ** 2) / (wvl * abs(f))
                with numpy.errstate(invalid="ignore", divide="ignore"):
                    airy = numpy.where(arg == 0, 1.0, 2 * j1(arg) / arg)
                return (math.pi * Rx * Ry * airy * numpy.sinc(X * d1 / (wvl * f)) * numpy.sinc(Y * d1 / (wvl * f))
                        * numpy.exp(-2j * math.pi * (X * x0 + Y * y0) / (wvl * f)))

            per = wvl * f / d1                                                      # sampling at d1 periodises the transform with period λf/d1
            ana = numpy.exp(1j * math.pi * (X2 ** 2 + Y2 ** 2) / (wvl * f)) / (1j * wvl * f) * sum(
                pattern(X2 + p_ * per, Y2 + q_ * per) for p_ in range(-2, 3) for q_ in range(-2, 3))
            chk.oracle_cases += 1
            chk.case(("airy", n, Rx, Ry, x0, y0, f))
            chk.count("airy:N=%d" % n)
            e = c10.obs(chk, "airy[tol %g]" % AIRY_TOL, relerr(out, ana))
            if not e <= AIRY_TOL:
                chk.fail("airy:lensAgainst" + (":odd" if n % 2 else ""), "focal-plane field of an elliptical aperture (Rx=%.3g Ry=%.3g m centred at (%.2g, %.2g) m, f=%.3g m, N=%d) differs from "
                         "the Airy amplitude by %.3g of the peak (transposed output: %.3g, point-reflected: %.3g, conjugated: %.3g)"
                         % (Rx, Ry, x0, y0, f, n, e, relerr(out.T, ana), relerr(reflect(out), ana), relerr(numpy.conj(out), ana)),
                         dict(N=n, wvl=wvl, d1=d1, f=f, Rx=Rx, Ry=Ry, x0=x0, y0=y0))


def pinned_tie(chk, quick):
    """ties `twoStepFresnel_pinned` (the model the proved defect statement `twoStep_pinned_point_reflected` is about) to the code: the repaired
    function differs from it exactly by the final point reflection, which is an involution"""
    from aotools import opticalpropagation as op
    op = common.Guarded(op, chk)
    nprng = numpy.random.default_rng(chk.rng.getrandbits(32))
    lines, expect, desc = [], [], []
    for it in range(6 if quick else 30):
        n = chk.rng.choice([2, 3, 4, 5, 6, 7, 8])
        U = c10.rand_field(nprng, n, chk.rng.choice(["gauss", "delta", "blob"]))
        wvl, d1, z = c10.geometry(chk.rng, n)
        m = c10.MAGS[it % len(c10.MAGS)]
        d2 = m * d1
        Dz1 = z / (1 - m) if m != 1 else z / (1 + m)
        out = op.twoStepFresnel(U.copy(), wvl, d1, d2, z)
        lines.append(c10.line("twop", n, (wvl, d1, d2, z), U))
        expect.append(reflect(out) if Dz1 * (z - Dz1) < 0 else out)
        desc.append(("twop", n, wvl, d1, d2, z))
    ans = common.run_driver(lines, "C10")
    for a, e, ds in zip(ans, expect, desc):
        chk.corr_cases += 1
        chk.case(("corr",) + ds)
        chk.count("corr:pinned-model")
        ok = a != "bad-op" and float(numpy.abs(c10.parse_c(a, e.shape) - e).max()) <= c10.TOL * (float(numpy.abs(e).max()) + 1e-300)
        if not ok:
            chk.broke("correspondence", "model twoStepFresnel_pinned differs from the un-reflected twoStepFresnel at N=%d params=%s" % (ds[1], list(ds[2:])))


def run(chk):
    quick = chk.tier == "quick"
    chk.rule = ("correspondence: as C10 (same model, same driver ops, same scalar typings and field classes) plus odd N = 3..9 (thorough ..15); oracle on the "
                "real code: group laws of angularSpectrum on even and odd N (z=0 exact for every typing of zero; any split z1+z2 incl. zero/opposite signs; whole "
                "programs of 2..5 steps with the same total; -z; magnified return trip with the explicit constant phase; err <= 1e-9*max|U|, 5e-2 with a float32 "
                "scalar, 1e-5 for a complex64 field); angularSpectrum against the direct angular-spectrum sum and oneStepFresnel / lensAgainst / twoStepFresnel "
                "against the direct centred Fresnel sums on the grid +(a-N//2)d2, N in {2,4,5,6,7,8,16,33} (thorough ..65), m in menu/1/free/1±2^-k (rel err <= 1e-9, "
                "1e-8 for N>=32); angularSpectrum = twoStepFresnel for an asymmetric off-centre Gaussian on N=64,65 (thorough 128,129) to 1e-9 after the known "
                "constant phase; angularSpectrum vs oneStepFresnel 2e-5; analytic Gaussian beam incl. curvature and Gouy phase on N=65,128,129 (rel 1e-9; "
                "magnified 1e-7, N>=96); Airy amplitude of an off-centre elliptical aperture on N=128,129 (5e-3 of the peak); round 5: N = 1, 13, 26 and "
                "256 (group laws and Gaussian beam also 512) everywhere, the C10 storage classes of the field (single-precision fields held to the "
                "double-precision bound for all but lensAgainst), one third of the direct-sum geometries re-expressed in units of 1e-6..1e6 m, return trips "
                "at m = 0.1 and 1±2^-9..-30, angularSpectrum against its direct sum at m = 1±2^-12..-30, zero distance typed float32 / int64 / int32, "
                "16-call histories on one grid and one caller array (z scaled, sign of z, wvl, d1, d2, 1/m, m = 1, both spacings, field refilled, N) with every "
                "call against its direct sum, a 150-step program; distinct = distinct (family, N, geometry, data kind, field class, scalar kinds)")
    chk.assumptions = ["numpy.fft kernels = naive DFT sums (contract checked numerically each run)",
                       "binary64 rounding is not modelled: the theorems are about exact complex arithmetic",
                       "single-precision inputs (numpy.float32 scalars, complex64 fields) are only compared to single-precision accuracy",
                       "all exact theorems hold for every N >= 1, odd included (the original Fresnel-sum / orientation statements are for even N with centre N/2; "
                       "the ..._anyN versions cover every N with centre N//2); the point-reflection statement about the pinned code stays even-N",
                       "agreement of the discrete sums with the continuous Fresnel integral (Gaussian beam: width, curvature, Gouy phase; Airy pattern; "
                       "angular-spectrum vs one-step Fresnel sampling) is an approximation statement: numeric only, bounds 1e-9 / 1e-7 / 5e-3 / 2e-5 of the peak "
                       "on resolved inputs"]
    chk.build_and_audit("AoVerif.Props.C11", "AoVerif.Props.C11", REQUIRED)
    c10.kernel_contract(chk)
    try:
        c10.correspondence(chk, quick, 30 if quick else 180, odd=True)
        pinned_tie(chk, quick)
    except common.LeanError as ex:
        chk.broke("correspondence", "driver failed", str(ex))
    oracle(chk, quick)
    c10.obs_note(chk)
