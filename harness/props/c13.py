"""C13 — Karhunen-Loeve modes are orthonormal, piston-free and diagonalise the Kolmogorov covariance."""
import contextlib
import io
import math

import numpy

from .. import common, t1check

MANIFEST = {
    "text": "Lean 4 theorems over the real numbers about a model of karhunenLoeve.py (radial grid, azimuthal-Fourier kernel, piston "
            "filter, per-order eigen-decompositions as contract parameters, scaling, selection/sorting/pairing, azimuthal tables, "
            "polar synthesis, annulus mask): piston_orth is orthogonal for every nr, order-0 modes have zero mean, the polar Gram "
            "matrix is the identity, returned variances are non-increasing with equal cos/sin pairs, -1/2 x double pupil average "
            "of K_i D K_j = diag(variances) for npp = nth and ALL azimuthal orders, the piston-filtered order 0 included (any "
            "structure function), distinct positions of the returned basis are distinct (order, radial index) pairs, hence the "
            "basis as returned (positions of oind) is orthonormal and diagonalises; the first two functions are one cos/sin pair "
            "of equal variance whenever the largest eigenvalue is of order >= 1 (R(r) sin/cos theta when of order 1); pupil = annulus "
            "indicator, masked rendering vanishes outside; for all nr, ri, nfunc and every eigh/argsort output meeting the "
            "stated contract. The constants d, fnorm, fktom and the "
            "structure function are regenerated from the source each run (translator T1); the model is executed at binary64 "
            "against the real code with the eigenpairs the real eigh returned; a direct oracle on the real code supplies "
            "failing inputs.",
    "note": "Trusted: Lean kernel + propext/Classical.choice/Quot.sound; Mathlib's Real.sqrt/cos/sin/pi; numpy.linalg.eigh, "
            "numpy.argsort, numpy.fft.fft and scipy map_coordinates are contract parameters (eigh/argsort contracts re-checked "
            "numerically on every instance run). Not proved: positivity of the selected eigenvalues (which is what keeps the "
            "piston entry out of the selection) and that the largest eigenvalue is of order 1 (facts "
            "about the Kolmogorov spectrum), accuracy of the polar->Cartesian resampling, the order-count loop's adequacy "
            "(all evaluated by the oracle only).",
    "technique": "Lean 4 proof over a hand-written model with translated constants + differential correspondence at binary64 "
                 "(glue replayed on the real eigenpairs) + oracle search on the real code",
}
REQUIRED = ["pupil_is_annulus", "pupil_zero_or_one", "masked_zero_outside", "masked_id_inside", "evals_sorted", "pair_adjacent",
            "piston_orth_orthogonal", "piston_orth_columns", "freq_oordAt", "order0_zero_mean", "piston_variance_zero",
            "higher_order_zero_mean", "polar_orthonormal", "quad_of_eig", "kernel_eq", "diagonalises_partial",
            "halfDist_periodic", "halfDist_even", "Dent_eq", "rdftRe_eq", "azimuthal_block", "diagonalises",
            # round 2
            "modes_distinct", "modes_distinct_flat", "first_pair_equal", "tip_tilt_first_partial",
            "Dent_symm", "quad_split", "azimuthal_block0", "azimuthal_block0'", "rdft_eq_kernel",
            "diagonalises_order0_same", "diagonalises_order0_cross", "diagonalises_order0", "diagonalises_all",
            "returned_basis_diagonalises", "returned_basis_orthonormal", "piston_not_selected_partial",
            "returned_basis_zero_mean"]
T1_NAMES = ["kl_radii_d", "kl_fnorm", "kl_fktom", "kl_stf_kolmogorov"]

GRAM_TOL = 1e-9        # observed 3e-15 on the clean tree; every mutation considered moves it by >= 1e-3
DIAG_TOL = 1e-8        # relative to the largest variance; observed 1e-15
MAT_TOL = 1e-9         # eigh input matrices: FFT vs naive DFT, libm pow


def _quiet(fn, *a, **k):
    with contextlib.redirect_stdout(io.StringIO()):
        return fn(*a, **k)


def t1_arggen(name, rng):
    return {"ri": rng.uniform(0.01, 0.99), "nr": float(rng.randint(2, 60)), "r": math.exp(rng.uniform(-6, 1))}


class Spy:
    """records what numpy.linalg.eigh / numpy.argsort returned to the library during one call"""

    def __init__(self):
        self.eigh, self.argsort = [], []

    def __enter__(self):
        self.o_eigh, self.o_argsort = numpy.linalg.eigh, numpy.argsort

        def eigh(m, *a, **k):
            w, v = self.o_eigh(m, *a, **k)
            self.eigh.append((numpy.array(m, dtype=float, copy=True), numpy.array(w, copy=True), numpy.array(v, copy=True)))
            return w, v

        def argsort(x, *a, **k):
            r = self.o_argsort(x, *a, **k)
            self.argsort.append((numpy.array(x, copy=True), numpy.array(r, copy=True)))
            return r
        numpy.linalg.eigh, numpy.argsort = eigh, argsort
        return self

    def __exit__(self, *exc):
        numpy.linalg.eigh, numpy.argsort = self.o_eigh, self.o_argsort
        return False


def gen_config(rng, nr_hi, what="polar"):
    nr = rng.choice([2, 3, 4, 5]) if rng.random() < 0.25 else rng.randint(6, nr_hi)
    kind = rng.choice(["dyadic", "uniform", "small", "large"])
    if kind == "dyadic":
        ri = common.dyadic(rng, 1 / 16, 15 / 16, 4)
    elif kind == "uniform":
        ri = rng.uniform(0.05, 0.9)
    elif kind == "small":
        ri = rng.uniform(0.005, 0.05)
    else:
        ri = rng.uniform(0.9, 0.99)
    nppk = rng.choice(["nth", "nth", "2pi", "other"])
    npp = {"nth": 5 * nr, "2pi": int(2 * math.pi * nr), "other": rng.randint(4 * nr, 8 * nr)}[nppk]
    # the code's own resolution criterion: nr*npp/nfunc >= 8
    nf_hi = max(2, min(60, (nr * npp) // 8))
    nfunc = rng.randint(2, nf_hi)
    return ri, nr, npp, nppk, nfunc


def stopping_order(KL, ri, nr, nfunc):
    """Resolution limit of the construction: the first azimuthal order t, strictly below the Nyquist order nth/2 of the kernel's
    azimuthal grid (beyond it the kernel's Fourier coefficients repeat: L^p = L^(nth-p)), after which nfunc functions have a larger
    eigenvalue than every function of order t.  None: nfunc is beyond what (ri, nr) can resolve - outside the property's domain.
    Computed here from the kernel alone, independently of gkl_fcom."""
    kers = KL.gkl_kernel(ri, nr, KL.gkl_radii(ri, nr))
    if not numpy.all(numpy.isfinite(kers)):
        return -1            # nothing can be said from a non-finite kernel; the oracle reports it
    nth = kers.shape[2]
    fktom = (1.0 - ri ** 2) / nr
    s = KL.piston_orth(nr)
    evs = [numpy.append(numpy.linalg.eigvalsh(fktom * (s.T @ kers[:, :, 0] @ s)[:nr - 1, :nr - 1]), 0.0)]
    for t in range(1, (nth + 1) // 2):
        w = numpy.linalg.eigvalsh(fktom * kers[:, :, t])
        evs.append(w)
        if 2 * sum(int((e > w.max()).sum()) for e in evs) - int((evs[0] > w.max()).sum()) >= nfunc:
            return t
    return None


# --------------------------------------------------------------------------- correspondence
def correspondence(chk, KL, n_cases, nr_hi):
    rng = chk.rng
    lines, checks = [], []

    def op(line, fn):
        lines.append(line)
        checks.append(fn)

    def cmp_floats(what, expect, tol_abs, desc):
        expect = numpy.asarray(expect, dtype=float).ravel()

        def fn(ans):
            if ans in ("bad-op",) or not ans or ans[0] not in "0123456789abcdef":
                return "%s: driver answered %r on %s" % (what, ans[:60], desc)
            got = numpy.array([common.h2f(t) for t in ans.split()])
            if got.shape != expect.shape:
                return "%s: %d values from the model, %d from the code on %s" % (what, got.size, expect.size, desc)
            err = numpy.abs(got - expect).max() if got.size else 0.0
            if not err <= tol_abs:
                k = int(numpy.argmax(numpy.abs(got - expect)))
                return "%s: model %r vs code %r at flat index %d (tol %.1e) on %s" % (what, got[k], expect[k], k, tol_abs, desc)
            return None
        return fn

    for it in range(n_cases):
        ri, nr, npp, nppk, nfunc = gen_config(rng, nr_hi)
        desc = {"ri": ri, "nr": nr, "npp": npp, "nfunc": nfunc}
        if stopping_order(KL, ri, nr, nfunc) in (None, -1):
            chk.count("corr:beyond-resolution-limit-or-not-finite")
            continue
        chk.count("corr:nr=%d" % nr)
        chk.count("corr:npp=" + nppk)
        with Spy() as spy:
            try:
                b = _quiet(KL.gkl_basis, ri, nr, npp, nfunc)
            except Exception as ex:   # the oracle reports construction failures; nothing to compare here
                chk.count("corr:construction-raised:" + type(ex).__name__)
                continue
        chk.case(("corr", ri, nr, npp, nfunc), sample=dict(desc, op="glue") if it < 3 else None)
        # --- contracts of the external kernels, on the instances the library saw
        for t, (m, w, v) in enumerate(spy.eigh):
            sc = max(numpy.abs(m).max(), 1e-300)
            # (the order-0 block is a difference of much larger numbers: its asymmetry is ~1e-11 of its size for thin rings)
            ok = (numpy.abs(m - m.T).max() <= 1e-8 * sc and numpy.all(numpy.diff(w) >= 0)
                  and numpy.abs(v.T @ v - numpy.eye(len(w))).max() <= 1e-10
                  and numpy.abs(m @ v - v * w).max() <= 1e-8 * sc)
            if not ok:
                chk.broke("correspondence", "eigh contract (symmetric input, ascending eigenvalues, orthonormal columns, A V = V diag) "
                          "not met on the order-%d matrix of %s" % (t, desc))
        nus = len(spy.eigh) - 1
        flat = numpy.concatenate([numpy.append(spy.eigh[0][1], 0.0)] + [spy.eigh[t][1] for t in range(1, nus)]) \
            if nus >= 1 else numpy.zeros(0)
        if len(spy.argsort) != 1 or sorted(spy.argsort[0][1].tolist()) != list(range(nr * nus)) \
                or numpy.any(numpy.diff(flat[spy.argsort[0][1]]) > 0):
            chk.broke("correspondence", "argsort contract (a permutation ordering the eigenvalue table non-increasingly) not met on %s" % desc)
        # --- model vs code
        op("C13 radii %s %d" % (common.f2h(ri), nr), cmp_floats("gkl_radii", KL.gkl_radii(ri, nr), 1e-13, desc))
        op("C13 piston %d" % nr, cmp_floats("piston_orth", KL.piston_orth(nr), 1e-13, desc))
        ts = [0, 1] + ([rng.randint(2, nus)] if nus >= 2 else [])
        for t in ts:
            m = spy.eigh[t][0]
            op("C13 mat %s %d %d" % (common.f2h(ri), nr, t),
               cmp_floats("matrix handed to eigh for order %d" % t, m, MAT_TOL * numpy.abs(m).max(), desc))
        wire = []
        for t, (m, w, v) in enumerate(spy.eigh):
            wire += list(w) + list(v.ravel())
        glue_line = "C13 glue %d %d %d %s" % (nr, nfunc, nus, " ".join(common.f2h(x) for x in wire))

        def glue_fn(ans, b=b, nus=nus, nr=nr, nfunc=nfunc, desc=desc):
            parts = [p.split() for p in ans.split(";")]
            if len(parts) != 5:
                return "glue: model answered %r, the code selected %d orders on %s" % (ans[:40], nus, desc)
            if int(parts[0][0]) != nus:
                return "glue: model stops the order loop at nus=%s, the code at %d on %s" % (parts[0][0], nus, desc)
            if int(parts[0][1]) != int(b["nord"]):
                return "glue: nord model %s code %d on %s" % (parts[0][1], b["nord"], desc)
            ev = numpy.array([common.h2f(x) for x in parts[1]])
            if ev.shape != b["evals"].shape or not numpy.array_equal(ev, b["evals"]):
                return "glue: evals differ (model %s.. code %s..) on %s" % (ev[:4], b["evals"][:4], desc)
            if [int(x) for x in parts[2]] != [int(x) for x in b["ord"]]:
                return "glue: ord model %s code %s on %s" % (parts[2], list(b["ord"]), desc)
            if [int(x) for x in parts[3]] != [int(x) for x in b["npo"]]:
                return "glue: npo model %s code %s on %s" % (parts[3], list(b["npo"]), desc)
            rab = numpy.array([common.h2f(x) for x in parts[4]]).reshape(nr, nfunc)
            if not numpy.abs(rab - b["rabas"]).max() <= 1e-11 * max(1.0, numpy.abs(b["rabas"]).max()):
                return "glue: rabas differs by %r on %s" % (numpy.abs(rab - b["rabas"]).max(), desc)
            return None
        op(glue_line, glue_fn)
        op("C13 azi %d %d" % (b["nord"], npp), cmp_floats("gkl_azimuthal", KL.gkl_azimuthal(b["nord"], npp), 1e-13, desc))
        i = rng.randrange(nfunc)
        op("C13 sfi %d %d %d %d %s" % (nr, npp, b["nord"], b["ord"][i], " ".join(common.f2h(x) for x in b["rabas"][:, i])),
           cmp_floats("gkl_sfi(%d)" % i, KL.gkl_sfi(b, i), 1e-12 * max(1.0, numpy.abs(b["rabas"]).max()), desc))
        # --- Cartesian geometry (dyadic ri: ri**2 exact, comparisons bit-identical)
        rid = common.dyadic(rng, 1 / 16, 15 / 16, 4)
        ncp, ncmar = rng.randint(4, 24), rng.choice([0, 0, 1, 2])
        if ncp - 2 * ncmar >= 2:
            try:
                g = KL.pcgeom(nr, npp, ncp, rid, ncmar)
            except Exception as ex:      # reported by the oracle (construction failure), nothing to compare here
                chk.count("corr:pcgeom-raised:" + type(ex).__name__)
                continue
            gd = dict(ri=rid, nr=nr, npp=npp, ncp=ncp, ncmar=ncmar)
            exp_ap = numpy.asarray(g["ap"]).astype(int).ravel()

            def pup_fn(ans, exp_ap=exp_ap, gd=gd):
                try:
                    got = numpy.array([int(x) for x in ans.split()])
                except ValueError:
                    return "pupil: driver answered %r on %s" % (ans[:40], gd)
                if got.shape != exp_ap.shape or not numpy.array_equal(got, exp_ap):
                    return "pupil: model and pcgeom['ap'] differ on %s" % gd
                return None
            op("C13 pupil %s %d %d" % (common.f2h(rid), ncp, ncmar), pup_fn)
            op("C13 cr %s %d %d %d" % (common.f2h(rid), nr, ncp, ncmar), cmp_floats("pcgeom cr", g["cr"], 1e-12 * nr, gd))
            pol = numpy.random.default_rng(rng.getrandbits(32)).normal(size=(nr, npp))
            un = KL.pol2car(g, pol, mask=False)
            op("C13 masked %s %d %d %s" % (common.f2h(rid), ncp, ncmar, " ".join(common.f2h(x) for x in un.ravel())),
               cmp_floats("pol2car(mask=True)", KL.pol2car(g, pol, mask=True), 0.0, gd))
            chk.count("corr:ncmar=%d" % ncmar)
    ans = common.run_driver(lines, "C13")
    bad = 0
    for line, a, fn in zip(lines, ans, checks):
        chk.corr_cases += 1
        chk.count("op:" + line.split()[1])
        msg = fn(a)
        if msg:
            bad += 1
            if bad <= 4:
                chk.broke("correspondence", msg, line[:400])
    return bad


# --------------------------------------------------------------------------- oracle (the property on the real code)
def polar_oracle(chk, KL, ri, nr, npp, nppk, nfunc):
    rep = {"ri": ri, "nr": nr, "npp": npp, "nfunc": nfunc, "call": "gkl_basis(ri, nr, npp, nfunc)"}

    def bad(key, what):
        chk.fail(key, "%s [gkl_basis(ri=%r, nr=%d, npp=%d, nfunc=%d)]" % (what, ri, nr, npp, nfunc), rep)
    kers = KL.gkl_kernel(ri, nr, KL.gkl_radii(ri, nr))
    if not numpy.all(numpy.isfinite(kers)):
        i, j, p = numpy.argwhere(~numpy.isfinite(kers))[0]
        bad("kernel:not-finite", "gkl_kernel(ri, nr, gkl_radii(ri, nr))[%d, %d, %d] is %r (%d non-finite entries)"
            % (i, j, p, kers[i, j, p], int((~numpy.isfinite(kers)).sum())))
    try:
        b = _quiet(KL.gkl_basis, ri, nr, npp, nfunc)
        F = numpy.array([KL.gkl_sfi(b, i) for i in range(nfunc)])
    except Exception as ex:
        bad("construct:gkl_basis:" + type(ex).__name__, "construction raised %s: %s" % (type(ex).__name__, ex))
        return None
    if not (numpy.all(numpy.isfinite(F)) and numpy.all(numpy.isfinite(b["evals"]))):
        bad("not-finite", "returned functions / variances contain non-finite values")
        return None
    ev, oo, rab = numpy.asarray(b["evals"], dtype=float), [int(x) for x in b["ord"]], b["rabas"]
    tmax = (max(oo) + 1) // 2
    if F.shape != (nfunc, nr, npp) or ev.shape != (nfunc,):
        bad("shape", "shapes: functions %s, evals %s" % (F.shape, ev.shape))
        return None
    if 2 * tmax >= npp:      # beyond the azimuthal Nyquist limit of the polar grid: outside the stated domain
        chk.count("oracle:beyond-azimuthal-resolution")
        return b
    # orthonormal over the pupil
    G = numpy.einsum("iab,jab->ij", F, F) / (nr * npp)
    E = numpy.abs(G - numpy.eye(nfunc))
    if not E.max() <= GRAM_TOL:
        i, j = numpy.unravel_index(numpy.argmax(E), E.shape)
        bad("gram:" + ("diagonal" if i == j else "offdiagonal"),
            "polar Gram matrix entry (%d,%d) is %r, expected %d" % (i, j, G[i, j], int(i == j)))
    # piston-free
    mu = F.mean(axis=(1, 2))
    if not numpy.abs(mu).max() <= GRAM_TOL:
        bad("mean", "function %d has pupil mean %r" % (int(numpy.argmax(numpy.abs(mu))), mu[numpy.argmax(numpy.abs(mu))]))
    # variances: positive, non-increasing, tip/tilt first and equal, cos/sin pairs
    if not numpy.all(ev > 0):
        bad("evals:positive", "returned variance %d is %r" % (int(numpy.argmin(ev)), ev.min()))
    if numpy.any(numpy.diff(ev) > 0):
        k = int(numpy.argmax(numpy.diff(ev)))
        bad("evals:order", "returned variances increase at %d: %r < %r" % (k, ev[k], ev[k + 1]))
    if nfunc >= 2 and not (sorted(oo[:2]) == [1, 2] and ev[0] == ev[1] and numpy.array_equal(rab[:, 0], rab[:, 1])):
        bad("tiptilt", "first two functions are not the equal-variance tip/tilt pair: ord %s evals %s" % (oo[:2], ev[:2]))
    i = 0
    while i < nfunc:
        if oo[i] == 0:
            i += 1
            continue
        if i == nfunc - 1:
            break
        t = (oo[i] + 1) // 2
        if not (sorted((oo[i], oo[i + 1])) == [2 * t - 1, 2 * t] and ev[i] == ev[i + 1]
                and numpy.array_equal(rab[:, i], rab[:, i + 1])):
            bad("evals:pair", "functions %d,%d are not a cos/sin pair of one radial function: ord %s evals %s"
                % (i, i + 1, oo[i:i + 2], ev[i:i + 2]))
            break
        i += 2
    # diagonalises the Kolmogorov covariance: exact identity when the azimuthal grids coincide
    if npp == 5 * nr and nr <= 24:
        rad = numpy.asarray(b["radp"], dtype=float)
        th = numpy.arange(npp) * 2 * numpy.pi / npp
        X = (rad[:, None] * numpy.cos(th)[None]).ravel()
        Y = (rad[:, None] * numpy.sin(th)[None]).ravel()
        dist = numpy.sqrt((X[:, None] - X[None]) ** 2 + (Y[:, None] - Y[None]) ** 2)
        Dm = KL.stf_kolmogorov(0.5 * dist)
        Fm = F.reshape(nfunc, -1)
        Q = -0.5 * (Fm @ Dm @ Fm.T) / float(Fm.shape[1]) ** 2
        sc = max(abs(ev).max(), 1e-300)
        dq = numpy.abs(numpy.diag(Q) - ev)
        if not dq.max() <= DIAG_TOL * sc:
            k = int(numpy.argmax(dq))
            bad("diag:diagonal", "-1/2 <K_%d D K_%d> = %r but the returned variance is %r" % (k, k, Q[k, k], ev[k]))
        off = numpy.abs(Q - numpy.diag(numpy.diag(Q)))
        if not off.max() <= DIAG_TOL * sc:
            i, j = numpy.unravel_index(numpy.argmax(off), off.shape)
            bad("diag:offdiagonal", "-1/2 <K_%d D K_%d> = %r, not 0 (largest variance %r)" % (i, j, Q[i, j], sc))
        chk.count("oracle:diagonalisation")
    return b


def cart_oracle(chk, KL, nmax, dim, ri, nr):
    rep = {"nmax": nmax, "dim": dim, "ri": ri, "nr": nr, "call": "make_kl(nmax, dim, ri=ri, nr=nr, mask=True/False)"}

    def bad(key, what):
        chk.fail(key, "%s [make_kl(%d, %d, ri=%r, nr=%d)]" % (what, nmax, dim, ri, nr), rep)
    try:
        kl, var, pup, pb = _quiet(KL.make_kl, nmax, dim, ri=ri, nr=nr, mask=True)
        klu, var2, pup2, pb2 = _quiet(KL.make_kl, nmax, dim, ri=ri, nr=nr, mask=False)
    except Exception as ex:
        bad("construct:make_kl:" + type(ex).__name__, "construction raised %s: %s" % (type(ex).__name__, ex))
        return
    if kl.shape != (nmax, dim, dim) or pup.shape != (dim, dim) or numpy.shape(var) != (nmax,):
        bad("shape", "shapes kl %s pupil %s var %s" % (kl.shape, pup.shape, numpy.shape(var)))
        return
    c = (numpy.arange(dim) - (dim - 1) / 2.0) / (dim / 2.0)
    X, Y = numpy.meshgrid(c, c)                     # X along columns, Y along rows
    R2 = X ** 2 + Y ** 2
    sure = (numpy.abs(R2 - ri ** 2) > 1e-12) & (numpy.abs(R2 - 1.0) > 1e-12)
    ind = ((R2 >= ri ** 2) & (R2 <= 1.0)).astype(float)
    if not numpy.array_equal(pup[sure], ind[sure]) or not numpy.all((pup == 0) | (pup == 1)):
        k = numpy.argwhere((pup != ind) & sure)
        bad("pupil", "returned pupil is not the annulus indicator, e.g. at pixel %s" % (k[0].tolist() if len(k) else "?"))
    if not numpy.array_equal(pup, pup2):
        bad("pupil:mask-dependence", "pupil depends on the mask flag")
    out = pup == 0
    if out.any() and numpy.abs(kl[:, out]).max() != 0:
        bad("masked-outside", "masked rendering is %r outside the annulus" % numpy.abs(kl[:, out]).max())
    if not numpy.array_equal(kl, klu * pup):
        bad("mask-consistency", "make_kl(mask=True) differs from make_kl(mask=False)*pupil")
    if not (numpy.array_equal(var, pb["evals"]) and numpy.array_equal(var, var2)):
        bad("variances", "returned variances are not the eigenvalues of the polar basis")
    # follows the polar function: every inside pixel lies in the range of the polar samples around its (r, theta)
    npp = pb["np"]
    fr = numpy.floor((R2 - ri ** 2) / (1 - ri ** 2) * nr).astype(int)
    fp = numpy.floor((numpy.arctan2(Y, X) % (2 * numpy.pi)) / (2 * numpy.pi) * npp).astype(int)
    inside = pup > 0
    for i in range(nmax):
        pol = KL.gkl_sfi(pb, i)
        lo = numpy.full((dim, dim), numpy.inf)
        hi = -lo
        for da in (-1, 0, 1, 2):
            for db in (-1, 0, 1, 2):
                v = pol[numpy.clip(fr + da, 0, nr - 1), (fp + db) % npp]
                lo, hi = numpy.minimum(lo, v), numpy.maximum(hi, v)
        viol = numpy.maximum(lo - klu[i], klu[i] - hi)
        viol[~inside] = -1
        if viol.max() > 1e-9:
            r, cc = numpy.unravel_index(numpy.argmax(viol), viol.shape)
            bad("cartesian:follows-polar", "function %d at pixel (row %d, col %d) is %r, outside the range [%r, %r] of the polar "
                "function around that pixel's (r, theta)" % (i, r, cc, klu[i, r, cc], lo[r, cc], hi[r, cc]))
            break


# inputs on which the pinned tree failed: (ri, nr) whose kernel had NaN entries (rounding made the zero distance
# negative), and an azimuthal size for which rebin's float-step mgrid produced one sample too many
CORPUS = [(0.35, 21, 105, 8), (0.2, 31, 155, 8), (0.333482499661436, 5, 25, 8), (0.3, 8, 49, 8), (0.6, 40, 200, 8),
          (0.9, 35, 175, 8), (0.2, 42, 210, 8), (0.25, 12, 98, 10)]
CORPUS_CART = [(6, 16, 0.25, 19), (20, 32, 0.6, 40), (6, 16, 0.25, 31), (6, 12, 0.5, 33)]


def oracle(chk, KL, n_polar, n_cart, nr_hi):
    rng = chk.rng
    quick = chk.tier == "quick"
    for k, (ri, nr, npp, nfunc) in enumerate(CORPUS[:4] if quick else CORPUS):
        chk.oracle_cases += 1
        chk.count("oracle:corpus")
        chk.case(("corpus", ri, nr, npp), sample={"ri": ri, "nr": nr, "npp": npp, "nfunc": nfunc} if k == 0 else None)
        polar_oracle(chk, KL, ri, nr, npp, "corpus", nfunc)
    for (nmax, dim, ri, nr) in (CORPUS_CART[:2] if quick else CORPUS_CART):
        chk.oracle_cases += 1
        chk.count("oracle:corpus")
        chk.case(("corpus-cart", nmax, dim, ri, nr))
        cart_oracle(chk, KL, nmax, dim, ri, nr)
    for it in range(n_polar):
        ri, nr, npp, nppk, nfunc = gen_config(rng, nr_hi)
        if stopping_order(KL, ri, nr, nfunc) is None:
            chk.count("oracle:beyond-resolution-limit")
            continue
        chk.oracle_cases += 1
        chk.count("oracle:nr=%d" % nr)
        chk.count("oracle:npp=" + nppk)
        chk.case(("polar", ri, nr, npp, nfunc), sample={"ri": ri, "nr": nr, "npp": npp, "nfunc": nfunc} if it < 3 else None)
        b = polar_oracle(chk, KL, ri, nr, npp, nppk, nfunc)
        # no state carried from one call to the next, inputs left alone
        if b is not None and it % 5 == 0:
            rad = KL.gkl_radii(ri, nr)
            kers = KL.gkl_kernel(ri, nr, rad)
            k0 = kers.copy()
            out = _quiet(KL.gkl_fcom, ri, kers, nfunc)
            if not numpy.array_equal(kers, k0):
                chk.fail("inplace:gkl_fcom", "gkl_fcom modified its kernels argument (ri=%r nr=%d nfunc=%d)" % (ri, nr, nfunc),
                         {"ri": ri, "nr": nr, "nfunc": nfunc})
            if not (numpy.array_equal(out[0], b["evals"]) and numpy.array_equal(out[4], b["rabas"])
                    and numpy.array_equal(out[3], b["ord"])):
                chk.fail("repeat:gkl_fcom", "a second identical construction returned different functions (ri=%r nr=%d nfunc=%d)"
                         % (ri, nr, nfunc), {"ri": ri, "nr": nr, "nfunc": nfunc})
    for it in range(n_cart):
        nr = rng.randint(4, min(nr_hi, 14))
        ri = rng.choice([common.dyadic(rng, 1 / 16, 14 / 16, 4), rng.uniform(0.03, 0.9)])
        dim = rng.randint(8, 40)
        npp = int(2 * math.pi * nr)
        nmax = rng.randint(2, max(2, min(24, (nr * npp) // 15)))
        if stopping_order(KL, ri, nr, nmax) is None:
            chk.count("oracle:beyond-resolution-limit")
            continue
        chk.oracle_cases += 1
        chk.count("oracle:cart:dim%%2=%d" % (dim % 2))
        chk.case(("cart", nmax, dim, ri, nr), sample={"nmax": nmax, "dim": dim, "ri": ri, "nr": nr} if it < 2 else None)
        cart_oracle(chk, KL, nmax, dim, ri, nr)


def run(chk):
    from aotools.functions import karhunenLoeve as KL
    quick = chk.tier == "quick"
    chk.rule = ("correspondence: Lean model at binary64 vs karhunenLoeve.py on the same (ri, nr, npp, nfunc): radii/piston/azimuthal "
                "tables abs 1e-13, matrices handed to eigh rel 1e-9 of their max (naive DFT vs FFT), glue (order loop, sort, pairing, "
                "scaling) replayed on the eigenpairs the real eigh returned: nus/nord/ord/npo/evals exact, rabas abs 1e-11, pupil "
                "and masking exact, cr abs 1e-12*nr; oracle on the real code: polar Gram and means 1e-9, variances positive / "
                "non-increasing / paired exactly, double-average quadratic form vs variances 1e-8 of the largest (npp = nth), "
                "pupil = indicator exactly away from the rim, masked zero outside exactly, Cartesian value inside the range of "
                "the surrounding polar samples; distinct = distinct (ri, nr, npp, nfunc[, dim])")
    chk.assumptions = [
        "numpy.linalg.eigh returns orthonormal eigenvectors with ascending eigenvalues of the symmetric matrix it is given "
        "(theorem hypothesis; checked numerically on every instance of the correspondence run)",
        "numpy.argsort(-evs) returns a permutation ordering the table non-increasingly (theorem hypothesis; checked per instance)",
        "numpy.fft.fft of a real sequence has real part sum_c x_c cos(2 pi p c / n) (model definition; exercised by the "
        "eigh-input correspondence)",
        "numpy.linalg.eigh on the filtered order-0 block: M V = V diag(E) with orthonormal V (hypothesis EigT0 of "
        "diagonalises_order0 / diagonalises_all; checked numerically on every instance of the correspondence run)",
        "NOT PROVED: every selected eigenvalue is positive - hence the piston entry (flat index nr-1, recorded variance 0) is never "
        "selected, which is the hypothesis `x != nr-1` of returned_basis_diagonalises - and the largest eigenvalue belongs to "
        "order 1 (hypothesis of tip_tilt_first_partial); facts about the Kolmogorov kernel's spectrum; oracle only",
        "NOT PROVED: the order loop computes enough orders for the nfunc largest eigenvalues (monotone decay of the spectrum with "
        "azimuthal order; oracle only)",
        "NOT PROVED: accuracy of the polar->Cartesian resampling by map_coordinates (oracle: value within the range of the "
        "surrounding polar samples)",
        "Real.sqrt/cos/sin/pi model numpy's up to IEEE rounding",
    ]
    meta = t1check.regenerate(chk)
    chk.build_and_audit("AoVerif.Props.C13", "AoVerif.Props.C13", REQUIRED)
    if meta is not None:
        try:
            t1check.selfcheck(chk, meta, T1_NAMES, t1_arggen, 5 if quick else 40, rtol=1e-12)
        except common.LeanError as ex:
            chk.broke("translator", "generated Lean does not compile / run", str(ex))
    nr_hi = 12 if quick else 22
    try:
        correspondence(chk, KL, 6 if quick else 150, 10 if quick else 14)
    except common.LeanError as ex:
        chk.broke("correspondence", "the Lean driver of the model does not build / run", str(ex))
    oracle(chk, KL, 30 if quick else 2500, 6 if quick else 300, nr_hi)
