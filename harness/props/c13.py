"""C13 — Karhunen-Loeve modes are orthonormal, piston-free and diagonalise the Kolmogorov covariance."""
import contextlib
import io
import math

import numpy

from .. import common, t1check

MANIFEST = {
    "text": "Lean 4 theorems over the real numbers about a model of karhunenLoeve.py (radial grid, azimuthal-Fourier kernel, piston "
            "filter, per-order eigen-decompositions as contract parameters, scaling, selection/sorting/pairing, azimuthal tables, "
            "polar synthesis, annulus mask, order-1 rendering on the table closed in azimuth): piston_orth is orthogonal for every "
            "nr, order-0 modes have zero mean, the polar Gram "
            "matrix is the identity, returned variances are non-increasing with equal cos/sin pairs, -1/2 x double pupil average "
            "of K_i D K_j = diag(variances) for npp = nth = 5 nr (NOT the npp = int(2 pi nr) of make_kl, where it holds only up to a "
            "quadrature difference the oracle bounds loosely) and ALL azimuthal orders, the piston-filtered order 0 included (any "
            "structure function; the code's is 6.8839 r^(5/3): stf_is_kolmogorov), distinct positions of the returned basis are "
            "distinct (order, radial index) pairs, hence the "
            "basis as returned (positions of oind) is orthonormal and diagonalises; the first two functions are one cos/sin pair "
            "of equal variance whenever the largest eigenvalue is of order >= 1 (R(r) sin/cos theta when of order 1); the returned "
            "functions are the largest of the computed orders and the stop rule's count is what the loop establishes; pupil = annulus "
            "indicator, masked rendering vanishes outside, the rendering of a separable polar function factorises and interpolates "
            "across phi = 0 (repaired code); for all nr, ri, nfunc and every eigh/argsort output meeting the "
            "stated contract. The constants d, fnorm, fktom and the "
            "structure function are regenerated from the source each run (translator T1); the model is executed at binary64 "
            "against the real code with the eigenpairs the real eigh returned; a direct oracle on the real code, with its own "
            "Kolmogorov structure function, kernel and spectrum, supplies failing inputs.",
    "note": "Trusted: Lean kernel + propext/Classical.choice/Quot.sound; Mathlib's Real.sqrt/cos/sin/pi; numpy.linalg.eigh, "
            "numpy.argsort, numpy.fft.fft and scipy map_coordinates are contract parameters (eigh/argsort contracts re-checked "
            "numerically on every instance run; order-1 map_coordinates against the model's bilinear formula at sampled pixels). "
            "Not proved: positivity of the selected eigenvalues (which is what keeps the "
            "piston entry out of the selection) and that the largest eigenvalue is of order 1 (facts "
            "about the Kolmogorov spectrum), accuracy of the polar->Cartesian resampling, that no order after the loop's stop "
            "holds a larger variance (asserted by the oracle on every case against an independent spectrum of all orders).",
    "technique": "Lean 4 proof over a hand-written model with translated constants + differential correspondence at binary64 "
                 "(glue replayed on the real eigenpairs) + oracle search on the real code",
}
REQUIRED = ["pupil_is_annulus", "pupil_zero_or_one", "masked_zero_outside", "masked_id_inside", "evals_sorted", "pair_adjacent",
            "piston_orth_orthogonal", "piston_orth_columns", "freq_oordAt", "order0_zero_mean", "piston_variance_zero",
            "higher_order_zero_mean", "polar_orthonormal", "quad_of_eig", "kernel_eq", "diagonalises_partial",
            "halfDist_periodic", "halfDist_even", "Dent_eq", "rdftRe_eq", "azimuthal_block", "diagonalises",
            # round 2
            "modes_distinct", "modes_distinct_flat", "first_pair_equal", "tip_tilt_first_partial",
            "Dent_symm", "quad_split", "azimuthal_block0", "azimuthal_block0'", "rdft_eq_kernel",
            "diagonalises_order0_same", "diagonalises_order0_cross", "diagonalises_order0", "diagonalises_all",
            "returned_basis_diagonalises", "returned_basis_orthonormal", "piston_not_selected_partial",
            "returned_basis_zero_mean",
            # round 3
            "stf_is_kolmogorov", "wrapCol_inside", "bilinear_separable", "wrap_closes_azimuth", "wrap_other_cells",
            "cpCoord_range", "selected_are_largest", "stop_rule_count"]
T1_NAMES = ["kl_radii_d", "kl_fnorm", "kl_fktom", "kl_stf_kolmogorov"]

MAT_TOL = 1e-9         # eigh input matrices: FFT vs naive DFT, libm pow


def _limit_blas_threads(n):
    """Best effort, never changes a verdict: the oracle does thousands of small matrix products / eigen-decompositions; with
    OpenBLAS's default of one spinning thread per core they run 100x slower on a busy machine (measured 42 s vs 0.17 s for
    one double sum).  Looks up the OpenBLAS already loaded by numpy and asks it for `n` threads."""
    try:
        import ctypes
        seen = set()
        with open("/proc/self/maps") as fh:
            for line in fh:
                path = line.split()[-1]
                if "openblas" in path and path not in seen:
                    seen.add(path)
                    lib = ctypes.CDLL(path)
                    for name in ("scipy_openblas_set_num_threads64_", "scipy_openblas_set_num_threads", "openblas_set_num_threads64_",
                                 "openblas_set_num_threads"):
                        fn = getattr(lib, name, None)
                        if fn is not None:
                            fn(ctypes.c_int(n))
                            break
    except Exception:
        pass


def _quiet(fn, *a, **k):
    with contextlib.redirect_stdout(io.StringIO()):
        return fn(*a, **k)


def t1_arggen(name, rng):
    return {"ri": rng.uniform(0.01, 0.99), "nr": float(rng.randint(2, 60)), "r": math.exp(rng.uniform(-6, 1))}


class Spy:
    """records what numpy.linalg.eigh / numpy.argsort returned to the library during one call"""

    def __init__(self):
        self.eigh, self.argsort = [], []

    def __enter__(self):
        self.o_eigh, self.o_argsort = numpy.linalg.eigh, numpy.argsort

        def eigh(m, *a, **k):
            w, v = self.o_eigh(m, *a, **k)
            self.eigh.append((numpy.array(m, dtype=float, copy=True), numpy.array(w, copy=True), numpy.array(v, copy=True)))
            return w, v

        def argsort(x, *a, **k):
            r = self.o_argsort(x, *a, **k)
            self.argsort.append((numpy.array(x, copy=True), numpy.array(r, copy=True)))
            return r
        numpy.linalg.eigh, numpy.argsort = eigh, argsort
        return self

    def __exit__(self, *exc):
        numpy.linalg.eigh, numpy.argsort = self.o_eigh, self.o_argsort
        return False


def gen_config(rng, nr_hi, big=True):
    nr = rng.choice([2, 3, 4, 5]) if rng.random() < 0.25 else rng.randint(6, nr_hi)
    kind = rng.choice(["dyadic", "uniform", "small", "large"])
    if kind == "dyadic":
        ri = common.dyadic(rng, 1 / 16, 15 / 16, 4)
    elif kind == "uniform":
        ri = rng.uniform(0.05, 0.9)
    elif kind == "small":
        ri = rng.uniform(0.005, 0.05)
    else:
        ri = rng.uniform(0.9, 0.99)
    nppk = rng.choice(["nth", "nth", "2pi", "other"])
    npp = {"nth": 5 * nr, "2pi": int(2 * math.pi * nr), "other": rng.randint(4 * nr, 8 * nr)}[nppk]
    # the code's own resolution criterion: nr*npp/nfunc >= 8
    lim = max(2, (nr * npp) // 8)
    u = rng.random()
    if u < 0.06:
        nfunc = 1
    elif u < 0.2 and lim > 60 and big:
        nfunc = rng.randint(61, min(lim, 400))
    else:
        nfunc = rng.randint(2, min(60, lim))
    return ri, nr, npp, nppk, nfunc


# --------------------------------------------------------------------------- oracle-side reference
# Nothing in this block is taken from the module under test except the radial grid the basis itself reports.
def kolmogorov(r):
    """the Kolmogorov phase structure function D(r) = 6.8839 (r/r0)^(5/3), r in units of r0 (oracle-side literal)"""
    return 6.8839 * r ** (5.0 / 3.0)


_SPEC = {}


def ref_spectrum(ri, nr, rad):
    """Variances of the Karhunen-Loeve functions of every azimuthal order below the Nyquist order of the construction's
    azimuthal grid (nth = 5 nr), computed independently: L^p[a, a'] = -1/2 . 1/(2 pi (1-ri^2)) . (2 pi/nth) . sum_c D(half the
    distance between ring points (a, 0) and (a', c)) cos(2 pi p c/nth) by an explicit cosine sum, times the ring area
    (1-ri^2)/nr; order 0 restricted to the orthogonal complement of the constant (any orthonormal basis of it: QR)."""
    rad = numpy.asarray(rad, dtype=float)
    key = (float(ri), int(nr), rad.tobytes())
    if key in _SPEC:
        return _SPEC[key]
    nth = 5 * nr
    cs = numpy.cos(2 * numpy.pi * numpy.arange(nth) / nth)
    d2 = (rad ** 2)[:, None, None] + (rad ** 2)[None, :, None] - 2 * rad[:, None, None] * rad[None, :, None] * cs[None, None, :]
    D = kolmogorov(0.5 * numpy.sqrt(numpy.maximum(d2, 0.0)))
    orders = numpy.arange((nth + 1) // 2)
    C = numpy.cos(2 * numpy.pi * numpy.outer(numpy.arange(nth), orders) / nth)
    L = (-0.5 / (2 * numpy.pi * (1 - ri ** 2))) * (2 * numpy.pi / nth) * (D @ C)
    L = 0.5 * (L + L.transpose(1, 0, 2)) * ((1 - ri ** 2) / nr)
    q, _ = numpy.linalg.qr(numpy.column_stack([numpy.ones(nr), numpy.eye(nr)[:, :nr - 1]]))
    B = q[:, 1:]
    spec = [numpy.linalg.eigvalsh(B.T @ L[:, :, 0] @ B)] + [numpy.linalg.eigvalsh(L[:, :, t]) for t in orders[1:]]
    if len(_SPEC) > 64:
        _SPEC.clear()
    _SPEC[key] = spec
    return spec


def largest_variances(spec, nfunc):
    """the nfunc largest variances, every order >= 1 counted twice (cos and sin)"""
    allv = numpy.concatenate([spec[0]] + [numpy.repeat(e, 2) for e in spec[1:]])
    return numpy.sort(allv)[::-1][:nfunc]


def stopping_order(KL, ri, nr, nfunc):
    """Resolution limit of the construction: the first azimuthal order t, strictly below the Nyquist order nth/2 of the kernel's
    azimuthal grid (beyond it the kernel's Fourier coefficients repeat: L^p = L^(nth-p)), after which nfunc functions have a larger
    eigenvalue than every function of order t.  None: nfunc is beyond what (ri, nr) can resolve - outside the property's domain.
    Computed from the oracle-side spectrum, independently of gkl_kernel / gkl_fcom."""
    spec = ref_spectrum(ri, nr, KL.gkl_radii(ri, nr))
    for t in range(1, len(spec)):
        mx = spec[t].max()
        if 2 * sum(int((e > mx).sum()) for e in spec[:t + 1]) - int((spec[0] > mx).sum()) >= nfunc:
            return t
    return None


def quad_forms(F, rad, npp, block=1500000):
    """-1/2 x the double pupil average of F_i(x) D(|x - x'|) F_j(x') over the polar grid (rad x npp equally spaced angles),
    D the oracle-side Kolmogorov structure function of half the distance (the construction's length unit); row blocks keep
    the N x N distance table out of memory"""
    nf = F.shape[0]
    Fm = F.reshape(nf, -1)
    th = numpy.arange(npp) * 2 * numpy.pi / npp
    X = (rad[:, None] * numpy.cos(th)[None]).ravel()
    Y = (rad[:, None] * numpy.sin(th)[None]).ravel()
    N = X.size
    step = max(1, block // N)
    DF = numpy.empty((N, nf))
    for a in range(0, N, step):
        dist = numpy.sqrt((X[a:a + step, None] - X[None]) ** 2 + (Y[a:a + step, None] - Y[None]) ** 2)
        DF[a:a + step] = kolmogorov(0.5 * dist) @ Fm.T
    return -0.5 * (Fm @ DF) / float(N) ** 2


def quad_forms_rot(F, rad, npp):
    """the same double sum as quad_forms, organised by the rotational symmetry of the polar grid: the distance between grid points
    (a, b) and (a', b') depends on b' - b only, so the sum over (b, b') is a circular correlation (evaluated through numpy's
    FFT): nr^2 npp structure-function values instead of (nr npp)^2.  Used for large grids; validated against quad_forms on the
    small ones of every run (oracle self-check)"""
    nf, nr, _ = F.shape
    cs = numpy.cos(2 * numpy.pi * numpy.arange(npp) / npp)
    d2 = (rad ** 2)[:, None, None] + (rad ** 2)[None, :, None] - 2 * rad[:, None, None] * rad[None, :, None] * cs[None, None, :]
    # (k, a, a'); D is even in b' - b
    FD = numpy.ascontiguousarray(numpy.fft.fft(kolmogorov(0.5 * numpy.sqrt(numpy.maximum(d2, 0.0))), axis=2).transpose(2, 0, 1))
    FF = numpy.ascontiguousarray(numpy.fft.fft(F, axis=2).transpose(2, 0, 1))                # (k, i, a)
    Q = numpy.zeros((nf, nf))
    for k in range(npp):
        Q += (FF[k].conj() @ FD[k] @ FF[k].T).real
    return -0.5 * Q / npp / float(nr * npp) ** 2


# --------------------------------------------------------------------------- correspondence
def correspondence(chk, KL, n_cases, nr_hi):
    rng = chk.rng
    lines, checks = [], []

    def op(line, fn):
        lines.append(line)
        checks.append(fn)

    def cmp_floats(what, expect, tol_abs, desc):
        expect = numpy.asarray(expect, dtype=float).ravel()

        def fn(ans):
            if ans in ("bad-op",) or not ans or ans[0] not in "0123456789abcdef":
                return "%s: driver answered %r on %s" % (what, ans[:60], desc)
            got = numpy.array([common.h2f(t) for t in ans.split()])
            if got.shape != expect.shape:
                return "%s: %d values from the model, %d from the code on %s" % (what, got.size, expect.size, desc)
            err = numpy.abs(got - expect).max() if got.size else 0.0
            if not err <= tol_abs:
                k = int(numpy.argmax(numpy.abs(got - expect)))
                return "%s: model %r vs code %r at flat index %d (tol %.1e) on %s" % (what, got[k], expect[k], k, tol_abs, desc)
            return None
        return fn

    for it in range(n_cases):
        ri, nr, npp, nppk, nfunc = gen_config(rng, nr_hi, big=False)
        desc = {"ri": ri, "nr": nr, "npp": npp, "nfunc": nfunc}
        if stopping_order(KL, ri, nr, nfunc) in (None, -1):
            chk.count("corr:beyond-resolution-limit-or-not-finite")
            continue
        chk.count("corr:nr=%d" % nr)
        chk.count("corr:npp=" + nppk)
        with Spy() as spy:
            try:
                b = _quiet(KL.gkl_basis, ri, nr, npp, nfunc)
            except Exception as ex:   # the oracle reports construction failures; nothing to compare here
                chk.count("corr:construction-raised:" + type(ex).__name__)
                continue
        if len(spy.eigh) < 2 or len(spy.argsort) < 1:
            # the library no longer reaches eigh / argsort through the attributes numpy.linalg.eigh / numpy.argsort
            # (e.g. `from numpy.linalg import eigh`): nothing was recorded, the glue cannot be replayed - HOW, not WHAT
            chk.broke("correspondence", "the spy on numpy.linalg.eigh / numpy.argsort recorded %d / %d calls during gkl_basis "
                      "(>= 2 / 1 expected): the model's eigh/argsort parameters cannot be tied to the code on %s"
                      % (len(spy.eigh), len(spy.argsort), desc))
            break
        chk.case(("corr", ri, nr, npp, nfunc), sample=dict(desc, op="glue") if it < 3 else None)
        # --- contracts of the external kernels, on the instances the library saw
        for t, (m, w, v) in enumerate(spy.eigh):
            sc = max(numpy.abs(m).max(), 1e-300)
            # (the order-0 block is a difference of much larger numbers: its asymmetry is ~1e-11 of its size for thin rings)
            ok = (numpy.abs(m - m.T).max() <= 1e-8 * sc and numpy.all(numpy.diff(w) >= 0)
                  and numpy.abs(v.T @ v - numpy.eye(len(w))).max() <= 1e-10
                  and numpy.abs(m @ v - v * w).max() <= 1e-8 * sc)
            if not ok:
                chk.broke("correspondence", "eigh contract (symmetric input, ascending eigenvalues, orthonormal columns, A V = V diag) "
                          "not met on the order-%d matrix of %s" % (t, desc))
        nus = len(spy.eigh) - 1
        flat = numpy.concatenate([numpy.append(spy.eigh[0][1], 0.0)] + [spy.eigh[t][1] for t in range(1, nus)]) \
            if nus >= 1 else numpy.zeros(0)
        if len(spy.argsort) != 1 or sorted(spy.argsort[0][1].tolist()) != list(range(nr * nus)) \
                or numpy.any(numpy.diff(flat[spy.argsort[0][1]]) > 0):
            chk.broke("correspondence", "argsort contract (a permutation ordering the eigenvalue table non-increasingly) not met on %s" % desc)
        # --- model vs code
        op("C13 radii %s %d" % (common.f2h(ri), nr), cmp_floats("gkl_radii", KL.gkl_radii(ri, nr), 1e-13, desc))
        op("C13 piston %d" % nr, cmp_floats("piston_orth", KL.piston_orth(nr), 1e-13, desc))
        ts = [0, 1] + ([rng.randint(2, nus)] if nus >= 2 else [])
        for t in ts:
            m = spy.eigh[t][0]
            op("C13 mat %s %d %d" % (common.f2h(ri), nr, t),
               cmp_floats("matrix handed to eigh for order %d" % t, m, MAT_TOL * numpy.abs(m).max(), desc))
        wire = []
        for t, (m, w, v) in enumerate(spy.eigh):
            wire += list(w) + list(v.ravel())
        glue_line = "C13 glue %d %d %d %s" % (nr, nfunc, nus, " ".join(common.f2h(x) for x in wire))

        def glue_fn(ans, b=b, nus=nus, nr=nr, nfunc=nfunc, desc=desc):
            parts = [p.split() for p in ans.split(";")]
            if len(parts) != 5:
                return "glue: model answered %r, the code selected %d orders on %s" % (ans[:40], nus, desc)
            if int(parts[0][0]) != nus:
                return "glue: model stops the order loop at nus=%s, the code at %d on %s" % (parts[0][0], nus, desc)
            if int(parts[0][1]) != int(b["nord"]):
                return "glue: nord model %s code %d on %s" % (parts[0][1], b["nord"], desc)
            ev = numpy.array([common.h2f(x) for x in parts[1]])
            if ev.shape != b["evals"].shape or not numpy.array_equal(ev, b["evals"]):
                return "glue: evals differ (model %s.. code %s..) on %s" % (ev[:4], b["evals"][:4], desc)
            if [int(x) for x in parts[2]] != [int(x) for x in b["ord"]]:
                return "glue: ord model %s code %s on %s" % (parts[2], list(b["ord"]), desc)
            if [int(x) for x in parts[3]] != [int(x) for x in b["npo"]]:
                return "glue: npo model %s code %s on %s" % (parts[3], list(b["npo"]), desc)
            rab = numpy.array([common.h2f(x) for x in parts[4]]).reshape(nr, nfunc)
            if not numpy.abs(rab - b["rabas"]).max() <= 1e-11 * max(1.0, numpy.abs(b["rabas"]).max()):
                return "glue: rabas differs by %r on %s" % (numpy.abs(rab - b["rabas"]).max(), desc)
            return None
        op(glue_line, glue_fn)
        op("C13 azi %d %d" % (b["nord"], npp), cmp_floats("gkl_azimuthal", KL.gkl_azimuthal(b["nord"], npp), 1e-13, desc))
        i = rng.randrange(nfunc)
        op("C13 sfi %d %d %d %d %s" % (nr, npp, b["nord"], b["ord"][i], " ".join(common.f2h(x) for x in b["rabas"][:, i])),
           cmp_floats("gkl_sfi(%d)" % i, KL.gkl_sfi(b, i), 1e-12 * max(1.0, numpy.abs(b["rabas"]).max()), desc))
        # --- Cartesian geometry (dyadic ri: ri**2 exact, comparisons bit-identical)
        rid = common.dyadic(rng, 1 / 16, 15 / 16, 4)
        ncp, ncmar = rng.randint(4, 24), rng.choice([0, 0, 1, 2])
        if ncp - 2 * ncmar >= 2:
            try:
                g = KL.pcgeom(nr, npp, ncp, rid, ncmar)
            except Exception as ex:      # reported by the oracle (construction failure), nothing to compare here
                chk.count("corr:pcgeom-raised:" + type(ex).__name__)
                continue
            gd = dict(ri=rid, nr=nr, npp=npp, ncp=ncp, ncmar=ncmar)
            exp_ap = numpy.asarray(g["ap"]).astype(int).ravel()

            def pup_fn(ans, exp_ap=exp_ap, gd=gd):
                try:
                    got = numpy.array([int(x) for x in ans.split()])
                except ValueError:
                    return "pupil: driver answered %r on %s" % (ans[:40], gd)
                if got.shape != exp_ap.shape or not numpy.array_equal(got, exp_ap):
                    return "pupil: model and pcgeom['ap'] differ on %s" % gd
                return None
            op("C13 pupil %s %d %d" % (common.f2h(rid), ncp, ncmar), pup_fn)
            op("C13 cr %s %d %d %d" % (common.f2h(rid), nr, ncp, ncmar), cmp_floats("pcgeom cr", g["cr"], 1e-12 * nr, gd))
            pol = numpy.random.default_rng(rng.getrandbits(32)).normal(size=(nr, npp))
            un = KL.pol2car(g, pol, mask=False)
            op("C13 masked %s %d %d %s" % (common.f2h(rid), ncp, ncmar, " ".join(common.f2h(x) for x in un.ravel())),
               cmp_floats("pol2car(mask=True)", KL.pol2car(g, pol, mask=True), 0.0, gd))
            chk.count("corr:ncmar=%d" % ncmar)
            # azimuthal coordinate (clip of the repaired pcgeom) and the order-1 rendering on the table closed in azimuth
            # (repaired pol2car), at pixels spread over the array, those next to the +x axis (the closing cell) included
            ax = (numpy.arange(ncp * ncp).reshape(ncp, ncp) % ncp - 0.5 * (ncp - 1)) / (0.5 * (ncp - 2 * ncmar))
            phi = (npp / (2 * numpy.pi)) * ((numpy.arctan2(ax.T, ax) + 2 * numpy.pi) % (2 * numpy.pi))   # pcgeom's expression
            op("C13 cp %d %s" % (npp, " ".join(common.f2h(x) for x in phi.ravel())),
               cmp_floats("pcgeom cp", g["cp"], 1e-12 * npp, gd))      # to rounding: φ·npp/2π may be associated differently
            rows = numpy.repeat(numpy.arange(ncp), 3)
            pix = [(int(r), int(c)) for r, c in zip(rows, [rng.randrange(ncp) for _ in rows])]
            pix += [(r, ncp - 1 - k) for r in (ncp // 2 - 1, ncp // 2) for k in (0, 1, 2) if ncp - 1 - k > ncp // 2]
            crs = [g["cr"][r, c] for r, c in pix]
            cps = [g["cp"][r, c] for r, c in pix]
            op("C13 render %d %d %d %s" % (nr, npp, len(pix), " ".join(common.f2h(x) for x in crs + cps + list(pol.ravel()))),
               cmp_floats("pol2car(mask=False) at %d pixels" % len(pix), [un[r, c] for r, c in pix],
                          1e-12 * numpy.abs(pol).max(), gd))
    ans = common.run_driver(lines, "C13")
    bad = 0
    for line, a, fn in zip(lines, ans, checks):
        chk.corr_cases += 1
        chk.count("op:" + line.split()[1])
        msg = fn(a)
        if msg:
            bad += 1
            if bad <= 4:
                chk.broke("correspondence", msg, line[:400])
    return bad


# --------------------------------------------------------------------------- oracle (the property on the real code)
GRAM_TOL = 1e-9        # observed 3e-15 on the clean tree; every mutation considered moves it by >= 1e-3
DIAG_TOL = 1e-8        # npp = nth: relative to the largest variance; observed <= 3e-15 (10 seeds)
TOP_TOL = 1e-10        # returned variances vs the oracle-side nfunc largest, relative to the largest; observed <= 2e-14
PAIR_TOL = 1e-12       # cos/sin partners: variances and radial functions agree to this relative error; observed 0
# npp != nth (make_kl always: npp = int(2 pi nr)): the double average is taken on another azimuthal grid than the one the
# kernel was integrated on, the identity holds up to that quadrature difference only.  Observed on the repaired tree, 10 seeds x
# ~118 configurations: dominant functions (variance >= 1 % of the largest, azimuthal frequency <= 1/8 of both grids) off by
# <= 0.57 % of their own variance; any function off by <= 0.14 % of the largest variance; off-diagonal <= 5.7e-5 of the largest
LOOSE_DIAG_OWN = 0.03
LOOSE_DIAG_ALL = 0.01
LOOSE_OFF = 1e-3
QUAD_MAX_POINTS = 25000     # N = nr*npp of the double pupil average
QUAD_BRUTE_POINTS = 2600    # up to here brute force (N^2 structure-function values), beyond organised by rotational symmetry
# Cartesian rendering vs the polar function at the pixel's (r, theta): bound on the resampling error, see cart_follows_polar
REG_CELLS = 0.125      # radial registration allowance, in radial cells (the code's own offset is 1/16 cell)
CURV_FACTOR = 0.5      # x local second difference of the radial samples (linear interpolation error is 1/8 of it)
WORST = {}


def _worst(name, v):
    WORST[name] = max(WORST.get(name, 0.0), float(v))


def check_polar_basis(chk, KL, b, ri, nr, npp, nfunc, bad, diag=True):
    """the polar part of the property on one returned basis `b` (gkl_basis output / make_kl's polar_base)"""
    try:
        F = numpy.array([KL.gkl_sfi(b, i) for i in range(nfunc)])
    except Exception as ex:
        bad("construct:gkl_sfi:" + type(ex).__name__, "gkl_sfi raised %s: %s" % (type(ex).__name__, ex))
        return False
    if not (numpy.all(numpy.isfinite(F)) and numpy.all(numpy.isfinite(b["evals"]))):
        bad("not-finite", "returned functions / variances contain non-finite values")
        return False
    ev, oo, rab = numpy.asarray(b["evals"], dtype=float), [int(x) for x in b["ord"]], numpy.asarray(b["rabas"], dtype=float)
    if F.shape != (nfunc, nr, npp) or ev.shape != (nfunc,) or rab.shape != (nr, nfunc) or len(oo) != nfunc:
        bad("shape", "shapes: functions %s, evals %s, rabas %s" % (F.shape, ev.shape, rab.shape))
        return False
    tmax = (max(oo) + 1) // 2
    if 2 * tmax >= npp:      # beyond the azimuthal Nyquist limit of the polar grid: outside the stated domain
        chk.count("oracle:beyond-azimuthal-resolution")
        return True
    # orthonormal over the pupil
    G = numpy.einsum("iab,jab->ij", F, F) / (nr * npp)
    E = numpy.abs(G - numpy.eye(nfunc))
    _worst("gram", E.max())
    if not E.max() <= GRAM_TOL:
        i, j = numpy.unravel_index(numpy.argmax(E), E.shape)
        bad("gram:" + ("diagonal" if i == j else "offdiagonal"),
            "polar Gram matrix entry (%d,%d) is %r, expected %d" % (i, j, G[i, j], int(i == j)))
    # piston-free
    mu = F.mean(axis=(1, 2))
    _worst("mean", numpy.abs(mu).max())
    if not numpy.abs(mu).max() <= GRAM_TOL:
        bad("mean", "function %d has pupil mean %r" % (int(numpy.argmax(numpy.abs(mu))), mu[numpy.argmax(numpy.abs(mu))]))
    # variances: positive, non-increasing, tip/tilt first and equal, cos/sin pairs
    if not numpy.all(ev > 0):
        bad("evals:positive", "returned variance %d is %r" % (int(numpy.argmin(ev)), ev.min()))
    if numpy.any(numpy.diff(ev) > 0):
        k = int(numpy.argmax(numpy.diff(ev)))
        bad("evals:order", "returned variances increase at %d: %r < %r" % (k, ev[k], ev[k + 1]))

    def same(i, j):
        return (abs(ev[i] - ev[j]) <= PAIR_TOL * abs(ev[i])
                and numpy.abs(rab[:, i] - rab[:, j]).max() <= PAIR_TOL * max(numpy.abs(rab[:, i]).max(), 1e-300))
    if nfunc >= 2 and not (sorted(oo[:2]) == [1, 2] and same(0, 1)):
        bad("tiptilt", "first two functions are not the equal-variance tip/tilt pair: ord %s evals %s" % (oo[:2], ev[:2]))
    if nfunc == 1 and oo[0] not in (1, 2):
        bad("tiptilt", "the single function returned is not tip or tilt: ord %s" % oo[:1])
    i = 0
    while i < nfunc:
        if oo[i] == 0:
            i += 1
            continue
        if i == nfunc - 1:
            break
        t = (oo[i] + 1) // 2
        if not (sorted((oo[i], oo[i + 1])) == [2 * t - 1, 2 * t] and same(i, i + 1)):
            bad("evals:pair", "functions %d,%d are not a cos/sin pair of one radial function: ord %s evals %s"
                % (i, i + 1, oo[i:i + 2], ev[i:i + 2]))
            break
        i += 2
    rad = numpy.asarray(b["radp"], dtype=float)
    # the returned functions are the nfunc of largest variance (orders >= 1 counted twice): against the oracle-side spectrum of
    # ALL orders below the kernel's Nyquist order - this is what the order loop's stop rule has to guarantee
    if rad.shape == (nr,) and numpy.all(numpy.isfinite(rad)):
        top = largest_variances(ref_spectrum(ri, nr, rad), nfunc)
        dv = numpy.abs(ev - top)
        _worst("largest", dv.max() / top[0])
        if not dv.max() <= TOP_TOL * top[0]:
            k = int(numpy.argmax(dv))
            bad("evals:largest", "returned variance %d is %r but the %d-th largest variance of the Karhunen-Loeve functions of "
                "this pupil (oracle-side spectrum, all azimuthal orders, cos/sin counted twice) is %r"
                % (k, float(ev[k]), k + 1, float(top[k])))
    else:
        bad("shape", "radp is not a finite vector of nr radii")
        return False
    # diagonalises the Kolmogorov covariance (oracle-side structure function): exact identity when the azimuthal grids coincide
    if diag and nr * npp <= QUAD_MAX_POINTS:
        if nr * npp <= QUAD_BRUTE_POINTS:
            Q = quad_forms(F, rad, npp)
            if WORST.get("n:selfcheck", 0) < 8:          # oracle self-check: both evaluations of the double sum agree
                WORST["n:selfcheck"] = WORST.get("n:selfcheck", 0) + 1
                dself = numpy.abs(Q - quad_forms_rot(F, rad, npp)).max() / max(numpy.abs(Q).max(), 1e-300)
                if not dself <= 1e-10:
                    raise RuntimeError("C13 oracle self-check: brute-force and rotation-organised double sums differ by %r" % dself)
        else:
            Q = quad_forms_rot(F, rad, npp)
        sc = max(abs(ev).max(), 1e-300)
        dq = numpy.abs(numpy.diag(Q) - ev)
        off = numpy.abs(Q - numpy.diag(numpy.diag(Q)))
        if npp == 5 * nr:
            _worst("diag:exact", max(dq.max(), off.max()) / sc)
            if not dq.max() <= DIAG_TOL * sc:
                k = int(numpy.argmax(dq))
                bad("diag:diagonal", "-1/2 <K_%d D K_%d> = %r but the returned variance is %r" % (k, k, float(Q[k, k]), float(ev[k])))
            if not off.max() <= DIAG_TOL * sc:
                i, j = numpy.unravel_index(numpy.argmax(off), off.shape)
                bad("diag:offdiagonal", "-1/2 <K_%d D K_%d> = %r, not 0 (largest variance %r)" % (i, j, float(Q[i, j]), float(sc)))
            chk.count("oracle:diagonalisation:exact")
        else:
            m = (numpy.array(oo) + 1) // 2
            dom = (ev >= 0.01 * sc) & (8 * m <= min(npp, 5 * nr))
            rel = numpy.where(dom, dq / numpy.maximum(ev, 1e-300), 0.0)
            _worst("diag:loose-own", rel.max())
            _worst("diag:loose-all", dq.max() / sc)
            _worst("diag:loose-off", off.max() / sc)
            if not rel.max() <= LOOSE_DIAG_OWN:
                k = int(numpy.argmax(rel))
                bad("diag:diagonal:loose", "-1/2 <K_%d D K_%d> = %r but the returned variance is %r (off by %.1f %%; npp != 5 nr, "
                    "quadrature difference allowance %.0f %%)" % (k, k, float(Q[k, k]), float(ev[k]), 100 * rel[k], 100 * LOOSE_DIAG_OWN))
            elif not dq.max() <= LOOSE_DIAG_ALL * sc:
                k = int(numpy.argmax(dq))
                bad("diag:diagonal:loose", "-1/2 <K_%d D K_%d> = %r but the returned variance is %r (difference %.2g of the "
                    "largest variance %r)" % (k, k, float(Q[k, k]), float(ev[k]), dq[k] / sc, float(sc)))
            if not off.max() <= LOOSE_OFF * sc:
                i, j = numpy.unravel_index(numpy.argmax(off), off.shape)
                bad("diag:offdiagonal:loose", "-1/2 <K_%d D K_%d> = %r, not 0 within %.0e of the largest variance %r"
                    % (i, j, float(Q[i, j]), LOOSE_OFF, float(sc)))
            chk.count("oracle:diagonalisation:loose")
    return True


def polar_oracle(chk, KL, ri, nr, npp, nppk, nfunc, after=()):
    rep = {"ri": ri, "nr": nr, "npp": npp, "nfunc": nfunc, "call": "gkl_basis(ri, nr, npp, nfunc)"}
    ctx = "gkl_basis(ri=%r, nr=%d, npp=%d, nfunc=%d)" % (ri, nr, npp, nfunc)
    if after:
        rep["after_in_same_process"] = list(after)
        ctx += " after " + "; ".join(after)

    def bad(key, what):
        chk.fail(key, "%s [%s]" % (what, ctx), rep)
    kers = KL.gkl_kernel(ri, nr, KL.gkl_radii(ri, nr))
    if not numpy.all(numpy.isfinite(kers)):
        i, j, p = numpy.argwhere(~numpy.isfinite(kers))[0]
        bad("kernel:not-finite", "gkl_kernel(ri, nr, gkl_radii(ri, nr))[%d, %d, %d] is %r (%d non-finite entries)"
            % (i, j, p, kers[i, j, p], int((~numpy.isfinite(kers)).sum())))
    try:
        b = _quiet(KL.gkl_basis, ri, nr, npp, nfunc)
    except Exception as ex:
        bad("construct:gkl_basis:" + type(ex).__name__, "construction raised %s: %s" % (type(ex).__name__, ex))
        return None
    if not check_polar_basis(chk, KL, b, ri, nr, npp, nfunc, bad):
        return None
    return b


def cart_follows_polar(pb, i, ri, nr, npp, cpos, th):
    """Reference value and resampling-error bound of function i at pixels with radial cell coordinate `cpos` and azimuth `th`.

    The polar function is R_k x az(m theta_j) with the radial samples R_k at the radii the basis reports (cell coordinate
    s_k = (radp_k^2 - ri^2)/(1 - ri^2) nr) and az = 1 / cos / sin.  Reference: R_lin(c) az(m theta), R_lin the piecewise linear
    interpolant of (s_k, R_k), held constant beyond the first/last sample, az evaluated exactly.  Bound:
      |R_lin(c)| (1 - cos(m h/2))     sup error of piecewise linear interpolation of a unit sinusoid of order m on the step
                                      h = 2 pi/npp (every interpolation order >= 1 stays below it)
      + REG_CELLS    x the largest |R_k+1 - R_k| over the pixel's radial cell and its two neighbours (radial registration)
      + CURV_FACTOR  x the largest |second difference| of R at the four nodes around the cell (linear vs smoother interpolants)
      + distance beyond the first/last sample x the end cell's |difference| (any extrapolation between constant and linear);
    the three radial terms are multiplied by |az| + (1 - cos(m h/2)), the size of any interpolant of the azimuthal factor."""
    o = int(pb["ord"][i])
    m = (o + 1) // 2
    Rk = numpy.asarray(pb["rabas"], dtype=float)[:, i]
    s = (numpy.asarray(pb["radp"], dtype=float) ** 2 - ri ** 2) / (1 - ri ** 2) * nr
    az = numpy.ones_like(th) if o == 0 else (numpy.cos(m * th) if o % 2 == 1 else numpy.sin(m * th))
    Rl = numpy.interp(cpos, s, Rk)
    dR = numpy.abs(numpy.diff(Rk))
    k = numpy.clip(numpy.searchsorted(s, cpos, side="right") - 1, 0, nr - 2)
    pad = numpy.concatenate([[0.0], dR, [0.0]])
    dRn = numpy.maximum(numpy.maximum(pad[:-2], pad[1:-1]), pad[2:])            # cells k-1, k, k+1
    if nr >= 3:
        d2 = numpy.concatenate([[0.0, 0.0], numpy.abs(numpy.diff(Rk, 2)), [0.0, 0.0]])   # d2[j+1] : node j
        d2n = numpy.array([d2[j:j + 4].max() for j in range(nr - 1)])           # nodes k-1 .. k+2 of cell k
    else:
        d2n = numpy.zeros(nr - 1)
    amp = max(numpy.abs(Rk).max(), 1e-300)
    h = 2 * numpy.pi / npp
    beyond = numpy.maximum(cpos - s[-1], 0.0) * dR[-1] + numpy.maximum(s[0] - cpos, 0.0) * dR[0]
    eaz = 1 - math.cos(m * h / 2)
    bound = numpy.abs(Rl) * eaz + (REG_CELLS * dRn[k] + CURV_FACTOR * d2n[k] + beyond) * (numpy.abs(az) + eaz) + 1e-12 * amp
    return Rl * az, bound, amp


def cart_oracle(chk, KL, nmax, dim, ri, nr, after=(), diag=True):
    rep = {"nmax": nmax, "dim": dim, "ri": ri, "nr": nr, "call": "make_kl(nmax, dim, ri=ri, nr=nr, mask=True/False)"}
    ctx = "make_kl(%d, %d, ri=%r, nr=%d)" % (nmax, dim, ri, nr)
    if after:
        rep["after_in_same_process"] = list(after)
        ctx += " after " + "; ".join(after)

    def bad(key, what):
        chk.fail(key, "%s [%s]" % (what, ctx), rep)
    try:
        kl, var, pup, pb = _quiet(KL.make_kl, nmax, dim, ri=ri, nr=nr, mask=True)
        klu, var2, pup2, pb2 = _quiet(KL.make_kl, nmax, dim, ri=ri, nr=nr, mask=False)
    except Exception as ex:
        bad("construct:make_kl:" + type(ex).__name__, "construction raised %s: %s" % (type(ex).__name__, ex))
        return
    if kl.shape != (nmax, dim, dim) or klu.shape != kl.shape or pup.shape != (dim, dim) or numpy.shape(var) != (nmax,):
        bad("shape", "shapes kl %s pupil %s var %s" % (kl.shape, pup.shape, numpy.shape(var)))
        return
    c = (numpy.arange(dim) - (dim - 1) / 2.0) / (dim / 2.0)
    X, Y = numpy.meshgrid(c, c)                     # X along columns, Y along rows
    R2 = X ** 2 + Y ** 2
    sure = (numpy.abs(R2 - ri ** 2) > 1e-12) & (numpy.abs(R2 - 1.0) > 1e-12)
    ind = ((R2 >= ri ** 2) & (R2 <= 1.0)).astype(float)
    if not numpy.array_equal(pup[sure], ind[sure]) or not numpy.all((pup == 0) | (pup == 1)):
        k = numpy.argwhere((pup != ind) & sure)
        bad("pupil", "returned pupil is not the annulus indicator, e.g. at pixel %s" % (k[0].tolist() if len(k) else "?"))
    # the annulus is centred on the array: its indicator is unchanged by the two flips and the transposition (the pixel
    # coordinates (i - (dim-1)/2)/(dim/2) are exactly antisymmetric in binary64, so this is exact on the rim as well)
    for name, q in (("up-down flip", pup[::-1, :]), ("left-right flip", pup[:, ::-1]), ("transposition", pup.T)):
        if not numpy.array_equal(pup, q):
            k = numpy.argwhere(pup != q)[0].tolist()
            bad("pupil:asymmetric", "returned pupil changes under %s, e.g. at pixel %s" % (name, k))
            break
    if not numpy.array_equal(pup, pup2):
        bad("pupil:mask-dependence", "pupil depends on the mask flag")
    out = pup == 0
    if out.any() and numpy.abs(kl[:, out]).max() != 0:
        bad("masked-outside", "masked rendering is %r outside the annulus" % numpy.abs(kl[:, out]).max())
    if not numpy.array_equal(kl, klu * pup):
        bad("mask-consistency", "make_kl(mask=True) differs from make_kl(mask=False)*pupil")
    if not (numpy.array_equal(var, pb["evals"]) and numpy.array_equal(var, var2)):
        bad("variances", "returned variances are not the eigenvalues of the polar basis")
    # the polar basis make_kl used (npp = int(2 pi nr)) must satisfy the polar part of the property as well
    npp = int(pb["np"])
    okb = check_polar_basis(chk, KL, pb, ri, nr, npp, nmax, bad, diag=diag)
    if not okb or 2 * ((max(int(x) for x in pb["ord"]) + 1) // 2) >= npp:
        return
    # follows the polar function at each pixel's (r, theta) to within the resampling error
    inside = (ind > 0) & (pup > 0)
    cpos = (R2 - ri ** 2) / (1 - ri ** 2) * nr
    th = numpy.arctan2(Y, X) % (2 * numpy.pi)
    last_cell = th > 2 * numpy.pi * (npp - 1) / npp
    theta_j = numpy.arange(npp) * 2 * numpy.pi / npp
    for i in range(nmax):
        o = int(pb["ord"][i])
        m = (o + 1) // 2
        azj = numpy.ones(npp) if o == 0 else (numpy.cos(m * theta_j) if o % 2 == 1 else numpy.sin(m * theta_j))
        pol = KL.gkl_sfi(pb, i)
        if not numpy.abs(pol - numpy.outer(pb["rabas"][:, i], azj)).max() <= 1e-9 * max(numpy.abs(pol).max(), 1e-300):
            chk.broke("correspondence", "gkl_sfi(%d) is not rabas[:, %d] x (1 | cos | sin)(m theta_j) with m = (ord+1)//2 - the "
                      "oracle cannot form the reference of the Cartesian rendering [%s]" % (i, i, ctx))
            return
        ref, bound, amp = cart_follows_polar(pb, i, ri, nr, npp, cpos, th)
        ratio = numpy.where(inside, numpy.abs(klu[i] - ref) / bound, 0.0)
        _worst("cartesian", ratio.max())
        if ratio.max() > 1.0:
            r, cc = numpy.unravel_index(numpy.argmax(ratio), ratio.shape)
            bad("cartesian:follows-polar" + (":azimuth-wrap" if last_cell[r, cc] else ""),
                "function %d (ord %d) at pixel (row %d, col %d) is %r but the polar function at that pixel's (r, theta) = (%.4f, "
                "%.4f rad) is %r; resampling-error bound %.3g, amplitude of the function %.3g%s"
                % (i, o, r, cc, float(klu[i, r, cc]), math.sqrt(R2[r, cc]), th[r, cc], float(ref[r, cc]), bound[r, cc], amp,
                   " (pixel in the azimuthal cell between the last polar sample and the first)" if last_cell[r, cc] else ""))
            break


# inputs on which the pinned tree failed: (ri, nr) whose kernel had NaN entries (rounding made the zero distance
# negative), and an azimuthal size for which rebin's float-step mgrid produced one sample too many
CORPUS = [(0.35, 21, 105, 8), (0.2, 31, 155, 8), (0.333482499661436, 5, 25, 8), (0.3, 8, 49, 8), (0.6, 40, 200, 8),
          (0.9, 35, 175, 8), (0.2, 42, 210, 8), (0.25, 12, 98, 10),
          # round 3: a single function, more than 60 functions, nr > 22
          (0.25, 6, 30, 1), (0.4, 16, 80, 150), (0.3, 30, 150, 40)]
CORPUS_QUICK = [0, 1, 2, 3, 8, 9]
# (nmax, dim, ri, nr); odd dim: the pixel grid must stay centred on (dim-1)/2
CORPUS_CART = [(6, 16, 0.25, 19), (20, 32, 0.6, 40), (8, 21, 0.3, 8), (10, 33, 0.25, 10), (12, 47, 0.5, 9),
               (6, 16, 0.25, 31), (6, 12, 0.5, 33)]
CORPUS_CART_QUICK = 5
# the call of the module's documentation and of the repository's only test
DOC_CALL = (150, 128, 0.2, 40)
# one geometry, several constructions in one process (nfunc growing, then make_kl at two sizes): every call is checked -
# a construction must not depend on what was built before for the same (ri, nr)
REPEATS = [(0.25, 8, (4, 12, 30), ((12, 16), (20, 21))), (0.5, 6, (2, 9, 20), ((6, 15), (10, 24)))]


def repeat_oracle(chk, KL, ri, nr, nfuncs, carts):
    after = []
    for nfunc in nfuncs:
        if stopping_order(KL, ri, nr, nfunc) is None:
            continue
        chk.oracle_cases += 1
        chk.count("oracle:repeat")
        chk.case(("repeat", ri, nr, nfunc, len(after)))
        polar_oracle(chk, KL, ri, nr, 5 * nr, "nth", nfunc, after=tuple(after))
        after.append("gkl_basis(ri=%r, nr=%d, npp=%d, nfunc=%d)" % (ri, nr, 5 * nr, nfunc))
    for nmax, dim in carts:
        if stopping_order(KL, ri, nr, nmax) is None:
            continue
        chk.oracle_cases += 1
        chk.count("oracle:repeat")
        chk.case(("repeat-cart", ri, nr, nmax, dim, len(after)))
        cart_oracle(chk, KL, nmax, dim, ri, nr, after=tuple(after))
        after.append("make_kl(%d, %d, ri=%r, nr=%d) twice" % (nmax, dim, ri, nr))


def oracle(chk, KL, n_polar, n_cart, nr_hi):
    rng = chk.rng
    quick = chk.tier == "quick"
    for k, (ri, nr, npp, nfunc) in enumerate(CORPUS):
        if quick and k not in CORPUS_QUICK:
            continue
        chk.oracle_cases += 1
        chk.count("oracle:corpus")
        chk.case(("corpus", ri, nr, npp, nfunc), sample={"ri": ri, "nr": nr, "npp": npp, "nfunc": nfunc} if k == 0 else None)
        polar_oracle(chk, KL, ri, nr, npp, "corpus", nfunc)
    for (nmax, dim, ri, nr) in (CORPUS_CART[:CORPUS_CART_QUICK] if quick else CORPUS_CART):
        chk.oracle_cases += 1
        chk.count("oracle:corpus")
        chk.count("oracle:cart:dim%%2=%d" % (dim % 2))
        chk.case(("corpus-cart", nmax, dim, ri, nr))
        cart_oracle(chk, KL, nmax, dim, ri, nr)
    chk.oracle_cases += 1
    chk.count("oracle:documented-call")
    chk.case(("doc-call",) + DOC_CALL)
    cart_oracle(chk, KL, *DOC_CALL)
    reps = list(REPEATS)
    for _ in range(1 if quick else 20):
        nr = rng.randint(4, 10)
        npp = 5 * nr
        lim = max(3, min(60, nr * npp // 8))
        nf = sorted(rng.sample(range(1, lim + 1), 3))
        reps.append((rng.choice([common.dyadic(rng, 1 / 16, 14 / 16, 4), rng.uniform(0.03, 0.9)]), nr, tuple(nf),
                     ((rng.randint(2, min(24, lim)), rng.randint(8, 40)), (rng.randint(2, min(24, lim)), rng.randint(8, 40)))))
    for ri, nr, nfuncs, carts in reps:
        repeat_oracle(chk, KL, ri, nr, nfuncs, carts)
    for it in range(n_polar):
        big = (not quick) and rng.random() < 0.02
        ri, nr, npp, nppk, nfunc = gen_config(rng, 40 if big else nr_hi)
        if stopping_order(KL, ri, nr, nfunc) is None:
            chk.count("oracle:beyond-resolution-limit")
            continue
        chk.oracle_cases += 1
        chk.count("oracle:nr=%d" % nr)
        chk.count("oracle:npp=" + nppk)
        chk.count("oracle:nfunc=" + ("1" if nfunc == 1 else "2..60" if nfunc <= 60 else ">60"))
        chk.case(("polar", ri, nr, npp, nfunc), sample={"ri": ri, "nr": nr, "npp": npp, "nfunc": nfunc} if it < 3 else None)
        b = polar_oracle(chk, KL, ri, nr, npp, nppk, nfunc)
        # no state carried from one call to the next, inputs left alone
        if b is not None and it % 5 == 0:
            rad = KL.gkl_radii(ri, nr)
            kers = KL.gkl_kernel(ri, nr, rad)
            k0 = kers.copy()
            out = _quiet(KL.gkl_fcom, ri, kers, nfunc)
            if not numpy.array_equal(kers, k0):
                chk.fail("inplace:gkl_fcom", "gkl_fcom modified its kernels argument (ri=%r nr=%d nfunc=%d)" % (ri, nr, nfunc),
                         {"ri": ri, "nr": nr, "nfunc": nfunc})
            if not (numpy.array_equal(out[0], b["evals"]) and numpy.array_equal(out[4], b["rabas"])
                    and numpy.array_equal(out[3], b["ord"])):
                chk.fail("repeat:gkl_fcom", "a second identical construction returned different functions (ri=%r nr=%d nfunc=%d)"
                         % (ri, nr, nfunc), {"ri": ri, "nr": nr, "nfunc": nfunc})
    for it in range(n_cart):
        nr = rng.randint(4, min(nr_hi, 14))
        ri = rng.choice([common.dyadic(rng, 1 / 16, 14 / 16, 4), rng.uniform(0.03, 0.9)])
        dim = rng.randint(8, 40)
        npp = int(2 * math.pi * nr)
        nmax = rng.randint(1 if rng.random() < 0.1 else 2, max(2, min(24, (nr * npp) // 15)))
        if stopping_order(KL, ri, nr, nmax) is None:
            chk.count("oracle:beyond-resolution-limit")
            continue
        chk.oracle_cases += 1
        chk.count("oracle:cart:dim%%2=%d" % (dim % 2))
        chk.case(("cart", nmax, dim, ri, nr), sample={"nmax": nmax, "dim": dim, "ri": ri, "nr": nr} if it < 2 else None)
        cart_oracle(chk, KL, nmax, dim, ri, nr)
    chk.notes.append("largest observed / allowed on this run: " + ", ".join(
        "%s %.3g" % (k, v) for k, v in sorted(WORST.items())) + "  (gram, mean: absolute; largest, diag:*: relative; cartesian: "
        "fraction of the resampling-error bound)")


def run(chk):
    from aotools.functions import karhunenLoeve as KL
    quick = chk.tier == "quick"
    WORST.clear()
    _limit_blas_threads(2)
    chk.rule = ("correspondence: Lean model at binary64 vs karhunenLoeve.py on the same (ri, nr, npp, nfunc): radii/piston/azimuthal "
                "tables abs 1e-13, matrices handed to eigh rel 1e-9 of their max (naive DFT vs FFT), glue (order loop, sort, pairing, "
                "scaling) replayed on the eigenpairs the real eigh returned: nus/nord/ord/npo/evals exact, rabas abs 1e-11, pupil "
                "and masking exact, cr abs 1e-12*nr; oracle on the real code (structure function, kernel and spectrum computed on the "
                "oracle side): polar Gram and means 1e-9, variances positive / non-increasing / cos-sin partners equal to 1e-12 rel, "
                "returned variances = the nfunc largest of the oracle-side spectrum of all orders (orders >= 1 twice) 1e-10 rel, "
                "double-average quadratic form vs variances 1e-8 of the largest for npp = 5 nr, else 3 % of the own variance for "
                "dominant functions / 1 % of the largest for all / off-diagonal 1e-3 of the largest; pupil = indicator exactly away "
                "from the rim and flip/transpose-symmetric exactly, masked zero outside exactly, Cartesian value within the "
                "resampling-error bound of R_lin(r) az(m theta); several constructions for one (ri, nr) in one process each checked; "
                "distinct = distinct (ri, nr, npp, nfunc[, dim])")
    chk.assumptions = [
        "numpy.linalg.eigh returns orthonormal eigenvectors with ascending eigenvalues of the symmetric matrix it is given "
        "(theorem hypothesis; checked numerically on every instance of the correspondence run)",
        "numpy.argsort(-evs) returns a permutation ordering the table non-increasingly (theorem hypothesis; checked per instance)",
        "numpy.fft.fft of a real sequence has real part sum_c x_c cos(2 pi p c / n) (model definition; exercised by the "
        "eigh-input correspondence)",
        "numpy.linalg.eigh on the filtered order-0 block: M V = V diag(E) with orthonormal V (hypothesis EigT0 of "
        "diagonalises_order0 / diagonalises_all; checked numerically on every instance of the correspondence run)",
        "NOT PROVED: every selected eigenvalue is positive - hence the piston entry (flat index nr-1, recorded variance 0) is never "
        "selected, which is the hypothesis `x != nr-1` of returned_basis_diagonalises - and the largest eigenvalue belongs to "
        "order 1 (hypothesis of tip_tilt_first_partial); facts about the Kolmogorov kernel's spectrum; oracle only",
        "NOT PROVED: the order loop computes enough orders for the nfunc largest eigenvalues: proved is only that the functions "
        "returned are the largest of the orders computed and that at the stop nfunc computed functions exceed every function of "
        "the last order (selected_are_largest, stop_rule_count); that no LATER order holds a larger variance (decay of the "
        "spectrum with azimuthal order) is ASSERTED by the oracle on every case: returned variances = the nfunc largest of an "
        "oracle-side spectrum of all orders below the kernel's Nyquist order, 1e-10",
        "THE THEOREM diagonalises (and diagonalises_all, returned_basis_diagonalises) REQUIRES npp = nth = 5 nr. make_kl ALWAYS uses "
        "npp = int(2 pi nr) != 5 nr: for the documented driver's output the identity is not exact - the double average runs on "
        "another azimuthal grid than the kernel was integrated on - and is only checked loosely by the oracle (3 % of the own "
        "variance for dominant functions [variance >= 1 % of the largest, azimuthal frequency <= 1/8 of both grids; observed <= "
        "0.6 %], 1 % of the largest variance for every function [observed <= 0.14 %], off-diagonal 1e-3 of the largest [observed "
        "<= 6e-5]); functions of high azimuthal order on thin rings are off by up to 30 % of their own variance there",
        "the structure function of the theorems is a parameter; that the code's is Kolmogorov's 6.8839 r^(5/3) is the theorem "
        "stf_is_kolmogorov about the regenerated definition and, independently, the oracle's literal",
        "NOT PROVED: accuracy of the polar->Cartesian resampling by map_coordinates (oracle: |value - R_lin(r) az(m theta)| within "
        "a bound made of the linear-interpolation error of the sinusoid, 1/8 radial cell of registration [the code registers "
        "radial sample k at r^2 = ri^2 + k d although gkl_radii puts it at ri^2 + (k + 1/16) d: accepted as resampling error], "
        "1/4 of the local second difference, and the extrapolation distance beyond the outermost samples); proved is the "
        "factorisation of bilinear interpolation of a separable table and the periodic closure of the azimuth "
        "(bilinear_separable, wrap_closes_azimuth)",
        "Real.sqrt/cos/sin/pi model numpy's up to IEEE rounding",
    ]
    meta = t1check.regenerate(chk)
    chk.build_and_audit("AoVerif.Props.C13", "AoVerif.Props.C13", REQUIRED)
    if meta is not None:
        try:
            t1check.selfcheck(chk, meta, T1_NAMES, t1_arggen, 5 if quick else 40, rtol=1e-12)
        except common.LeanError as ex:
            chk.broke("translator", "generated Lean does not compile / run", str(ex))
    nr_hi = 12 if quick else 22
    try:
        correspondence(chk, KL, 6 if quick else 150, 10 if quick else 14)
    except common.LeanError as ex:
        chk.broke("correspondence", "the Lean driver of the model does not build / run", str(ex))
    oracle(chk, KL, 30 if quick else 2500, 6 if quick else 300, nr_hi)
