"""C13 — Karhunen-Loeve modes are orthonormal, piston-free and diagonalise the Kolmogorov covariance."""
import contextlib
import io
import math

import numpy

from .. import common, t1check

MANIFEST = {
    "text": "Lean 4 theorems over the real numbers about a model of karhunenLoeve.py (radial grid, azimuthal-Fourier kernel, piston "
            "filter, per-order eigen-decompositions as contract parameters, scaling, selection/sorting/pairing, azimuthal tables, "
            "polar synthesis, annulus mask, order-1 rendering on the table closed in azimuth): piston_orth is orthogonal for every "
            "nr, order-0 modes have zero mean, the polar Gram "
            "matrix is the identity, returned variances are non-increasing with equal cos/sin pairs, -1/2 x double pupil average "
            "of K_i D K_j = diag(variances) for npp = nth = 5 nr (NOT the npp = int(2 pi nr) of make_kl, where it holds only up to a "
            "quadrature difference the oracle bounds loosely) and ALL azimuthal orders, the piston-filtered order 0 included (any "
            "structure function; the code's is 6.8839 r^(5/3): stf_is_kolmogorov), distinct positions of the returned basis are "
            "distinct (order, radial index) pairs, hence the "
            "basis as returned (positions of oind) is orthonormal and diagonalises; the first two functions are one cos/sin pair "
            "of equal variance whenever the largest eigenvalue is of order >= 1 (R(r) sin/cos theta when of order 1); the returned "
            "functions are the largest of the computed orders and the stop rule's count is what the loop establishes; pupil = annulus "
            "indicator, masked rendering vanishes outside, the rendering of a separable polar function factorises and interpolates "
            "across phi = 0 (repaired code); for all nr, ri, nfunc and every eigh/argsort output meeting the "
            "stated contract. The constants d, fnorm, fktom and the "
            "structure function are regenerated from the source each run (translator T1); the model is executed at binary64 "
            "against the real code with the eigenpairs the real eigh returned; a direct oracle on the real code, with its own "
            "Kolmogorov structure function, kernel and spectrum, supplies failing inputs.",
    "note": "Trusted: Lean kernel + propext/Classical.choice/Quot.sound; Mathlib's Real.sqrt/cos/sin/pi; numpy.linalg.eigh, "
            "numpy.argsort, numpy.fft.fft and scipy map_coordinates are contract parameters (eigh/argsort contracts re-checked "
            "numerically on every instance run; order-1 map_coordinates against the model's bilinear formula at sampled pixels). "
            "Not proved: positivity of the selected eigenvalues (which is what keeps the "
            "piston entry out of the selection) and that the largest eigenvalue is of order 1 (facts "
            "about the Kolmogorov spectrum), accuracy of the polar->Cartesian resampling, that no order after the loop's stop "
            "holds a larger variance (asserted by the oracle on every case against an independent spectrum of all orders).",
    "technique": "Lean 4 proof over a hand-written model with translated constants + differential correspondence at binary64 "
                 "(glue replayed on the real eigenpairs) + oracle search on the real code",
}
REQUIRED = ["pupil_is_annulus", "pupil_zero_or_one", "masked_zero_outside", "masked_id_inside", "evals_sorted", "pair_adjacent",
            "piston_orth_orthogonal", "piston_orth_columns", "freq_oordAt", "order0_zero_mean", "piston_variance_zero",
            "higher_order_zero_mean", "polar_orthonormal", "quad_of_eig", "kernel_eq", "diagonalises_partial",
            "halfDist_periodic", "halfDist_even", "Dent_eq", "rdftRe_eq", "azimuthal_block", "diagonalises",
            # round 2
            "modes_distinct", "modes_distinct_flat", "first_pair_equal", "tip_tilt_first_partial",
            "Dent_symm", "quad_split", "azimuthal_block0", "azimuthal_block0'", "rdft_eq_kernel",
            "diagonalises_order0_same", "diagonalises_order0_cross", "diagonalises_order0", "diagonalises_all",
            "returned_basis_diagonalises", "returned_basis_orthonormal", "piston_not_selected_partial",
            "returned_basis_zero_mean",
            # round 3
            "stf_is_kolmogorov", "wrapCol_inside", "bilinear_separable", "wrap_closes_azimuth", "wrap_other_cells",
            "cpCoord_range", "selected_are_largest", "stop_rule_count"]
T1_NAMES = ["kl_radii_d", "kl_fnorm", "kl_fktom", "kl_stf_kolmogorov"]

MAT_TOL = 1e-9         # eigh input matrices: FFT vs naive DFT, libm pow


def _limit_blas_threads(n):
    """Best effort, never changes a verdict: the oracle does thousands of small matrix products / eigen-decompositions; with
    OpenBLAS's default of one spinning thread per core they run 100x slower on a busy machine (measured 42 s vs 0.17 s for
    one double sum).  Looks up the OpenBLAS already loaded by numpy and asks it for `n` threads."""
    try:
        import ctypes
        seen = set()
        with open("/proc/self/maps") as fh:
            for line in fh:
                path = line.split()[-1]
                if "openblas" in path and path not in seen:
                    seen.add(path)
                    lib = ctypes.CDLL(path)
                    for name in ("scipy_openblas_set_num_threads64_", "scipy_openblas_set_num_threads", "openblas_set_num_threads64_",
                                 "openblas_set_num_threads"):
                        fn = getattr(lib, name, None)
                        if fn is not None:
                            fn(ctypes.c_int(n))
                            break
    except Exception:
        pass


def _quiet(fn, *a, **k):
    with contextlib.redirect_stdout(io.StringIO()):
        return fn(*a, **k)


def t1_arggen(name, rng):
    return {"ri": rng.uniform(0.01, 0.99), "nr": float(rng.randint(2, 60)), "r": math.exp(rng.uniform(-6, 1))}


class Spy:
    """records what numpy.linalg.eigh / numpy.argsort returned to the library during one call"""

    def __init__(self):
        self.eigh, self.argsort = [], []

    def __enter__(self):
        self.o_eigh, self.o_argsort = numpy.linalg.eigh, numpy.argsort

        def eigh(m, *a, **k):
            w, v = self.o_eigh(m, *a, **k)
            self.eigh.append((numpy.array(m, dtype=float, copy=True), numpy.array(w, copy=True), numpy.array(v, copy=True)))
            return w, v

        def argsort(x, *a, **k):
            r = self.o_argsort(x, *a, **k)
            self.argsort.append((numpy.array(x, copy=True), numpy.array(r, copy=True)))
            return r
        numpy.linalg.eigh, numpy.argsort = eigh, argsort
        return self

    def __exit__(self, *exc):
        numpy.linalg.eigh, numpy.argsort = self.o_eigh, self.o_argsort
        return False


def gen_config(rng, nr_hi, big=True):
    nr = rng.choice([2, 3, 4, 5]) if rng.random() < 0.25 else rng.randint(6, nr_hi)
    kind = rng.choice(["dyadic", "uniform", "small", "large"])
    if kind == "dyadic":
        ri = common.dyadic(rng, 1 / 16, 15 / 16, 4)
    elif kind == "uniform":
        ri = rng.uniform(0.05, 0.9)
    elif kind == "small":
        ri = rng.uniform(0.005, 0.05)
    else:
        ri = rng.uniform(0.9, 0.99)
    nppk = rng.choice(["nth", "nth", "2pi", "other"])
    npp = {"nth": 5 * nr, "2pi": int(2 * math.pi * nr), "other": rng.randint(4 * nr, 8 * nr)}[nppk]
    # the code's own resolution criterion: nr*npp/nfunc >= 8
    lim = max(2, (nr * npp) // 8)
    u = rng.random()
    if u < 0.06:
        nfunc = 1
    elif u < 0.2 and lim > 60 and big:
        nfunc = rng.randint(61, min(lim, 400))
    else:
        nfunc = rng.randint(2, min(60, lim))
    return ri, nr, npp, nppk, nfunc


# --------------------------------------------------------------------------- oracle-side reference
# Nothing in this block is taken from the module under test except the radial grid the basis itself reports.
def kolmogorov(r):
    """the Kolmogorov phase structure function D(r) = 6.8839 (r/r0)^(5/3), r in units of r0 (oracle-side literal)"""
    return 6.8839 * r ** (5.0 / 3.0)


_SPEC = {}


def ref_spectrum(ri, nr, rad):
    """Variances of the Karhunen-Loeve functions of every azimuthal order below the Nyquist order of the construction's
    azimuthal grid (nth = 5 nr), computed independently: L^p[a, a'] = -1/2 . 1/(2 pi (1-ri^2)) . (2 pi/nth) . sum_c D(half the
    distance between ring points (a, 0) and (a', c)) cos(2 pi p c/nth) by an explicit cosine sum, times the ring area
    (1-ri^2)/nr; order 0 restricted to the orthogonal complement of the constant (any orthonormal basis of it: QR)."""
    rad = numpy.asarray(rad, dtype=float)
    key = (float(ri), int(nr), rad.tobytes())
    if key in _SPEC:
        return _SPEC[key]
    nth = 5 * nr
    cs = numpy.cos(2 * numpy.pi * numpy.arange(nth) / nth)
    d2 = (rad ** 2)[:, None, None] + (rad ** 2)[None, :, None] - 2 * rad[:, None, None] * rad[None, :, None] * cs[None, None, :]
    D = kolmogorov(0.5 * numpy.sqrt(numpy.maximum(d2, 0.0)))
    orders = numpy.arange((nth + 1) // 2)
    C = numpy.cos(2 * numpy.pi * numpy.outer(numpy.arange(nth), orders) / nth)
    L = (-0.5 / (2 * numpy.pi * (1 - ri ** 2))) * (2 * numpy.pi / nth) * (D @ C)
    L = 0.5 * (L + L.transpose(1, 0, 2)) * ((1 - ri ** 2) / nr)
    q, _ = numpy.linalg.qr(numpy.column_stack([numpy.ones(nr), numpy.eye(nr)[:, :nr - 1]]))
    B = q[:, 1:]
    spec = [numpy.linalg.eigvalsh(B.T @ L[:, :, 0] @ B)] + [numpy.linalg.eigvalsh(L[:, :, t]) for t in orders[1:]]
    if len(_SPEC) > 64:
        _SPEC.clear()
    _SPEC[key] = spec
    return spec


def largest_variances(spec, nfunc):
    """the nfunc largest variances, every order >= 1 counted twice (cos and sin)"""
    allv = numpy.concatenate([spec[0]] + [numpy.repeat(e, 2) for e in spec[1:]])
    return numpy.sort(allv)[::-1][:nfunc]


def stopping_order(KL, ri, nr, nfunc):
    """Resolution limit of the construction: the first azimuthal order t, strictly below the Nyquist order nth/2 of the kernel's
    azimuthal grid (beyond it the kernel's Fourier coefficients repeat: L^p = L^(nth-p)), after which nfunc functions have a larger
    eigenvalue than every function of order t.  None: nfunc is beyond what (ri, nr) can resolve - outside the property's domain.
    Computed from the oracle-side spectrum, independently of gkl_kernel / gkl_fcom."""
    spec = ref_spectrum(ri, nr, KL.gkl_radii(ri, nr))
    for t in range(1, len(spec)):
        mx = spec[t].max()
        if 2 * sum(int((e > mx).sum()) for e in spec[:t + 1]) - int((spec[0] > mx).sum()) >= nfunc:
            return t
    return None


def quad_forms(F, rad, npp, block=1500000):
    """-1/2 x the double pupil average of F_i(x) D(|x - x'|) F_j(x') over the polar grid (rad x npp equally spaced angles),
    D the oracle-side Kolmogorov structure function of half the distance (the construction's length unit); row blocks keep
    the N x N distance table out of memory"""
    nf = F.shape[0]
    Fm = F.reshape(nf, -1)
    th = numpy.arange(npp) * 2 * numpy.pi / npp
    X = (rad[:, None] * numpy.cos(th)[None]).ravel()
    Y = (rad[:, None] * numpy.sin(th)[None]).ravel()
    N = X.size
    step = max(1, block // N)
    DF = numpy.empty((N, nf))
    for a in range(0, N, step):
        dist = numpy.sqrt((X[a:a + step, None] - X[None]) ** 2 + (Y[a:a + step, None] - Y[None]) ** 2)
        DF[a:a + step] = kolmogorov(0.5 * dist) @ Fm.T
    return -0.5 * (Fm @ DF) / float(N) ** 2


def quad_forms_rot(F, rad, npp):
    """the same double sum as quad_forms, organised by the rotational symmetry of the polar grid: the distance between grid points
    (a, b) and (a', b') depends on b' - b only, so the sum over (b, b') is a circular correlation (evaluated through numpy's
    FFT): nr^2 npp structure-function values instead of (nr npp)^2.  Used for large grids; validated against quad_forms on the
    small ones of every run (oracle self-check)"""
    nf, nr, _ = F.shape
    cs = numpy.cos(2 * numpy.pi * numpy.arange(npp) / npp)
    d2 = (rad ** 2)[:, None, None] + (rad ** 2)[None, :, None] - 2 * rad[:, None, None] * rad[None, :, None] * cs[None, None, :]
    # (k, a, a'); D is even in b' - b
    FD = numpy.ascontiguousarray(numpy.fft.fft(kolmogorov(0.5 * numpy.sqrt(numpy.maximum(d2, 0.0))), axis=2).transpose(2, 0, 1))
    FF = numpy.ascontiguousarray(numpy.fft.fft(F, axis=2).transpose(2, 0, 1))                # (k, i, a)
    Q = numpy.zeros((nf, nf))
    for k in range(npp):
        Q += (FF[k].conj() @ FD[k] @ FF[k].T).real
    return -0.5 * Q / npp / float(nr * npp) ** 2


# --------------------------------------------------------------------------- correspondence
def correspondence(chk, KL, n_cases, nr_hi):
    rng = chk.rng
    lines, checks = [], []

    def op(line, fn):
        lines.append(line)
        checks.append(fn)

    def cmp_floats(what, expect, tol_abs, desc):
        expect = numpy.asarray(expect, dtype=float).ravel()

        def fn(ans):
            if ans in ("bad-op",) or not ans or ans[0] not in "0123456789abcdef":
                return "%s: driver answered %r on %s" % (what, ans[:60], desc)
            got = numpy.array([common.h2f(t) for t in ans.split()])
            if got.shape != expect.shape:
                return "%s: %d values from the model, %d from the code on %s" % (what, got.size, expect.size, desc)
            err = numpy.abs(got - expect).max() if got.size else 0.0
            if not err <= tol_abs:
                k = int(numpy.argmax(numpy.abs(got - expect)))
                return "%s: model %r vs code %r at flat index %d (tol %.1e) on %s" % (what, got[k], expect[k], k, tol_abs, desc)
            return None
        return fn

    for it in range(n_cases):
        ri, nr, npp, nppk, nfunc = gen_config(rng, nr_hi, big=False)
        desc = {"ri": ri, "nr": nr, "npp": npp, "nfunc": nfunc}
        if stopping_order(KL, ri, nr, nfunc) in (None, -1):
            chk.count("corr:beyond-resolution-limit-or-not-finite")
            continue
        chk.count("corr:nr=%d" % nr)
        chk.count("corr:npp=" + nppk)
        with Spy() as spy:
            try:
                b = _quiet(KL.gkl_basis, ri, nr, npp, nfunc)
            except Exception as ex:   # the oracle reports construction failures; nothing to compare here
                chk.count("corr:construction-raised:" + type(ex).__name__)
                continue
        if len(spy.eigh) < 2 or len(spy.argsort) < 1:
            # the library no longer reaches eigh / argsort through the attributes numpy.linalg.eigh / numpy.argsort
            # (e.g. `from numpy.linalg import eigh`): nothing was recorded, the glue cannot be replayed - HOW, not WHAT
            chk.broke("correspondence", "the spy on numpy.linalg.eigh / numpy.argsort recorded %d / %d calls during gkl_basis "
                      "(>= 2 / 1 expected): the model's eigh/argsort parameters cannot be tied to the code on %s"
                      % (len(spy.eigh), len(spy.argsort), desc))
            break
        chk.case(("corr", ri, nr, npp, nfunc), sample=dict(desc, op="glue") if it < 3 else None)
        # --- contracts of the external kernels, on the instances the library saw
        for t, (m, w, v) in enumerate(spy.eigh):
            sc = max(numpy.abs(m).max(), 1e-300)
            # (the order-0 block is a difference of much larger numbers: its asymmetry is ~1e-11 of its size for thin rings)
            ok = (numpy.abs(m - m.T).max() <= 1e-8 * sc and numpy.all(numpy.diff(w) >= 0)
                  and numpy.abs(v.T @ v - numpy.eye(len(w))).max() <= 1e-10
                  and numpy.abs(m @ v - v * w).max() <= 1e-8 * sc)
            if not ok:
                chk.broke("correspondence", "eigh contract (symmetric input, ascending eigenvalues, orthonormal columns, A V = V diag) "
                          "not met on the order-%d matrix of %s" % (t, desc))
        nus = len(spy.eigh) - 1
        flat = numpy.concatenate([numpy.append(spy.eigh[0][1], 0.0)] + [spy.eigh[t][1] for t in range(1, nus)]) \
            if nus >= 1 else numpy.zeros(0)
        if len(spy.argsort) != 1 or sorted(spy.argsort[0][1].tolist()) != list(range(nr * nus)) \
                or numpy.any(numpy.diff(flat[spy.argsort[0][1]]) > 0):
            chk.broke("correspondence", "argsort contract (a permutation ordering the eigenvalue table non-increasingly) not met on %s" % desc)
        # --- model vs code
        op("C13 radii %s %d" % (common.f2h(ri), nr), cmp_floats("gkl_radii", KL.gkl_radii(ri, nr), 1e-13, desc))
        op("C13 piston %d" % nr, cmp_floats("piston_orth", KL.piston_orth(nr), 1e-13, desc))
        ts = [0, 1] + ([rng.randint(2, nus)] if nus >= 2 else [])
        for t in ts:
            m = spy.eigh[t][0]
            op("C13 mat %s %d %d" % (common.f2h(ri), nr, t),
               cmp_floats("matrix handed to eigh for order %d" % t, m, MAT_TOL * numpy.abs(m).max(), desc))
        wire = []
        for t, (m, w, v) in enumerate(spy.eigh):
            wire += list(w) + list(v.ravel())
        glue_line = "C13 glue %d %d %d %s" % (nr, nfunc, nus, " ".join(common.f2h(x) for x in wire))

        def glue_fn(ans, b=b, nus=nus, nr=nr, nfunc=nfunc, desc=desc):
            parts = [p.split() for p in ans.split(";")]
            if len(parts) != 5:
                return "glue: model answered %r, the code selected %d orders on %s" % (ans[:40], nus, desc)
            if int(parts[0][0]) != nus:
                return "glue: model stops the order loop at nus=%s, the code at %d on %s" % (parts[0][0], nus, desc)
            if int(parts[0][1]) != int(b["nord"]):
                return "glue: nord model %s code %d on %s" % (parts[0][1], b["nord"], desc)
            ev = numpy.array([common.h2f(x) for x in parts[1]])
            if ev.shape != b["evals"].shape or not numpy.array_equal(ev, b["evals"]):
                return "glue: evals differ (model %s.. code %s..) on %s" % (ev[:4], b["evals"][:4], desc)
            if [int(x) for x in parts[2]] != [int(x) for x in b["ord"]]:
                return "glue: ord model %s code %s on %s" % (parts[2], list(b["ord"]), desc)
            if [int(x) for x in parts[3]] != [int(x) for x in b["npo"]]:
                return "glue: npo model %s code %s on %s" % (parts[3], list(b["npo"]), desc)
            rab = numpy.array([common.h2f(x) for x in parts[4]]).reshape(nr, nfunc)
            if not numpy.abs(rab - b["rabas"]).max() <= 1e-11 * max(1.0, numpy.abs(b["rabas"]).max()):
                return "glue: rabas differs by %r on %s" % (numpy.abs(rab - b["rabas"]).max(), desc)
            return None
        op(glue_line, glue_fn)
        op("C13 azi %d %d" % (b["nord"], npp), cmp_floats("gkl_azimuthal", KL.gkl_azimuthal(b["nord"], npp), 1e-13, desc))
        i = rng.randrange(nfunc)
        op("C13 sfi %d %d %d %d %s" % (nr, npp, b["nord"], b["ord"][i], " ".join(common.f2h(x) for x in b["rabas"][:, i])),
           cmp_floats("gkl_sfi(%d)" % i, KL.gkl_sfi(b, i), 1e-12 * max(1.0, numpy.abs(b["rabas"]).max()), desc))
        # --- Cartesian geometry (dyadic ri: ri**2 exact, comparisons bit-identical)
        rid = common.dyadic(rng, 1 / 16, 15 / 16, 4)
        ncp, ncmar = rng.randint(4, 24), rng.choice([0, 0, 1, 2])
        if ncp - 2 * ncmar >= 2:
            try:
                g = KL.pcgeom(nr, npp, ncp, rid, ncmar)
            except Exception as ex:      # reported by the oracle (construction failure), nothing to compare here
                chk.count("corr:pcgeom-raised:" + type(ex).__name__)
                continue
            gd = dict(ri=rid, nr=nr, npp=npp, ncp=ncp, ncmar=ncmar)
            exp_ap = numpy.asarray(g["ap"]).astype(int).ravel()

            def pup_fn(ans, exp_ap=exp_ap, gd=gd):
                try:
                    got = numpy.array([int(x) for x in ans.split()])
                except ValueError:
                    return "pupil: driver answered %r on %s" % (ans[:40], gd)
                if got.shape != exp_ap.shape or not numpy.array_equal(got, exp_ap):
                    return "pupil: model and pcgeom['ap'] differ on %s" % gd
                return None
            op("C13 pupil %s %d %d" % (common.f2h(rid), ncp, ncmar), pup_fn)
            op("C13 cr %s %d %d %d" % (common.f2h(rid), nr, ncp, ncmar), cmp_floats("pcgeom cr", g["cr"], 1e-12 * nr, gd))
            pol = numpy.random.default_rng(rng.getrandbits(32)).normal(size=(nr, npp))
            un = KL.pol2car(g, pol, mask=False)
            op("C13 masked %s %d %d %s" % (common.f2h(rid), ncp, ncmar, " ".join(common.f2h(x) for x in un.ravel())),
               cmp_floats("pol2car(mask=True)", KL.pol2car(g, pol, mask=True), 0.0, gd))
            chk.count("corr:ncmar=%d" % ncmar)
            # azimuthal coordinate (clip of the repaired pcgeom) and the order-1 rendering on the table closed in azimuth
            # (repaired pol2car), at pixels spread over the array, those next to the +x axis (the closing cell) included
            ax = (numpy.arange(ncp * ncp).reshape(ncp, ncp) % ncp - 0.5 * (ncp - 1)) / (0.5 * (ncp - 2 * ncmar))
            phi = (npp / (2 * numpy.pi)) * ((numpy.arctan2(ax.T, ax) + 2 * numpy.pi) % (2 * numpy.pi))   # pcgeom's expression
            op("C13 cp %d %s" % (npp, " ".join(common.f2h(x) for x in phi.ravel())),
               cmp_floats("pcgeom cp", g["cp"], 1e-12 * npp, gd))      # to rounding: φ·npp/2π may be associated differently
            rows = numpy.repeat(numpy.arange(ncp), 3)
            pix = [(int(r), int(c)) for r, c in zip(rows, [rng.randrange(ncp) for _ in rows])]
            pix += [(r, ncp - 1 - k) for r in (ncp // 2 - 1, ncp // 2) for k in (0, 1, 2) if ncp - 1 - k > ncp // 2]
            crs = [g["cr"][r, c] for r, c in pix]
            cps = [g["cp"][r, c] for r, c in pix]
            op("C13 render %d %d %d %s" % (nr, npp, len(pix), " ".join(common.f2h(x) for x in crs + cps + list(pol.ravel()))),
               cmp_floats("pol2car(mask=False) at %d pixels" % len(pix), [un[r, c] for r, c in pix],
                          1e-12 * numpy.abs(pol).max(), gd))
    ans = common.run_driver(lines, "C13")
    bad = 0
    for line, a, fn in zip(lines, ans, checks):
        chk.corr_cases += 1
        chk.count("op:" + line.split()[1])
        msg = fn(a)
        if msg:
            bad += 1
            if bad <= 4:
                chk.broke("correspondence", msg, line[:400])
    return bad


# --------------------------------------------------------------------------- oracle (the property on the real code)
GRAM_TOL = 1e-9        # observed 3e-15 on the clean tree; every mutation considered moves it by >= 1e-3
DIAG_TOL = 1e-8        # npp = nth: relative to the largest variance; observed <= 3e-15 (10 seeds)
TOP_TOL = 1e-10        # returned variances vs the oracle-side nfunc largest, relative to the largest; observed <= 2e-14
RADII_TOL = 1e-12      # radp^2 evenly spaced by (1 - ri^2)/nr: absolute (r <= 1); observed <= 4.5e-16 (10 quick seeds + thorough)
PAIR_TOL = 1e-12       # cos/sin partners: variances and radial functions agree to this relative error; observed 0
# npp != nth (make_kl always: npp = int(2 pi nr)): the double average is taken on another azimuthal grid than the one the
# kernel was integrated on, the identity holds up to that quadrature difference only.  Observed on the repaired tree, 10 seeds x
# ~118 configurations: dominant functions (variance >= 1 % of the largest, azimuthal frequency <= 1/8 of both grids) off by
# <= 0.57 % of their own variance; any function off by <= 0.14 % of the largest variance; off-diagonal <= 5.7e-5 of the largest
LOOSE_DIAG_OWN = 0.03
LOOSE_DIAG_ALL = 0.01
LOOSE_OFF = 1e-3
QUAD_MAX_POINTS = 25000     # N = nr*npp of the double pupil average
QUAD_BRUTE_POINTS = 2600    # up to here brute force (N^2 structure-function values), beyond organised by rotational symmetry
# Cartesian rendering vs the polar function at the pixel's (r, theta): bound on the resampling error, see cart_follows_polar
REG_CELLS = 0.125      # radial registration allowance, in radial cells (the code's own offset is 1/16 cell)
CURV_FACTOR = 0.5      # x local second difference of the radial samples (linear interpolation error is 1/8 of it)
WORST = {}


def _worst(name, v):
    WORST[name] = max(WORST.get(name, 0.0), float(v))


def check_polar_basis(chk, KL, b, ri, nr, npp, nfunc, bad, diag=True):
    """the polar part of the property on one returned basis `b` (gkl_basis output / make_kl's polar_base)"""
    try:
        F = numpy.array([KL.gkl_sfi(b, i) for i in range(nfunc)])
    except Exception as ex:
        bad("construct:gkl_sfi:" + type(ex).__name__, "gkl_sfi raised %s: %s" % (type(ex).__name__, ex))
        return False
    if not (numpy.all(numpy.isfinite(F)) and numpy.all(numpy.isfinite(b["evals"]))):
        bad("not-finite", "returned functions / variances contain non-finite values")
        return False
    ev, oo, rab = numpy.asarray(b["evals"], dtype=float), [int(x) for x in b["ord"]], numpy.asarray(b["rabas"], dtype=float)
    if F.shape != (nfunc, nr, npp) or ev.shape != (nfunc,) or rab.shape != (nr, nfunc) or len(oo) != nfunc:
        bad("shape", "shapes: functions %s, evals %s, rabas %s" % (F.shape, ev.shape, rab.shape))
        return False
    tmax = (max(oo) + 1) // 2
    if 2 * tmax >= npp:      # beyond the azimuthal Nyquist limit of the polar grid: outside the stated domain
        chk.count("oracle:beyond-azimuthal-resolution")
        return True
    # orthonormal over the pupil
    G = numpy.einsum("iab,jab->ij", F, F) / (nr * npp)
    E = numpy.abs(G - numpy.eye(nfunc))
    _worst("gram", E.max())
    if not E.max() <= GRAM_TOL:
        i, j = numpy.unravel_index(numpy.argmax(E), E.shape)
        bad("gram:" + ("diagonal" if i == j else "offdiagonal"),
            "polar Gram matrix entry (%d,%d) is %r, expected %d" % (i, j, G[i, j], int(i == j)))
    # piston-free
    mu = F.mean(axis=(1, 2))
    _worst("mean", numpy.abs(mu).max())
    if not numpy.abs(mu).max() <= GRAM_TOL:
        bad("mean", "function %d has pupil mean %r" % (int(numpy.argmax(numpy.abs(mu))), mu[numpy.argmax(numpy.abs(mu))]))
    # variances: positive, non-increasing, tip/tilt first and equal, cos/sin pairs
    if not numpy.all(ev > 0):
        bad("evals:positive", "returned variance %d is %r" % (int(numpy.argmin(ev)), ev.min()))
    if numpy.any(numpy.diff(ev) > 0):
        k = int(numpy.argmax(numpy.diff(ev)))
        bad("evals:order", "returned variances increase at %d: %r < %r" % (k, ev[k], ev[k + 1]))

    def same(i, j):
        return (abs(ev[i] - ev[j]) <= PAIR_TOL * abs(ev[i])
                and numpy.abs(rab[:, i] - rab[:, j]).max() <= PAIR_TOL * max(numpy.abs(rab[:, i]).max(), 1e-300))
    if nfunc >= 2 and not (sorted(oo[:2]) == [1, 2] and same(0, 1)):
        bad("tiptilt", "first two functions are not the equal-variance tip/tilt pair: ord %s evals %s" % (oo[:2], ev[:2]))
    if nfunc == 1 and oo[0] not in (1, 2):
        bad("tiptilt", "the single function returned is not tip or tilt: ord %s" % oo[:1])
    i = 0
    while i < nfunc:
        if oo[i] == 0:
            i += 1
            continue
        if i == nfunc - 1:
            break
        t = (oo[i] + 1) // 2
        if not (sorted((oo[i], oo[i + 1])) == [2 * t - 1, 2 * t] and same(i, i + 1)):
            bad("evals:pair", "functions %d,%d are not a cos/sin pair of one radial function: ord %s evals %s"
                % (i, i + 1, oo[i:i + 2], ev[i:i + 2]))
            break
        i += 2
    rad = numpy.asarray(b["radp"], dtype=float)
    # the returned functions are the nfunc of largest variance (orders >= 1 counted twice): against the oracle-side spectrum of
    # ALL orders below the kernel's Nyquist order - this is what the order loop's stop rule has to guarantee
    if rad.shape == (nr,) and numpy.all(numpy.isfinite(rad)):
        # round 5 - the native grid is the equal-area one the uniform pupil averages above presuppose: the reported radii squared are
        # evenly spaced by (1 - ri^2)/nr, the first within the first ring (whatever offset inside the ring the code chooses)
        d_ring = (1.0 - float(ri) ** 2) / nr
        r2 = rad ** 2
        dev = float(numpy.abs(numpy.diff(r2) - d_ring).max()) if nr >= 2 else 0.0
        _worst("radii:equal-area", dev)
        if not (dev <= RADII_TOL and float(ri) ** 2 - RADII_TOL <= r2[0] <= float(ri) ** 2 + d_ring + RADII_TOL):
            bad("radii:equal-area", "the basis' radial grid radp is not one point per ring of equal area between ri and 1: radp^2 = %s..., "
                "ring area (1 - ri^2)/nr = %r, ri^2 = %r (largest deviation of a step %.3g)" % (r2[:3].tolist(), d_ring, float(ri) ** 2, dev))
        top = largest_variances(ref_spectrum(ri, nr, rad), nfunc)
        dv = numpy.abs(ev - top)
        _worst("largest", dv.max() / top[0])
        if not dv.max() <= TOP_TOL * top[0]:
            k = int(numpy.argmax(dv))
            bad("evals:largest", "returned variance %d is %r but the %d-th largest variance of the Karhunen-Loeve functions of "
                "this pupil (oracle-side spectrum, all azimuthal orders, cos/sin counted twice) is %r"
                % (k, float(ev[k]), k + 1, float(top[k])))
    else:
        bad("shape", "radp is not a finite vector of nr radii")
        return False
    # diagonalises the Kolmogorov covariance (oracle-side structure function): exact identity when the azimuthal grids coincide
    if diag and nr * npp <= QUAD_MAX_POINTS:
        if nr * npp <= QUAD_BRUTE_POINTS:
            Q = quad_forms(F, rad, npp)
            if WORST.get("n:selfcheck", 0) < 8:          # oracle self-check: both evaluations of the double sum agree
                WORST["n:selfcheck"] = WORST.get("n:selfcheck", 0) + 1
                dself = numpy.abs(Q - quad_forms_rot(F, rad, npp)).max() / max(numpy.abs(Q).max(), 1e-300)
                if not dself <= 1e-10:
                    raise RuntimeError("C13 oracle self-check: brute-force and rotation-organised double sums differ by %r" % dself)
        else:
            Q = quad_forms_rot(F, rad, npp)
        sc = max(abs(ev).max(), 1e-300)
        dq = numpy.abs(numpy.diag(Q) - ev)
        off = numpy.abs(Q - numpy.diag(numpy.diag(Q)))
        if npp == 5 * nr:
            _worst("diag:exact", max(dq.max(), off.max()) / sc)
            if not dq.max() <= DIAG_TOL * sc:
                k = int(numpy.argmax(dq))
                bad("diag:diagonal", "-1/2 <K_%d D K_%d> = %r but the returned variance is %r" % (k, k, float(Q[k, k]), float(ev[k])))
            if not off.max() <= DIAG_TOL * sc:
                i, j = numpy.unravel_index(numpy.argmax(off), off.shape)
                bad("diag:offdiagonal", "-1/2 <K_%d D K_%d> = %r, not 0 (largest variance %r)" % (i, j, float(Q[i, j]), float(sc)))
            chk.count("oracle:diagonalisation:exact")
        else:
            m = (numpy.array(oo) + 1) // 2
            dom = (ev >= 0.01 * sc) & (8 * m <= min(npp, 5 * nr))
            rel = numpy.where(dom, dq / numpy.maximum(ev, 1e-300), 0.0)
            _worst("diag:loose-own", rel.max())
            _worst("diag:loose-all", dq.max() / sc)
            _worst("diag:loose-off", off.max() / sc)
            if not rel.max() <= LOOSE_DIAG_OWN:
                k = int(numpy.argmax(rel))
                bad("diag:diagonal:loose", "-1/2 <K_%d D K_%d> = %r but the returned variance is %r (off by %.1f %%; npp != 5 nr, "
                    "quadrature difference allowance %.0f %%)" % (k, k, float(Q[k, k]), float(ev[k]), 100 * rel[k], 100 * LOOSE_DIAG_OWN))
            elif not dq.max() <= LOOSE_DIAG_ALL * sc:
                k = int(numpy.argmax(dq))
                bad("diag:diagonal:loose", "-1/2 <K_%d D K_%d> = %r but the returned variance is %r (difference %.2g of the "
                    "largest variance %r)" % (k, k, float(Q[k, k]), float(ev[k]), dq[k] / sc, float(sc)))
            if not off.max() <= LOOSE_OFF * sc:
                i, j = numpy.unravel_index(numpy.argmax(off), off.shape)
                bad("diag:offdiagonal:loose", "-1/2 <K_%d D K_%d> = %r, not 0 within %.0e of the largest variance %r"
                    % (i, j, float(Q[i, j]), LOOSE_OFF, float(sc)))
            chk.count("oracle:diagonalisation:loose")
    return True


def polar_oracle(chk, KL, ri, nr, npp, nppk, nfunc, after=()):
    rep = {"ri": ri, "nr": nr, "npp": npp, "nfunc": nfunc, "call": "gkl_basis(ri, nr, npp, nfunc)"}
    ctx = "gkl_basis(ri=%r, nr=%d, npp=%d, nfunc=%d)" % (ri, nr, npp, nfunc)
    if after:
        rep["after_in_same_process"] = list(after)
        ctx += " after " + "; ".join(after)

    def bad(key, what):
        chk.fail(key, "%s [%s]" % (what, ctx), rep)
    kers = KL.gkl_kernel(ri, nr, KL.gkl_radii(ri, nr))
    if not numpy.all(numpy.isfinite(kers)):
        i, j, p = numpy.argwhere(~numpy.isfinite(kers))[0]
        bad("kernel:not-finite", "gkl_kernel(ri, nr, gkl_radii(ri, nr))[%d, %d, %d] is %r (%d non-finite entries)"
            % (i, j, p, kers[i, j, p], int((~numpy.isfinite(kers)).sum())))
    try:
        b = _quiet(KL.gkl_basis, ri, nr, npp, nfunc)
    except Exception as ex:
        bad("construct:gkl_basis:" + type(ex).__name__, "construction raised %s: %s" % (type(ex).__name__, ex))
        return None
    if not check_polar_basis(chk, KL, b, ri, nr, npp, nfunc, bad):
        return None
    return b


def cart_follows_polar(pb, i, ri, nr, npp, cpos, th):
    """Reference value and resampling-error bound of function i at pixels with radial cell coordinate `cpos` and azimuth `th`.

    The polar function is R_k x az(m theta_j) with the radial samples R_k at the radii the basis reports (cell coordinate
    s_k = (radp_k^2 - ri^2)/(1 - ri^2) nr) and az = 1 / cos / sin.  Reference: R_lin(c) az(m theta), R_lin the piecewise linear
    interpolant of (s_k, R_k), held constant beyond the first/last sample, az evaluated exactly.  Bound:
      |R_lin(c)| (1 - cos(m h/2))     sup error of piecewise linear interpolation of a unit sinusoid of order m on the step
                                      h = 2 pi/npp (every interpolation order >= 1 stays below it)
      + REG_CELLS    x the largest |R_k+1 - R_k| over the pixel's radial cell and its two neighbours (radial registration)
      + CURV_FACTOR  x the largest |second difference| of R at the four nodes around the cell (linear vs smoother interpolants)
      + distance beyond the first/last sample x the end cell's |difference| (any extrapolation between constant and linear);
    the three radial terms are multiplied by |az| + (1 - cos(m h/2)), the size of any interpolant of the azimuthal factor."""
    o = int(pb["ord"][i])
    m = (o + 1) // 2
    Rk = numpy.asarray(pb["rabas"], dtype=float)[:, i]
    s = (numpy.asarray(pb["radp"], dtype=float) ** 2 - ri ** 2) / (1 - ri ** 2) * nr
    az = numpy.ones_like(th) if o == 0 else (numpy.cos(m * th) if o % 2 == 1 else numpy.sin(m * th))
    Rl = numpy.interp(cpos, s, Rk)
    dR = numpy.abs(numpy.diff(Rk))
    k = numpy.clip(numpy.searchsorted(s, cpos, side="right") - 1, 0, nr - 2)
    pad = numpy.concatenate([[0.0], dR, [0.0]])
    dRn = numpy.maximum(numpy.maximum(pad[:-2], pad[1:-1]), pad[2:])            # cells k-1, k, k+1
    if nr >= 3:
        d2 = numpy.concatenate([[0.0, 0.0], numpy.abs(numpy.diff(Rk, 2)), [0.0, 0.0]])   # d2[j+1] : node j
        d2n = numpy.array([d2[j:j + 4].max() for j in range(nr - 1)])           # nodes k-1 .. k+2 of cell k
    else:
        d2n = numpy.zeros(nr - 1)
    amp = max(numpy.abs(Rk).max(), 1e-300)
    h = 2 * numpy.pi / npp
    beyond = numpy.maximum(cpos - s[-1], 0.0) * dR[-1] + numpy.maximum(s[0] - cpos, 0.0) * dR[0]
    eaz = 1 - math.cos(m * h / 2)
    bound = numpy.abs(Rl) * eaz + (REG_CELLS * dRn[k] + CURV_FACTOR * d2n[k] + beyond) * (numpy.abs(az) + eaz) + 1e-12 * amp
    return Rl * az, bound, amp


def cart_oracle(chk, KL, nmax, dim, ri, nr, after=(), diag=True):
    rep = {"nmax": nmax, "dim": dim, "ri": ri, "nr": nr, "call": "make_kl(nmax, dim, ri=ri, nr=nr, mask=True/False)"}
    ctx = "make_kl(%d, %d, ri=%r, nr=%d)" % (nmax, dim, ri, nr)
    if after:
        rep["after_in_same_process"] = list(after)
        ctx += " after " + "; ".join(after)

    def bad(key, what):
        chk.fail(key, "%s [%s]" % (what, ctx), rep)
    try:
        kl, var, pup, pb = _quiet(KL.make_kl, nmax, dim, ri=ri, nr=nr, mask=True)
        klu, var2, pup2, pb2 = _quiet(KL.make_kl, nmax, dim, ri=ri, nr=nr, mask=False)
    except Exception as ex:
        bad("construct:make_kl:" + type(ex).__name__, "construction raised %s: %s" % (type(ex).__name__, ex))
        return
    if kl.shape != (nmax, dim, dim) or klu.shape != kl.shape or pup.shape != (dim, dim) or numpy.shape(var) != (nmax,):
        bad("shape", "shapes kl %s pupil %s var %s" % (kl.shape, pup.shape, numpy.shape(var)))
        return
    c = (numpy.arange(dim) - (dim - 1) / 2.0) / (dim / 2.0)
    X, Y = numpy.meshgrid(c, c)                     # X along columns, Y along rows
    R2 = X ** 2 + Y ** 2
    sure = (numpy.abs(R2 - ri ** 2) > 1e-12) & (numpy.abs(R2 - 1.0) > 1e-12)
    ind = ((R2 >= ri ** 2) & (R2 <= 1.0)).astype(float)
    if not numpy.array_equal(pup[sure], ind[sure]) or not numpy.all((pup == 0) | (pup == 1)):
        k = numpy.argwhere((pup != ind) & sure)
        bad("pupil", "returned pupil is not the annulus indicator, e.g. at pixel %s" % (k[0].tolist() if len(k) else "?"))
    # the annulus is centred on the array: its indicator is unchanged by the two flips and the transposition (the pixel
    # coordinates (i - (dim-1)/2)/(dim/2) are exactly antisymmetric in binary64, so this is exact on the rim as well)
    for name, q in (("up-down flip", pup[::-1, :]), ("left-right flip", pup[:, ::-1]), ("transposition", pup.T)):
        if not numpy.array_equal(pup, q):
            k = numpy.argwhere(pup != q)[0].tolist()
            bad("pupil:asymmetric", "returned pupil changes under %s, e.g. at pixel %s" % (name, k))
            break
    if not numpy.array_equal(pup, pup2):
        bad("pupil:mask-dependence", "pupil depends on the mask flag")
    out = pup == 0
    if out.any() and numpy.abs(kl[:, out]).max() != 0:
        bad("masked-outside", "masked rendering is %r outside the annulus" % numpy.abs(kl[:, out]).max())
    if not numpy.array_equal(kl, klu * pup):
        bad("mask-consistency", "make_kl(mask=True) differs from make_kl(mask=False)*pupil")
    if not (numpy.array_equal(var, pb["evals"]) and numpy.array_equal(var, var2)):
        bad("variances", "returned variances are not the eigenvalues of the polar basis")
    # the polar basis make_kl used (npp = int(2 pi nr)) must satisfy the polar part of the property as well
    npp = int(pb["np"])
    okb = check_polar_basis(chk, KL, pb, ri, nr, npp, nmax, bad, diag=diag)
    if not okb or 2 * ((max(int(x) for x in pb["ord"]) + 1) // 2) >= npp:
        return
    # follows the polar function at each pixel's (r, theta) to within the resampling error
    inside = (ind > 0) & (pup > 0)
    cpos = (R2 - ri ** 2) / (1 - ri ** 2) * nr
    th = numpy.arctan2(Y, X) % (2 * numpy.pi)
    last_cell = th > 2 * numpy.pi * (npp - 1) / npp
    theta_j = numpy.arange(npp) * 2 * numpy.pi / npp
    for i in range(nmax):
        o = int(pb["ord"][i])
        m = (o + 1) // 2
        azj = numpy.ones(npp) if o == 0 else (numpy.cos(m * theta_j) if o % 2 == 1 else numpy.sin(m * theta_j))
        pol = KL.gkl_sfi(pb, i)
        if not numpy.abs(pol - numpy.outer(pb["rabas"][:, i], azj)).max() <= 1e-9 * max(numpy.abs(pol).max(), 1e-300):
            chk.broke("correspondence", "gkl_sfi(%d) is not rabas[:, %d] x (1 | cos | sin)(m theta_j) with m = (ord+1)//2 - the "
                      "oracle cannot form the reference of the Cartesian rendering [%s]" % (i, i, ctx))
            return
        ref, bound, amp = cart_follows_polar(pb, i, ri, nr, npp, cpos, th)
        ratio = numpy.where(inside, numpy.abs(klu[i] - ref) / bound, 0.0)
        _worst("cartesian", ratio.max())
        if ratio.max() > 1.0:
            r, cc = numpy.unravel_index(numpy.argmax(ratio), ratio.shape)
            bad("cartesian:follows-polar" + (":azimuth-wrap" if last_cell[r, cc] else ""),
                "function %d (ord %d) at pixel (row %d, col %d) is %r but the polar function at that pixel's (r, theta) = (%.4f, "
                "%.4f rad) is %r; resampling-error bound %.3g, amplitude of the function %.3g%s"
                % (i, o, r, cc, float(klu[i, r, cc]), math.sqrt(R2[r, cc]), th[r, cc], float(ref[r, cc]), bound[r, cc], amp,
                   " (pixel in the azimuthal cell between the last polar sample and the first)" if last_cell[r, cc] else ""))
            break


# inputs on which the pinned tree failed: (ri, nr) whose kernel had NaN entries (rounding made the zero distance
# negative), and an azimuthal size for which rebin's float-step mgrid produced one sample too many
CORPUS = [(0.35, 21, 105, 8), (0.2, 31, 155, 8), (0.333482499661436, 5, 25, 8), (0.3, 8, 49, 8), (0.6, 40, 200, 8),
          (0.9, 35, 175, 8), (0.2, 42, 210, 8), (0.25, 12, 98, 10),
          # round 3: a single function, more than 60 functions, nr > 22
          (0.25, 6, 30, 1), (0.4, 16, 80, 150), (0.3, 30, 150, 40)]
CORPUS_QUICK = [0, 1, 2, 3, 8, 9]
# (nmax, dim, ri, nr); odd dim: the pixel grid must stay centred on (dim-1)/2
CORPUS_CART = [(6, 16, 0.25, 19), (20, 32, 0.6, 40), (8, 21, 0.3, 8), (10, 33, 0.25, 10), (12, 47, 0.5, 9),
               (6, 16, 0.25, 31), (6, 12, 0.5, 33)]
CORPUS_CART_QUICK = 5
# the call of the module's documentation and of the repository's only test
DOC_CALL = (150, 128, 0.2, 40)
# one geometry, several constructions in one process (nfunc growing, then make_kl at two sizes): every call is checked -
# a construction must not depend on what was built before for the same (ri, nr)
REPEATS = [(0.25, 8, (4, 12, 30), ((12, 16), (20, 21))), (0.5, 6, (2, 9, 20), ((6, 15), (10, 24)))]


def repeat_oracle(chk, KL, ri, nr, nfuncs, carts):
    after = []
    for nfunc in nfuncs:
        if stopping_order(KL, ri, nr, nfunc) is None:
            continue
        chk.oracle_cases += 1
        chk.count("oracle:repeat")
        chk.case(("repeat", ri, nr, nfunc, len(after)))
        polar_oracle(chk, KL, ri, nr, 5 * nr, "nth", nfunc, after=tuple(after))
        after.append("gkl_basis(ri=%r, nr=%d, npp=%d, nfunc=%d)" % (ri, nr, 5 * nr, nfunc))
    for nmax, dim in carts:
        if stopping_order(KL, ri, nr, nmax) is None:
            continue
        chk.oracle_cases += 1
        chk.count("oracle:repeat")
        chk.case(("repeat-cart", ri, nr, nmax, dim, len(after)))
        cart_oracle(chk, KL, nmax, dim, ri, nr, after=tuple(after))
        after.append("make_kl(%d, %d, ri=%r, nr=%d) twice" % (nmax, dim, ri, nr))


def oracle(chk, KL, n_polar, n_cart, nr_hi):
    rng = chk.rng
    quick = chk.tier == "quick"
    for k, (ri, nr, npp, nfunc) in enumerate(CORPUS):
        if quick and k not in CORPUS_QUICK:
            continue
        chk.oracle_cases += 1
        chk.count("oracle:corpus")
        chk.case(("corpus", ri, nr, npp, nfunc), sample={"ri": ri, "nr": nr, "npp": npp, "nfunc": nfunc} if k == 0 else None)
        polar_oracle(chk, KL, ri, nr, npp, "corpus", nfunc)
    for (nmax, dim, ri, nr) in (CORPUS_CART[:CORPUS_CART_QUICK] if quick else CORPUS_CART):
        chk.oracle_cases += 1
        chk.count("oracle:corpus")
        chk.count("oracle:cart:dim%%2=%d" % (dim % 2))
        chk.case(("corpus-cart", nmax, dim, ri, nr))
        cart_oracle(chk, KL, nmax, dim, ri, nr)
    chk.oracle_cases += 1
    chk.count("oracle:documented-call")
    chk.case(("doc-call",) + DOC_CALL)
    cart_oracle(chk, KL, *DOC_CALL)
    reps = list(REPEATS)
    for _ in range(1 if quick else 20):
        nr = rng.randint(4, 10)
        npp = 5 * nr
        lim = max(3, min(60, nr * npp // 8))
        nf = sorted(rng.sample(range(1, lim + 1), 3))
        reps.append((rng.choice([common.dyadic(rng, 1 / 16, 14 / 16, 4), rng.uniform(0.03, 0.9)]), nr, tuple(nf),
                     ((rng.randint(2, min(24, lim)), rng.randint(8, 40)), (rng.randint(2, min(24, lim)), rng.randint(8, 40)))))
    for ri, nr, nfuncs, carts in reps:
        repeat_oracle(chk, KL, ri, nr, nfuncs, carts)
    for it in range(n_polar):
        big = (not quick) and rng.random() < 0.02
        ri, nr, npp, nppk, nfunc = gen_config(rng, 40 if big else nr_hi)
        if stopping_order(KL, ri, nr, nfunc) is None:
            chk.count("oracle:beyond-resolution-limit")
            continue
        chk.oracle_cases += 1
        chk.count("oracle:nr=%d" % nr)
        chk.count("oracle:npp=" + nppk)
        chk.count("oracle:nfunc=" + ("1" if nfunc == 1 else "2..60" if nfunc <= 60 else ">60"))
        chk.case(("polar", ri, nr, npp, nfunc), sample={"ri": ri, "nr": nr, "npp": npp, "nfunc": nfunc} if it < 3 else None)
        b = polar_oracle(chk, KL, ri, nr, npp, nppk, nfunc)
        # no state carried from one call to the next, inputs left alone
        if b is not None and it % 5 == 0:
            rad = KL.gkl_radii(ri, nr)
            kers = KL.gkl_kernel(ri, nr, rad)
            k0 = kers.copy()
            out = _quiet(KL.gkl_fcom, ri, kers, nfunc)
            if not numpy.array_equal(kers, k0):
                chk.fail("inplace:gkl_fcom", "gkl_fcom modified its kernels argument (ri=%r nr=%d nfunc=%d)" % (ri, nr, nfunc),
                         {"ri": ri, "nr": nr, "nfunc": nfunc})
            if not (numpy.array_equal(out[0], b["evals"]) and numpy.array_equal(out[4], b["rabas"])
                    and numpy.array_equal(out[3], b["ord"])):
                chk.fail("repeat:gkl_fcom", "a second identical construction returned different functions (ri=%r nr=%d nfunc=%d)"
                         % (ri, nr, nfunc), {"ri": ri, "nr": nr, "nfunc": nfunc})
    for it in range(n_cart):
        nr = rng.randint(4, min(nr_hi, 14))
        ri = rng.choice([common.dyadic(rng, 1 / 16, 14 / 16, 4), rng.uniform(0.03, 0.9)])
        dim = rng.randint(8, 40)
        npp = int(2 * math.pi * nr)
        nmax = rng.randint(1 if rng.random() < 0.1 else 2, max(2, min(24, (nr * npp) // 15)))
        if stopping_order(KL, ri, nr, nmax) is None:
            chk.count("oracle:beyond-resolution-limit")
            continue
        chk.oracle_cases += 1
        chk.count("oracle:cart:dim%%2=%d" % (dim % 2))
        chk.case(("cart", nmax, dim, ri, nr), sample={"nmax": nmax, "dim": dim, "ri": ri, "nr": nr} if it < 2 else None)
        cart_oracle(chk, KL, nmax, dim, ri, nr)
    chk.notes.append("largest observed / allowed on this run: " + ", ".join(
        "%s %.3g" % (k, v) for k, v in sorted(WORST.items())) + "  (gram, mean: absolute; largest, diag:*: relative; cartesian: "
        "fraction of the resampling-error bound)")


# --------------------------------------------------------------------------- round 5: generator audit
# Input classes, entry points and call histories the generators above never produce.  Everything here is either the property
# itself (through polar_oracle / cart_oracle / render_oracle) or an EXACT equality between two ways of asking the library for the
# same thing (argument types, spellings, entry points, repeated calls): no new tolerance.
def _same(a, b):
    """bit-for-bit equality of two results (arrays, scalars, dicts / tuples / lists of them)"""
    if isinstance(a, dict):
        return isinstance(b, dict) and a.keys() == b.keys() and all(_same(a[k], b[k]) for k in a)
    if isinstance(a, (tuple, list)):
        return isinstance(b, (tuple, list)) and len(a) == len(b) and all(_same(x, y) for x, y in zip(a, b))
    if isinstance(a, str) or isinstance(b, str) or a is None or b is None:
        return a == b
    a, b = numpy.asarray(a), numpy.asarray(b)
    return a.shape == b.shape and numpy.array_equal(a, b, equal_nan=(a.dtype.kind == "f" and b.dtype.kind == "f"))


def _snapshot(x):
    if isinstance(x, dict):
        return {k: _snapshot(v) for k, v in x.items()}
    if isinstance(x, (tuple, list)):
        return [_snapshot(v) for v in x]
    if isinstance(x, numpy.ndarray):
        return x.copy()
    return x


def _scribble(x):
    """what a caller may do with a result it owns: overwrite every array in it"""
    if isinstance(x, dict):
        for v in x.values():
            _scribble(v)
    elif isinstance(x, (tuple, list)):
        for v in x:
            _scribble(v)
    elif isinstance(x, numpy.ndarray) and x.flags.writeable and x.size:
        x[...] = (True if x.dtype.kind == "b" else 3 if x.dtype.kind in "iu" else -7.5e3)


def _int_as(rng, v, zero_d=False):
    """the same integer as another integer type.  numpy.uint64 is left out: TODO(round 5) rebin() raises IndexError for nr / npp
    given as numpy.uint64 (numpy.arange(uint64) is a float64 array) - reported, not in the committed generator.
    0-d integer ARRAYS are not generated for counts either (they were until the second round of harmless changes): a count is an
    integer, and argument validation that refuses an ndarray where a count is expected (harmless change C13-E) is legitimate"""
    kinds = [numpy.int32, numpy.int64, numpy.intp, numpy.uint32] + ([numpy.array] if zero_d else [])
    return rng.choice(kinds)(v)


def render_oracle(chk, KL, pb, ri, nr, ncp, ncmar, geom, bad, nsample, rng):
    """pupil = annulus indicator and rendering within the resampling bound for the documented manual route
    set_pctr(basis, ncp, ncmar) -> pol2car(geom, gkl_sfi(basis, i)), margins included (make_kl only ever uses ncmar = 0)"""
    npp = int(pb["np"])
    half = 0.5 * (ncp - 2 * ncmar)
    c = (numpy.arange(ncp) - (ncp - 1) / 2.0) / half
    X, Y = numpy.meshgrid(c, c)
    R2 = X ** 2 + Y ** 2
    sure = (numpy.abs(R2 - ri ** 2) > 1e-12) & (numpy.abs(R2 - 1.0) > 1e-12)
    ind = ((R2 >= ri ** 2) & (R2 <= 1.0))
    ap = numpy.asarray(geom["ap"])
    if ap.shape != (ncp, ncp) or not numpy.array_equal(ap.astype(bool)[sure], ind[sure]):
        bad("pupil:margin", "set_pctr(basis, ncp=%d, ncmar=%d)['ap'] is not the indicator of the annulus of outer radius (ncp - 2 ncmar)/2 pixels"
            % (ncp, ncmar))
        return
    for name, q in (("up-down flip", ap[::-1, :]), ("left-right flip", ap[:, ::-1]), ("transposition", ap.T)):
        if not numpy.array_equal(ap, q):
            bad("pupil:asymmetric", "set_pctr(basis, ncp=%d, ncmar=%d)['ap'] changes under %s" % (ncp, ncmar, name))
            return
    nf = int(pb["nfunc"])
    if 2 * ((max(int(x) for x in pb["ord"]) + 1) // 2) >= npp:
        return
    inside = ind & ap.astype(bool)
    cpos = (R2 - ri ** 2) / (1 - ri ** 2) * nr
    th = numpy.arctan2(Y, X) % (2 * numpy.pi)
    for i in sorted(rng.sample(range(nf), min(nf, nsample))):
        pol = KL.gkl_sfi(pb, i)
        un = KL.pol2car(geom, pol, mask=False)
        ma = KL.pol2car(geom, pol, mask=True)
        if un.shape != (ncp, ncp) or not numpy.array_equal(ma, un * ap):
            bad("mask-consistency:margin", "pol2car(geom, f_%d, mask=True) differs from pol2car(geom, f_%d, mask=False)*geom['ap'] (ncp=%d, ncmar=%d)"
                % (i, i, ncp, ncmar))
            return
        ref, bound, amp = cart_follows_polar(pb, i, ri, nr, npp, cpos, th)
        ratio = numpy.where(inside, numpy.abs(un - ref) / bound, 0.0)
        _worst("cartesian:margin", ratio.max())
        if ratio.max() > 1.0:
            r, cc = numpy.unravel_index(numpy.argmax(ratio), ratio.shape)
            bad("cartesian:follows-polar:margin", "function %d (ord %d) rendered with set_pctr(basis, ncp=%d, ncmar=%d) + pol2car is %r at pixel "
                "(row %d, col %d) but the polar function at that pixel's (r, theta) = (%.4f, %.4f rad) is %r; resampling-error bound %.3g"
                % (i, int(pb["ord"][i]), ncp, ncmar, float(un[r, cc]), r, cc, math.sqrt(R2[r, cc]), th[r, cc], float(ref[r, cc]), bound[r, cc]))
            return


def oracle_round5(chk, KL):
    import inspect
    import aotools
    from aotools import functions as F
    rng = chk.rng
    quick = chk.tier == "quick"
    APIS = [("aotools.functions.karhunenLoeve", KL), ("aotools.functions", F), ("aotools", aotools)]

    def fails(rep):
        def bad(key, what):
            chk.fail(key, "%s [%s]" % (what, rep.get("call", "")), rep)
        return bad

    def call(rep, key, fn, *a, **k):
        try:
            return True, _quiet(fn, *a, **k)
        except Exception as ex:
            chk.fail("construct:%s:%s" % (key, type(ex).__name__), "%s raised %s: %s" % (rep.get("call", key), type(ex).__name__, str(ex)[:200]), rep)
            return False, None

    def small_config(nr_lo=4, nr_hi=9):
        for _ in range(50):
            nr = rng.randint(nr_lo, nr_hi)
            ri = rng.choice([common.dyadic(rng, 1 / 16, 14 / 16, 4), rng.uniform(0.03, 0.9)])
            npp = int(2 * math.pi * nr)
            nmax = rng.randint(2, max(2, min(16, (nr * npp) // 15)))
            if stopping_order(KL, ri, nr, nmax) is not None:
                return ri, nr, nmax
        return 0.25, 8, 8

    # ---- (1) the package-level names are the functions of the module (what is checked through the module holds for every spelling)
    for name, f in sorted(vars(KL).items()):
        if not (inspect.isfunction(f) and f.__module__ == KL.__name__) or name.startswith("_"):
            continue                      # private helpers are not exported by `from .karhunenLoeve import *`
        for api, A in APIS[1:]:
            chk.oracle_cases += 1
            chk.count("oracle:r5:alias")
            g = getattr(A, name, None)
            if g is f:
                continue
            args = {"gkl_radii": [(0.3, 7)], "piston_orth": [(5,)], "gkl_azimuthal": [(5, 12)], "radii": [(4, 9, 0.3)],
                    "gkl_basis": [(0.3, 6, 30, 5)], "make_kl": [(5, 12, 0.3, 6)], "pcgeom": [(5, 30, 12, 0.25, 0)],
                    "stf_kolmogorov": [(numpy.array([0.25, 2.0]),)]}.get(name, [])
            same = g is not None and bool(args)
            for a in (args if same else []):
                try:
                    same = same and _same(_snapshot(_quiet(g, *a)), _snapshot(_quiet(f, *a)))
                except Exception:
                    same = False
            if not same:
                chk.fail("alias:%s" % name, "%s.%s is not aotools.functions.karhunenLoeve.%s (%s)" % (api, name, name,
                         "missing" if g is None else "another function with different results"), {"call": "%s.%s" % (api, name)})
    chk.case(("r5", "alias"))

    # ---- (2) argument types and spellings: the same request must give the same answer, bit for bit, as the plain call that
    #          polar_oracle / cart_oracle verify
    for it in range(5 if quick else 40):
        ri, nr, nmax = small_config()
        dim = rng.randint(8, 30)
        api, A = rng.choice(APIS)
        chk.oracle_cases += 1
        chk.count("oracle:r5:types-and-spellings")
        chk.case(("r5", "types", ri, nr, nmax, dim))
        cart_oracle(chk, KL, nmax, dim, ri, nr)                       # the plain call satisfies the property …
        ok, plain = call({"call": "make_kl(%d, %d, ri=%r, nr=%d)" % (nmax, dim, ri, nr)}, "make_kl", KL.make_kl, nmax, dim, ri=ri, nr=nr)
        if not ok:
            continue
        plain = _snapshot(plain)
        # numpy.float64 takes the arithmetic path of a Python float (bit-identical results).  A 0-d ARRAY does not: ri**2 is then
        # numpy.square (x·x) instead of libm's pow(x, 2), which differ by one ulp for about one ri in a thousand (seen: ri =
        # 0.6799356780698036, radp / evals / rabas off by 1e-17 … 5e-15) - so it gets the property check below, not an equality
        rif = rng.choice([numpy.float64, float])(ri)
        osc, ktag = rng.choice([2.0, 20.0, 100.0, 0.5]), rng.choice(["kolmogorov", "kolstf"])
        variants = [
            ("%s.make_kl(%s(%d), %s(%d), ri=%s(%r), nr=%s(%d))", lambda a, b, c, d: A.make_kl(a, b, ri=c, nr=d),
             (_int_as(rng, nmax), _int_as(rng, dim), rif, _int_as(rng, nr))),
            ("%s.make_kl(%s(%d), %s(%d), %s(%r), %s(%d), 'kolstf', None, True)  [positional, the other Kolmogorov tag]",
             lambda a, b, c, d: A.make_kl(a, b, c, d, "kolstf", None, True), (nmax, dim, ri, nr)),
            ("%s.make_kl(nmax=%s(%d), dim=%s(%d), ri=%s(%r), nr=%s(%d), stf='kolmogorov', outerscale=None, mask=numpy.True_)  [keywords]",
             lambda a, b, c, d: A.make_kl(nmax=a, dim=b, ri=c, nr=d, stf="kolmogorov", outerscale=None, mask=numpy.True_), (nmax, dim, ri, nr)),
            ("%s.make_kl(%s(%d), %s(%d), ri=%s(%r), nr=%s(%d), mask=1)", lambda a, b, c, d: A.make_kl(a, b, ri=c, nr=d, mask=1), (nmax, dim, ri, nr)),
            # a Kolmogorov tag with an outer scale passed along (documented as relevant for the von Karman tags only): still the
            # Kolmogorov modes and variances the property speaks of (seeded change C13-I dispatched on the outer scale instead)
            ("%s.make_kl(%s(%d), %s(%d), ri=%s(%r), nr=%s(%d), stf='kolmogorov', outerscale=" + repr(osc) + ")  [Kolmogorov tag, outer scale given]",
             lambda a, b, c, d: A.make_kl(a, b, ri=c, nr=d, stf=ktag, outerscale=osc), (nmax, dim, ri, nr)),
        ]
        for fmt, fn, args in variants:
            desc = fmt % ((api,) + tuple(x for a in args for x in (type(a).__name__, a.item() if hasattr(a, "item") else a)))
            rep = {"call": desc, "nmax": nmax, "dim": dim, "ri": ri, "nr": nr}
            ok, out = call(rep, "make_kl:typed", fn, *args)
            if ok and not _same(out, plain):
                chk.fail("types:make_kl", "%s differs from make_kl(%d, %d, ri=%r, nr=%d) with Python int / float arguments" % (desc, nmax, dim, ri, nr), rep)
        ok, plain_u = call({"call": "make_kl(%d, %d, ri=%r, nr=%d, mask=False)" % (nmax, dim, ri, nr)}, "make_kl", KL.make_kl, nmax, dim, ri=ri, nr=nr, mask=False)
        if ok:
            desc = "%s.make_kl(%d, %d, %r, %d, 'kolmogorov', None, False)  [all seven arguments positional]" % (api, nmax, dim, ri, nr)
            rep = {"call": desc, "nmax": nmax, "dim": dim, "ri": ri, "nr": nr}
            ok, out = call(rep, "make_kl:positional", A.make_kl, nmax, dim, ri, nr, "kolmogorov", None, False)
            if ok and not _same(out, plain_u):
                chk.fail("spelling:make_kl", "%s differs from make_kl(%d, %d, ri=%r, nr=%d, mask=False)" % (desc, nmax, dim, ri, nr), rep)
            ok, out = call(rep, "gkl_basis:positional", A.gkl_basis, ri, nr, 5 * nr, nmax, "kolstf", None)
            if ok and not _same(out, _quiet(KL.gkl_basis, ri=ri, nr=nr, npp=5 * nr, nfunc=nmax)):
                chk.fail("spelling:gkl_basis", "gkl_basis(%r, %d, %d, %d, 'kolstf', None) differs from the keyword call" % (ri, nr, 5 * nr, nmax), rep)
        # gkl_basis: default azimuthal sampling (npp omitted / None), keywords, both Kolmogorov tags, typed arguments
        nfunc = nmax
        for desc, fn in (("gkl_basis(%r, %d, None, %d)" % (ri, nr, nfunc), lambda: A.gkl_basis(ri, nr, None, nfunc)),
                         ("gkl_basis(ri=%r, nr=%d, nfunc=%d)  [npp left out]" % (ri, nr, nfunc), lambda: A.gkl_basis(ri=ri, nr=nr, nfunc=nfunc)),
                         ("gkl_basis(%r, %d, nfunc=%d, stf='kolmogorov')" % (ri, nr, nfunc), lambda: A.gkl_basis(ri, nr, nfunc=nfunc, stf="kolmogorov"))):
            rep = {"call": "%s.%s" % (api, desc), "ri": ri, "nr": nr, "nfunc": nfunc}
            ok, b = call(rep, "gkl_basis:default-npp", fn)
            if not ok:
                continue
            try:
                npp_d = int(b["np"])
            except Exception:
                chk.fail("shape", "gkl_basis with npp left out reports np = %r" % (b.get("np"),), rep)
                continue
            try:
                tmax_d = (max(int(x) for x in b["ord"]) + 1) // 2
            except Exception:
                tmax_d = 0
            if 2 * tmax_d >= npp_d and 2 * tmax_d < 5 * nr:           # the default grid must resolve what the kernel's own grid (5 nr) resolves
                chk.fail("default:npp", "gkl_basis with npp left out samples the azimuth on %d points only: azimuthal order %d of the %d "
                         "functions asked for is not resolved (nr = %d; the kernel's own azimuthal grid has %d points)"
                         % (npp_d, tmax_d, nfunc, nr, 5 * nr), rep)
                continue
            check_polar_basis(chk, KL, b, ri, nr, npp_d, nfunc, fails(rep))
        npp = 5 * nr
        rep = {"call": "%s.gkl_basis(numpy.array(%r), %d, %d, %d)  [0-d array obscuration]" % (api, ri, nr, npp, nfunc), "ri": ri, "nr": nr, "npp": npp, "nfunc": nfunc}
        ok, b0d = call(rep, "gkl_basis:0-d-ri", A.gkl_basis, numpy.array(ri), nr, npp, nfunc)
        if ok:
            check_polar_basis(chk, KL, b0d, ri, nr, npp, nfunc, fails(rep))
        ok, bplain = call({"call": "gkl_basis(%r, %d, %d, %d)" % (ri, nr, npp, nfunc)}, "gkl_basis", KL.gkl_basis, ri, nr, npp, nfunc)
        if ok:
            bplain = _snapshot(bplain)
            ta = (rif, _int_as(rng, nr), _int_as(rng, npp), _int_as(rng, nfunc))
            desc = "%s.gkl_basis(%s)" % (api, ", ".join("%s(%r)" % (type(a).__name__, a.item() if hasattr(a, "item") else a) for a in ta))
            rep = {"call": desc, "ri": ri, "nr": nr, "npp": npp, "nfunc": nfunc}
            ok, bt = call(rep, "gkl_basis:typed", A.gkl_basis, *ta)
            if ok:
                keys = ("radp", "evals", "nord", "npo", "ord", "rabas", "azbas")
                if not all(_same(bt[k], bplain[k]) for k in keys):
                    chk.fail("types:gkl_basis", "%s differs from the call with Python int / float arguments in %s"
                             % (desc, [k for k in keys if not _same(bt[k], bplain[k])]), rep)
                else:
                    i = rng.randrange(nfunc)
                    ok, f1 = call(rep, "gkl_sfi:typed", A.gkl_sfi, bt, _int_as(rng, i))
                    if ok and not _same(f1, KL.gkl_sfi(bplain, i)):
                        chk.fail("types:gkl_sfi", "gkl_sfi(basis, %d) on the basis of %s differs from the plain one" % (i, desc), rep)

    # ---- (3) entry points: the documented manual route (gkl_radii -> gkl_kernel -> gkl_fcom -> gkl_azimuthal; set_pctr -> pol2car)
    #          gives what gkl_basis / make_kl give, with the caller's arrays read-only / oddly laid out and left untouched; the
    #          margin route (ncmar = 1, 2 and set_pctr's defaults) satisfies the Cartesian part of the property
    for it in range(5 if quick else 40):
        ri, nr, nmax = small_config()
        dim = rng.randint(8, 30)
        npp = int(2 * math.pi * nr)
        chk.oracle_cases += 1
        chk.count("oracle:r5:manual-route")
        chk.case(("r5", "manual", ri, nr, nmax, dim))
        rep = {"call": "manual route for make_kl(%d, %d, ri=%r, nr=%d)" % (nmax, dim, ri, nr), "nmax": nmax, "dim": dim, "ri": ri, "nr": nr}
        bad = fails(rep)
        ok, res = call(rep, "make_kl", KL.make_kl, nmax, dim, ri=ri, nr=nr, mask=False)
        if not ok:
            continue
        klu, var, pup, pb = res
        lay = ["readonly", "strided", "list", "reversed", "plain"][it % 5]
        rad0 = KL.gkl_radii(ri, nr)
        if lay == "readonly":
            rad = rad0.copy()
            rad.setflags(write=False)
        elif lay == "strided":
            big = numpy.zeros(2 * nr)
            big[::2] = rad0
            rad = big[::2]
        elif lay == "reversed":
            rad = rad0[::-1].copy()[::-1]
        elif lay == "list":
            rad = [float(x) for x in rad0]
        else:
            rad = rad0.copy()
        chk.count("oracle:r5:radii-layout:" + lay)
        ok, kers = call(dict(rep, call="gkl_kernel(%r, %d, <%s radii>)" % (ri, nr, lay)), "gkl_kernel:" + lay, KL.gkl_kernel, ri, nr, rad)
        if not ok:
            continue
        if not numpy.array_equal(numpy.asarray(rad, dtype=float), rad0) or not numpy.array_equal(KL.gkl_radii(ri, nr), rad0):
            bad("inplace:gkl_kernel", "gkl_kernel modified the radii it was given (%s array)" % lay)
        klay = ["readonly", "fortran", "plain"][it % 3]
        kk = kers.copy()
        if klay == "readonly":
            kk.setflags(write=False)
        elif klay == "fortran":
            kk = numpy.asfortranarray(kk)
        ok, fc = call(dict(rep, call="gkl_fcom(%r, <%s kernels>, %d, verbose=%s)" % (ri, klay, nmax, it % 2 == 0)), "gkl_fcom:" + klay,
                      KL.gkl_fcom, ri, kk, nmax, verbose=(it % 2 == 0))
        if not ok:
            continue
        if not numpy.array_equal(kk, kers):
            bad("inplace:gkl_fcom", "gkl_fcom modified its kernels argument (%s array)" % klay)
        evals, nord, npo, oord, rabas = fc
        manual = {"nr": nr, "np": npp, "nfunc": nmax, "ri": ri, "stfn": " ", "radp": numpy.asarray(rad, dtype=float), "evals": evals, "nord": nord,
                  "npo": npo, "ord": oord, "rabas": rabas, "azbas": KL.gkl_azimuthal(nord, npp)}
        if klay == "fortran":
            # another memory layout may send the matrix products down another BLAS path (last-bit differences are legitimate):
            # the property itself on the basis built from the Fortran-ordered kernels, no bit-for-bit comparison
            check_polar_basis(chk, KL, manual, ri, nr, npp, nmax, bad)
            continue
        diff = [k for k in ("radp", "evals", "nord", "npo", "ord", "rabas", "azbas") if not _same(manual[k], pb[k])]
        if diff:
            bad("route:gkl_basis", "gkl_radii -> gkl_kernel -> gkl_fcom -> gkl_azimuthal gives other %s than the polar basis make_kl returns" % diff)
            continue
        before = _snapshot(manual)
        geom = KL.set_pctr(manual, ncp=dim, ncmar=0)
        gsnap = _snapshot(geom)
        for i in range(nmax):
            pol = KL.gkl_sfi(manual, i)
            pol.setflags(write=False)
            if not numpy.array_equal(KL.pol2car(geom, pol, mask=False), klu[i]):
                bad("route:make_kl", "pol2car(set_pctr(basis, ncp=%d, ncmar=0), gkl_sfi(basis, %d)) is not make_kl(...)[0][%d] bit for bit" % (dim, i, i))
                break
        if not _same(manual, before):
            bad("inplace:basis", "gkl_sfi / set_pctr / pol2car modified the basis dictionary they were given")
        if not _same(geom, gsnap):
            bad("inplace:geometry", "pol2car modified the geometry dictionary it was given")
        if not numpy.array_equal(numpy.asarray(geom["ap"], dtype=float), pup):
            bad("route:make_kl", "set_pctr(basis, ncp=%d, ncmar=0)['ap'] is not the pupil make_kl returns" % dim)
        # margins
        for ncp, ncmar, kw in ((dim + rng.randint(2, 6), 1, None), (dim + rng.randint(4, 9), 2, None), (128, 2, {}), (dim + 5, 2, {"ncp": dim + 5})):
            if kw is not None and it > 0 and quick:
                continue
            rep2 = dict(rep, call="set_pctr(basis%s) + pol2car for the basis of make_kl(%d, %d, ri=%r, nr=%d)"
                        % ((", ncp=%d, ncmar=%d" % (ncp, ncmar)) if kw is None else "".join(", %s=%d" % kv for kv in kw.items()) + "  [defaults]",
                           nmax, dim, ri, nr), ncp=ncp, ncmar=ncmar)
            ok, g2 = call(rep2, "set_pctr", KL.set_pctr, manual, **({"ncp": ncp, "ncmar": ncmar} if kw is None else kw))
            if not ok:
                continue
            chk.count("oracle:r5:margin:ncmar=%d%s" % (ncmar, "" if kw is None else ":default"))
            try:                                   # defaults: whatever size / margin the geometry reports, the property must hold for it
                ncp_g, ncmar_g = int(g2["ncp"]), int(g2["ncmar"])
                okg = numpy.shape(g2["ap"]) == (ncp_g, ncp_g) and ncp_g - 2 * ncmar_g >= 2 and (kw is not None or (ncp_g, ncmar_g) == (ncp, ncmar))
            except Exception:
                okg = False
            if not okg:
                fails(rep2)("shape:set_pctr", "set_pctr reports ncp=%r ncmar=%r, pupil shape %s" % (g2.get("ncp"), g2.get("ncmar"), numpy.shape(g2.get("ap"))))
                continue
            render_oracle(chk, KL, manual, ri, nr, ncp_g, ncmar_g, g2, fails(rep2), 3 if ncp_g > 64 else 6, rng)

    # ---- (4) histories: A(ri1) B(ri2) A(ri1) on one (nr, dim) with the other mask flag in between; mode counts going DOWN;
    #          results overwritten by the caller before the same call is repeated
    for it in range(3 if quick else 25):
        nr = rng.randint(5, 9)
        dim = rng.randint(10, 28)
        ris = []
        for _ in range(40):
            r_ = rng.choice([common.dyadic(rng, 1 / 16, 14 / 16, 4), rng.uniform(0.05, 0.85)])
            if all(abs(r_ - x) > 0.05 for x in ris):
                ris.append(r_)
            if len(ris) == 2:
                break
        npp = int(2 * math.pi * nr)
        nmax = rng.randint(2, max(2, min(12, (nr * npp) // 15)))
        if len(ris) < 2 or any(stopping_order(KL, r_, nr, nmax) is None for r_ in ris):
            chk.count("oracle:beyond-resolution-limit")
            continue
        chk.oracle_cases += 1
        chk.count("oracle:r5:history:ABA")
        chk.case(("r5", "ABA", tuple(ris), nr, nmax, dim))
        after = []
        firsts = {}
        for step, (r_, mask) in enumerate(((ris[0], True), (ris[1], False), (ris[0], False), (ris[1], True), (ris[0], True))):
            desc = "make_kl(%d, %d, ri=%r, nr=%d, mask=%s)" % (nmax, dim, r_, nr, mask)
            rep = {"call": desc, "nmax": nmax, "dim": dim, "ri": r_, "nr": nr, "mask": mask, "after_in_same_process": list(after)}
            ok, out = call(rep, "make_kl", KL.make_kl, nmax, dim, ri=r_, nr=nr, mask=mask)
            if ok:
                if (r_, mask) in firsts and not _same(out, firsts[(r_, mask)]):
                    chk.fail("history:same-nr-dim-other-ri", "%s differs from the same call made earlier in this process (calls in between: %s)"
                             % (desc, after), rep)
                firsts.setdefault((r_, mask), _snapshot(out))
            cart_oracle(chk, KL, nmax, dim, r_, nr, after=tuple(after), diag=(step < 2))
            after.append(desc)
    for it in range(2 if quick else 12):
        nr = rng.randint(5, 9)
        ri = rng.choice([common.dyadic(rng, 1 / 16, 14 / 16, 4), rng.uniform(0.05, 0.85)])
        lim = max(3, min(50, nr * 5 * nr // 8))
        nfs = sorted(rng.sample(range(1, lim + 1), 3), reverse=True)
        after = []
        for nfunc in nfs:
            if stopping_order(KL, ri, nr, nfunc) is None:
                continue
            chk.oracle_cases += 1
            chk.count("oracle:r5:history:decreasing-nfunc")
            chk.case(("r5", "decreasing", ri, nr, nfunc, len(after)))
            polar_oracle(chk, KL, ri, nr, 5 * nr, "nth", nfunc, after=tuple(after))
            after.append("gkl_basis(ri=%r, nr=%d, npp=%d, nfunc=%d)" % (ri, nr, 5 * nr, nfunc))
    for it in range(3 if quick else 25):
        ri, nr, nmax = small_config()
        dim = rng.randint(8, 24)
        npp = 5 * nr
        chk.oracle_cases += 1
        chk.count("oracle:r5:history:overwritten")
        chk.case(("r5", "overwritten", ri, nr, nmax, dim))
        basis = _quiet(KL.gkl_basis, ri, nr, npp, nmax)
        steps = [("gkl_radii(%r, %d)" % (ri, nr), lambda: KL.gkl_radii(ri, nr)),
                 ("gkl_kernel(%r, %d, gkl_radii(%r, %d))" % (ri, nr, ri, nr), lambda: KL.gkl_kernel(ri, nr, KL.gkl_radii(ri, nr))),
                 ("piston_orth(%d)" % nr, lambda: KL.piston_orth(nr)),
                 ("gkl_azimuthal(%d, %d)" % (7, npp), lambda: KL.gkl_azimuthal(7, npp)),
                 ("gkl_basis(%r, %d, %d, %d)" % (ri, nr, npp, nmax), lambda: KL.gkl_basis(ri, nr, npp, nmax)),
                 ("set_pctr(gkl_basis(%r, %d, %d, %d), ncp=%d, ncmar=0)" % (ri, nr, npp, nmax, dim), lambda: KL.set_pctr(basis, ncp=dim, ncmar=0)),
                 ("pcgeom(%d, %d, %d, %r, 1)" % (nr, npp, dim, ri), lambda: KL.pcgeom(nr, npp, dim, ri, 1)),
                 ("make_kl(%d, %d, ri=%r, nr=%d)" % (nmax, dim, ri, nr), lambda: KL.make_kl(nmax, dim, ri=ri, nr=nr))]
        done = []
        for desc, fn in steps:
            rep = {"call": desc, "ri": ri, "nr": nr, "nmax": nmax, "dim": dim, "after_in_same_process": list(done)}
            ok, first = call(rep, "history", fn)
            if not ok:
                continue
            keep = _snapshot(first)
            _scribble(first)
            done.append(desc + " [result overwritten by the caller]")
            ok, second = call(rep, "history", fn)
            done.append(desc)
            if ok and not _same(second, keep):
                chk.fail("history:result-overwritten:%s" % desc.split("(")[0], "%s returns something else after the caller overwrote the arrays "
                         "returned by the first identical call (results share storage with internal state)" % desc, rep)
        # … and the property still holds afterwards
        cart_oracle(chk, KL, nmax, dim, ri, nr, after=tuple(done[-3:]), diag=False)

    # ---- (5) extreme obscurations and sizes inside the stated domain
    extremes = [(1e-8, 6), (1e-4, 9), (0.995, 7), (0.9999, 6)]
    for ri, nr in ([rng.choice(extremes[:2]), rng.choice(extremes[2:])] if quick else extremes):
        nfunc = rng.randint(2, 10)
        if stopping_order(KL, ri, nr, nfunc) is None:
            chk.count("oracle:beyond-resolution-limit")
            continue
        chk.oracle_cases += 1
        chk.count("oracle:r5:extreme-ri")
        chk.case(("r5", "extreme-ri", ri, nr, nfunc))
        polar_oracle(chk, KL, ri, nr, 5 * nr, "nth", nfunc)
    # round 6: radial samplings at which 2π/(5 nr) is not an exact step — numpy.arange(0, 2π, 2π/nth) returns nth + 1 angles for nr = 69, 71,
    # 75, 138, 142, 150 … (seeded change C13-K built the kernel's angle grid that way: every kernel coefficient wrong at those nr only)
    for nr in ([rng.choice([69, 71, 75])] if quick else [69, 71, 75, 138, 142, 150]):
        ri, nfunc = rng.choice([0.3, 0.25, 0.5]), rng.randint(3, 8)
        chk.oracle_cases += 1
        chk.count("oracle:r6:nr>=69")
        chk.case(("r6", "large-nr", ri, nr, nfunc))
        polar_oracle(chk, KL, ri, nr, 5 * nr, "nth", nfunc)
    for dim in (rng.sample(range(2, 8), 3) if quick else range(2, 8)):
        ri, nr, nmax = small_config()
        chk.oracle_cases += 1
        chk.count("oracle:r5:tiny-dim")
        chk.case(("r5", "tiny-dim", nmax, dim, ri, nr))
        cart_oracle(chk, KL, nmax, dim, ri, nr, diag=False)
    if not quick:
        for (nmax, dim, ri, nr) in ((40, 255, 0.3, 12), (30, 256, 0.15, 10), (60, 64, 0.25, 50), (80, 48, 0.4, 60)):
            if stopping_order(KL, ri, nr, nmax) is None:
                continue
            chk.oracle_cases += 1
            chk.count("oracle:r5:large")
            chk.case(("r5", "large", nmax, dim, ri, nr))
            cart_oracle(chk, KL, nmax, dim, ri, nr)
        # the module's own defaults: gkl_basis(ri) = 40 rings, 200 angles, 500 functions
        ri = rng.choice([0.25, 0.2, 0.4])
        rep = {"call": "gkl_basis(%r)  [nr, npp, nfunc left at their defaults]" % ri, "ri": ri}
        ok, b = call(rep, "gkl_basis:defaults", KL.gkl_basis, ri)
        if ok:
            chk.oracle_cases += 1
            chk.case(("r5", "all-defaults", ri))
            try:
                nr_d, npp_d, nf_d = int(b["nr"]), int(b["np"]), int(b["nfunc"])
            except Exception:
                nr_d = None
            if nr_d is None or stopping_order(KL, ri, nr_d, nf_d) is None:
                chk.count("oracle:beyond-resolution-limit")
            else:
                check_polar_basis(chk, KL, b, ri, nr_d, npp_d, nf_d, fails(rep))


def run(chk):
    from aotools.functions import karhunenLoeve as KL
    quick = chk.tier == "quick"
    WORST.clear()
    _limit_blas_threads(2)
    chk.rule = ("correspondence: Lean model at binary64 vs karhunenLoeve.py on the same (ri, nr, npp, nfunc): radii/piston/azimuthal "
                "tables abs 1e-13, matrices handed to eigh rel 1e-9 of their max (naive DFT vs FFT), glue (order loop, sort, pairing, "
                "scaling) replayed on the eigenpairs the real eigh returned: nus/nord/ord/npo/evals exact, rabas abs 1e-11, pupil "
                "and masking exact, cr abs 1e-12*nr; oracle on the real code (structure function, kernel and spectrum computed on the "
                "oracle side): polar Gram and means 1e-9, variances positive / non-increasing / cos-sin partners equal to 1e-12 rel, "
                "returned variances = the nfunc largest of the oracle-side spectrum of all orders (orders >= 1 twice) 1e-10 rel, "
                "double-average quadratic form vs variances 1e-8 of the largest for npp = 5 nr, else 3 % of the own variance for "
                "dominant functions / 1 % of the largest for all / off-diagonal 1e-3 of the largest; pupil = indicator exactly away "
                "from the rim and flip/transpose-symmetric exactly, masked zero outside exactly, Cartesian value within the "
                "resampling-error bound of R_lin(r) az(m theta); several constructions for one (ri, nr) in one process each checked; "
                "distinct = distinct (ri, nr, npp, nfunc[, dim]). ROUND 5 (generator audit): radp^2 evenly spaced by (1 - ri^2)/nr, first point "
                "inside the first ring (abs 1e-12; observed <= 5e-16); EXACT equalities, no tolerance: package-level names are the module's "
                "functions; make_kl / gkl_basis / gkl_sfi with numpy int32/int64/intp/uint32 scalars, numpy.float64 ri, all "
                "arguments positional, all by keyword, both Kolmogorov tags, mask = 1 / numpy.True_ = the plain call; the manual route "
                "gkl_radii -> gkl_kernel (radii read-only / strided / reversed / list) -> gkl_fcom (kernels read-only / Fortran, verbose) -> "
                "gkl_azimuthal = make_kl's polar basis, pol2car(set_pctr(basis, dim, 0), gkl_sfi(basis, i)) = make_kl(...)[0][i], with every "
                "argument left untouched; a call repeated after the caller overwrote the first result (gkl_radii, gkl_kernel, piston_orth, "
                "gkl_azimuthal, gkl_basis, set_pctr, pcgeom, make_kl) or after other pupils were built (A B A B A on one (nr, dim) with both "
                "mask flags) = the first answer. Property on new inputs: gkl_basis with npp left out (and nr, npp, nfunc all left out: "
                "thorough), margins ncmar = 1, 2 and set_pctr's defaults (pupil = indicator of the annulus of radius (ncp - 2 ncmar)/2, "
                "rendering within the same resampling bound), mode counts going down for one pupil, ri = 1e-8, 1e-4, 0.995, 0.9999, "
                "dim = 2..7, thorough: dim = 255, 256, nr = 50, 60")
    chk.assumptions = [
        "numpy.linalg.eigh returns orthonormal eigenvectors with ascending eigenvalues of the symmetric matrix it is given "
        "(theorem hypothesis; checked numerically on every instance of the correspondence run)",
        "numpy.argsort(-evs) returns a permutation ordering the table non-increasingly (theorem hypothesis; checked per instance)",
        "numpy.fft.fft of a real sequence has real part sum_c x_c cos(2 pi p c / n) (model definition; exercised by the "
        "eigh-input correspondence)",
        "numpy.linalg.eigh on the filtered order-0 block: M V = V diag(E) with orthonormal V (hypothesis EigT0 of "
        "diagonalises_order0 / diagonalises_all; checked numerically on every instance of the correspondence run)",
        "NOT PROVED: every selected eigenvalue is positive - hence the piston entry (flat index nr-1, recorded variance 0) is never "
        "selected, which is the hypothesis `x != nr-1` of returned_basis_diagonalises - and the largest eigenvalue belongs to "
        "order 1 (hypothesis of tip_tilt_first_partial); facts about the Kolmogorov kernel's spectrum; oracle only",
        "NOT PROVED: the order loop computes enough orders for the nfunc largest eigenvalues: proved is only that the functions "
        "returned are the largest of the orders computed and that at the stop nfunc computed functions exceed every function of "
        "the last order (selected_are_largest, stop_rule_count); that no LATER order holds a larger variance (decay of the "
        "spectrum with azimuthal order) is ASSERTED by the oracle on every case: returned variances = the nfunc largest of an "
        "oracle-side spectrum of all orders below the kernel's Nyquist order, 1e-10",
        "THE THEOREM diagonalises (and diagonalises_all, returned_basis_diagonalises) REQUIRES npp = nth = 5 nr. make_kl ALWAYS uses "
        "npp = int(2 pi nr) != 5 nr: for the documented driver's output the identity is not exact - the double average runs on "
        "another azimuthal grid than the kernel was integrated on - and is only checked loosely by the oracle (3 % of the own "
        "variance for dominant functions [variance >= 1 % of the largest, azimuthal frequency <= 1/8 of both grids; observed <= "
        "0.6 %], 1 % of the largest variance for every function [observed <= 0.14 %], off-diagonal 1e-3 of the largest [observed "
        "<= 6e-5]); functions of high azimuthal order on thin rings are off by up to 30 % of their own variance there",
        "the structure function of the theorems is a parameter; that the code's is Kolmogorov's 6.8839 r^(5/3) is the theorem "
        "stf_is_kolmogorov about the regenerated definition and, independently, the oracle's literal",
        "NOT PROVED: accuracy of the polar->Cartesian resampling by map_coordinates (oracle: |value - R_lin(r) az(m theta)| within "
        "a bound made of the linear-interpolation error of the sinusoid, 1/8 radial cell of registration [the code registers "
        "radial sample k at r^2 = ri^2 + k d although gkl_radii puts it at ri^2 + (k + 1/16) d: accepted as resampling error], "
        "1/4 of the local second difference, and the extrapolation distance beyond the outermost samples); proved is the "
        "factorisation of bilinear interpolation of a separable table and the periodic closure of the azimuth "
        "(bilinear_separable, wrap_closes_azimuth)",
        "Real.sqrt/cos/sin/pi model numpy's up to IEEE rounding",
        "integer arguments are generated as Python int, numpy int32 / int64 / intp / uint32 scalars (0-d arrays are not generated for counts: validation may refuse them); numpy.uint64 "
        "is NOT generated (rebin raises IndexError for nr / npp given as numpy.uint64 - numpy.arange(uint64) is a float64 array; "
        "reported in round 5, not a committed finding), integer scalars narrower than 32 bits neither (ncp*ncp wraps); dim = 1 is not "
        "generated (setpincs divides 0/0 and indexes with the result); ri is a Python float or numpy.float64 (bit-identical results "
        "demanded) or a 0-d float64 array (property checked, no bit-identity: ri**2 is then x·x instead of pow(x, 2), one ulp apart "
        "for about one ri in a thousand); float32 obscurations are not generated (the spectrum oracle is sized for binary64); kernels "
        "handed to gkl_fcom in Fortran order get the property check, not bit-identity (another BLAS path)",
    ]
    meta = t1check.regenerate(chk)
    chk.build_and_audit("AoVerif.Props.C13", "AoVerif.Props.C13", REQUIRED)
    if meta is not None:
        try:
            t1check.selfcheck(chk, meta, T1_NAMES, t1_arggen, 5 if quick else 40, rtol=1e-12)
        except common.LeanError as ex:
            chk.broke("translator", "generated Lean does not compile / run", str(ex))
    nr_hi = 12 if quick else 22
    try:
        correspondence(chk, KL, 6 if quick else 150, 10 if quick else 14)
    except common.LeanError as ex:
        chk.broke("correspondence", "the Lean driver of the model does not build / run", str(ex))
    oracle(chk, KL, 30 if quick else 2500, 6 if quick else 300, nr_hi)
    oracle_round5(chk, KL)
    if chk.notes and chk.notes[-1].startswith("largest observed"):
        chk.notes.pop()
    chk.notes.append("largest observed / allowed on this run: " + ", ".join(
        "%s %.3g" % (k, v) for k, v in sorted(WORST.items())) + "  (gram, mean: absolute; largest, diag:*: relative; cartesian*: "
        "fraction of the resampling-error bound)")
