"""C02 — the tomographic reconstructor is the minimum-variance linear estimator."""
import contextlib
import copy
import os

for _v in ("OPENBLAS_NUM_THREADS", "OMP_NUM_THREADS", "MKL_NUM_THREADS"):      # small matrices: BLAS threads only cost
    os.environ.setdefault(_v, "1")

import numpy  # noqa: E402

from .. import common

MANIFEST = {
    "text": "Lean 4 theorems over real matrices (Mathlib Matrix) about a model of create_tomographic_covariance_reconstructor / "
            "CovarianceMatrix.make_tomographic_reconstructor, for EVERY matrix size N, partition 2n<N, conditioning rcond>=0 and "
            "EVERY pseudo-inverse kernel meeting the numpy.linalg.pinv contract (SVD with orthogonal factors, reciprocal of the "
            "singular values above rcond*max, zero below): R*C_offoff = C_onoff*Pi with Pi the orthogonal projector on the retained "
            "singular subspace (Pi symmetric idempotent, commutes with C_offoff, R*Pi=R); R*C_offoff = C_onoff for rcond=0 when "
            "C_offoff is invertible AND, without invertibility, whenever the whole matrix is symmetric PSD; for symmetric PSD C the "
            "excess residual variance of any competitor R' is tr((R'-R)C_offoff(R'-R)^T) >= 0 (all R' for rcond=0, all R' supported "
            "on the retained subspace for rcond>0), J being proved equal to the summed squared residual of any sample whose second "
            "moments are C; a duplicated on-axis sensor gives exactly the selection matrix E (weight 1 on that sensor, 0 elsewhere) for "
            "rcond=0 and INVERTIBLE C_offoff, and for singular PSD C only R*C_offoff = E*C_offoff (zero-variance difference); "
            "the method passes n_subaps[0]. The hand-written model is tied to the code by running the same Lean definitions at "
            "binary64: slices, product order, rcond pass-through and the wrapper are compared EXACTLY on integer matrices with an "
            "integer stand-in kernel; numpy's pinv is compared with the model's pinvFromSvd on numpy's own SVD factors and the "
            "contract fields (orthogonality, factorisation, Penrose equations) are checked numerically on every call. A direct "
            "oracle on the real code (normal equations full/retained, residual-variance comparison against perturbed, gradient-step "
            "and known-optimal reconstructors, duplicate sensor hand-made and end-to-end, purity/state) supplies failing inputs.",
    "note": "Trusted: Lean kernel + propext/Classical.choice/Quot.sound; Mathlib's Matrix/PosSemidef/trace as the meaning of the "
            "matrix algebra; numpy.linalg.pinv/svd meet the SVD-truncation contract (checked numerically per instance, not proved); "
            "IEEE rounding and float32 storage are not modelled (oracle tolerances 1e-9 for float64, 2e-3 for float32 matrices, "
            "conditioning of the generated C_offoff bounded accordingly). End-to-end cases through the covariance builder are "
            "run on co-located point-symmetric geometries AND on general geometries (arbitrary masks with different sub-aperture counts, different directions and guide-star altitudes) "
            "because the builder itself is the subject of C01 (defects D1/D2 there); general PSD matrices are hand-made.",
    "technique": "Lean 4 proof (Mathlib matrix algebra over a contract-parametrised model) + exact differential correspondence with "
                 "the real code + numerical contract check + oracle search",
}
REQUIRED = ["recon_eq", "wrapper", "normal_eq_retained", "retained_projector", "retained_reduces", "normal_eq_full",
            "normal_eq_psd", "residual_eq_J", "optimal", "reconstructor_optimal", "optimal_retained", "duplicate_matrix",
            "optimal_strict", "reconstructor_optimal_retained", "duplicate", "duplicate_reproduces", "J_eq_sum_sq",
            "contract_penrose", "contract_cutoff", "conoff_eq_sel", "duplicate_psd"]

TOL64 = 1e-9       # relative tolerance for float64 pipelines (generated cond(C_offoff) <= 1e3 on the retained subspace)
TOL32 = 2e-3       # relative tolerance when the covariance matrix is float32 (generated cond <= 30; end-to-end cond <= 2e3)
# hand-made duplicate sensor: |R - E_k|max <= DUP_TOL * q (q = number of off-axis slopes, 2..24; cond(C_offoff) <= 1e3 / 30).
# Observed on the clean tree, 12 seeds x 200 cases: 3.5e-15*q (float64), 1.5e-7*q (float32).  The float32 value used to be
# 100*TOL32 = 0.2*q, i.e. >= 1 from q = 5 on, so that R = 0 passed; 1e-4*q <= 2.4e-3 keeps a 700-fold margin.
DUP_TOL = {"float64": 1e-7, "float32": 1e-4}


def sc():
    from aotools.turbulence import slopecovariance
    return slopecovariance


def within(chk, key, err, tol):
    """err <= tol, remembering the worst observed err/tol per kind of comparison (reported in the evidence notes)"""
    m = chk.__dict__.setdefault("_margins", {})
    r = float(err) / float(tol) if tol > 0 else (0.0 if err == 0 else float("inf"))
    if not r <= m.get(key, 0.0):
        m[key] = r
    return err <= tol


# --------------------------------------------------------------------------- kernels patched into numpy.linalg
def standin(a, rcond=None, **kw):
    """integer stand-in for numpy.linalg.pinv (same formula as AoVerif.Drive.C02.standin)"""
    a = numpy.asarray(a)
    q = a.shape[0]
    if rcond is None:
        rcond = -1000            # "no conditioning was passed": shows as a mismatch, never as a crash of the harness
    i, j = numpy.meshgrid(numpy.arange(q), numpy.arange(q), indexing="ij")
    return (3 * a.T + rcond + 7 * i + j).astype(a.dtype if a.dtype.kind == "f" else float)


@contextlib.contextmanager
def patched_pinv(fn):
    real = numpy.linalg.pinv
    numpy.linalg.pinv = fn
    try:
        yield real
    finally:
        numpy.linalg.pinv = real


class Spy:
    """records every call of numpy.linalg.pinv made by the code under test"""

    def __init__(self):
        self.calls = []
        self.real = numpy.linalg.pinv

    def __call__(self, a, *args, **kw):
        out = self.real(a, *args, **kw)
        self.calls.append((numpy.array(a, copy=True), args, dict(kw), numpy.array(out, copy=True)))
        return out


def make_object(n_subaps, threads=1):
    """a CovarianceMatrix whose masks have the given numbers of sub-apertures (no matrix built)"""
    S = sc()
    nx = max(1, int(numpy.ceil(numpy.sqrt(max(n_subaps)))))
    masks = numpy.zeros((len(n_subaps), nx, nx), dtype=int)
    for k, m in enumerate(n_subaps):
        masks[k].ravel()[:m] = 1
    nw = len(n_subaps)
    return S.CovarianceMatrix(nw, masks, 4.2, numpy.full(nw, 4.2 / nx), numpy.zeros(nw), numpy.zeros((nw, 2)),
                              numpy.full(nw, 500e-9), 1, numpy.array([0.]), numpy.array([0.15]), numpy.array([25.]),
                              threads=threads)


def fl(x):
    return " ".join(common.f2h(v) for v in numpy.asarray(x, dtype=float).ravel())


def parse(ans, shape):
    return numpy.array([common.h2f(h) for h in ans.split()], dtype=float).reshape(shape)


# --------------------------------------------------------------------------- the functional of the property
def Jfun(C, p, R):
    C = numpy.asarray(C, dtype=float)
    R = numpy.asarray(R, dtype=float)
    Con, Conoff, Coffon, A = C[:p, :p], C[:p, p:], C[p:, :p], C[p:, p:]
    return float(numpy.trace(Con - R @ Coffon - Conoff @ R.T + R @ A @ R.T))


def rand_orth(nprng, q):
    Q, Rr = numpy.linalg.qr(nprng.normal(size=(q, q)))
    return Q * numpy.sign(numpy.diag(Rr))


def handmade(nprng, rng, N, n, kind, dtype):
    """a symmetric PSD C = [W;I] A [W;I]^T + diag(S S^T, 0) with a prescribed spectrum of A = C_offoff.
    Returns C (dtype), the float64 C it was rounded from, W (a known solution of the normal equations), rcond."""
    p, q = 2 * n, N - 2 * n
    cond = 10 ** rng.uniform(0, 3.0 if dtype == numpy.float64 else 1.45)
    scale = 10 ** rng.uniform(-3, 3) if rng.random() < 0.5 else 1.0
    Q = rand_orth(nprng, q)
    if kind == "illcond":
        # round 5: full rank, zero conditioning, cond(C_offoff) 1e3..1e6 (float64 only; the tolerance is scaled by cond/1e3): the
        # smallest singular values are far above rounding but below any "sensible default" cut-off a falsy svd_conditioning=0 may turn into
        cond = 10 ** rng.uniform(3.0, 6.0)
        mu = numpy.array([cond ** (-rng.random()) for _ in range(q)])
        mu[rng.randrange(q)] = 1.0
        if q > 1:
            mu[rng.choice([i for i in range(q) if mu[i] != 1.0])] = 1.0 / cond
        rcond = 0.0
    elif kind == "tightgap":
        # round 5: the cut-off rcond*max sits only a factor 10 above the discarded and a factor 10 below the retained singular
        # values ("gap" leaves five decades on either side, so rcond used as sqrt(rcond), rcond^2, 10*rcond ... passes there);
        # retained cond <= 1e3 (float64) / 30 (float32) as for "full"
        rcond = 10 ** (rng.uniform(-4.0, -1.1) if dtype == numpy.float64 else rng.uniform(-2.48, -1.1))
        nsmall = rng.randint(1, q - 1)
        small = set(rng.sample(range(q), nsmall))
        large = [i for i in range(q) if i not in small]
        mu = numpy.zeros(q)
        for i in large:
            mu[i] = 10 ** rng.uniform(numpy.log10(10 * rcond), 0.0)
        mu[large[0]] = 1.0
        if len(large) > 1:
            mu[large[1]] = 10 * rcond * rng.uniform(1.0, 1.5)
        for i in small:
            mu[i] = rcond * 10 ** rng.uniform(-2.0, -1.0)
        mu[next(iter(small))] = rcond / 10 * rng.uniform(0.67, 1.0)
        cond = 1.0 / mu[large].min()
    elif kind == "full":
        mu = numpy.array([cond ** (-rng.random()) for _ in range(q)])
        mu[rng.randrange(q)] = 1.0
        rcond = 0.0
    else:
        nsmall = rng.randint(1, q - 1)
        small = set(rng.sample(range(q), nsmall))
        large = [i for i in range(q) if i not in small]
        mu = numpy.zeros(q)
        for i in large:
            mu[i] = rng.uniform(0.2, 1.0)
        mu[rng.choice(large)] = 1.0
        for i in small:
            mu[i] = 0.0 if kind == "rankdef" else 10 ** rng.uniform(-7, -6)
        rcond = 10 ** rng.uniform(-4, -2)
    A = (Q * (mu * scale)) @ Q.T
    A = (A + A.T) / 2
    W = nprng.normal(size=(p, q))
    S = nprng.normal(size=(p, rng.randint(1, p + 1))) * numpy.sqrt(scale) * rng.choice([0.0, 0.3, 1.0])
    C = numpy.zeros((N, N))
    C[:p, :p] = W @ A @ W.T + S @ S.T
    C[:p, p:] = W @ A
    C[p:, :p] = (W @ A).T
    C[p:, p:] = A
    C = (C + C.T) / 2
    Cd = C.astype(dtype)
    Cd = ((Cd + Cd.T) / 2).astype(dtype)        # stays symmetric after rounding
    LAST["cond"] = float(cond)
    return Cd, W, rcond, scale


LAST = {}          # cond(C_offoff) on the retained subspace of the matrix handmade() made last


# --------------------------------------------------------------------------- round 5: the same arguments in other forms
LAYOUTS = ("C", "C", "F", "strided", "neg", "ro", "window")


def relayout(C, how):
    """the same matrix (values, dtype) in another memory layout"""
    N = C.shape[0]
    if how == "F":
        return numpy.asfortranarray(C)
    if how == "strided":                   # every second element of a NaN-filled buffer
        big = numpy.full((2 * N + 1, 2 * N + 1), numpy.nan, dtype=C.dtype)
        v = big[1::2, 1::2]
        v[...] = C
        return v
    if how == "neg":                       # negative strides on both axes
        return C[::-1, ::-1].copy()[::-1, ::-1]
    if how == "ro":
        C = C.copy()
        C.setflags(write=False)
        return C
    if how == "window":                    # a window of a larger (NaN-filled) array, as when one big matrix holds several systems
        big = numpy.full((N + 5, N + 8), numpy.nan, dtype=C.dtype)
        big[2:2 + N, 3:3 + N] = C
        return big[2:2 + N, 3:3 + N]
    return C


def n_forms(rng, n):
    """the integer n as the integer types a caller's code produces (mask.sum() of bool / unsigned masks gives unsigned scalars)"""
    forms = [int(n), numpy.int64(n), numpy.int32(n), numpy.uint64(n), numpy.intp(n), numpy.uint32(n), numpy.array(n)]
    if 2 * n <= 255:
        forms += [numpy.uint8(n), numpy.int16(n)]
    return rng.choice(forms)


def rcond_forms(rng, rcond):
    """(value, object handed over): Python float, NumPy float64 / float32 scalar (value rounded to single first), 0-d array"""
    how = rng.choice(["float", "float", "np64", "np32", "0d"])
    if how == "np32":
        rcond = float(numpy.float32(rcond))
        return rcond, numpy.float32(rcond)
    return rcond, {"float": float(rcond), "np64": numpy.float64(rcond), "0d": numpy.array(float(rcond))}[how]


def call_function(rng, C, n, rc=None):
    """create_tomographic_covariance_reconstructor through one of its names, positionally or by keyword; rc None = default"""
    import aotools
    S = sc()
    f = rng.choice([S.create_tomographic_covariance_reconstructor, S.create_tomographic_covariance_reconstructor,
                    aotools.create_tomographic_covariance_reconstructor, aotools.turbulence.create_tomographic_covariance_reconstructor])
    if rng.random() < 0.3:
        kw = {"covariance_matrix": C, "n_onaxis_subaps": n}
        if rc is not None:
            kw["svd_conditioning"] = rc
        return f(**kw)
    if rc is None:
        return f(C, n)
    return f(C, n, svd_conditioning=rc) if rng.random() < 0.3 else f(C, n, rc)


def reference(C, n, rcond):
    """what the property's reconstructor is for THESE arguments, from numpy's pinv directly (independent of anything the library
    may remember from earlier calls)"""
    n = int(n)
    C = numpy.array(C, copy=True)
    return C[:2 * n, 2 * n:].dot(numpy.linalg.pinv(C[2 * n:, 2 * n:], rcond=float(rcond)))


def retained_projector(A, rcond):
    """orthogonal projector on the eigen-subspace of the symmetric A with |eigenvalue| > rcond*max|eigenvalue|, computed
    independently of pinv (eigh in float64), together with the relative gap around the cut-off"""
    A = numpy.asarray(A, dtype=float)
    w, V = numpy.linalg.eigh((A + A.T) / 2)
    s = numpy.abs(w)
    cut = rcond * s.max()
    keep = s > cut
    below = s[~keep].max() if (~keep).any() else 0.0
    above = s[keep].min() if keep.any() else numpy.inf
    Vk = V[:, keep]
    return Vk @ Vk.T, cut, below, above, s.max()


# --------------------------------------------------------------------------- correspondence
def correspondence(chk, quick):
    S = sc()
    rng = chk.rng
    nprng = numpy.random.default_rng(rng.getrandbits(32))
    lines, expect = [], []

    def add(line, impl, shape, desc, exact, scale=1.0, sample=None):
        lines.append(line)
        expect.append((impl, shape, desc, exact, scale, sample))

    # (a) slices / product order / rcond pass-through, EXACT on integer matrices with the stand-in kernel
    sizes = list(range(3, 13)) + ([] if quick else list(range(13, 31)))
    with patched_pinv(standin):
        for N in sizes:
            ns = list(range(1, (N - 1) // 2 + 1))
            for n in (ns if (not quick or len(ns) <= 3) else rng.sample(ns, 3)):
                for rep in range(1 if quick else 3):
                    dt = rng.choice([numpy.float64, numpy.float32, numpy.int64])
                    rc = rng.choice([0, 1, 2, 5])
                    C = nprng.integers(-9, 10, size=(N, N)).astype(dt)        # NOT symmetric: transposes must show
                    C0 = C.copy()
                    nn = rng.choice([n, numpy.int64(n), numpy.int32(n)])
                    how = "default" if rc == 0 and rng.random() < 0.5 else "explicit"
                    try:
                        R = (S.create_tomographic_covariance_reconstructor(C, nn) if how == "default"      # default conditioning
                             else S.create_tomographic_covariance_reconstructor(C, nn, rc))
                    except Exception as ex:
                        chk.broke("correspondence", "the real code raised %s: %s on an integer matrix with the stand-in kernel "
                                  "(N=%d n=%d)" % (type(ex).__name__, ex, N, n))
                        continue
                    if not numpy.array_equal(C, C0):
                        chk.fail("purity:covariance-matrix-written", "create_tomographic_covariance_reconstructor modified its "
                                 "covariance_matrix argument (N=%d n=%d)" % (N, n), {"N": N, "n": n, "C": C0.tolist()})
                    chk.count("corr:recon:%s:%s" % (numpy.dtype(dt).name, how))
                    add("C02 recon %d %d %s %s" % (N, n, common.f2h(rc), fl(C)), numpy.asarray(R, dtype=float), (2 * n, N - 2 * n),
                        ("recon", N, n, rc, numpy.dtype(dt).name, rep), True,
                        sample={"op": "recon", "N": N, "n": n, "rcond": rc, "dtype": numpy.dtype(dt).name})
        # (b) the method wrapper: which element of n_subaps, which matrix
        for it in range(12 if quick else 120):
            k = rng.randint(2, 4)
            subs = [rng.randint(1, 5) for _ in range(k)]
            if it % 3 == 0:
                subs[0] = subs[1] + 1          # make n_subaps[0] != n_subaps[1]
            N = 2 * sum(subs)
            obj = make_object(subs)
            assert [int(v) for v in obj.n_subaps] == subs
            rc = rng.choice([0, 1, 3])
            C = nprng.integers(-9, 10, size=(N, N)).astype(rng.choice([numpy.float64, numpy.float32]))
            obj.covariance_matrix = C
            try:
                R = obj.make_tomographic_reconstructor(rc) if rc or rng.random() < 0.5 else obj.make_tomographic_reconstructor()
                # a second call on the same object with another conditioning and another stored matrix: no memory of the first
                rc2 = rng.choice([v for v in (0, 1, 3, 4) if v != rc])
                C2 = nprng.integers(-9, 10, size=(N, N)).astype(C.dtype) if rng.random() < 0.5 else C
                obj.covariance_matrix = C2
                R2 = obj.make_tomographic_reconstructor(rc2)
            except Exception as ex:
                chk.broke("correspondence", "the real method raised %s: %s (n_subaps=%s)" % (type(ex).__name__, ex, subs))
                continue
            if R2 is not getattr(obj, "tomographic_reconstructor", None):
                # HOW the method keeps its result (an attribute holding the very object it returns) is the model's reading of the
                # code, not something the property demands: a refactoring that returns a copy is harmless
                chk.broke("correspondence", "make_tomographic_reconstructor returns an object that is not the one it stores in "
                          "self.tomographic_reconstructor (model: stored and returned are the same; n_subaps=%s)" % subs)
            chk.count("corr:wrap:k%d" % k)
            add("C02 wrap %d %s %s %s" % (k, " ".join(map(str, subs)), common.f2h(rc), fl(C)), numpy.asarray(R, dtype=float),
                (2 * subs[0], N - 2 * subs[0]), ("wrap", tuple(subs), rc, it), True,
                sample={"op": "wrap", "n_subaps": subs, "rcond": rc})
            add("C02 wrap %d %s %s %s" % (k, " ".join(map(str, subs)), common.f2h(rc2), fl(C2)), numpy.asarray(R2, dtype=float),
                (2 * subs[0], N - 2 * subs[0]), ("wrap-second-call", tuple(subs), rc2, it), True)
    # (c) the real kernel: recorded call (argument, rcond, output) -> model product; numpy pinv vs pinvFromSvd on numpy's SVD
    ncase = 100 if quick else 2500
    for it in range(ncase):
        N = rng.randint(3, 14 if quick else 26)
        n = rng.randint(1, (N - 1) // 2)
        q = N - 2 * n
        dt = rng.choice([numpy.float64, numpy.float64, numpy.float32])
        kind = rng.choice(["full", "gap", "rankdef"]) if q > 1 else "full"
        C, W, rcond, scale = handmade(nprng, rng, N, n, kind, dt)
        spy = Spy()
        chk.count("corr:kernel:%s:%s" % (kind, numpy.dtype(dt).name))
        try:
            with patched_pinv(spy):
                R = S.create_tomographic_covariance_reconstructor(C, n, rcond)
        except Exception as ex:
            chk.broke("correspondence", "the real code raised %s: %s (N=%d n=%d %s rcond=%r)" % (type(ex).__name__, ex, N, n, kind, rcond))
            continue
        if len(spy.calls) != 1:
            chk.broke("correspondence", "the code made %d calls of numpy.linalg.pinv (model: exactly one)" % len(spy.calls))
            continue
        arg, cargs, ckw, P = spy.calls[0]
        rc_seen = ckw.get("rcond", cargs[0] if cargs else None)
        if arg.shape != (q, q) or not numpy.array_equal(arg, C[2 * n:, 2 * n:]) or rc_seen is None or float(rc_seen) != float(rcond):
            chk.broke("correspondence", "kernel call differs from the model: argument is not C[2n:,2n:] or rcond not passed through "
                      "(N=%d n=%d rcond=%r seen=%r)" % (N, n, rcond, rc_seen))
            continue
        Cf, Pf = C.astype(float), P.astype(float)
        sc_R = float(numpy.abs(Cf[:2 * n, 2 * n:]).max() * numpy.abs(Pf).max() * q + 1e-300)
        add("C02 reconP %d %d %s %s" % (N, n, fl(Cf), fl(Pf)), numpy.asarray(R, dtype=float), (2 * n, q),
            ("reconP", N, n, kind, numpy.dtype(dt).name, it), False, sc_R * (1e-12 if dt == numpy.float64 else 1e-5),
            sample={"op": "reconP", "N": N, "n": n, "kind": kind, "dtype": numpy.dtype(dt).name, "rcond": rcond})
        # numpy's own factors of the same argument
        U, s, Vt = numpy.linalg.svd(arg)
        Uf, sf, Vtf = U.astype(float), s.astype(float), Vt.astype(float)
        cut = rcond * sf.max()
        near = numpy.abs(sf - cut) <= 1e-3 * sf.max() * max(rcond, 1e-300) if rcond > 0 else numpy.zeros(q, bool)
        eps = 1e-12 if dt == numpy.float64 else 1e-5
        smin_ret = sf[sf > cut].min() if (sf > cut).any() else sf.max()
        if kind == "full" or not near.any():
            # contract fields, numerically
            bad = []
            if numpy.abs(Uf.T @ Uf - numpy.eye(q)).max() > 1e3 * eps:
                bad.append("U not orthogonal")
            if numpy.abs(Vtf @ Vtf.T - numpy.eye(q)).max() > 1e3 * eps:
                bad.append("Vt not orthogonal")
            if (sf < 0).any():
                bad.append("negative singular value")
            if numpy.abs((Uf * sf) @ Vtf - arg.astype(float)).max() > 1e3 * eps * sf.max():
                bad.append("A != U diag(s) Vt")
            A64 = arg.astype(float)
            pn = numpy.abs(Pf).max() + 1e-300
            condr = sf.max() / smin_ret
            ptol = 1e3 * eps * condr * q
            if numpy.abs(Pf @ A64 @ Pf - Pf).max() > ptol * pn:
                bad.append("Penrose 2 (P A P = P)")
            if numpy.abs((A64 @ Pf).T - A64 @ Pf).max() > ptol:
                bad.append("Penrose 3 ((A P)^T = A P)")
            if numpy.abs((Pf @ A64).T - Pf @ A64).max() > ptol:
                bad.append("Penrose 4 ((P A)^T = P A)")
            if kind == "full" and numpy.abs(A64 @ Pf @ A64 - A64).max() > ptol * sf.max():
                bad.append("Penrose 1 (A P A = A)")
            if bad:
                chk.broke("correspondence", "numpy.linalg.pinv/svd do not meet the kernel contract on this instance: %s "
                          "(q=%d rcond=%r dtype=%s)" % ("; ".join(bad), q, rcond, numpy.dtype(dt).name))
            if True:
                # (rank-deficient cases: singular values at rounding level are far below the cut-off, rcond >= 1e-4)
                add("C02 pinvsvd %d %s %s %s %s" % (q, common.f2h(rcond), fl(Uf), fl(sf), fl(Vtf)), Pf, (q, q),
                    ("pinvsvd", q, kind, numpy.dtype(dt).name, it), False, (1.0 / smin_ret) * q * (1e-11 if dt == numpy.float64 else 2e-5),
                    sample={"op": "pinvsvd", "q": q, "kind": kind, "rcond": rcond})
    # (d) residual variance functional of the model vs the oracle's J (integer matrices, exact)
    for it in range(10 if quick else 100):
        N = rng.randint(3, 10)
        n = rng.randint(1, (N - 1) // 2)
        G = nprng.integers(-3, 4, size=(N, N))
        C = (G @ G.T).astype(float)
        R = nprng.integers(-3, 4, size=(2 * n, N - 2 * n)).astype(float)
        add("C02 resvar %d %d %s %s" % (N, n, fl(C), fl(R)), numpy.array([Jfun(C, 2 * n, R)]), (1,), ("resvar", N, n, it), True,
            sample={"op": "resvar", "N": N, "n": n})
        chk.count("corr:resvar")

    ans = common.run_driver(lines, "C02")
    nbad = 0
    for a, (impl, shape, desc, exact, scale, sample) in zip(ans, expect):
        chk.corr_cases += 1
        chk.case(("corr",) + tuple(desc), sample=sample)
        if a == "bad-op":
            chk.broke("correspondence", "driver rejected %r" % (desc,))
            continue
        m = parse(a, shape)
        if impl.shape != shape:
            ok, err = False, -1.0
        elif exact:
            ok, err = bool(numpy.array_equal(m, impl)), float(numpy.abs(m - impl).max()) if m.size else 0.0
        else:
            err = float(numpy.abs(m - impl).max()) if m.size else 0.0
            ok = err <= scale
        if not exact and m.size and impl.shape == shape:
            within(chk, "corr:%s:%s" % (desc[0], desc[-2]), err, scale)
        if not ok:
            nbad += 1
            if nbad <= 5:
                chk.broke("correspondence", "model %s differs from the real code at %r: shape impl %s model %s, max err %.3g (%s)"
                          % (desc[0], desc[1:], impl.shape, shape, err, "exact" if exact else "tol %.3g" % scale))


# --------------------------------------------------------------------------- oracle on hand-made PSD matrices
def oracle_handmade(chk, quick):
    S = sc()
    rng = chk.rng
    nprng = numpy.random.default_rng(rng.getrandbits(32))
    ncase = 1500 if quick else 120000
    for it in range(ncase):
        N = rng.randint(3, 20 if quick else 64)
        # round 5: sizes past any blocking / size threshold of the linear-algebra kernels (quick: 3 matrices of 130..300; thorough: 60 up to 600)
        big = it % 500 == 250 if quick else it % 2000 == 1000
        if big:
            N = rng.randint(130, 300 if quick else 600)
        n = rng.randint(1, (N - 1) // 2)
        p, q = 2 * n, N - 2 * n
        dt = rng.choice([numpy.float64, numpy.float64, numpy.float32])
        kind = rng.choice(["full", "full", "gap", "rankdef", "tightgap", "tightgap", "illcond"]) if q > 1 else "full"
        if kind == "illcond" and dt != numpy.float64:
            kind = "tightgap"
        tol = TOL64 if dt == numpy.float64 else TOL32
        dn = numpy.dtype(dt).name
        C, W, rcond, scale = handmade(nprng, rng, N, n, kind, dt)
        if kind == "illcond":
            tol = TOL64 * LAST["cond"] / 1e3
        lay = rng.choice(LAYOUTS)
        C = relayout(C, lay)
        C0 = C.copy()
        default = kind in ("full", "illcond") and rng.random() < 0.5
        nn = n_forms(rng, n)
        rcond, rc_arg = rcond_forms(rng, rcond)
        rep = {"N": N, "n": n, "kind": kind, "dtype": dn, "rcond": rcond, "layout": lay, "n_type": type(nn).__name__,
               "rcond_type": type(rc_arg).__name__, "C": C0.astype(float).tolist() if N <= 64 else "<%dx%d matrix: re-run with this seed>" % (N, N)}
        chk.count("oracle:handmade:layout:%s" % lay)
        chk.count("oracle:handmade:n:%s" % type(nn).__name__)
        if big:
            chk.count("oracle:handmade:big")
        try:
            R = call_function(rng, C, nn) if default else call_function(rng, C, nn, rc_arg)
        except Exception as ex:          # the property's domain is every PSD matrix and partition: construction must succeed
            chk.oracle_cases += 1
            chk.fail("raises:%s" % kind, "create_tomographic_covariance_reconstructor raised %s: %s (N=%d n=%d %s rcond=%r)"
                     % (type(ex).__name__, ex, N, n, dn, rcond), rep)
            continue
        chk.oracle_cases += 1
        chk.count("oracle:handmade:%s:%s" % (kind, dn))
        chk.case(("handmade", N, n, kind, dn, it), sample={"N": N, "n": n, "kind": kind, "dtype": dn, "rcond": rcond} if it < 3 else None)
        if not numpy.array_equal(C, C0):
            chk.fail("purity:covariance-matrix-written", "covariance_matrix argument modified in place (N=%d n=%d)" % (N, n), rep)
        R = numpy.asarray(R)
        if R.shape != (p, q):
            chk.fail("shape", "reconstructor has shape %s, expected (2n, N-2n) = %s for N=%d n=%d" % (R.shape, (p, q), N, n), rep)
            continue
        if not numpy.isfinite(R).all():
            chk.fail("finite:%s" % kind, "reconstructor has non-finite entries (N=%d n=%d %s %s)" % (N, n, kind, dn), rep)
            continue
        Cf, Rf = C.astype(float), R.astype(float)
        Conoff, A = Cf[:p, p:], Cf[p:, p:]
        sc_on = float(numpy.abs(Conoff).max()) * q + 1e-300
        label = {"full": "full", "illcond": "full-illcond"}.get(kind, "retained")
        if kind in ("full", "illcond"):
            Pi = numpy.eye(q)
        else:
            Pi, cut, below, above, smax = retained_projector(A, rcond)
            if not (below * 8 < cut < above / 8):
                chk.count("oracle:handmade:skipped-no-gap")
                continue
        # --- normal equations (on the retained subspace)
        res = float(numpy.abs(Rf @ A - Conoff @ Pi).max())
        if not within(chk, "normal-eq:%s:%s" % (kind, dn), res, tol * sc_on):
            chk.fail("normal-eq:%s:%s" % (label, dn),
                     "R*C_offoff != C_onoff%s: max residual %.3g > %.3g (N=%d n=%d %s rcond=%r%s%s)"
                     % ("" if label != "retained" else "*Pi", res, tol * sc_on, N, n, dn, rcond, " default" if default else "",
                        " cond=%.3g" % LAST["cond"] if kind in ("illcond", "tightgap") else ""), rep)
        # --- R lives on the retained subspace
        sc_R = float(numpy.abs(Rf).max()) * q + 1e-300
        off = float(numpy.abs(Rf @ (numpy.eye(q) - Pi)).max())
        if label == "retained" and not within(chk, "retained-support:%s:%s" % (kind, dn), off, tol * sc_R):
            chk.fail("retained-support:%s" % dn, "R has weight %.3g outside the retained singular subspace (singular values below "
                     "rcond*max were not discarded; N=%d n=%d rcond=%r)" % (off, N, n, rcond), rep)
        # --- residual variance against competitors
        JR = Jfun(Cf, p, Rf)
        trcon = float(numpy.trace(Cf[:p, :p])) + 1e-300
        gnoise = tol * sc_on * numpy.sqrt(p * q)          # Frobenius norm of the normal-equation residual the tolerance allows
        comps = []
        for t in (1.0, -1.0, 0.1, -0.1, 0.01):
            E = nprng.normal(size=(p, q)) @ Pi
            E *= (numpy.abs(Rf).max() + 1.0) / (numpy.abs(E).max() + 1e-300)
            comps.append(("random t=%g" % t, Rf + t * E, abs(t) * numpy.linalg.norm(E)))
        G = (Rf @ A - Conoff @ Pi) @ Pi
        den = float(numpy.trace(G @ A @ G.T))
        if den > 0:
            ts = float((G * G).sum()) / den
            comps.append(("gradient step", Rf - ts * G, ts * numpy.linalg.norm(G)))
        comps.append(("known solution W*Pi", W @ Pi, numpy.linalg.norm(W @ Pi - Rf)))
        comps.append(("zero map", numpy.zeros((p, q)), numpy.linalg.norm(Rf)))
        # round 5, "tightgap" only: the discarded singular values are NOT negligible there (a tenth of the cut-off), so the part of R
        # that leaks out of the retained subspace (bounded by the retained-support test above) changes J at first order:
        # J(R) - J(R') <= 2|G||R'-R| + 2<C_onoff(1-Pi), R(1-Pi)> for every competitor with R'Pi = R' (all of the ones below) — an
        # exact bound (Cauchy-Schwarz), not a fitted tolerance; observed (J(R)-J(R'))/(slack) <= 0.15 without it, 12 seeds
        # (10x the bound is allowed: observed <= 0.06 of the slack then, 12 seeds; the clause is carried by normal-eq / retained-support for this kind)
        leak = 20 * numpy.linalg.norm(Conoff @ (numpy.eye(q) - Pi)) * numpy.linalg.norm(Rf @ (numpy.eye(q) - Pi)) if kind == "tightgap" else 0.0
        for name, Rp, dist in comps:
            Jp = Jfun(Cf, p, Rp)
            slack = 2 * dist * gnoise + 1e-9 * trcon + leak
            if not within(chk, "optimal:%s:%s" % (kind, dn), max(JR - Jp, 0.0), slack):
                chk.fail("optimal:%s:%s" % (label, dn),
                         "competitor (%s) has a SMALLER expected squared residual: J(R')=%.12g < J(R)=%.12g (N=%d n=%d %s rcond=%r)"
                         % (name, Jp, JR, N, n, dn, rcond), dict(rep, competitor=name))
                break
        # float64, full: the exact excess identity J(R+tE)-J(R) = t^2 tr(E A E^T)
        if kind == "full" and dt == numpy.float64:
            E = nprng.normal(size=(p, q))
            for t in (1.0, 0.1):
                lhs = Jfun(Cf, p, Rf + t * E) - JR
                rhs = t * t * float(numpy.trace(E @ A @ E.T))
                if not within(chk, "excess-identity", abs(lhs - rhs), 1e-7 * (abs(rhs) + trcon)):
                    chk.fail("optimal:excess-identity", "J(R+tE)-J(R)=%.12g differs from t^2 tr(E C_offoff E^T)=%.12g (N=%d n=%d t=%g)"
                             % (lhs, rhs, N, n, t), rep)
                    break
    # --- round 5: conditioning values at and beyond 1 (every singular value is below the cut-off: the retained subspace is {0}, R = 0),
    # integer-typed PSD matrices, and HISTORIES of calls on the same / same-shaped matrices
    for it in range(24 if quick else 600):
        N = rng.randint(3, 16)
        n = rng.randint(1, (N - 1) // 2)
        p, q = 2 * n, N - 2 * n
        dt = rng.choice([numpy.float64, numpy.float32])
        dn = numpy.dtype(dt).name
        C, W, _, scale = handmade(nprng, rng, N, n, "full", dt)
        rc = rng.choice([1, 1.0, 1.0, 2.5, 1e6, numpy.float64(1.0), numpy.float32(1.0)])
        rep = {"N": N, "n": n, "kind": "discard-all", "dtype": dn, "rcond": float(rc), "C": C.astype(float).tolist()}
        chk.oracle_cases += 1
        chk.count("oracle:handmade:discard-all:%s" % dn)
        chk.case(("discard-all", N, n, dn, it))
        try:
            R = numpy.asarray(call_function(rng, C, n_forms(rng, n), rc)).astype(float)
        except Exception as ex:
            chk.fail("raises:discard-all", "create_tomographic_covariance_reconstructor raised %s: %s (N=%d n=%d %s rcond=%r)"
                     % (type(ex).__name__, ex, N, n, dn, rc), rep)
            continue
        # observed on the clean tree: exactly 0 (numpy's test is s > rcond*max(s))
        if R.shape != (p, q) or not numpy.abs(R).max() <= (TOL64 if dt == numpy.float64 else TOL32) * numpy.abs(W).max():
            chk.fail("retained-support:discard-all:%s" % dn, "svd_conditioning=%r >= 1 leaves no singular value above the cut-off, the "
                     "reconstructor must be 0 but has entries up to %.3g (N=%d n=%d)" % (rc, numpy.abs(R).max() if R.size else -1, N, n), rep)
    for it in range(20 if quick else 500):
        N = rng.randint(3, 14)
        n = rng.randint(1, (N - 1) // 2)
        p, q = 2 * n, N - 2 * n
        for attempt in range(50):
            G = nprng.integers(-4, 5, size=(N, N + rng.randint(2, 6)))
            Ci = G @ G.T
            if numpy.linalg.cond(Ci[p:, p:].astype(float)) <= 1e3:
                break
        else:
            continue
        dti = rng.choice([numpy.int64, numpy.int32, numpy.uint16, numpy.int64])
        if dti == numpy.uint16 and Ci.min() < 0:
            dti = numpy.int16
        C = relayout(Ci.astype(dti), rng.choice(LAYOUTS))
        C0 = C.copy()
        rep = {"N": N, "n": n, "kind": "integer", "dtype": numpy.dtype(dti).name, "rcond": 0.0, "C": Ci.tolist()}
        chk.oracle_cases += 1
        chk.count("oracle:handmade:integer:%s" % numpy.dtype(dti).name)
        chk.case(("integer", N, n, numpy.dtype(dti).name, it))
        try:
            R = numpy.asarray(call_function(rng, C, n_forms(rng, n), rng.choice([None, 0, 0.0])))
        except Exception as ex:
            chk.fail("raises:integer", "create_tomographic_covariance_reconstructor raised %s: %s on an integer-typed PSD matrix "
                     "(N=%d n=%d %s)" % (type(ex).__name__, ex, N, n, numpy.dtype(dti).name), rep)
            continue
        if not numpy.array_equal(C, C0):
            chk.fail("purity:covariance-matrix-written", "covariance_matrix argument modified in place (integer matrix, N=%d n=%d)" % (N, n), rep)
        Cf = Ci.astype(float)
        res = float(numpy.abs(R.astype(float) @ Cf[p:, p:] - Cf[:p, p:]).max()) if R.shape == (p, q) else float("inf")
        # observed on the clean tree over 12 seeds: <= 3e-14 of max|C_onoff|*q
        if not within(chk, "normal-eq:integer", res, TOL64 * numpy.abs(Cf[:p, p:]).max() * q + 1e-300):
            chk.fail("normal-eq:full:integer", "R*C_offoff != C_onoff for an integer-typed PSD matrix: residual %.3g (N=%d n=%d %s, "
                     "R dtype %s)" % (res, N, n, numpy.dtype(dti).name, R.dtype), rep)
    for it in range(60 if quick else 2500):
        N = rng.randint(5, 14)
        n1 = rng.randint(1, (N - 1) // 2)
        n2 = rng.choice([v for v in range(1, (N - 1) // 2 + 1) if v != n1])
        dt = rng.choice([numpy.float64, numpy.float32])
        dn = numpy.dtype(dt).name
        tol = TOL64 if dt == numpy.float64 else TOL32
        kind = "tightgap" if N - 2 * n1 > 1 else "full"
        Ca, _, rc, _ = handmade(nprng, rng, N, n1, kind, dt)
        Cb, _, rcb, _ = handmade(nprng, rng, N, n1, kind, dt)          # another matrix of the same shape and type
        rc = rc or 10 ** rng.uniform(-3, -1)
        rc2 = rng.choice([rc * 30, rc / 30, 0.3])
        lay = rng.choice(LAYOUTS)
        Ca, Cb = relayout(Ca, lay if lay != "ro" else "C"), relayout(Cb, lay)
        steps = [("first", Ca, n1, rc), ("other-conditioning", Ca, n1, 0), ("other-partition", Ca, n2, rc),
                 ("other-matrix-same-shape", Cb, n1, rc), ("repeat", Ca, n1, rc), ("other-conditioning", Ca, n1, rc2),
                 ("other-matrix-same-shape", Cb, n1, 0), ("edited-in-place", Ca, n1, rc), ("other-partition", Ca, n2, 0),
                 ("edited-in-place", Ca, n1, 0), ("repeat", Cb, n1, rc)]
        chk.oracle_cases += 1
        chk.count("oracle:handmade:history:%s" % dn)
        chk.case(("history", N, n1, n2, dn, lay, it))
        for k, (what, M, n, r) in enumerate(steps):
            if what == "edited-in-place":
                # the caller adds measurement noise to the diagonal of HIS matrix between two calls (the matrix stays PSD)
                M[numpy.arange(N), numpy.arange(N)] += (numpy.abs(numpy.diag(M)).max() * rng.uniform(0.05, 0.5)).astype(dt)
            try:
                R = numpy.asarray(call_function(rng, M, n_forms(rng, n), r)).astype(float)
            except Exception as ex:
                chk.fail("raises:history", "call %d (%s) of a sequence on one matrix raised %s: %s" % (k, what, type(ex).__name__, ex),
                         {"N": N, "n": n, "dtype": dn, "rcond": r, "step": k})
                break
            ref = numpy.asarray(reference(M, n, r)).astype(float)
            err = float(numpy.abs(R - ref).max()) if R.shape == ref.shape else float("inf")
            # observed on the clean tree: 0 (the same LAPACK / BLAS calls on the same numbers)
            if not within(chk, "history:function:%s" % dn, err, tol * (numpy.abs(ref).max() + 1e-300)):
                chk.fail("history:function:%s" % what, "call %d of a sequence (%s; N=%d n=%d rcond=%r %s) is not the reconstructor of the "
                         "arguments it was given: differs by %.3g (max |R| %.3g) — earlier calls in the sequence: %s"
                         % (k, what, N, n, r, dn, err, numpy.abs(ref).max(), [(w, nn_, rr) for w, _, nn_, rr in steps[:k]]),
                         {"N": N, "n": n, "dtype": dn, "rcond": r, "step": k, "C": numpy.asarray(M).astype(float).tolist(),
                          "sequence": [(w, nn_, float(rr)) for w, _, nn_, rr in steps[:k + 1]]})
                break
    # --- duplicate sensor, hand-made Gram matrices of sample slopes
    for it in range(150 if quick else 5000):
        k = rng.randint(1, 3)                       # off-axis sensors
        n = rng.randint(1, 4)
        extra = [rng.randint(1, 4) for _ in range(k - 1)]
        dup = rng.randrange(k)                      # which off-axis sensor the on-axis one duplicates
        sizes = extra[:dup] + [n] + extra[dup:]     # off-axis sub-aperture counts
        q = 2 * sum(sizes)
        k0 = 2 * sum(sizes[:dup])
        T = 4 * q + rng.randint(0, 5)
        dt = rng.choice([numpy.float64, numpy.float32])
        tol = TOL64 if dt == numpy.float64 else TOL32
        for attempt in range(20):
            Soff = nprng.normal(size=(q, T)) * 10 ** rng.uniform(-2, 2)
            Afull = Soff @ Soff.T / T
            if numpy.linalg.cond(Afull) <= (1e3 if dt == numpy.float64 else 30):
                break
        else:
            continue
        Sall = numpy.vstack([Soff[k0:k0 + 2 * n], Soff])
        C = (Sall @ Sall.T / T)
        C = ((C + C.T) / 2).astype(dt)
        R = numpy.asarray(S.create_tomographic_covariance_reconstructor(C, n, 0) if rng.random() < 0.5 else
                          S.create_tomographic_covariance_reconstructor(C, n)).astype(float)
        Ek = numpy.zeros((2 * n, q))
        Ek[numpy.arange(2 * n), k0 + numpy.arange(2 * n)] = 1
        chk.oracle_cases += 1
        chk.count("oracle:duplicate-handmade:%s" % numpy.dtype(dt).name)
        chk.case(("dup-handmade", tuple(sizes), dup, it), sample={"sizes": sizes, "dup": dup} if it < 2 else None)
        err = float(numpy.abs(R - Ek).max()) if R.shape == Ek.shape else float("inf")
        dtol = DUP_TOL[numpy.dtype(dt).name] * q
        if not within(chk, "duplicate:handmade:%s" % numpy.dtype(dt).name, err, dtol):
            chk.fail("duplicate:handmade:%s" % numpy.dtype(dt).name,
                     "on-axis sensor duplicates off-axis sensor %d but R differs from the selection matrix by %.3g (sizes %s, n=%d)"
                     % (dup, err, sizes, n), {"sizes": sizes, "dup": dup, "n": n, "dtype": numpy.dtype(dt).name,
                                              "C": C.astype(float).tolist()})
        else:
            s_off = nprng.normal(size=q)
            if not numpy.abs(R @ s_off - s_off[k0:k0 + 2 * n]).max() <= dtol * numpy.abs(s_off).sum():
                chk.fail("duplicate:reproduce", "R*s_off does not reproduce the duplicated sensor's slopes", {"sizes": sizes, "dup": dup})


# --------------------------------------------------------------------------- oracle end-to-end through the covariance builder
def sym_regions(nx, rng):
    """disjoint point-symmetric masks of one nx*nx grid (square rings, some split into two point-symmetric halves)"""
    c = (nx - 1) / 2.0
    yy, xx = numpy.mgrid[0:nx, 0:nx]
    dx, dy = xx - c, yy - c
    ring = numpy.maximum(numpy.abs(dx), numpy.abs(dy))
    regs = []
    for r in sorted(set(ring.ravel())):
        m = ring == r
        if m.sum() >= 8 and rng.random() < 0.5:
            a = m & (numpy.abs(dx) >= numpy.abs(dy))
            b = m & ~a
            regs += [a, b]
        else:
            regs.append(m)
    regs = [m.astype(int) for m in regs if m.sum() > 0]
    for m in regs:
        assert numpy.array_equal(m, m[::-1, ::-1])
    return regs


def oracle_endtoend(chk, quick):
    S = sc()
    rng = chk.rng
    nprng = numpy.random.default_rng(rng.getrandbits(32))
    ncase = 40 if quick else 1500
    for it in range(ncase):
        nx = rng.choice([3, 4, 5, 6] if quick else [3, 4, 5, 6, 7, 8])
        general = rng.random() < 0.6
        D = rng.choice([4.2, 8.0, 1.0])
        d = D / nx
        nl = rng.randint(1, 3)
        lay_alt = [0.0, rng.uniform(1000, 12000), rng.uniform(1000, 12000)][:nl] if rng.random() < 0.5 else \
            [rng.uniform(500, 12000) for _ in range(nl)]
        lay_r0 = [rng.uniform(0.08, 0.4) for _ in range(nl)]
        lay_L0 = [rng.uniform(8, 60) for _ in range(nl)]
        diams = None
        if general:
            # arbitrary (non-symmetric) masks with DIFFERENT sub-aperture counts, sensors looking in different directions
            # and at different guide-star altitudes; only the duplicated pair shares direction, mask, wavelength
            # round 5: 1..4 off-axis sensors (1 = only the duplicate), and in some cases every sensor on its OWN grid (nx_k x nx_k
            # sub-apertures of D/nx_k) — the masks are then a list of differently shaped arrays
            m = rng.choice([1, 2, 2, 3, 3, 4])
            mixed = rng.random() < 0.35
            nxs = [rng.randint(2, 6) if mixed else nx for _ in range(m)]
            masks = []
            for k in range(m):
                while True:
                    mk = (nprng.random((nxs[k], nxs[k])) < rng.choice([0.35, 0.6, 0.9])).astype(int)
                    if mk.sum() >= 2:
                        break
                masks.append(mk)
            dup = rng.randrange(m)
            allm = numpy.array([masks[dup]] + masks) if not mixed else [masks[dup]] + masks
            if mixed:
                diams = [D / nxs[dup]] + [D / v for v in nxs]
            nw = m + 1
            gss = [(rng.uniform(-40, 40), rng.uniform(-40, 40)) for _ in range(nw)]
            alts = [rng.choice([0.0, 90e3, 20e3]) for _ in range(nw)]
            gss[0] = gss[1 + dup]
            alts[0] = alts[1 + dup]
            if it % 7 == 3:
                # the same star seen as a natural guide star (altitude 0 = infinity) by one sensor and as a source at 1e12 m by its
                # duplicate: the same direction to 1e-8 relative, so the duplicate clause applies to the tolerance below
                alts[0], alts[1 + dup] = (0.0, 1e12) if it % 2 else (1e12, 0.0)
            lam_dup = rng.choice([500e-9, 600e-9, 1.65e-6])
            lams = [lam_dup] + [rng.choice([500e-9, 800e-9]) for _ in range(m)]
            lams[1 + dup] = lam_dup
            gs, alt = gss[0], alts[0]
            gs_arr, alt_arr = numpy.array(gss), numpy.array(alts)
        else:
            regs = sym_regions(nx, rng)
            if len(regs) < 2:
                continue
            m = rng.randint(2, min(3, len(regs)))
            masks = rng.sample(regs, m)
            dup = rng.randrange(m)
            allm = numpy.array([masks[dup]] + masks)
            nw = m + 1
            gs = (rng.uniform(-30, 30), rng.uniform(-30, 30)) if rng.random() < 0.7 else (0.0, 0.0)
            alt = rng.choice([0.0, 0.0, 90e3])
            lam_dup = rng.choice([500e-9, 600e-9, 1.65e-6])
            lams = [lam_dup] + [rng.choice([500e-9, 800e-9]) for _ in range(m)]
            lams[1 + dup] = lam_dup
            gs_arr, alt_arr = numpy.array([gs] * nw), numpy.full(nw, alt)
        chk.count("oracle:endtoend:%s" % ("general-geometry" if general else "symmetric-colocated"))
        if nl >= 2 and rng.random() < 0.2:
            lay_alt[1], lay_L0[1] = lay_alt[0], lay_L0[0]          # round 5: two sheets of turbulence in one altitude bin (r0 differs)
        diams = [d] * nw if diams is None else diams
        # round 5: the arguments as float64 arrays (as before), plain lists or tuples of Python floats; the class through the package name;
        # a few systems built by the multiprocessing builder
        form = rng.choice(["array", "array", "list", "tuple"])
        conv = {"array": lambda x: numpy.array(x, dtype=float), "list": lambda x: numpy.array(x, dtype=float).tolist(),
                "tuple": lambda x: tuple(map(tuple, numpy.array(x, dtype=float).tolist())) if numpy.ndim(x) == 2
                else tuple(numpy.array(x, dtype=float).tolist())}[form]
        thr_main = 2 if it in (5, 6) else 1
        import aotools
        ctor = rng.choice([S.CovarianceMatrix, aotools.CovarianceMatrix])
        chk.count("oracle:endtoend:args:%s" % form)
        chk.count("oracle:endtoend:off-axis-sensors:%d" % m)
        if any(v != diams[0] for v in diams):
            chk.count("oracle:endtoend:mixed-grids")
        cfg = {"nx": nx, "masks": [numpy.asarray(mk).tolist() for mk in allm], "dup": dup, "D": D, "gs": gs_arr.tolist(), "gs_alt": alt_arr.tolist(),
               "wavelengths": lams, "layer_alt": lay_alt, "layer_r0": lay_r0, "layer_L0": lay_L0, "diam": diams, "args": form,
               "threads": thr_main}
        mk_obj = lambda L_alt, L_r0, L_L0, threads=1: ctor(nw, allm, D, conv(diams), conv(alt_arr), conv(gs_arr), conv(lams),
                                                             len(L_alt), conv(L_alt), conv(L_r0), conv(L_L0), threads=threads)
        obj = mk_obj(lay_alt, lay_r0, lay_L0, thr_main)
        C = obj.make_covariance_matrix()
        n = int(obj.n_subaps[0])
        p = 2 * n
        N = C.shape[0]
        q = N - p
        Cf = C.astype(float)
        chk.oracle_cases += 1
        chk.count("oracle:endtoend:nx%d" % nx)
        chk.case(("endtoend", nx, tuple(int(v) for v in obj.n_subaps), dup, it), sample=dict(cfg, masks="<%d masks>" % nw) if it < 2 else None)
        # precondition of the property: C symmetric PSD (the builder is C01's subject; outside it this is not a C02 case)
        ev = numpy.linalg.eigvalsh((Cf + Cf.T) / 2)
        not_psd = numpy.abs(Cf - Cf.T).max() > 1e-5 * numpy.abs(Cf).max() or ev.min() < -1e-5 * ev.max()
        if not_psd:
            # the first sentence of the property presupposes a symmetric PSD matrix (the builder is C01's subject), but the
            # duplicate-sensor clause is stated end-to-end: it is still evaluated below; the other clauses are skipped
            chk.count("oracle:endtoend:builder-output-not-sym-psd")
        A, Conoff = Cf[p:, p:], Cf[:p, p:]
        condA = numpy.linalg.cond(A)
        k0 = 2 * int(sum(obj.n_subaps[1:1 + dup]))
        Ek = numpy.zeros((p, q))
        Ek[numpy.arange(p), k0 + numpy.arange(p)] = 1
        C_before = C.copy()
        # (i) zero conditioning: duplicate sensor + normal equations
        R0 = numpy.asarray(obj.make_tomographic_reconstructor()).astype(float)
        if not numpy.array_equal(obj.covariance_matrix, C_before):
            chk.fail("purity:covariance-matrix-written", "make_tomographic_reconstructor modified the stored covariance matrix", cfg)
        if R0.shape != (p, q):
            chk.fail("shape:endtoend", "method returned shape %s, expected (2*n_subaps[0], rest) = %s; n_subaps=%s"
                     % (R0.shape, (p, q), obj.n_subaps.tolist()), cfg)
            continue
        if condA <= 2e3:
            err = float(numpy.abs(R0 - Ek).max())
            if not within(chk, "duplicate:endtoend", err, 5 * TOL32):
                chk.fail("duplicate:endtoend", "on-axis WFS duplicates off-axis WFS %d (same direction, mask, wavelength) but the "
                         "reconstructor differs from copy-that-sensor by %.3g; n_subaps=%s cond=%.3g"
                         % (dup + 1, err, obj.n_subaps.tolist(), condA), cfg)
            res = float(numpy.abs(R0 @ A - Conoff).max())
            if not not_psd and not within(chk, "normal-eq:endtoend:full", res, 5 * TOL32 * numpy.abs(Conoff).max() * q):
                chk.fail("normal-eq:endtoend:full", "R*C_offoff != C_onoff end-to-end: residual %.3g (scale %.3g) n_subaps=%s"
                         % (res, numpy.abs(Conoff).max(), obj.n_subaps.tolist()), cfg)
        else:
            chk.count("oracle:endtoend:ill-conditioned-skipped-full")
        # (ii) a conditioning value inside the widest spectral gap: retained normal equations, support, state between calls
        s = numpy.sort(numpy.abs(numpy.linalg.eigvalsh(A)))[::-1]
        s = s[s > 1e-3 * s[0]]
        if len(s) >= 2 and not not_psd:
            ratios = s[:-1] / s[1:]
            j = int(numpy.argmax(ratios))
            if ratios[j] >= 1.5:
                rcond = float(numpy.sqrt(s[j] * s[j + 1]) / s[0])
                R1 = numpy.asarray(obj.make_tomographic_reconstructor(rcond)).astype(float)
                Pi, cut, below, above, smax = retained_projector(A, rcond)
                gapf = ratios[j] / (ratios[j] - 1)
                res = float(numpy.abs(R1 @ A - Conoff @ Pi).max())
                if not within(chk, "normal-eq:endtoend:retained", res, 5 * TOL32 * numpy.abs(Conoff).max() * q * gapf):
                    chk.fail("normal-eq:endtoend:retained", "R*C_offoff != C_onoff*Pi end-to-end at rcond=%.3g: residual %.3g"
                             % (rcond, res), dict(cfg, rcond=rcond))
                off = float(numpy.abs(R1 @ (numpy.eye(q) - Pi)).max())
                if not within(chk, "retained-support:endtoend", off, 5 * TOL32 * (numpy.abs(R1).max() + 1) * q * gapf):
                    chk.fail("retained-support:endtoend", "at rcond=%.3g the reconstructor has weight %.3g outside the retained singular "
                             "subspace (n_subaps=%s)" % (rcond, off, obj.n_subaps.tolist()), dict(cfg, rcond=rcond))
                Rf1 = numpy.asarray(S.create_tomographic_covariance_reconstructor(C, obj.n_subaps[0], rcond)).astype(float)
                if not numpy.array_equal(Rf1, R1):
                    chk.fail("wrapper:method-vs-function:after-earlier-call", "make_tomographic_reconstructor(%.3g) after an earlier "
                             "default call differs from create_tomographic_covariance_reconstructor(C, n_subaps[0], %.3g)"
                             % (rcond, rcond), dict(cfg, rcond=rcond))
                chk.count("oracle:endtoend:retained")
                # state: a later default call must not remember the earlier conditioning
                R2 = numpy.asarray(obj.make_tomographic_reconstructor()).astype(float)
                if not numpy.array_equal(R2, R0):
                    chk.fail("state:conditioning-leak", "make_tomographic_reconstructor() after make_tomographic_reconstructor(%.3g) "
                             "differs from the first default call" % rcond, dict(cfg, rcond=rcond))
        # (iii) the covariance R is optimal for is the covariance of the sensors' slopes: Σ over layers of the covariance a FRESH
        # single-layer object builds (independent layers add).  R from the multi-layer matrix must satisfy the normal equations of it.
        if nl >= 2 and condA <= 2e3 and not not_psd:
            Ct = numpy.zeros_like(Cf)
            for li in range(nl):
                o1 = mk_obj(lay_alt[li:li + 1], lay_r0[li:li + 1], lay_L0[li:li + 1])
                Ct += numpy.asarray(o1.make_covariance_matrix()).astype(float)
            At, Ct_onoff = Ct[p:, p:], Ct[:p, p:]
            res = float(numpy.abs(R0 @ At - Ct_onoff).max())
            chk.count("oracle:endtoend:sum-of-single-layer-covariances")
            if not within(chk, "normal-eq:endtoend:layer-sum", res, 5 * TOL32 * numpy.abs(Ct_onoff).max() * q * (1 + numpy.abs(R0).max())):
                chk.fail("normal-eq:endtoend:layer-sum", "R does not satisfy the normal equations of the sensors' slope covariance (sum of the "
                         "covariances fresh single-layer objects build): residual %.3g (scale %.3g); %d layers at %s m, guide-star "
                         "altitudes %s" % (res, numpy.abs(Ct_onoff).max(), nl, [round(a) for a in lay_alt], alt_arr.tolist()), cfg)
        # (iv) one object reused: change the asterism, rebuild, ask again with the SAME conditioning — the reconstructor must belong
        # to the matrix the object holds now (serial builder every time; the multiprocessing builder in a few cases per run)
        if it % 4 == 1 or it < 3:
            thr = 2 if it < 3 else 1
            obj2 = obj if thr == 1 else mk_obj(lay_alt, lay_r0, lay_L0, thr)
            if thr != 1:
                obj2.make_covariance_matrix()
                obj2.make_tomographic_reconstructor()
            # round 5: not only the asterism — the seeing, the outer scales, the layer heights (attributes a loop over conditions changes)
            changed = "gs_positions" if it < 3 or it % 8 == 1 else rng.choice(["layer_r0s", "layer_L0s", "layer_altitudes"])
            if changed == "gs_positions":
                obj2.gs_positions = numpy.asarray(gs_arr, dtype=float) + numpy.array([[rng.uniform(5, 25), rng.uniform(-25, -5)]] * nw) * \
                    numpy.arange(1, nw + 1)[:, None]
            elif changed == "layer_altitudes":
                obj2.layer_altitudes = conv([0.5 * a + 250. for a in lay_alt])
            else:
                setattr(obj2, changed, conv([v * rng.choice([0.5, 1.7, 3.0]) for v in (lay_r0 if changed == "layer_r0s" else lay_L0)]))
            Cn = numpy.array(obj2.make_covariance_matrix(), copy=True)
            Rn = numpy.asarray(obj2.make_tomographic_reconstructor()).astype(float)
            Rw = numpy.asarray(S.create_tomographic_covariance_reconstructor(Cn, obj2.n_subaps[0], 0)).astype(float)
            Rr = numpy.asarray(reference(Cn, obj2.n_subaps[0], 0)).astype(float)
            chk.count("oracle:endtoend:rebuild:threads=%d:%s" % (thr, changed))
            # round 6: … and the matrix the object holds now is the matrix of the geometry it has NOW: a fresh object given the same
            # attribute before its first build (seeded changes C02-L / C01-K: the per-layer footprints were appended to lists that are only
            # reset in __init__, so a rebuild read the first build's geometry)
            fresh = mk_obj(lay_alt, lay_r0, lay_L0, 1)
            setattr(fresh, changed, copy.deepcopy(getattr(obj2, changed)))
            Cf = numpy.asarray(fresh.make_covariance_matrix()).astype(float)
            dC = float(numpy.abs(Cn.astype(float) - Cf).max()) if Cn.shape == Cf.shape else float("inf")
            if not within(chk, "history:rebuild:geometry", dC, TOL32 * (numpy.abs(Cf).max() + 1e-300)):
                chk.fail("state:rebuild-uses-old-geometry", "after %s was changed and make_covariance_matrix() re-run (threads=%d) the matrix differs "
                         "from the one a fresh object with the same attributes builds: max difference %.3g (largest entry %.3g)"
                         % (changed, thr, dC, float(numpy.abs(Cf).max())),
                         dict(cfg, threads=thr, changed=changed, new_value=numpy.asarray(getattr(obj2, changed)).tolist()))
            if Rn.shape != Rw.shape or not numpy.array_equal(Rn, Rw) or not within(
                    chk, "history:method:rebuild", float(numpy.abs(Rn - Rr).max()), TOL32 * (numpy.abs(Rr).max() + 1e-300)):
                chk.fail("state:stale-after-rebuild", "after %s was changed and make_covariance_matrix() re-run (threads=%d), "
                         "make_tomographic_reconstructor() is not the reconstructor of the matrix the object holds now: max difference %.3g"
                         % (changed, thr, float(numpy.abs(Rn - Rr).max()) if Rn.shape == Rr.shape else float("nan")),
                         dict(cfg, threads=thr, changed=changed, new_value=numpy.asarray(getattr(obj2, changed)).tolist()))
        # function and method agree
        Rf = numpy.asarray(S.create_tomographic_covariance_reconstructor(C, obj.n_subaps[0], 0)).astype(float)
        if not numpy.array_equal(Rf, R0):
            chk.fail("wrapper:method-vs-function", "method result differs from create_tomographic_covariance_reconstructor(C, n_subaps[0], 0)", cfg)
        # (v) round 5: ONE object asked again and again with other conditioning values (more calls than any one-slot memory is long),
        # then after the caller added measurement noise to the diagonal of the matrix the object holds (in place): each answer must be
        # the reconstructor of the matrix held NOW for the conditioning asked NOW (numpy's pinv directly; observed difference 0)
        if it % 2 == 0:
            Ch = obj.covariance_matrix
            seq = [0, 0.05, 0.3, 0.05, 0, 1e-3, 0.3, 0]
            noise_at = rng.randrange(2, len(seq) - 1)
            for k, r in enumerate(seq):
                if k == noise_at:
                    Ch[numpy.arange(N), numpy.arange(N)] += numpy.float32(numpy.abs(numpy.diag(Ch)).max() * rng.uniform(0.05, 0.5))
                how = rng.randrange(3)
                Rk = numpy.asarray(obj.make_tomographic_reconstructor(r) if how == 0 else obj.make_tomographic_reconstructor(svd_conditioning=r)
                                   if how == 1 else (obj.make_tomographic_reconstructor() if r == 0 else obj.make_tomographic_reconstructor(float(r)))
                                   ).astype(float)
                Rr = numpy.asarray(reference(Ch, n, r)).astype(float)
                err = float(numpy.abs(Rk - Rr).max()) if Rk.shape == Rr.shape else float("inf")
                if not within(chk, "history:method:sequence", err, TOL32 * (numpy.abs(Rr).max() + 1e-300)):
                    chk.fail("history:method:%s" % ("matrix-edited-in-place" if k >= noise_at else "conditioning-sequence"),
                             "call %d of make_tomographic_reconstructor on one object (svd_conditioning %r after %r%s) is not the reconstructor "
                             "of the matrix the object holds: differs by %.3g (max |R| %.3g)"
                             % (k, r, seq[:k], ", noise added to the diagonal in place before call %d" % noise_at if k >= noise_at else "",
                                err, numpy.abs(Rr).max()), dict(cfg, sequence=seq[:k + 1], noise_before_call=noise_at))
                    break
            chk.count("oracle:endtoend:method-history")


def run(chk):
    quick = chk.tier == "quick"
    chk.rule = ("correspondence: model run at binary64 vs the real code — EXACT equality on integer matrices (stand-in kernel: slices, "
                "product order, rcond, wrapper; residual-variance functional), |impl-model| <= 1e-12 (float64) / 1e-5 (float32) x scale "
                "for the recorded-kernel product and numpy pinv vs pinvFromSvd(numpy svd); contract fields checked per call. Oracle: "
                "normal equations full/retained, retained support, J against competitors, excess identity, duplicate sensor; relative "
                "tolerance 1e-9 (float64, cond<=1e3) / 2e-3 (float32, cond<=30; end-to-end 1e-2 with cond<=2e3); hand-made duplicate "
                "sensor |R-E_k| <= 1e-7*q (float64) / 1e-4*q (float32). Round 5: cut-off a factor 10 from both neighbouring singular "
                "values (tightgap), cond 1e3..1e6 with zero conditioning (float64, tolerance x cond/1e3), conditioning >= 1 (R = 0), "
                "integer-typed PSD matrices, sizes 130..300 (thorough ..600); the matrix C / Fortran / strided / negative-stride / "
                "read-only / window of a larger array, n as Python / NumPy signed and unsigned integers / 0-d array, the conditioning "
                "as Python / NumPy float64 / float32 scalar / 0-d array, by keyword or position, through the module and the package names; "
                "call sequences on one matrix / one object (other conditioning, other partition, another matrix of the same shape, "
                "the caller's in-place edit of the diagonal, rebuild after changed seeing / outer scale / layer heights): every answer "
                "compared with numpy's pinv applied directly to the arguments of THAT call (1e-9 / 2e-3 relative; observed 0). "
                "distinct = distinct (size, partition, kind, dtype, instance)")
    chk.assumptions = [
        "numpy.linalg.pinv/svd meet the SVD-truncation contract NumpyPinv (orthogonal factors, s>=0, A=U diag(s) Vt, "
        "P=pinvFromSvd): assumed in every theorem, checked numerically on each generated call, not proved",
        "IEEE rounding / float32 storage are not modelled: 'holds to rounding' is decided by the oracle with the tolerances above",
        "NumPy slicing/dot semantics are tied to the model by the exact integer correspondence only (sizes 3..12 quick, 3..30 thorough)",
        "expectation reading: J = E|s_on - R s_off|^2 is proved for finite samples (J_eq_sum_sq); the passage from an ensemble "
        "covariance to an expectation is the standard probabilistic bridge of DESIGN §3.4",
        "duplicate-sensor clause: `duplicate_matrix`/`duplicate`/`duplicate_reproduces` assume rcond = 0 AND IsUnit(det C_offoff); for a "
        "singular PSD C only R*C_offoff = E*C_offoff is proved (`duplicate_psd`) — pinv then returns the minimum-norm solution, which "
        "need not be the selection matrix; the oracle's duplicate cases have cond(C_offoff) <= 1e3 (float64) / 30 (float32) / 2e3 "
        "(end-to-end), exactly singular matrices with rcond = 0 are not evaluated (nothing holds 'to rounding' there)",
        "end-to-end cases: co-located point-symmetric and general geometries (round 5: 1..4 off-axis sensors, in a third of the general cases "
        "every sensor on its own grid and sub-aperture size, arguments as arrays / lists / tuples, two layers in one altitude bin, a few "
        "systems built by the multiprocessing builder); C01 covers the builder itself; builder "
        "outputs that are not symmetric PSD are skipped and counted, not judged",
        "tightgap competitor test: J(R) - J(R') <= 2|G||R'-R| + 2|C_onoff(1-Pi)||R(1-Pi)| is exact for competitors on the retained subspace; "
        "10x the second term is allowed (observed <= 0.06 of the allowance over 12 seeds); float16 / longdouble / nested-list matrices and "
        "float n are outside the domain (numpy's pinv / slicing reject them on the unchanged tree)",
    ]
    chk.build_and_audit("AoVerif.Props.C02", "AoVerif.Props.C02", REQUIRED)
    try:
        correspondence(chk, quick)
    except common.LeanError as ex:
        chk.broke("correspondence", "driver does not build / run", str(ex))
    oracle_handmade(chk, quick)
    oracle_endtoend(chk, quick)
    chk.notes.append("worst observed error/tolerance per comparison kind: " + ", ".join(
        "%s=%.2g" % kv for kv in sorted(chk.__dict__.get("_margins", {}).items())))


def replay(rec):
    """re-evaluate a recorded failing input on the real code (./check C02 --replay <file>): prints the quantities of the
    property and returns 1 when the input still violates it"""
    S = sc()
    f = rec.get("failure") or {}
    r = f.get("replay") or {}
    if not r:
        print("replay: nothing concrete recorded (proof / correspondence breakage): re-run ./check C02")
        return 1
    bad = 0
    if isinstance(r.get("C"), list) and "n" in r:
        dt = numpy.dtype(r.get("dtype", "float64"))
        C = numpy.array(r["C"], dtype=float).astype(dt)
        n = int(r["n"])
        rcond = float(r.get("rcond", 0.0))
        p, q = 2 * n, C.shape[0] - 2 * n
        tol = TOL64 if dt == numpy.float64 else TOL32
        R = numpy.asarray(S.create_tomographic_covariance_reconstructor(C, n, rcond)).astype(float)
        print("replay: N=%d n=%d rcond=%r dtype=%s -> R shape %s" % (C.shape[0], n, rcond, dt.name, R.shape))
        if R.shape != (p, q):
            print("replay: wrong shape, expected %s" % ((p, q),))
            return 1
        Cf = C.astype(float)
        A, Conoff = Cf[p:, p:], Cf[:p, p:]
        if "sizes" in r:                      # duplicate sensor
            k0 = 2 * sum(r["sizes"][:r["dup"]])
            Ek = numpy.zeros((p, q))
            Ek[numpy.arange(p), k0 + numpy.arange(p)] = 1
            err = float(numpy.abs(R - Ek).max())
            print("replay: |R - E_k|max = %.3g (tolerance %.3g)" % (err, DUP_TOL[dt.name] * q))
            return int(not err <= DUP_TOL[dt.name] * q)
        Pi = numpy.eye(q) if rcond == 0 else retained_projector(A, rcond)[0]
        res = float(numpy.abs(R @ A - Conoff @ Pi).max())
        lim = tol * (numpy.abs(Conoff).max() * q + 1e-300)
        print("replay: max|R*C_offoff - C_onoff*Pi| = %.3g (tolerance %.3g)" % (res, lim))
        bad |= int(not res <= lim)
        off = float(numpy.abs(R @ (numpy.eye(q) - Pi)).max())
        print("replay: max|R*(1-Pi)| = %.3g" % off)
        bad |= int(not off <= tol * (numpy.abs(R).max() * q + 1e-300))
        G = (R @ A - Conoff @ Pi) @ Pi
        den = float(numpy.trace(G @ A @ G.T))
        if den > 0:
            ts = float((G * G).sum()) / den
            print("replay: J(R) = %.12g, J(R - t*grad) = %.12g" % (Jfun(Cf, p, R), Jfun(Cf, p, R - ts * G)))
        return bad
    if "masks" in r:
        masks = [numpy.array(mk) for mk in r["masks"]]
        nw = len(masks)
        nx = r["nx"]
        obj = S.CovarianceMatrix(nw, masks, r["D"], numpy.array(r["diam"]) if "diam" in r else numpy.full(nw, r["D"] / nx), numpy.array(r["gs_alt"], dtype=float) if isinstance(r["gs_alt"], list) else numpy.full(nw, r["gs_alt"]),
                                 numpy.array(r["gs"], dtype=float) if isinstance(r["gs"][0], (list, tuple)) else numpy.array([r["gs"]] * nw), numpy.array(r["wavelengths"]), len(r["layer_alt"]),
                                 numpy.array(r["layer_alt"]), numpy.array(r["layer_r0"]), numpy.array(r["layer_L0"]), threads=1)
        C = obj.make_covariance_matrix()
        rcond = float(r.get("rcond", 0.0))
        R = numpy.asarray(obj.make_tomographic_reconstructor(rcond)).astype(float)
        n = int(obj.n_subaps[0])
        p, q = 2 * n, C.shape[0] - 2 * n
        print("replay: end-to-end n_subaps=%s rcond=%r -> R shape %s (expected %s)" % (obj.n_subaps.tolist(), rcond, R.shape, (p, q)))
        if R.shape != (p, q):
            return 1
        Cf = C.astype(float)
        A, Conoff = Cf[p:, p:], Cf[:p, p:]
        Pi = numpy.eye(q) if rcond == 0 else retained_projector(A, rcond)[0]
        res = float(numpy.abs(R @ A - Conoff @ Pi).max())
        print("replay: max|R*C_offoff - C_onoff*Pi| = %.3g (scale %.3g)" % (res, numpy.abs(Conoff).max()))
        bad |= int(not res <= 5 * TOL32 * numpy.abs(Conoff).max() * q * 10)
        if rcond == 0:
            k0 = 2 * int(sum(obj.n_subaps[1:1 + r["dup"]]))
            Ek = numpy.zeros((p, q))
            Ek[numpy.arange(p), k0 + numpy.arange(p)] = 1
            err = float(numpy.abs(R - Ek).max())
            print("replay: |R - E_k|max = %.3g (duplicate of off-axis WFS %d)" % (err, r["dup"] + 1))
            bad |= int(not err <= 5 * TOL32)
        return bad
    print("replay: recorded input %r has no matrix; re-run ./check C02 with VERIF_SEED=%s" % (sorted(r), rec.get("seed")))
    return 1
