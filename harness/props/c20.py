"""C20 — library calls are pure: arguments are never modified, no hidden state."""
import copy
import importlib
import inspect
import io
import json
import os
import sys
import threading
import contextlib

import numpy

from .. import common
from .. import translate_effects as T2

MANIFEST = {
    "text": "Every public function/method of every module is translated on each run (translator T2) into a term of a small effect "
            "and aliasing IR; Lean proves ONCE that the executable abstract interpreter is sound for a concrete heap semantics "
            "(views share buffers, arguments may alias each other, any branch, any number of loop iterations, view-or-copy "
            "nondeterminism): pure_sound / writes_sound; the per-function obligation pureCheck = true is then discharged by kernel "
            "evaluation for all regenerated terms (all_generated_pure), so an in-place write or global-RNG use that the translator "
            "recognises (its whitelists of views / in-place operations / RNG uses, regression-tested on every run against a corpus of "
            "74 impure and 15 pure idioms: corpus_impure_flagged, corpus_pure_accepted) breaks a proof obligation on the next run in "
            "ANY function. Dynamic side: every public function is wrapped in-process, the repository's "
            "own test-suite plus a call table with C/F-ordered and strided sentinel arrays is replayed; argument values, shape, dtype "
            "and strides are compared before/after, every top-level call is repeated on equal arguments, NumPy's global RNG state is "
            "compared; observed mutations must be a subset of the statically predicted ones.",
    "note": "Trusted: Lean kernel + standard axioms; translator T2 (what is a view / an in-place operation / a global-RNG use is a "
            "whitelist, validated each run by observed ⊆ predicted); the IR abstracts values away (only aliasing and writes). "
            "Instance state (self.*) is explicit state, not hidden state; references stored inside Python lists/dicts are not "
            "tracked statically (dynamic run only). Batch-equals-items is evaluated dynamically here (stack_table: every stacking function, batch shapes incl. odd lengths >= 3 and nested axes, C-ordered and strided) and, with models, by C09/C15/C16/C17.",
    "technique": "Lean 4 soundness proof of an abstract interpreter + kernel-evaluated per-function obligations on terms regenerated "
                 "from source + instrumented dynamic replay",
}
REQUIRED = ["gam_init", "writes_sound", "pure_sound", "all_generated_pure", "known_impure_flagged", "corpus_present",
            "corpus_impure_flagged", "corpus_pure_accepted", "corpus_size"]

_tls = threading.local()


def _arrays(obj, path, out, depth=0):
    if isinstance(obj, numpy.ndarray):
        out.append((path, obj))
    elif isinstance(obj, (list, tuple)) and depth < 2 and len(obj) <= 64:
        for i, x in enumerate(obj):
            _arrays(x, "%s[%d]" % (path, i), out, depth + 1)
    elif isinstance(obj, dict) and depth < 2:
        for k, x in obj.items():
            _arrays(x, "%s[%r]" % (path, k), out, depth + 1)


def _snap(a):
    return (a.shape, a.dtype.str, a.strides, a.tobytes() if a.size <= 2_000_000 else None)


def _equal(a, b, rtol=1e-12):
    if isinstance(a, numpy.ndarray) or isinstance(b, numpy.ndarray):
        a, b = numpy.asarray(a), numpy.asarray(b)
        if a.shape != b.shape:
            return False
        if a.dtype.kind in "fc" or b.dtype.kind in "fc":
            return bool(numpy.allclose(a, b, rtol=rtol, atol=0, equal_nan=True))
        try:
            return bool(numpy.array_equal(a, b))
        except Exception:
            return True
    if isinstance(a, (list, tuple)) and isinstance(b, (list, tuple)):
        return len(a) == len(b) and all(_equal(x, y) for x, y in zip(a, b))
    if isinstance(a, dict) and isinstance(b, dict):
        return a.keys() == b.keys() and all(_equal(a[k], b[k]) for k in a)
    if isinstance(a, float) and isinstance(b, float):
        return (a != a and b != b) or abs(a - b) <= rtol * max(abs(a), abs(b))
    if isinstance(a, (int, str, bool, complex, type(None))) or isinstance(a, numpy.generic):
        try:
            return bool(a == b) or (a != a and b != b)
        except Exception:
            return True
    return True      # opaque objects (instances, generators) are not compared


def _pysnap(v, depth=0):
    """a comparable snapshot of a MUTABLE Python container passed as an argument (list / dict / set / bytearray, nested): element
    identities are irrelevant, values and order are not.  None for anything else (immutable, or too large to be worth it)."""
    if isinstance(v, numpy.ndarray):
        return ("nd",) + _snap(v)[:3] + (v.tobytes() if v.size <= 100_000 else None,)
    if isinstance(v, (list, tuple)):
        if len(v) > 512 or depth > 3:
            return ("big", type(v).__name__, len(v))
        return (type(v).__name__,) + tuple(_pysnap(x, depth + 1) for x in v)
    if isinstance(v, dict):
        if len(v) > 128 or depth > 3:
            return ("big", "dict", len(v))
        return ("dict",) + tuple((repr(k), _pysnap(x, depth + 1)) for k, x in v.items())
    if isinstance(v, (set, bytearray)):
        return (type(v).__name__, repr(sorted(v, key=repr)) if isinstance(v, set) else bytes(v))
    if isinstance(v, (int, float, complex, str, bytes, bool, type(None), numpy.generic)):
        return ("v", type(v).__name__, repr(v))
    return ("o", type(v).__name__)


def _has_mutable(v, depth=0):
    return isinstance(v, (list, dict, set, bytearray)) or (isinstance(v, tuple) and depth < 3 and any(_has_mutable(x, depth + 1) for x in v))


class Recorder:
    def __init__(self):
        self.mutations = {}      # (qualname, param path) -> example
        self.nondet = {}         # qualname -> example
        self.global_rng = {}     # qualname -> example
        self.settings = {}       # qualname -> which process-wide setting a call left changed
        self.calls = {}          # qualname -> count
        self.errors = {}

    def wrap(self, qual, fn, is_method):
        try:
            sig = inspect.signature(getattr(fn, "py_func", fn))
        except (TypeError, ValueError):
            sig = None
        rec = self

        def wrapper(*args, **kw):
            depth = getattr(_tls, "depth", 0)
            if getattr(_tls, "off", False):
                return fn(*args, **kw)
            rec.calls[qual] = rec.calls.get(qual, 0) + 1
            named = []
            try:
                ba = sig.bind(*args, **kw) if sig else None
            except TypeError:
                ba = None
            if ba is not None:
                ba.apply_defaults()
                for k, v in ba.arguments.items():
                    if is_method and k == "self":
                        continue
                    named.append((k, v))
            else:
                named = [("arg%d" % i, v) for i, v in enumerate(args[1:] if is_method else args)] + list(kw.items())
            arrs = []
            for k, v in named:
                _arrays(v, k, arrs)
            before = [(p, a, _snap(a)) for p, a in arrs]
            # round 5: lists / dicts given as arguments (a list of mode indices, of coefficients, of masks): also the caller's
            pybefore = [(k, v, _pysnap(v)) for k, v in named if _has_mutable(v)]
            pre = None
            seeded = all(not (k in ("seed", "random_seed") and v is None) for k, v in named)
            if depth == 0 and not is_method and seeded and rec.calls[qual] <= 40:
                try:
                    pre = copy.deepcopy((args, kw))
                except Exception:
                    pre = None
            gstate = numpy.random.get_state()[1][:8].tobytes(), numpy.random.get_state()[2]
            # round 6: process-wide SETTINGS are hidden state too.  The call runs under non-default floating-point error handling
            # (everything "ignore": same values, no warnings), so that a function that "restores" NumPy's defaults instead of the
            # caller's settings is seen (seeded change C20-I); print options, the warnings filter list, the working directory and the
            # environment are compared as well
            ambient = _process_settings(set_err=(depth == 0))
            _tls.depth = depth + 1
            try:
                res = fn(*args, **kw)
            finally:
                _tls.depth = depth
                left = _process_settings_after(ambient)
                if left and depth == 0:
                    rec.settings.setdefault(qual, {"changed": left, "args": _describe(named)})
            g2 = numpy.random.get_state()[1][:8].tobytes(), numpy.random.get_state()[2]
            if g2 != gstate and depth == 0:
                rec.global_rng.setdefault(qual, _describe(named))
            for p, a, s in before:
                now = _snap(a)
                if now != s:
                    what = "values" if now[:3] == s[:3] else "shape/dtype/strides %s -> %s" % (s[:3], now[:3])
                    rec.mutations.setdefault((qual, p.split("[")[0]), {"what": what, "args": _describe(named), "path": p})
            for k, v, snap in pybefore:
                if _pysnap(v) != snap:
                    rec.mutations.setdefault((qual, k), {"what": "contents of the %s" % type(v).__name__, "args": _describe(named), "path": k})
            if pre is not None:
                _tls.off = True
                try:
                    res2 = fn(*pre[0], **pre[1])
                    if not _equal(res, res2):
                        rec.nondet.setdefault(qual, _describe(named))
                except Exception as ex:
                    rec.errors.setdefault(qual, "second call raised %s" % type(ex).__name__)
                finally:
                    _tls.off = False
            return res
        wrapper.__name__ = getattr(fn, "__name__", "wrapped")
        wrapper.__doc__ = getattr(fn, "__doc__", None)
        wrapper.__wrapped_by_aoverif__ = fn
        return wrapper


def _process_settings(set_err):
    import warnings
    old = numpy.seterr(divide="ignore", over="ignore", under="ignore", invalid="ignore") if set_err else None
    return {"old_err": old, "err": dict(numpy.geterr()), "print": repr(sorted(numpy.get_printoptions().items(), key=lambda kv: kv[0])),
            "warnings": len(warnings.filters), "cwd": os.getcwd(), "env": hash(tuple(sorted(os.environ.items()))),
            "pyrandom": hash(__import__("random").getstate())}


def _process_settings_after(ambient):
    """names of the settings a call left different from what it found; the error state set for the call is put back"""
    import warnings
    now = {"err": dict(numpy.geterr()), "print": repr(sorted(numpy.get_printoptions().items(), key=lambda kv: kv[0])),
           "warnings": len(warnings.filters), "cwd": os.getcwd(), "env": hash(tuple(sorted(os.environ.items()))),
           "pyrandom": hash(__import__("random").getstate())}
    left = []
    for k, label in (("err", "numpy.geterr()"), ("print", "numpy print options"), ("warnings", "the warnings filter list"),
                     ("cwd", "the working directory"), ("env", "os.environ"), ("pyrandom", "the state of Python's global random generator")):
        if now[k] != ambient[k]:
            left.append("%s: %s -> %s" % (label, ambient[k], now[k]) if k in ("err", "warnings", "cwd") else label)
    if ambient["old_err"] is not None:
        numpy.seterr(**ambient["old_err"])
    return left


def _describe(named):
    out = {}
    for k, v in named:
        if isinstance(v, numpy.ndarray):
            out[k] = {"shape": list(v.shape), "dtype": v.dtype.str, "c_contiguous": bool(v.flags.c_contiguous),
                      "f_contiguous": bool(v.flags.f_contiguous),
                      "values": v.ravel()[:16].tolist() if v.dtype.kind in "iufb" else str(v.ravel()[:4])}
        else:
            out[k] = repr(v)[:80]
    return out


def instrument(rec):
    """wrap every public function / method defined in the library's modules, everywhere it is bound"""
    import aotools  # noqa: F401
    targets = {}
    for mod in T2.MODULES:
        mname = mod[:-3].replace("/", ".")
        m = importlib.import_module(mname)
        for name, obj in list(vars(m).items()):
            if name.startswith("_"):
                continue
            if inspect.isclass(obj) and obj.__module__ == mname:
                for an, av in list(vars(obj).items()):
                    if inspect.isfunction(av) and (not an.startswith("_") or an in ("__init__", "__repr__")):
                        q = "%s.%s.%s" % (mname, name, an)
                        setattr(obj, an, rec.wrap(q, av, True))
            elif callable(obj) and getattr(obj, "__module__", None) == mname and not inspect.isclass(obj):
                targets[id(obj)] = (("%s.%s" % (mname, name)), obj)
    wrapped = {i: rec.wrap(q, o, False) for i, (q, o) in targets.items()}
    for mn, m in list(sys.modules.items()):
        if m is None or not (mn == "aotools" or mn.startswith("aotools.")):
            continue
        for name, obj in list(vars(m).items()):
            if id(obj) in wrapped:
                setattr(m, name, wrapped[id(obj)])
    return {q for q, _ in targets.values()}


LAYOUT_LABELS = ("C", "F", "strided", "neg", "F-slice", "readonly", "swapped")


def relayout(a, label):
    """the values of `a` in a NEW buffer laid out as `label` says (None if the label does not apply to this array).  Built afresh
    for every call: copy.deepcopy of a strided / read-only view returns a compact writable C-ordered array, i.e. would silently
    turn every layout back into 'C'."""
    a = numpy.array(a, copy=True, order="C")
    if label == "C":
        return a
    if label == "F":
        return numpy.asfortranarray(a) if a.ndim >= 2 else None
    if label == "strided":                  # every second element of a larger buffer
        big = numpy.zeros(tuple(2 * s for s in a.shape), dtype=a.dtype)
        view = big[tuple(slice(None, None, 2) for _ in a.shape)]
        view[...] = a
        return view
    if label == "neg":                      # negative strides on every axis
        if a.ndim == 0:
            return None
        rev = tuple(slice(None, None, -1) for _ in a.shape)
        return numpy.ascontiguousarray(a[rev])[rev]
    if label == "F-slice":                  # a window of a larger Fortran-ordered buffer (what a sub-image of FITS/IDL data is)
        if a.ndim < 2:
            return None
        big = numpy.zeros(tuple(s + 2 for s in a.shape), dtype=a.dtype, order="F")
        win = tuple(slice(1, -1) for _ in a.shape)
        big[win] = a
        return big[win]
    if label == "readonly":                 # e.g. numpy.broadcast_to / memory-mapped / frombuffer data: any write attempt raises
        a.setflags(write=False)
        return a
    if label == "swapped":                  # non-native byte order (big-endian file data)
        return a.astype(a.dtype.newbyteorder(">")) if a.dtype.itemsize > 1 else None
    raise ValueError(label)


def layouts(a, rng, labels=("C", "F", "strided")):
    """the same values as C-ordered, Fortran-ordered and as a strided view of a larger buffer (and, on request, the further
    layouts of LAYOUT_LABELS)"""
    for lab in labels:
        v = relayout(a, lab)
        if v is not None:
            yield lab, v


def _readonly_write(ex):
    """is this exception NumPy's refusal to write into a read-only array?"""
    msg = str(ex).lower()
    return isinstance(ex, (ValueError, TypeError, RuntimeError)) and ("read-only" in msg or "readonly" in msg or "not writeable" in msg
                                                                      or "not writable" in msg)


def _raised_in_library(ex):
    """was the exception raised by a statement of the library itself (not inside NumPy/SciPy/Numba called by it)?"""
    tb = ex.__traceback__
    last = None
    while tb is not None:
        last = tb
        tb = tb.tb_next
    fn = last.tb_frame.f_code.co_filename if last is not None else ""
    return os.path.realpath(fn).startswith(os.path.realpath(common.REPO) + os.sep)


def _scribble(res, depth=0):
    """overwrite every array of a returned value in place (the caller owns what it was given back and may do so)"""
    if isinstance(res, numpy.ndarray):
        if res.flags.writeable and res.size:
            try:
                res[...] = numpy.nan if res.dtype.kind in "fc" else (7 if res.dtype.kind in "iu" else True if res.dtype.kind == "b" else res.flat[0])
            except Exception:
                pass
    elif isinstance(res, (list, tuple)) and depth < 3:
        for x in res:
            _scribble(x, depth + 1)
    elif isinstance(res, dict) and depth < 3:
        for x in res.values():
            _scribble(x, depth + 1)


def call_table(rng):
    """(callable path, args builder) for the functions the property is anchored in; arrays in several memory layouts"""
    nprng = numpy.random.default_rng(rng.getrandbits(32))

    def img(n=8, m=None):
        return nprng.integers(1, 50, size=(n, m or n)).astype(float)

    def cimg(n=8):
        return nprng.normal(size=(n, n)) + 1j * nprng.normal(size=(n, n))
    T = []
    T += [("aotools.image_processing.centroiders.centre_of_gravity", [img()], {}),
          ("aotools.image_processing.centroiders.centre_of_gravity", [img()], {"threshold": 0.25}),
          ("aotools.image_processing.centroiders.centre_of_gravity", [nprng.integers(1, 50, size=(3, 8, 8)).astype(float)], {"threshold": 0.25}),
          ("aotools.image_processing.centroiders.brightest_pixel", [img(), 0.3], {}),
          ("aotools.image_processing.centroiders.brightest_pixel", [nprng.integers(1, 50, size=(3, 8, 8)).astype(float), 0.3], {}),
          ("aotools.image_processing.centroiders.quadCell", [img(2)], {}),
          ("aotools.image_processing.centroiders.cross_correlate", [img(), img()], {}),
          ("aotools.image_processing.centroiders.correlation_centroid", [img(), img()], {"threshold": 0.1}),
          ("aotools.image_processing.centroiders.correlation_centroid", [nprng.integers(1, 50, size=(2, 8, 8)).astype(float), img()], {"threshold": 0.1}),
          ("aotools.image_processing.contrast.rms_contrast", [img()], {}),
          ("aotools.image_processing.contrast.image_contrast", [img()], {}),
          ("aotools.image_processing.psf.azimuthal_average", [img()], {}),
          ("aotools.image_processing.psf.encircled_energy", [img()], {}),
          ("aotools.interpolation.zoom", [img(), 12], {}),
          ("aotools.interpolation.zoom_rbs", [img(), (12, 10)], {}),
          # complex images of every complex type (finding layout:zoom_rbs:swapped-complex, fixed by 7531228)
          ("aotools.interpolation.zoom_rbs", [cimg(), 12], {}),
          ("aotools.interpolation.binImgs", [img(), 2], {}),
          ("aotools.interpolation.binImgs", [nprng.integers(0, 9, size=(3, 8, 8)).astype(float), 4], {})]
    for f in ("ft", "ift", "ft2", "ift2", "rft", "rft2"):
        T.append(("aotools.fouriertransform." + f, [img() if "r" == f[0] else cimg(), 0.5], {}))
    T += [("aotools.fouriertransform.irft", [cimg()[:, :5], 0.5], {}),
          ("aotools.fouriertransform.irft2", [cimg()[:, :5], 0.5], {}),
          ("aotools.opticalpropagation.angularSpectrum", [cimg(), 5e-7, 0.01, 0.012, 100.], {}),
          ("aotools.opticalpropagation.oneStepFresnel", [cimg(), 5e-7, 0.01, 100.], {}),
          ("aotools.opticalpropagation.twoStepFresnel", [cimg(), 5e-7, 0.01, 0.012, 100.], {}),
          ("aotools.opticalpropagation.lensAgainst", [cimg(), 5e-7, 0.01, 1.], {}),
          ("aotools.turbulence.phasescreen.ift2", [cimg(), 1.], {}),
          ("aotools.turbulence.phasescreen.ft_phase_screen", [0.1, 16, 0.05, 20., 0.01], {"seed": 3}),
          ("aotools.turbulence.phasescreen.ft_sh_phase_screen", [0.1, 16, 0.05, 20., 0.01], {"seed": 3}),
          ("aotools.turbulence.slopecovariance.structure_function_vk", [img() / 10., 0.2, 25.], {}),
          ("aotools.turbulence.slopecovariance.structure_function_kolmogorov", [img() / 10., 0.2], {}),
          ("aotools.turbulence.slopecovariance.calculate_structure_function", [img(16)], {}),
          ("aotools.turbulence.slopecovariance.mirror_covariance_matrix", [numpy.tril(img(6)).astype("float32")], {}),
          ("aotools.turbulence.turb.phase_covariance", [(img() / 10.).astype("float32"), 0.2, 25.], {}),
          ("aotools.turbulence.turb.phase_covariance", [img() / 10., 0.2, 25.], {}),
          ("aotools.turbulence.temporal_ps.calc_slope_temporalps", [nprng.normal(size=(2, 16, 5))], {}),
          ("aotools.turbulence.atmos_conversions.isoplanaticAngle", [img(4) * 1e-15, img(4) * 100., 5e-7], {}),
          ("aotools.turbulence.atmos_conversions.coherenceTime", [img(4) * 1e-15, img(4), 5e-7], {}),
          ("aotools.turbulence.atmos_conversions.r0_from_slopes", [nprng.normal(size=(2, 4, 10)), 5e-7, 0.1], {}),
          ("aotools.turbulence.profile_compression.equivalent_layers", [numpy.linspace(0, 15000., 10), img(10)[0], 4], {}),
          # (numba-compiled kernel: every further array type costs a recompilation of ~1 s; the layouts of rounds 1-4 only)
          ("aotools.turbulence.profile_compression.optimal_grouping", [2, 3, numpy.linspace(0, 15000., 10), img(10)[0]], {},
           {"layouts": ("C", "F"), "dtypes": ("float32", "int64"), "forms": False}),
          ("aotools.functions.zernike.phaseFromZernikes", [numpy.array([0., 1., .5, -2.]), 12], {}),
          ("aotools.functions.zernike.zernikeArray", [[2, 3, 5], 12], {}),
          ("aotools.functions.zernike.zernikeRadialFunc", [4, 2, img() / 50.], {}),
          ("aotools.functions.karhunenLoeve.rebin", [img(), (4, 4)], {}),
          ("aotools.functions.karhunenLoeve.stf_vonKarman", [img() / 10., 3.], {}),
          ("aotools.wfs.wfslib.findActiveSubaps", [4, (img(16) > 10).astype(float), 0.5], {}),
          ("aotools.wfs.wfslib.computeFillFactor", [(img(16) > 10).astype(float), numpy.array([[0., 0.], [4., 8.]]), 4], {}),
          ("aotools.wfs.wfslib.make_subaps_2d", [nprng.normal(size=(3, 2, 5)), numpy.array([[1, 0, 1], [1, 1, 0], [0, 1, 0]])], {}),
          ("aotools.astronomy._astronomy.photons_per_band", [5., (img() > 10).astype(float), 0.1, 0.01], {}),
          ("aotools.functions._functions.gaussian2d", [(8, 8), (2., 3.)], {}),
          ("aotools.functions.karhunenLoeve.stf_vonKarman_yao", [img() / 10., 3.], {}),
          ("aotools.functions.karhunenLoeve.stf_kolmogorov", [img() / 10.], {}),
          # separations containing exact zeros (r >= 0 is the domain; the zero-separation branch is a different code path)
          # (as lists too: finding form:structure_function_vk:list-zero, fixed by 7b434c5)
          ("aotools.turbulence.slopecovariance.structure_function_vk", [numpy.array([[0., .5, 1.], [2., 0., 3.]]), 0.2, 25.], {}),
          ("aotools.functions.karhunenLoeve.stf_vonKarman", [numpy.array([0., .5, 1., 0.]), 3.], {}),
          ("aotools.turbulence.turb.phase_covariance", [numpy.array([0., .5, 1., 0.]), 0.2, 25.], {}),
          # the same function with other keyword values (a later call must not see anything of an earlier one)
          ("aotools.functions.zernike.zernikeArray", [7, 12], {"norm": "p2v"}),
          ("aotools.functions.zernike.zernikeArray", [7, 12], {"norm": "rms"}),
          ("aotools.functions.zernike.zernikeArray", [7, 12], {}),
          ("aotools.functions.zernike.zernikeArray", [7, 12], {"rot": 0.6}),
          ("aotools.functions.zernike.phaseFromZernikes", [numpy.array([0., 1., .5, -2.]), 12], {"norm": "rms"}),
          ("aotools.functions.zernike.zernike_noll", [5, 12], {}),
          ("aotools.functions.zernike.zernike_noll", [5, 12], {"rot": 1.1}),
          ("aotools.turbulence.temporal_ps.get_tps_time_axis", [100., 64], {}),
          ("aotools.turbulence.slopecovariance.calculate_structure_function", [img(16)], {"step": 2}),
          ("aotools.turbulence.atmos_conversions.rytov_variance", [img(4) * 1e-15, img(4) * 100., 5e-7], {}),
          ("aotools.functions.karhunenLoeve.make_kl", [6, 16], {"ri": 0.25, "nr": 8}),
          ("aotools.functions.karhunenLoeve.make_kl", [10, 16], {"ri": 0.25, "nr": 8}),
          ("aotools.functions.pupil.circle", [3, 8], {})]
    # ---- round 5: keyword arguments, defaults and second code paths no row (and no test of the repository) ever took
    hh, pp = numpy.linspace(0, 15000., 10), img(10)[0]
    covm = nprng.normal(size=(12, 12))
    covm = (covm @ covm.T).astype("float32")
    CE, IP = "aotools.image_processing.centroiders.", "aotools.image_processing."
    n_old = len(T)
    T += [(CE + "centre_of_gravity", [img()], {"threshold": 0.25, "min_threshold": 20.}),
          (CE + "centre_of_gravity", [nprng.integers(1, 50, size=(3, 8, 8)).astype(float)], {"threshold": 0.25, "min_threshold": 20.}),
          (CE + "centre_of_gravity", [nprng.integers(1, 50, size=(2, 3, 6, 8)).astype(float)], {"threshold": 0.1}),
          (CE + "correlation_centroid", [nprng.integers(1, 50, size=(2, 8, 8)).astype(float), img()], {"threshold": 0.1, "padding": 2}),
          (CE + "cross_correlate", [img(), img()], {"padding": 2}),
          (CE + "brightest_pixel", [nprng.integers(1, 50, size=(2, 3, 8, 8)).astype(float), 0.5], {}),
          (CE + "quadCell", [nprng.integers(1, 50, size=(3, 2, 2)).astype(float)], {}),
          (IP + "psf.encircled_energy", [img()], {"fraction": 0.8}),
          (IP + "psf.encircled_energy", [img()], {"center": [3, 4]}),                 # a list the function must leave alone
          (IP + "psf.encircled_energy", [img()], {"eeDiameter": False}),
          ("aotools.interpolation.zoom", [img(), (12, 10)], {"order": 1}),
          ("aotools.interpolation.zoom_rbs", [img(), [12, 10]], {"order": 1}),          # newSize as a list
          ("aotools.interpolation.zoom_rbs", [img(8, 6), 9], {}),
          ("aotools.turbulence.atmos_conversions.coherenceTime", [img(4) * 1e-15, img(4), 5e-7], {"axis": 0}),
          ("aotools.turbulence.atmos_conversions.isoplanaticAngle", [img(4) * 1e-15, img(4) * 100., 5e-7], {"axis": 0}),
          ("aotools.turbulence.atmos_conversions.rytov_variance", [img(4) * 1e-15, img(4) * 100.], {"axis": 0}),
          ("aotools.turbulence.profile_compression.equivalent_layers", [hh, pp, 4], {"w": numpy.linspace(5., 30., 10)}),
          # (a fixed profile: the run time of the minimiser inside GCTM depends strongly on the profile; no dtype variants)
          ("aotools.turbulence.profile_compression.GCTM", [hh, numpy.array([42., 32., 26., 14., 16., 3., 4., 1., 9., 40.]) * 1e-15, 1],
           {"h_scaling": 5000., "cn2_scaling": 50e-15}, {"layouts": ("C", "readonly"), "dtypes": False, "forms": False}),
          ("aotools.functions.zernike.phaseFromZernikes", [numpy.array([0., 1., .5, -2.]), 12], {"rot": 0.4}),
          ("aotools.functions.zernike.phaseFromZernikes", [numpy.array([0., 1., .5, -2.]), 12], {"norm": "p2v"}),
          ("aotools.functions.zernike.zernikeArray", [[2, 3, 5], 12], {"norm": "rms"}),
          ("aotools.functions.zernike.zernikeArray", [[2, 3, 5], 12], {"norm": "p2v", "rot": 0.6}),
          ("aotools.functions.zernike.zernikeArray", [numpy.array([2, 3, 5]), 12], {}),
          ("aotools.functions.zernike.zernike_nm", [3, 1, 12], {"rot": 0.3}),
          ("aotools.functions.zernike.zernike_nm", [3, 1, 13], {}),
          ("aotools.functions.zernike.makegammas", [3], {}),
          ("aotools.functions.zernike.zernIndex", [11], {}),
          ("aotools.functions.pupil.circle", [3, 8], {"circle_centre": (1, -1)}),
          ("aotools.functions.pupil.circle", [3.5, 9], {"origin": "corner"}),
          ("aotools.functions.pupil.circle", [3, 8], {"circle_centre": [1.5, 0.5], "origin": "corner"}),
          ("aotools.functions._functions.gaussian2d", [(8, 10), (2., 3.)], {"amplitude": 3., "cent": (2., 5.)}),
          ("aotools.functions._functions.gaussian2d", [8, 2.], {"cent": [2., 5.]}),
          ("aotools.functions._functions.gaussian2d", [[8, 10], [2., 3.]], {"cent": numpy.array([2., 5.])}),
          ("aotools.wfs.wfslib.findActiveSubaps", [4, (img(16) > 10).astype(float), 0.5], {"returnFill": True}),
          ("aotools.astronomy._astronomy.photons_per_band", [5., (img() > 10).astype(float), 0.1, 0.01], {"waveband": "K"}),
          ("aotools.astronomy._astronomy.photons_per_mag", [5., (img() > 10).astype(float), 0.1, 0.09, 0.01], {}),
          ("aotools.astronomy._astronomy.magnitude_to_flux", [5.], {"waveband": "r"}),
          ("aotools.astronomy._astronomy.flux_to_magnitude", [3e4], {"waveband": "J"}),
          ("aotools.turbulence.slopecovariance.create_tomographic_covariance_reconstructor", [covm, 2], {}),
          ("aotools.turbulence.slopecovariance.create_tomographic_covariance_reconstructor", [covm, 2], {"svd_conditioning": 1e-2}),
          ("aotools.turbulence.slopecovariance.calculate_structure_function", [img(16)], {"nbOfPoint": 3, "step": 2}),
          ("aotools.turbulence.slopecovariance.calculate_wfs_seperations", [3, 2, nprng.normal(size=(3, 2)), nprng.normal(size=(2, 2))], {}),
          ("aotools.turbulence.slopecovariance.wfs_covariance", [3, 2, nprng.normal(size=(3, 2)), nprng.normal(size=(2, 2)), 0.5, 0.6, 0.15, 25.], {}),
          ("aotools.turbulence.slopecovariance.compute_covariance_xy", [nprng.normal(size=(3, 2, 2)), 0.5, 0.6, 0.15, 25.], {}),
          ("aotools.turbulence.phasescreen.ft_phase_screen", [0.1, 15, 0.05, 20., 0.01], {"seed": 3}),       # odd N
          ("aotools.turbulence.phasescreen.ft_sh_phase_screen", [0.1, 15, 0.05, 20., 0.01], {"seed": 3}),
          ("aotools.turbulence.infinitephasescreen.find_allowed_size", [13], {}),
          ("aotools.functions.karhunenLoeve.make_kl", [6, 16], {"ri": 0.25, "nr": 8, "mask": False}),
          ("aotools.functions.karhunenLoeve.make_kl", [6, 15], {"nr": 8}),
          ("aotools.functions.karhunenLoeve.gkl_radii", [0.25, 8], {}),
          ("aotools.functions.karhunenLoeve.piston_orth", [6], {}),
          ("aotools.functions.karhunenLoeve.radii", [8, 12, 0.25], {}),
          ("aotools.functions.karhunenLoeve.polang", [img(4) / 50.], {})]
    # (these rows: four layouts, two other dtypes, list and 0-d forms — the full set of variants is applied to the rows above)
    T[n_old:] = [r if len(r) > 3 else r + ({"layouts": ("C", "F", "neg", "readonly"), "dtypes": ("float32", "uint8", "complex64")},) for r in T[n_old:]]
    # ---- round 5: LARGE arrays (beyond 2^16 and 2^18 elements: past any small-input path, past the size where NumPy / SciPy switch
    # to blocked or multi-threaded kernels); three layouts only, no dtype variants, to keep the cost down
    BIG = {"layouts": ("C", "F", "readonly"), "dtypes": False, "forms": False, "once": True}

    def bimg(n, m=None):
        return nprng.integers(1, 50, size=(n, m or n)).astype(float)

    def bcimg(n):
        return nprng.normal(size=(n, n)) + 1j * nprng.normal(size=(n, n))
    T += [(CE + "centre_of_gravity", [bimg(300)], {"threshold": 0.25}, BIG),
          (CE + "centre_of_gravity", [nprng.integers(1, 50, size=(20, 128, 128)).astype(float)], {"threshold": 0.25}, BIG),
          (CE + "brightest_pixel", [bimg(520), 0.3], {}, BIG),
          (CE + "brightest_pixel", [nprng.integers(1, 50, size=(20, 128, 128)).astype(float), 0.3], {}, BIG),
          (CE + "quadCell", [nprng.integers(1, 50, size=(40000, 2, 2)).astype(float)], {}, BIG),
          (CE + "cross_correlate", [bimg(300), bimg(300)], {}, BIG),
          (CE + "correlation_centroid", [nprng.integers(1, 50, size=(3, 160, 160)).astype(float), bimg(160)], {"threshold": 0.1}, BIG),
          (IP + "contrast.rms_contrast", [bimg(520)], {}, BIG),
          (IP + "contrast.image_contrast", [bimg(520)], {}, BIG),
          (IP + "psf.azimuthal_average", [bimg(128)], {}, dict(BIG, layouts=("C", "readonly"))),      # (a slow Python loop per radius)
          (IP + "psf.encircled_energy", [bimg(300)], {}, dict(BIG, layouts=("C", "readonly"))),
          ("aotools.interpolation.zoom_rbs", [bimg(300), 330], {}, BIG),
          ("aotools.interpolation.binImgs", [bimg(520), 4], {}, BIG),
          ("aotools.interpolation.binImgs", [nprng.integers(0, 9, size=(20, 128, 128)).astype(float), 2], {}, BIG),
          ("aotools.fouriertransform.ft", [nprng.normal(size=70001) + 0j, 0.5], {}, BIG),
          ("aotools.fouriertransform.rft", [nprng.normal(size=70000), 0.5], {}, BIG),
          ("aotools.fouriertransform.ft2", [bcimg(520), 0.5], {}, BIG),
          ("aotools.fouriertransform.ift2", [bcimg(520), 0.5], {}, BIG),
          ("aotools.fouriertransform.rft2", [bimg(520), 0.5], {}, BIG),
          ("aotools.fouriertransform.irft2", [bcimg(520)[:, :261], 0.5], {}, BIG),
          ("aotools.opticalpropagation.angularSpectrum", [bcimg(300), 5e-7, 0.01, 0.012, 100.], {}, BIG),
          ("aotools.opticalpropagation.oneStepFresnel", [bcimg(300), 5e-7, 0.01, 100.], {}, BIG),
          ("aotools.opticalpropagation.twoStepFresnel", [bcimg(300), 5e-7, 0.01, 0.012, 100.], {}, BIG),
          ("aotools.opticalpropagation.lensAgainst", [bcimg(300), 5e-7, 0.01, 1.], {}, BIG),
          ("aotools.turbulence.phasescreen.ft_phase_screen", [0.1, 300, 0.05, 20., 0.01], {"seed": 3}),
          ("aotools.turbulence.slopecovariance.structure_function_vk", [bimg(300) / 10., 0.2, 25.], {}, BIG),
          ("aotools.turbulence.slopecovariance.structure_function_kolmogorov", [bimg(520) / 10., 0.2], {}, BIG),
          ("aotools.turbulence.slopecovariance.calculate_structure_function", [bimg(300)], {"nbOfPoint": 4}, BIG),
          ("aotools.turbulence.slopecovariance.mirror_covariance_matrix", [numpy.tril(bimg(600)).astype("float32")], {}, BIG),
          ("aotools.turbulence.turb.phase_covariance", [bimg(300) / 10., 0.2, 25.], {}, BIG),
          ("aotools.turbulence.temporal_ps.calc_slope_temporalps", [nprng.normal(size=(2, 4096, 20))], {}, BIG),
          ("aotools.functions.zernike.zernikeRadialFunc", [4, 2, bimg(520) / 50.], {}, BIG),
          ("aotools.functions.zernike.zernikeArray", [6, 300], {}),
          ("aotools.functions.zernike.zernikeArray", [6, 300], {"norm": "rms"}),
          ("aotools.functions.pupil.circle", [250, 600], {}),
          ("aotools.functions.karhunenLoeve.rebin", [bimg(512), (64, 64)], {}, BIG),
          ("aotools.functions.karhunenLoeve.stf_vonKarman", [bimg(300) / 10., 3.], {}, BIG),
          ("aotools.functions.karhunenLoeve.stf_kolmogorov", [bimg(520) / 10.], {}, BIG),
          ("aotools.wfs.wfslib.findActiveSubaps", [40, (bimg(520) > 10).astype(float), 0.5], {}, BIG)]
    # round 6 — neighbours: for the first small row of every function, the same call with ONE float argument changed (x 1.37), placed right
    # after it.  In this process the row runs before its neighbours, in the fresh interpreter (reverse order) after them: a result kept
    # from one call and handed to a call that differs in an argument the memo's key forgot (seeded change C20-K: the inner-scale cut-off
    # of ft_phase_screen kept per (N, delta, L0)) makes the two disagree.
    seen, out = set(), []
    for row in T:
        out.append(row)
        path, args, kw = row[0], row[1], row[2]
        if path in seen or (len(row) > 3 and row[3].get("once")) or path.endswith(".optimal_grouping"):
            continue
        seen.add(path)
        for i, a in enumerate(args):
            if isinstance(a, float) and a == a and abs(a) not in (0.0, float("inf")):
                out.append((path, [(x * 1.37 if j == i else copy.deepcopy(x)) for j, x in enumerate(args)], copy.deepcopy(kw)) + tuple(row[3:]))
    return out


def resolve(path):
    mod, name = path.rsplit(".", 1)
    return getattr(importlib.import_module(mod), name)


def dynamic(chk, rec, public, quick, table=None):
    # (a) the repository's own test-suite as a corpus of realistic calls
    import pytest
    buf = io.StringIO()
    with contextlib.redirect_stdout(buf), contextlib.redirect_stderr(buf):
        try:
            pytest.main([os.path.join(common.REPO, "test"), "-q", "-p", "no:cacheprovider", "-x" if False else "-q",
                         "--no-header", "-W", "ignore"])
        except SystemExit:
            pass
    chk.count("dynamic:test-suite-calls", sum(rec.calls.values()))
    import time
    t_suite = time.time()
    # (b) the call table: each array argument in three memory layouts and three dtypes; results must not depend on the
    #     layout, nor on what was called before (second pass in shuffled order, third pass after a DIFFERENT call of the same
    #     function): "calling any function twice with equal arguments, in any order relative to other calls, returns equal results"
    table = call_table(chk.rng) if table is None else table
    inproc = getattr(chk, "c20_inproc", {})
    runs = []          # (path, label, base args, kw, copy of the first result, seeded?, how to build the arguments)

    def build(a, how):
        """the call's arguments from the C-ordered base values: `how` = ("layout", label) | ("dtype", name) | ("0d",) | ("list",)"""
        out = []
        for x in a:
            if isinstance(x, numpy.ndarray):
                if how[0] == "layout":
                    v = relayout(x, how[1])
                    if v is None:
                        return None
                    out.append(v)
                elif how[0] == "dtype":
                    out.append(numpy.array(x, copy=True).astype(how[1]) if how[1] in _dtype_variants(x) else numpy.array(x, copy=True))
                elif how[0] == "list":
                    out.append(numpy.array(x, copy=True).tolist())
                else:
                    out.append(numpy.array(x, copy=True))
            elif how[0] == "0d" and isinstance(x, (int, float)) and not isinstance(x, bool):
                out.append(numpy.array(x))          # a 0-d array where a number is expected: an in-place `x *= ...` would now show
            else:
                out.append(copy.deepcopy(x))
        return out

    def invoke(path, a, kw, how=("layout", "C")):
        args = build(a, how)
        kw2 = {k: (numpy.array(v) if how[0] == "0d" and isinstance(v, (int, float)) and not isinstance(v, bool) else copy.deepcopy(v))
               for k, v in kw.items()}
        with numpy.errstate(all="ignore"), contextlib.redirect_stdout(io.StringIO()):
            return resolve(path)(*args, **kw2)

    for row_i, row in enumerate(table):
        path, args, kw = row[:3]
        opts = row[3] if len(row) > 3 else {}
        arr_idx = [i for i, a in enumerate(args) if isinstance(a, numpy.ndarray)]
        variants = [("C", ("layout", "C"))]
        if arr_idx:
            variants = [(lay, ("layout", lay)) for lay in opts.get("layouts", LAYOUT_LABELS)]
            # other dtypes of the same values (many functions legitimately reject some: exceptions are ignored)
            if opts.get("dtypes", True):
                names = []
                for i in arr_idx:
                    names += [d for d in _dtype_variants(args[i]) if d not in names]
                if isinstance(opts.get("dtypes"), tuple):
                    names = [d for d in names if d in opts["dtypes"]]
                variants += [(dt, ("dtype", dt)) for dt in names]
            if opts.get("forms", True):
                variants.append(("list", ("list",)))
        if opts.get("forms", True) and any(isinstance(x, (int, float)) and not isinstance(x, bool) for x in list(args) + list(kw.values())):
            variants.append(("0d", ("0d",)))
        ref = None
        ok_C = False
        for lay, how in variants:
            if lay in opts.get("skip", ()) or build(args, how) is None:
                continue
            chk.oracle_cases += 1
            chk.case(("table", path, lay, json.dumps(kw, sort_keys=True, default=str), str([numpy.shape(a) for a in args])),
                     sample={"call": path, "layout": lay, "kwargs": kw} if chk.oracle_cases % 37 == 1 else None)
            chk.count("dynamic:layout:" + lay)
            rep = {"function": path, "layout": lay, "kwargs": kw, "args": _describe(list(enumerate(build(args, how))))}
            try:
                res = invoke(path, args, kw, how)
            except Exception as ex:
                if lay == "readonly" and ok_C and _readonly_write(ex) and _raised_in_library(ex):
                    # the same call succeeds on a writable array: the function tries to write into its argument
                    chk.fail("writes-readonly:%s" % path, "%s raises %r on a read-only array and succeeds on a writable one with the same "
                             "values: it writes into its argument" % (path, ex), rep)
                else:
                    rec.errors.setdefault(path if lay == "C" else "%s [%s]" % (path, lay), "%s: %s" % (type(ex).__name__, str(ex)[:100]))
                    chk.count("dynamic:raised:" + type(ex).__name__)
                continue
            if lay == "C":
                ok_C = True
            seeded = kw.get("seed", 0) is not None and kw.get("random_seed", 0) is not None
            try:
                keep = copy.deepcopy(res)
            except Exception:
                keep = res
            runs.append((path, lay if not opts.get("once") else lay + ":once", args, kw, keep, seeded, how))
            if lay == "C":
                inproc[("call", row_i)] = keep
            # layout / container / 0-d form must not change the result (dtype variants may: single precision)
            if how[0] != "dtype" and seeded and path not in rec.global_rng:
                if ref is None:
                    ref = (lay, keep)
                elif not _equal(ref[1], keep, rtol=1e-9):
                    chk.fail("layout-dependent:%s" % path, "%s returns different results for equal argument values given as variant `%s` and as "
                             "variant `%s` (memory layout / list / 0-d array)" % (path, ref[0], lay), dict(rep, layouts=[ref[0], lay]))
            # the caller owns the returned arrays: overwriting them must not reach any later call (a memoised array handed out
            # without a copy would)
            if keep is not res:
                _scribble(res)
    # second pass: shuffled order; third pass: each call again right after another call of the same function with other arguments
    order = list(range(len(runs)))
    chk.rng.shuffle(order)
    by_fn = {}
    for n, r in enumerate(runs):
        by_fn.setdefault(r[0], []).append(n)
    for phase, seq in (("shuffled", order), ("after-sibling", [m for n in order for m in ([x for x in by_fn[runs[n][0]] if x != n][:1] + [n])])):
        for n in seq:
            path, lay, a, kw, first, seeded, how = runs[n]
            if not seeded or path in rec.global_rng:
                continue
            if phase == "after-sibling" and lay not in ("C", "F", "strided", "float32", "int64", "readonly"):
                continue          # (cost: the history pass on the layouts / dtypes of rounds 1-4 and on read-only arrays; large rows once)
            try:
                again = invoke(path, a, kw, how)
            except Exception:
                continue
            chk.count("dynamic:replayed:" + phase)
            if not _equal(first, again, rtol=1e-9):
                chk.fail("history-dependent:%s" % path, "%s returned a different result when called again with equal arguments later in the "
                         "run (%s pass): its result depends on earlier calls (or on what the caller did to an earlier result)" % (path, phase),
                         {"function": path, "layout": lay, "kwargs": kw, "phase": phase, "args": _describe(list(enumerate(build(a, how))))})
            _scribble(again)
    chk.notes.append("call table (three passes) wall time: %.1fs after the test-suite replay" % (time.time() - t_suite))


def _dtype_variants(x):
    """names of the other dtypes in which the same values can be held exactly (float32 always offered for floats, as before)"""
    out = []
    if x.dtype.kind == "f":
        out.append("float32")
        if x.size and numpy.array_equal(x, numpy.round(x)):
            out += ["int64", "int32"]
            if x.min() >= 0 and x.max() <= 255:
                out.append("uint8")
            if x.min() >= 0 and x.max() <= 65535:
                out.append("uint16")
    elif x.dtype.kind == "c":
        out.append("complex64")
    elif x.dtype.kind == "i":
        out += ["int32", "float64"]
    return out


def cov_geometry(seed, r0s=(0.2, 0.5), pos=((12., -7.), (0.0, 10.0)), threads=1):
    """constructor arguments of a small two-WFS CovarianceMatrix (off-axis natural guide star + laser guide star, two layers)"""
    nx = 4
    masks = numpy.array([(numpy.random.default_rng(seed + k).random((nx, nx)) < 0.8).astype(int) for k in range(2)])
    masks[:, 0, 0] = 1
    return dict(n_wfs=2, pupil_masks=masks, telescope_diameter=4.0, subap_diameters=numpy.array([1.0, 1.0]),
                gs_altitudes=numpy.array([0.0, 90e3]), gs_positions=numpy.array(pos), wfs_wavelengths=numpy.array([5e-7, 6e-7]),
                n_layers=2, layer_altitudes=numpy.array([0.0, 5000.]), layer_r0s=numpy.array(r0s), layer_L0s=numpy.array([25.0, 30.0]),
                threads=threads)


SCREEN_PAIRS = (("PhaseScreenVonKarman", dict(nx_size=8, pixel_scale=0.1, r0=0.2, L0=20., random_seed=5),
                 dict(nx_size=8, pixel_scale=0.25, r0=0.1, L0=7., random_seed=6)),
                ("PhaseScreenKolmogorov", dict(nx_size=9, pixel_scale=0.1, r0=0.2, L0=20., random_seed=5),
                 dict(nx_size=9, pixel_scale=0.25, r0=0.1, L0=7., random_seed=6)))

# round 5: THE history without earlier calls.  Everything the run computes in-process is computed after thousands of other calls
# (the test-suite, the table, other objects), and so are the in-process references it is compared with: a value kept from the
# FIRST call ever made in the process (a class-level matrix, a module-level cache keyed too coarsely) is then wrong consistently
# and invisible.  A fresh interpreter, un-instrumented, evaluates a list of calls / objects once, in reverse table order; the
# parent compares.  It is started before the test-suite replay and collected at the end: no wall time.
_CHILD = r'''
import sys, pickle, importlib, io, contextlib
import numpy
specs = pickle.loads(sys.stdin.buffer.read())
out = []
for spec in specs:
    try:
        with numpy.errstate(all="ignore"), contextlib.redirect_stdout(io.StringIO()):
            if spec[0] == "call":
                mod, name = spec[1].rsplit(".", 1)
                r = getattr(importlib.import_module(mod), name)(*spec[2], **spec[3])
            elif spec[0] == "cov":
                from aotools.turbulence import slopecovariance as sc
                r = numpy.array(sc.CovarianceMatrix(**spec[1]).make_covariance_matrix(), copy=True)
            elif spec[0] == "screen":
                from aotools.turbulence import infinitephasescreen as ips
                o = getattr(ips, spec[1])(**spec[2])
                r = [numpy.array(o.scrn, copy=True)]
                for _ in range(spec[3]):
                    o.add_row()
                    r.append(numpy.array(o.scrn, copy=True))
        pickle.dumps(r)
        out.append(("ok", r))
    except Exception as ex:
        out.append(("err", "%s: %s" % (type(ex).__name__, ex)))
sys.stdout.flush()
sys.__stdout__.buffer.write(b"@@AOVERIF-PICKLE@@" + pickle.dumps(out))
sys.__stdout__.buffer.flush()
'''


class FreshProcess:
    def __init__(self, specs):
        import pickle
        import subprocess
        self.specs = specs
        self.proc = subprocess.Popen([sys.executable, "-W", "ignore", "-c", _CHILD], stdin=subprocess.PIPE, stdout=subprocess.PIPE,
                                     stderr=subprocess.DEVNULL)
        self._writer = threading.Thread(target=self._feed, args=(pickle.dumps(specs),), daemon=True)
        self._writer.start()

    def _feed(self, data):
        try:
            self.proc.stdin.write(data)
            self.proc.stdin.close()
        except Exception:
            pass

    def results(self, timeout=300):
        import pickle
        self._writer.join(timeout)
        out = self.proc.stdout.read()
        self.proc.wait(timeout)
        mark = b"@@AOVERIF-PICKLE@@"
        if mark not in out:
            raise RuntimeError("the fresh-interpreter reference process produced no result (exit code %r)" % self.proc.returncode)
        return pickle.loads(out.split(mark, 1)[1])


def fresh_specs(chk, table):
    """what the fresh interpreter evaluates: the C-ordered variant of every small table row (reverse order), the two
    CovarianceMatrix geometries of method_table and the four infinite screens, each alone"""
    specs, keys = [], []
    for i in reversed(range(len(table))):
        row = table[i]
        opts = row[3] if len(row) > 3 else {}
        if opts.get("once") or row[0].endswith(".optimal_grouping"):          # large rows (pickle volume); global-RNG finding
            continue
        specs.append(("call", row[0], [numpy.array(a, copy=True) if isinstance(a, numpy.ndarray) else copy.deepcopy(a) for a in row[1]],
                      copy.deepcopy(row[2])))
        keys.append(("call", i))
    sd = chk.c20_geometry_seed
    for name, ctor in (("base", cov_geometry(sd)), ("other", cov_geometry(sd + 7, r0s=(0.11, 0.3), pos=((-20., 3.), (5.0, -4.0))))):
        specs.append(("cov", ctor))
        keys.append(("cov", name))
    for cname, kw, kw_other in SCREEN_PAIRS:
        for tag, k in (("b", kw_other), ("a", kw)):
            specs.append(("screen", cname, dict(k), 3 * k["nx_size"] + 5))
            keys.append(("screen", cname, tag))
    return specs, keys


def compare_fresh(chk, rec, fresh, keys, table):
    try:
        res = fresh.results()
    except Exception as ex:
        chk.notes.append("fresh-interpreter reference not available: %r" % (ex,))
        return
    n_cmp = 0
    for key, (status, val) in zip(keys, res):
        mine = chk.c20_inproc.get(key)
        if mine is None:
            if status == "ok":
                # the very call that works first thing in a fresh interpreter raised here, after other calls (and was ignored above)
                what = (table[key[1]][0] if key[0] == "call" else
                        "CovarianceMatrix(%s geometry of method_table, seed %d).make_covariance_matrix()" % (key[1], chk.c20_geometry_seed)
                        if key[0] == "cov" else "%s (object %s of SCREEN_PAIRS) advanced row by row" % (key[1], key[2]))
                chk.fail("history-dependent:raises:%s" % what, "%s raises late in this run (see the notes: calls that raised) but works as the "
                         "first call of a fresh interpreter: its behaviour depends on earlier calls / other objects" % what,
                         {"what": list(key), "kwargs": table[key[1]][2] if key[0] == "call" else None,
                          "args": _describe(list(enumerate(table[key[1]][1]))) if key[0] == "call" else None})
            continue
        if status != "ok":
            if key[0] != "call":
                chk.fail("raises:fresh-process:%s" % (key,), "%s raises in a fresh interpreter (%s) but not after other calls" % (key, val),
                         {"what": list(key)})
            continue
        n_cmp += 1
        chk.count("dynamic:fresh-interpreter-reference")
        if key[0] == "call":
            path, args, kw = table[key[1]][:3]
            if path in rec.global_rng:
                continue
            if not _equal(mine, val, rtol=1e-9):
                chk.fail("history-dependent:%s" % path, "%s returns, late in this run, something else than the same call made first thing in a "
                         "fresh interpreter: its result depends on earlier calls" % path,
                         {"function": path, "kwargs": kw, "phase": "fresh-interpreter", "args": _describe(list(enumerate(args)))})
        elif key[0] == "cov":
            if not _equal(mine, val, rtol=1e-9):
                chk.fail("hidden-state:CovarianceMatrix:fresh-interpreter", "CovarianceMatrix(...).make_covariance_matrix() for the `%s` geometry, "
                         "computed after other CovarianceMatrix objects existed, differs from the same computation alone in a fresh "
                         "interpreter (largest difference %.3g)" % (key[1], float(numpy.abs(numpy.asarray(mine) - numpy.asarray(val)).max())),
                         {"class": "aotools.turbulence.slopecovariance.CovarianceMatrix", "geometry": key[1], "seed": chk.c20_geometry_seed})
        else:
            bad = [i for i, (p, q) in enumerate(zip(mine, val)) if numpy.asarray(p).tobytes() != numpy.asarray(q).tobytes()]
            if bad or len(mine) != len(val):
                kw = [k for c, a, b in SCREEN_PAIRS if c == key[1] for k in ((a,) if key[2] == "a" else (b,))][0]
                chk.fail("hidden-state:%s:fresh-interpreter" % key[1], "%s(%s) advanced after other screens existed differs (from row %d on) from "
                         "the same object advanced alone in a fresh interpreter" % (key[1], kw, bad[0] if bad else -1),
                         {"class": key[1], "kwargs": kw, "first_bad_step": bad[0] if bad else None})
    chk.notes.append("fresh-interpreter reference: %d results compared" % n_cmp)


def method_table(chk, rec):
    """methods that are computations on an object (not documented mutators such as add_row): calling them again on the same
    object, and on a fresh object built from equal arguments, must give equal results — and must leave the constructor's
    arguments alone"""
    from aotools.turbulence import slopecovariance as sc
    from aotools.turbulence import infinitephasescreen as ips
    rng = chk.rng
    for it in range(3):
        nx = 4
        masks = numpy.array([(numpy.random.default_rng(rng.getrandbits(32)).random((nx, nx)) < 0.8).astype(int) for _ in range(2)])
        masks[:, 0, 0] = 1
        # an off-axis NATURAL guide star (altitude 0) next to a laser guide star, layers above the ground
        ctor = dict(n_wfs=2, pupil_masks=masks, telescope_diameter=4.0, subap_diameters=numpy.array([1.0, 1.0]),
                    gs_altitudes=numpy.array([0.0, 90e3]), gs_positions=numpy.array([[rng.uniform(5, 30), rng.uniform(-30, -5)], [0.0, 10.0]]),
                    wfs_wavelengths=numpy.array([5e-7, 6e-7]), n_layers=2, layer_altitudes=numpy.array([0.0, rng.uniform(2000, 9000)]),
                    layer_r0s=numpy.array([0.2, 0.5]), layer_L0s=numpy.array([25.0, 30.0]), threads=1)
        keep = copy.deepcopy(ctor)
        try:
            obj = sc.CovarianceMatrix(**ctor)
            first = numpy.array(obj.make_covariance_matrix(), copy=True)
            r1 = numpy.array(obj.make_tomographic_reconstructor(), copy=True)
            second = numpy.array(obj.make_covariance_matrix(), copy=True)
            r2 = numpy.array(obj.make_tomographic_reconstructor(), copy=True)
            fresh = numpy.array(sc.CovarianceMatrix(**copy.deepcopy(keep)).make_covariance_matrix(), copy=True)
        except Exception as ex:
            rec.errors.setdefault("CovarianceMatrix", "%s: %s" % (type(ex).__name__, str(ex)[:100]))
            continue
        chk.oracle_cases += 1
        chk.case(("method", "CovarianceMatrix", it))
        rep = {"class": "aotools.turbulence.slopecovariance.CovarianceMatrix", "ctor": _describe(list(keep.items()))}
        if not _equal(first, second, rtol=1e-9) or not _equal(first, fresh, rtol=1e-9):
            chk.fail("hidden-state:CovarianceMatrix.make_covariance_matrix", "CovarianceMatrix.make_covariance_matrix() returns a different "
                     "matrix when called a second time on the same object (or on a fresh object built from equal arguments)", rep)
        if not _equal(r1, r2, rtol=1e-9):
            chk.fail("hidden-state:CovarianceMatrix.make_tomographic_reconstructor", "make_tomographic_reconstructor() differs between two calls", rep)
        for k, v in keep.items():
            if isinstance(v, numpy.ndarray) and _snap(v) != _snap(ctor[k]):
                chk.fail("mutates:aotools.turbulence.slopecovariance.CovarianceMatrix:%s" % k,
                         "CovarianceMatrix modified the constructor argument `%s`" % k, rep)
    # ---- round 5: the other ways of holding the constructor's arguments, the multiprocessing path, two objects alive at once,
    #      a returned matrix the caller has overwritten
    geometry = cov_geometry

    def matrix(ctor):
        return numpy.array(sc.CovarianceMatrix(**ctor).make_covariance_matrix(), copy=True)
    sd = chk.c20_geometry_seed
    base = geometry(sd)
    rep = {"class": "aotools.turbulence.slopecovariance.CovarianceMatrix", "ctor": _describe(list(base.items()))}
    try:
        ref = matrix(copy.deepcopy(base))
        # (a) arguments as nested Python lists / tuples, as Fortran-ordered, read-only and int32 / float32 arrays
        forms = {"lists": {k: (v.tolist() if isinstance(v, numpy.ndarray) and k != "pupil_masks" else copy.deepcopy(v)) for k, v in base.items()},
                 "list of masks": dict(copy.deepcopy(base), pupil_masks=[m.copy() for m in base["pupil_masks"]]),
                 "tuples": {k: (tuple(map(tuple, v.tolist())) if isinstance(v, numpy.ndarray) and v.ndim == 2 else
                                tuple(v.tolist()) if isinstance(v, numpy.ndarray) and v.ndim == 1 else copy.deepcopy(v)) for k, v in base.items()},
                 "F-ordered": {k: (relayout(v, "F") if isinstance(v, numpy.ndarray) and v.ndim >= 2 else copy.deepcopy(v)) for k, v in base.items()},
                 "strided": {k: (relayout(v, "strided") if isinstance(v, numpy.ndarray) else v) for k, v in base.items()},
                 "read-only": {k: (relayout(v, "readonly") if isinstance(v, numpy.ndarray) else v) for k, v in base.items()},
                 "int32 masks": dict(copy.deepcopy(base), pupil_masks=base["pupil_masks"].astype(numpy.int32))}
        for name, ctor in forms.items():
            chk.oracle_cases += 1
            chk.case(("method", "CovarianceMatrix", "form", name))
            chk.count("dynamic:method:ctor-form")
            snap = {k: _pysnap(v) for k, v in ctor.items()}
            try:
                obj = sc.CovarianceMatrix(**ctor)
                got = numpy.array(obj.make_covariance_matrix(), copy=True)
                got2 = numpy.array(obj.make_covariance_matrix(), copy=True)
            except Exception as ex:
                if name == "read-only" and _readonly_write(ex) and _raised_in_library(ex):
                    chk.fail("writes-readonly:CovarianceMatrix", "CovarianceMatrix raises %r when its array arguments are read-only: it writes "
                             "into a constructor argument" % (ex,), dict(rep, form=name))
                else:
                    rec.errors.setdefault("CovarianceMatrix [%s]" % name, "%s: %s" % (type(ex).__name__, str(ex)[:100]))
                continue
            if not _equal(ref, got, rtol=1e-9) or not _equal(got, got2, rtol=1e-9):
                chk.fail("form-dependent:CovarianceMatrix.make_covariance_matrix", "CovarianceMatrix built from the same values given as %s "
                         "returns a different matrix (or a different one on the second call)" % name, dict(rep, form=name))
            for k, v in ctor.items():
                if _pysnap(v) != snap[k]:
                    chk.fail("mutates:aotools.turbulence.slopecovariance.CovarianceMatrix:%s" % k,
                             "CovarianceMatrix modified the constructor argument `%s` (given as %s)" % (k, name), dict(rep, form=name))
    except Exception as ex:
        rec.errors.setdefault("CovarianceMatrix [round 5 forms]", "%s: %s" % (type(ex).__name__, str(ex)[:100]))
        ref = None
    try:
        # (b) serial and multiprocessing paths compute the same matrix (the pool pickles wfs_covariance_mpwrap by name: the
        #     recording wrapper is taken off that one name for the duration of the call)
        chk.oracle_cases += 1
        chk.case(("method", "CovarianceMatrix", "threads=2"))
        chk.count("dynamic:method:multiprocessing-path")
        wrapped = sc.wfs_covariance_mpwrap
        sc.wfs_covariance_mpwrap = getattr(wrapped, "__wrapped_by_aoverif__", wrapped)
        try:
            mp = matrix(dict(copy.deepcopy(base), threads=2))
            mp2 = matrix(dict(copy.deepcopy(base), threads=2))
        finally:
            sc.wfs_covariance_mpwrap = wrapped
        if ref is not None and (not _equal(ref, mp, rtol=1e-9) or not _equal(mp, mp2, rtol=1e-9)):
            chk.fail("path-dependent:CovarianceMatrix.make_covariance_matrix", "CovarianceMatrix(threads=2).make_covariance_matrix() differs from "
                     "the serial result for equal arguments (largest difference %.3g)" % float(numpy.abs(ref - mp).max()), dict(rep, threads=2))
    except Exception as ex:
        rec.errors.setdefault("CovarianceMatrix [round 5 threads=2]", "%s: %s" % (type(ex).__name__, str(ex)[:100]))
    try:
        ref = matrix(copy.deepcopy(base))
        # (c) two objects alive at once, calls interleaved: each behaves as it does alone
        chk.oracle_cases += 1
        chk.case(("method", "CovarianceMatrix", "interleaved"))
        chk.count("dynamic:method:interleaved-objects")
        other = geometry(sd + 7, r0s=(0.11, 0.3), pos=((-20., 3.), (5.0, -4.0)))
        ref_o = matrix(copy.deepcopy(other))
        chk.c20_inproc[("cov", "other")] = ref_o
        chk.c20_inproc[("cov", "base")] = ref
        A, B = sc.CovarianceMatrix(**copy.deepcopy(base)), sc.CovarianceMatrix(**copy.deepcopy(other))
        a1 = numpy.array(A.make_covariance_matrix(), copy=True)
        b1 = numpy.array(B.make_covariance_matrix(), copy=True)
        ra = numpy.array(A.make_tomographic_reconstructor(), copy=True)
        a2 = numpy.array(A.make_covariance_matrix(), copy=True)
        rb = numpy.array(B.make_tomographic_reconstructor(), copy=True)
        Aalone = sc.CovarianceMatrix(**copy.deepcopy(base))
        Aalone.make_covariance_matrix()
        ra_alone = numpy.array(Aalone.make_tomographic_reconstructor(), copy=True)
        if not (_equal(a1, ref, rtol=1e-9) and _equal(b1, ref_o, rtol=1e-9) and _equal(a2, ref, rtol=1e-9) and _equal(ra, ra_alone, rtol=1e-9)):
            chk.fail("hidden-state:CovarianceMatrix:interleaved-objects", "two CovarianceMatrix objects with different geometry used in turn: "
                     "one of them returns something else than it does alone", rep)
        # (d) the caller overwrites the matrix it was given; a new call on the same object still returns the matrix
        chk.oracle_cases += 1
        chk.case(("method", "CovarianceMatrix", "result-overwritten"))
        C = sc.CovarianceMatrix(**copy.deepcopy(base))
        m = C.make_covariance_matrix()
        _scribble(m)
        if not _equal(numpy.array(C.make_covariance_matrix(), copy=True), ref, rtol=1e-9):
            chk.fail("hidden-state:CovarianceMatrix:result-overwritten", "after the caller overwrote the matrix returned by make_covariance_matrix(), "
                     "the next call on the same object returns a different matrix", rep)
    except Exception as ex:
        rec.errors.setdefault("CovarianceMatrix [round 5 histories]", "%s: %s" % (type(ex).__name__, str(ex)[:100]))
    # infinite screens: two objects alive at once with DIFFERENT atmospheres but the same size (anything shared between
    # instances — class-level matrices, a module-level cache keyed by size — shows), for more rows than the screen and the
    # stencil are long; each must evolve exactly as it does alone
    for cname, kw, kw_other in SCREEN_PAIRS:
        cls = getattr(ips, cname)
        steps = 3 * kw["nx_size"] + 5
        try:
            def alone(k):
                o = cls(**k)
                out = [numpy.array(o.scrn, copy=True)]
                for _ in range(steps):
                    o.add_row()
                    out.append(numpy.array(o.scrn, copy=True))
                return out
            ra, rb = alone(kw), alone(kw_other)
            chk.c20_inproc[("screen", cname, "a")], chk.c20_inproc[("screen", cname, "b")] = ra, rb
            A, B = cls(**kw), cls(**kw_other)
            ha, hb = [numpy.array(A.scrn, copy=True)], [numpy.array(B.scrn, copy=True)]
            for _ in range(steps):
                A.add_row()
                ha.append(numpy.array(A.scrn, copy=True))
                B.add_row()
                hb.append(numpy.array(B.scrn, copy=True))
        except Exception as ex:
            rec.errors.setdefault(cls.__name__ + " [interleaved]", "%s: %s" % (type(ex).__name__, str(ex)[:100]))
            continue
        chk.oracle_cases += 1
        chk.case(("method", cls.__name__, "interleaved", steps))
        chk.count("dynamic:method:interleaved-objects")
        bad = [i for i in range(steps + 1) if ha[i].tobytes() != ra[i].tobytes() or hb[i].tobytes() != rb[i].tobytes()]
        if bad:
            chk.fail("hidden-state:%s:interleaved-objects" % cls.__name__, "two %s objects of equal size and different atmospheres advanced in turn: "
                     "after %d rows one of them differs from the same object advanced alone" % (cls.__name__, bad[0]),
                     {"class": cls.__name__, "kwargs": kw, "other": kw_other, "first_bad_step": bad[0]})
    for cls, kw in ((ips.PhaseScreenVonKarman, dict(nx_size=8, pixel_scale=0.1, r0=0.2, L0=20., random_seed=3)),
                    (ips.PhaseScreenKolmogorov, dict(nx_size=9, pixel_scale=0.1, r0=0.2, L0=20., random_seed=3))):
        try:
            s1 = cls(**kw)
            s1.add_row()
            a = numpy.array(s1.scrn, copy=True)
            repr(s1); str(s1)
            b = numpy.array(s1.scrn, copy=True)
            s2 = cls(**kw)
            s2.add_row()
            c = numpy.array(s2.scrn, copy=True)
        except Exception as ex:
            rec.errors.setdefault(cls.__name__, "%s: %s" % (type(ex).__name__, str(ex)[:100]))
            continue
        chk.oracle_cases += 1
        chk.case(("method", cls.__name__))
        if a.tobytes() != b.tobytes():
            chk.fail("hidden-state:%s.__repr__" % cls.__name__, "reading / printing a %s changed its screen" % cls.__name__, {"class": cls.__name__, "kwargs": kw})
        if a.tobytes() != c.tobytes():
            chk.fail("hidden-state:%s" % cls.__name__, "two %s objects built from equal arguments differ after the same operations" % cls.__name__,
                     {"class": cls.__name__, "kwargs": kw})
        # results handed out earlier stay what they were: a caller collects frames (`frames.append(scr.add_row())`, `.scrn`) WITHOUT
        # copying them; later add_row() calls must not rewrite them
        try:
            s3 = cls(**kw)
            kept, copies = [s3.scrn], []
            copies.append(numpy.array(kept[0], copy=True))
            for _ in range(3 * int(kw["nx_size"]) + 2):
                r = s3.add_row()
                kept.append(r)
                copies.append(numpy.array(r, copy=True))
                kept.append(s3.scrn)
                copies.append(numpy.array(kept[-1], copy=True))
            stale = [i for i, (k, cpy) in enumerate(zip(kept, copies)) if numpy.asarray(k).tobytes() != cpy.tobytes()]
            if stale:
                chk.fail("result-rewritten:%s.add_row" % cls.__name__, "frames returned by %s.add_row() / .scrn and kept by the caller were rewritten by later "
                         "add_row() calls (%d of %d kept results changed; first: result number %d)" % (cls.__name__, len(stale), len(kept), stale[0]),
                         {"class": cls.__name__, "kwargs": kw, "steps": 3 * int(kw["nx_size"]) + 2})
        except Exception as ex:
            rec.errors.setdefault(cls.__name__ + ":kept-frames", "%s: %s" % (type(ex).__name__, str(ex)[:100]))


# ---------------------------------------------------------------------------------------------------------------------
# round 4: seeded entry points over the boundary values of the seed domain; stacks against their items

SEEDED_CALLS = [("aotools.turbulence.phasescreen.ft_phase_screen", [0.1, 8, 0.05, 20., 0.01], "seed"),
                ("aotools.turbulence.phasescreen.ft_sh_phase_screen", [0.1, 8, 0.05, 20., 0.01], "seed"),
                ("aotools.turbulence.infinitephasescreen.PhaseScreenVonKarman", [6, 0.1, 0.2, 20.], "random_seed"),
                ("aotools.turbulence.infinitephasescreen.PhaseScreenKolmogorov", [6, 0.1, 0.2, 20.], "random_seed")]


def seed_arguments(rng):
    """(label, value class, factory) of seed arguments: the value 0 and other boundary values of the seed domain in the forms a
    caller may hold them (Python int / bool, NumPy integer scalars, a list or array of words, a SeedSequence).  Generator objects
    are left out here: they are consumed by the call, i.e. explicit state of the caller, C06's subject."""
    out = []

    def add(form, v, make):
        cls = str(v) if v <= 2 else ("<2^32" if v < 2 ** 32 else "<2^53" if v < 2 ** 53 else "<2^64" if v < 2 ** 64 else ">=2^64")
        out.append(("%s:%s" % (form, cls), v, make))
    for v in (0, 1):
        add("int", v, lambda v=v: int(v))
        add("bool", v, lambda v=v: bool(v))
        for t in ("uint8", "int32", "int64", "uint64"):
            add(t, v, lambda v=v, t=t: getattr(numpy, t)(v))
        add("list", v, lambda v=v: [int(v)])
        add("list2", v, lambda v=v: [0, int(v)])
        add("array", v, lambda v=v: numpy.array([v], dtype=numpy.uint32))
        add("seedseq", v, lambda v=v: numpy.random.SeedSequence(int(v)))
    big = rng.getrandbits(rng.randint(65, 128)) | (1 << 64)
    for v in (2, 2 ** 32 - 1, 2 ** 32, 2 ** 53 + 1, 2 ** 63 - 1, 2 ** 64 - 1, 2 ** 64, big):
        add("int", v, lambda v=v: int(v))
        if v < 2 ** 64:
            add("uint64", v, lambda v=v: numpy.uint64(v))
    return out


def seeded_table(chk, rec):
    """every seeded entry point, for every seed argument above: two calls with equal arguments — with an unseeded call, a call
    with another seed and a re-seeding of NumPy's global generator in between — return equal results; list / array seed
    arguments are left as they were"""
    seeds = seed_arguments(chk.rng)
    for path, args, sname in SEEDED_CALLS:
        fn = resolve(path)
        is_class = inspect.isclass(fn)

        def call(seed):
            with numpy.errstate(all="ignore"), contextlib.redirect_stdout(io.StringIO()):
                r = fn(*copy.deepcopy(args), **{sname: seed})
                if not is_class:
                    return [numpy.array(r, copy=True)]
                out = [numpy.array(r.scrn, copy=True)]
                r.add_row()
                return out + [numpy.array(r.scrn, copy=True)]
        for label, v, make in seeds:
            chk.oracle_cases += 1
            chk.case(("seeded", path, label, str(v)), sample={"call": path, "seed": label, "value": str(v)} if (label, path) == ("int:0", SEEDED_CALLS[0][0]) else None)
            chk.count("dynamic:seeded:" + label.split(":")[0])
            rep = {"function": path, "args": args, "seed_argument": sname, "seed_form": label, "seed_value": str(v)}
            try:
                numpy.random.default_rng(make())
            except Exception:
                chk.count("dynamic:seeded:rejected-by-numpy")          # not a seed at all: outside the domain
                continue
            s1 = make()
            keep = copy.deepcopy(s1)
            try:
                first = call(s1)
                call(None)
                call(int(v) + 1)
                numpy.random.seed(chk.rng.randint(0, 10 ** 6))
                second = call(copy.deepcopy(keep))
            except Exception as ex:
                chk.fail("raises:%s:seed=%s:%s" % (path, label, type(ex).__name__), "%s raised %r for the seed %s (%s), which "
                         "numpy.random.default_rng accepts" % (path, ex, v, label), rep)
                continue
            if not _equal(first, second, rtol=1e-9):
                chk.fail("nondeterministic:%s:seed=%s" % (path, label), "%s called twice with equal arguments (%s = %r, i.e. the seed "
                         "value %s) returned different results" % (path, sname, keep, v), rep)
            if isinstance(keep, (list, numpy.ndarray)) and not (type(s1) is type(keep) and numpy.array_equal(s1, keep)
                                                                and getattr(s1, "dtype", None) == getattr(keep, "dtype", None)):
                chk.fail("mutates:%s:%s" % (path, sname), "%s modified the %s it was given as `%s`" % (path, type(keep).__name__, sname), rep)


BATCH_SHAPES = [(1,), (2,), (3,), (4,), (5,), (7,), (2, 3), (3, 2), (3, 3), (1, 3), (5, 1), (2, 3, 2)]


def stack_table(nprng):
    """the functions that accept stacks / leading batch axes.  Per row: path, builder(batch) -> positional arguments with the
    stacked array FIRST built for that batch shape, keyword arguments, where the batch axes sit in the result ('lead': result[idx];
    'after0': result[:, idx], the centroiders' (2, ...) convention), the highest batch rank the function documents (None = any),
    and whether a single item is passed as a one-item stack (functions documented for rank-3 input only).
    Real-input transforms get EVEN signal lengths only (odd ones: open finding real:irft∘rft:odd of C09)."""
    def real(*item):
        return lambda b: [nprng.normal(size=b + item)]

    def cplx(*item):
        return lambda b: [nprng.normal(size=b + item) + 1j * nprng.normal(size=b + item)]

    def pos(*item):
        return lambda b: [nprng.integers(1, 50, size=b + item).astype(float)]

    def sep(*item):
        return lambda b: [nprng.uniform(0.05, 5., size=b + item)]
    ref = nprng.integers(1, 50, size=(8, 8)).astype(float)
    mask = numpy.array([[1, 0, 1], [1, 1, 0], [0, 1, 0]])
    FT, CE = "aotools.fouriertransform.", "aotools.image_processing.centroiders."
    T = []
    for n in (5, 8, 16):
        T += [(FT + "ft", (lambda f: lambda b: f(b) + [0.25])(cplx(n)), {}, "lead", None, False),
              (FT + "ft", (lambda f: lambda b: f(b) + [0.25])(real(n)), {}, "lead", None, False),
              (FT + "ift", (lambda f: lambda b: f(b) + [0.25])(cplx(n)), {}, "lead", None, False)]
    for n in (8, 16):
        T += [(FT + "rft", (lambda f: lambda b: f(b) + [0.25])(real(n)), {}, "lead", None, False),
              (FT + "irft", (lambda f: lambda b: f(b) + [0.25])(cplx(n // 2 + 1)), {}, "lead", None, False)]
    for ny, nx in ((5, 5), (8, 8), (6, 8)):
        T += [(FT + "ft2", (lambda f: lambda b: f(b) + [0.25])(cplx(ny, nx)), {}, "lead", None, False),
              (FT + "ift2", (lambda f: lambda b: f(b) + [0.25])(cplx(ny, nx)), {}, "lead", None, False)]
    T += [(FT + "rft2", (lambda f: lambda b: f(b) + [0.25])(real(8, 8)), {}, "lead", None, False),
          (FT + "irft2", (lambda f: lambda b: f(b) + [0.25])(cplx(8, 5)), {}, "lead", None, False),
          (CE + "centre_of_gravity", pos(8, 8), {}, "after0", None, False),
          (CE + "centre_of_gravity", pos(7, 9), {"threshold": 0.25}, "after0", None, False),
          (CE + "brightest_pixel", (lambda f: lambda b: f(b) + [0.3])(pos(8, 8)), {}, "after0", None, False),
          (CE + "quadCell", pos(2, 2), {}, "after0", None, False),
          (CE + "correlation_centroid", (lambda f: lambda b: f(b) + [ref])(pos(8, 8)), {"threshold": 0.1}, "after0", 1, True),
          ("aotools.interpolation.binImgs", (lambda f: lambda b: f(b) + [2])(pos(8, 8)), {}, "lead", None, False),
          ("aotools.interpolation.binImgs", (lambda f: lambda b: f(b) + [4])(pos(8, 4)), {}, "lead", None, False),
          ("aotools.turbulence.temporal_ps.calc_slope_temporalps", real(16, 6), {}, "lead", None, False),
          ("aotools.wfs.wfslib.make_subaps_2d", (lambda f: lambda b: f(b) + [mask])(real(2, 5)), {}, "lead", 1, True),
          # element-wise functions of a separation array: a stack of separation vectors
          ("aotools.turbulence.slopecovariance.structure_function_vk", (lambda f: lambda b: f(b) + [0.2, 25.])(sep(6)), {}, "lead", None, False),
          ("aotools.turbulence.slopecovariance.structure_function_kolmogorov", (lambda f: lambda b: f(b) + [0.2])(sep(6)), {}, "lead", None, False),
          ("aotools.turbulence.turb.phase_covariance", (lambda f: lambda b: f(b) + [0.2, 25.])(sep(6)), {}, "lead", None, False),
          ("aotools.functions.karhunenLoeve.stf_vonKarman", (lambda f: lambda b: f(b) + [3.])(sep(6)), {}, "lead", None, False),
          ("aotools.functions.karhunenLoeve.stf_kolmogorov", sep(6), {}, "lead", None, False)]
    return T


def stacks(chk, rec, quick, observed):
    """'functions that accept stacks or leading batch axes return, per item, what the single-item call returns': every row of
    stack_table on batch shapes with odd and even lengths and nested batch axes, the stack C-ordered and as a strided view;
    each item of the stacked result against the call on that item alone (a contiguous copy of it)"""
    nprng = numpy.random.default_rng(chk.rng.getrandbits(32))
    table = stack_table(nprng)
    reported = set()
    for path, build, kw, where, max_rank, as_stack1 in table:
        fn = resolve(path)
        shapes = [b for b in BATCH_SHAPES if max_rank is None or len(b) <= max_rank]
        if quick and len(shapes) > 7:
            shapes = [(3,), (5,)] + chk.rng.sample([b for b in shapes if b not in ((3,), (5,))], 5)
        for batch in shapes:
            args = build(batch)
            # (round 5) the stack also Fortran-ordered, with negative strides and read-only — on the batch shapes (3,) and (2, 3)
            # in the quick tier, on all of them in the thorough tier
            labels = ("C", "strided") + (("F", "neg", "readonly") if (not quick or batch in ((3,), (2, 3))) else ())
            for lay, stack in layouts(args[0], chk.rng, labels):
                chk.oracle_cases += 1
                chk.case(("stack", path, batch, lay, tuple(args[0].shape), json.dumps(kw, sort_keys=True)),
                         sample={"call": path, "stack_shape": list(args[0].shape), "batch": list(batch), "layout": lay} if path.endswith(".rft") and batch == (3,) else None)
                odd = any(n >= 3 and n % 2 for n in batch)
                chk.count("dynamic:stack:rank%d:%s" % (len(batch), "odd" if odd else "even"))
                key = "stack:%s:rank%d:%s" % (path, len(batch), "odd" if odd else "even")
                rep = {"function": path, "stack_shape": list(args[0].shape), "batch": list(batch), "layout": lay, "kwargs": kw,
                       "other_args": [a if not isinstance(a, numpy.ndarray) else a.tolist() for a in args[1:]], "stack": args[0].tolist() if args[0].size <= 400 else None}
                try:
                    with numpy.errstate(all="ignore"), contextlib.redirect_stdout(io.StringIO()):
                        whole = fn(stack, *copy.deepcopy(args[1:]), **copy.deepcopy(kw))
                        whole = whole if isinstance(whole, tuple) else (whole,)
                        worst, bad = 0., None
                        for idx in numpy.ndindex(*batch):
                            if as_stack1:
                                item = numpy.array(args[0][idx[0]:idx[0] + 1], copy=True)
                                sel = (slice(idx[0], idx[0] + 1),)
                            else:
                                item = numpy.array(args[0][idx], copy=True)
                                sel = idx
                            one = fn(item, *copy.deepcopy(args[1:]), **copy.deepcopy(kw))
                            one = one if isinstance(one, tuple) else (one,)
                            for w, o in zip(whole, one):
                                w = numpy.asarray(w)[sel if where == "lead" else (slice(None),) + sel]
                                o = numpy.asarray(o)
                                if w.shape != o.shape:
                                    worst, bad = numpy.inf, bad or (idx, "shape %s instead of %s" % (w.shape, o.shape))
                                    continue
                                scale = max(float(numpy.abs(o).max()) if o.size else 0., 1e-300)
                                err = float(numpy.abs(w - o).max()) / scale if o.size else 0.
                                err = err if err == err else numpy.inf
                                if not numpy.array_equal(numpy.isnan(w), numpy.isnan(o)):
                                    err = numpy.inf
                                worst = max(worst, err)
                                if err > 1e-9 and bad is None:
                                    bad = (idx, "relative difference %.3g" % err)
                except Exception as ex:
                    chk.fail("raises:" + key, "%s raised %r on a stack of shape %s (batch %s, %s)" % (path, ex, args[0].shape, batch, lay), rep)
                    continue
                observed[0] = max(observed[0], worst if worst < 1e-9 else 0.)
                if bad is not None and key not in reported:          # one concrete failing stack per (function, batch rank, parity)
                    reported.add(key)
                    chk.fail(key, "%s on a %s stack of shape %s: item %s of the result differs from the call on that item alone (%s)"
                             % (path, lay, tuple(args[0].shape), bad[0], bad[1]), dict(rep, item=list(bad[0])))


def run(chk):
    quick = chk.tier == "quick"
    chk.rule = ("static: one kernel-checked obligation per public function on the regenerated effect term; dynamic: instrumented "
                "replay of the repository's test-suite and of a call table (arrays C-ordered, Fortran-ordered and strided views); "
                "a case = one (function, layout, kwargs) of the table; test-suite calls are counted in input_distribution; "
                "seeded entry points (finite and infinite screens) twice on equal seed arguments over boundary seed values and forms; "
                "stack-accepting functions on batch shapes (1)..(7),(2,3),(3,2),(3,3),(1,3),(5,1),(2,3,2) against their items")
    chk.assumptions = ["T2's whitelists of view-returning / in-place / global-RNG operations (validated: observed mutations ⊆ predicted)",
                       "instance attributes are explicit state; references kept inside Python containers are not tracked statically",
                       "'returns equal results' is compared with rel. tol 1e-12 on floats (NumPy reductions are alignment-dependent at the ulp level)",
                       "batch-equals-items clause: proved / modelled in C09 (ft stacks), C15 (centroider stacks), C16 (binImgs stacks), C17 (axis); "
                       "sampled here (stack_table: rel. 1e-9 per item, batch shapes with odd lengths >= 3 and nested batch axes, C-ordered and strided)",
                       "seeded entry points: equal results for equal seed arguments sampled over the boundary values of the seed domain (0, 1, "
                       "2^32-1, 2^32, 2^53+1, 2^63-1, 2^64-1, 2^64, a random 65..128-bit value) held as int/bool/NumPy scalars/list/array/SeedSequence"]
    # ---- static side
    try:
        src, meta = T2.translate(common.REPO)
        checks = meta.pop("__checks__")
        from ..translate_formulas import write_if_changed
        write_if_changed(os.path.join(common.LEAN_DIR, "AoVerif/Gen/Effects.lean"), src)
        write_if_changed(os.path.join(common.LEAN_DIR, "AoVerif/Gen/EffectsChecks.lean"), checks)
        csrc, _ = T2.corpus()
        write_if_changed(os.path.join(common.LEAN_DIR, "AoVerif/Gen/EffectsCorpus.lean"), csrc)
    except Exception as ex:
        chk.broke("translator", "T2 cannot translate the current source: %r" % (ex,))
        meta = None
    chk.build_and_audit("AoVerif.Props.C20", "AoVerif.Props.C20", REQUIRED)
    predicted = {}
    if meta is not None:
        names = sorted(meta)
        try:
            ans = common.run_driver(["C20 eff " + n for n in names], "C20")
            for n, a in zip(names, ans):
                chk.corr_cases += 1
                if a == "bad-op":
                    chk.broke("translator", "driver does not know %s" % n)
                    continue
                _, w, g, p = [x.strip() for x in a.split("|")]
                ps = meta[n]["params"]
                predicted[n] = {"writes": [ps[int(i)] for i in w.split()], "global": g == "1", "pure": p == "1"}
                chk.count("static:pure" if p == "1" else "static:flagged")
            chk.obligations.update({"AoVerif.Gen.chk[%s]" % n: [] for n in names})   # kernel evaluation (decide +kernel): no axioms
        except common.LeanError as ex:
            chk.broke("translator", "generated effect terms do not compile / run", str(ex))
    # ---- dynamic side
    import time
    tt = [time.time()]

    def lap(name):
        tt.append(time.time())
        return "%s %.1fs" % (name, tt[-1] - tt[-2])
    chk.c20_geometry_seed = chk.rng.getrandbits(30)
    chk.c20_inproc = {}
    table = call_table(chk.rng)
    specs, fresh_keys = fresh_specs(chk, table)
    try:
        fresh = FreshProcess(specs)          # runs while the test-suite is replayed
    except Exception as ex:
        fresh = None
        chk.notes.append("fresh-interpreter reference could not be started: %r" % (ex,))
    rec = Recorder()
    public = instrument(rec)
    laps = []
    dynamic(chk, rec, public, quick, table)
    laps.append(lap("test-suite + call table"))
    method_table(chk, rec)
    laps.append(lap("methods"))
    seeded_table(chk, rec)
    laps.append(lap("seeded"))
    observed = [0.]
    stacks(chk, rec, quick, observed)
    laps.append(lap("stacks"))
    if fresh is not None:
        compare_fresh(chk, rec, fresh, fresh_keys, table)
        laps.append(lap("fresh-interpreter comparison"))
    chk.notes.append("dynamic side wall time: " + ", ".join(laps))
    chk.notes.append("stack vs items: largest relative difference observed below the 1e-9 tolerance: %.3g" % observed[0])
    chk.count("dynamic:functions-exercised", len([q for q in rec.calls if rec.calls[q]]))
    never = sorted(q for q in (meta or {}) if q not in rec.calls)
    chk.notes.append("public functions never exercised dynamically: %s" % ", ".join(never[:40]))
    chk.notes.append("calls that raised (ignored): %s" % json.dumps(rec.errors)[:6000])
    for (q, param), ex in sorted(rec.mutations.items()):
        chk.fail("mutates:%s:%s" % (q, param), "%s modifies its argument `%s` (%s)" % (q, param, ex["what"]),
                 {"function": q, "param": param, **ex})
        pw = predicted.get(q)
        if pw is not None and param not in pw["writes"] and not q.split(".")[-2][:1].isupper():
            chk.broke("translator", "observed mutation of %s.%s was not predicted by the static analysis" % (q, param))
    for q, ex in sorted(rec.global_rng.items()):
        chk.fail("global-rng:%s" % q, "%s advances NumPy's global random generator (hidden state)" % q, {"function": q, "args": ex})
        if q in predicted and not predicted[q]["global"]:
            chk.broke("translator", "observed global-RNG use of %s was not predicted by the static analysis" % q)
    for q, ex in sorted(rec.settings.items()):
        chk.fail("process-settings:%s" % q, "%s leaves process-wide state changed (hidden state that later calls of other functions see): %s; "
                 "called with NumPy's error handling set to 'ignore' by the caller" % (q, "; ".join(ex["changed"])), {"function": q, **ex})
    for q, ex in sorted(rec.nondet.items()):
        if q in rec.global_rng:
            continue          # same root cause, already reported
        chk.fail("nondeterministic:%s" % q, "%s returned different results on two calls with equal arguments" % q, {"function": q, "args": ex})
    # statically flagged but nothing observed and no finding: the obligation already failed in build_and_audit
    for q, pw in predicted.items():
        if not pw["pure"] and not (meta or {}).get(q, {}).get("known_impure"):
            chk.notes.append("statically flagged: %s writes %s global=%s" % (q, pw["writes"], pw["global"]))
