"""C20 — library calls are pure: arguments are never modified, no hidden state."""
import copy
import importlib
import inspect
import io
import json
import os
import sys
import threading
import contextlib

import numpy

from .. import common
from .. import translate_effects as T2

MANIFEST = {
    "text": "Every public function/method of every module is translated on each run (translator T2) into a term of a small effect "
            "and aliasing IR; Lean proves ONCE that the executable abstract interpreter is sound for a concrete heap semantics "
            "(views share buffers, arguments may alias each other, any branch, any number of loop iterations, view-or-copy "
            "nondeterminism): pure_sound / writes_sound; the per-function obligation pureCheck = true is then discharged by kernel "
            "evaluation for all regenerated terms (all_generated_pure), so an in-place write or global-RNG use that the translator "
            "recognises (its whitelists of views / in-place operations / RNG uses, regression-tested on every run against a corpus of "
            "25 impure and 7 pure idioms: corpus_impure_flagged, corpus_pure_accepted) breaks a proof obligation on the next run in "
            "ANY function. Dynamic side: every public function is wrapped in-process, the repository's "
            "own test-suite plus a call table with C/F-ordered and strided sentinel arrays is replayed; argument values, shape, dtype "
            "and strides are compared before/after, every top-level call is repeated on equal arguments, NumPy's global RNG state is "
            "compared; observed mutations must be a subset of the statically predicted ones.",
    "note": "Trusted: Lean kernel + standard axioms; translator T2 (what is a view / an in-place operation / a global-RNG use is a "
            "whitelist, validated each run by observed ⊆ predicted); the IR abstracts values away (only aliasing and writes). "
            "Instance state (self.*) is explicit state, not hidden state; references stored inside Python lists/dicts are not "
            "tracked statically (dynamic run only). Batch-equals-items is evaluated dynamically here (stack_table: every stacking function, batch shapes incl. odd lengths >= 3 and nested axes, C-ordered and strided) and, with models, by C09/C15/C16/C17.",
    "technique": "Lean 4 soundness proof of an abstract interpreter + kernel-evaluated per-function obligations on terms regenerated "
                 "from source + instrumented dynamic replay",
}
REQUIRED = ["gam_init", "writes_sound", "pure_sound", "all_generated_pure", "known_impure_flagged", "corpus_present",
            "corpus_impure_flagged", "corpus_pure_accepted", "corpus_size"]

_tls = threading.local()


def _arrays(obj, path, out, depth=0):
    if isinstance(obj, numpy.ndarray):
        out.append((path, obj))
    elif isinstance(obj, (list, tuple)) and depth < 2 and len(obj) <= 64:
        for i, x in enumerate(obj):
            _arrays(x, "%s[%d]" % (path, i), out, depth + 1)
    elif isinstance(obj, dict) and depth < 2:
        for k, x in obj.items():
            _arrays(x, "%s[%r]" % (path, k), out, depth + 1)


def _snap(a):
    return (a.shape, a.dtype.str, a.strides, a.tobytes() if a.size <= 2_000_000 else None)


def _equal(a, b, rtol=1e-12):
    if isinstance(a, numpy.ndarray) or isinstance(b, numpy.ndarray):
        a, b = numpy.asarray(a), numpy.asarray(b)
        if a.shape != b.shape:
            return False
        if a.dtype.kind in "fc" or b.dtype.kind in "fc":
            return bool(numpy.allclose(a, b, rtol=rtol, atol=0, equal_nan=True))
        try:
            return bool(numpy.array_equal(a, b))
        except Exception:
            return True
    if isinstance(a, (list, tuple)) and isinstance(b, (list, tuple)):
        return len(a) == len(b) and all(_equal(x, y) for x, y in zip(a, b))
    if isinstance(a, dict) and isinstance(b, dict):
        return a.keys() == b.keys() and all(_equal(a[k], b[k]) for k in a)
    if isinstance(a, float) and isinstance(b, float):
        return (a != a and b != b) or abs(a - b) <= rtol * max(abs(a), abs(b))
    if isinstance(a, (int, str, bool, complex, type(None))) or isinstance(a, numpy.generic):
        try:
            return bool(a == b) or (a != a and b != b)
        except Exception:
            return True
    return True      # opaque objects (instances, generators) are not compared


class Recorder:
    def __init__(self):
        self.mutations = {}      # (qualname, param path) -> example
        self.nondet = {}         # qualname -> example
        self.global_rng = {}     # qualname -> example
        self.calls = {}          # qualname -> count
        self.errors = {}

    def wrap(self, qual, fn, is_method):
        try:
            sig = inspect.signature(getattr(fn, "py_func", fn))
        except (TypeError, ValueError):
            sig = None
        rec = self

        def wrapper(*args, **kw):
            depth = getattr(_tls, "depth", 0)
            if getattr(_tls, "off", False):
                return fn(*args, **kw)
            rec.calls[qual] = rec.calls.get(qual, 0) + 1
            named = []
            try:
                ba = sig.bind(*args, **kw) if sig else None
            except TypeError:
                ba = None
            if ba is not None:
                ba.apply_defaults()
                for k, v in ba.arguments.items():
                    if is_method and k == "self":
                        continue
                    named.append((k, v))
            else:
                named = [("arg%d" % i, v) for i, v in enumerate(args[1:] if is_method else args)] + list(kw.items())
            arrs = []
            for k, v in named:
                _arrays(v, k, arrs)
            before = [(p, a, _snap(a)) for p, a in arrs]
            pre = None
            seeded = all(not (k in ("seed", "random_seed") and v is None) for k, v in named)
            if depth == 0 and not is_method and seeded and rec.calls[qual] <= 40:
                try:
                    pre = copy.deepcopy((args, kw))
                except Exception:
                    pre = None
            gstate = numpy.random.get_state()[1][:8].tobytes(), numpy.random.get_state()[2]
            _tls.depth = depth + 1
            try:
                res = fn(*args, **kw)
            finally:
                _tls.depth = depth
            g2 = numpy.random.get_state()[1][:8].tobytes(), numpy.random.get_state()[2]
            if g2 != gstate and depth == 0:
                rec.global_rng.setdefault(qual, _describe(named))
            for p, a, s in before:
                now = _snap(a)
                if now != s:
                    what = "values" if now[:3] == s[:3] else "shape/dtype/strides %s -> %s" % (s[:3], now[:3])
                    rec.mutations.setdefault((qual, p.split("[")[0]), {"what": what, "args": _describe(named), "path": p})
            if pre is not None:
                _tls.off = True
                try:
                    res2 = fn(*pre[0], **pre[1])
                    if not _equal(res, res2):
                        rec.nondet.setdefault(qual, _describe(named))
                except Exception as ex:
                    rec.errors.setdefault(qual, "second call raised %s" % type(ex).__name__)
                finally:
                    _tls.off = False
            return res
        wrapper.__name__ = getattr(fn, "__name__", "wrapped")
        wrapper.__doc__ = getattr(fn, "__doc__", None)
        wrapper.__wrapped_by_aoverif__ = fn
        return wrapper


def _describe(named):
    out = {}
    for k, v in named:
        if isinstance(v, numpy.ndarray):
            out[k] = {"shape": list(v.shape), "dtype": v.dtype.str, "c_contiguous": bool(v.flags.c_contiguous),
                      "f_contiguous": bool(v.flags.f_contiguous),
                      "values": v.ravel()[:16].tolist() if v.dtype.kind in "iufb" else str(v.ravel()[:4])}
        else:
            out[k] = repr(v)[:80]
    return out


def instrument(rec):
    """wrap every public function / method defined in the library's modules, everywhere it is bound"""
    import aotools  # noqa: F401
    targets = {}
    for mod in T2.MODULES:
        mname = mod[:-3].replace("/", ".")
        m = importlib.import_module(mname)
        for name, obj in list(vars(m).items()):
            if name.startswith("_"):
                continue
            if inspect.isclass(obj) and obj.__module__ == mname:
                for an, av in list(vars(obj).items()):
                    if inspect.isfunction(av) and (not an.startswith("_") or an in ("__init__", "__repr__")):
                        q = "%s.%s.%s" % (mname, name, an)
                        setattr(obj, an, rec.wrap(q, av, True))
            elif callable(obj) and getattr(obj, "__module__", None) == mname and not inspect.isclass(obj):
                targets[id(obj)] = (("%s.%s" % (mname, name)), obj)
    wrapped = {i: rec.wrap(q, o, False) for i, (q, o) in targets.items()}
    for mn, m in list(sys.modules.items()):
        if m is None or not (mn == "aotools" or mn.startswith("aotools.")):
            continue
        for name, obj in list(vars(m).items()):
            if id(obj) in wrapped:
                setattr(m, name, wrapped[id(obj)])
    return {q for q, _ in targets.values()}


def layouts(a, rng):
    """the same values as C-ordered, Fortran-ordered and as a strided view of a larger buffer"""
    yield "C", numpy.ascontiguousarray(a)
    if a.ndim >= 2:
        yield "F", numpy.asfortranarray(a)
    big = numpy.zeros(tuple(2 * s for s in a.shape), dtype=a.dtype)
    view = big[tuple(slice(None, None, 2) for _ in a.shape)]
    view[...] = a
    yield "strided", view


def call_table(rng):
    """(callable path, args builder) for the functions the property is anchored in; arrays in several memory layouts"""
    nprng = numpy.random.default_rng(rng.getrandbits(32))

    def img(n=8, m=None):
        return nprng.integers(1, 50, size=(n, m or n)).astype(float)

    def cimg(n=8):
        return nprng.normal(size=(n, n)) + 1j * nprng.normal(size=(n, n))
    T = []
    T += [("aotools.image_processing.centroiders.centre_of_gravity", [img()], {}),
          ("aotools.image_processing.centroiders.centre_of_gravity", [img()], {"threshold": 0.25}),
          ("aotools.image_processing.centroiders.centre_of_gravity", [nprng.integers(1, 50, size=(3, 8, 8)).astype(float)], {"threshold": 0.25}),
          ("aotools.image_processing.centroiders.brightest_pixel", [img(), 0.3], {}),
          ("aotools.image_processing.centroiders.brightest_pixel", [nprng.integers(1, 50, size=(3, 8, 8)).astype(float), 0.3], {}),
          ("aotools.image_processing.centroiders.quadCell", [img(2)], {}),
          ("aotools.image_processing.centroiders.cross_correlate", [img(), img()], {}),
          ("aotools.image_processing.centroiders.correlation_centroid", [img(), img()], {"threshold": 0.1}),
          ("aotools.image_processing.centroiders.correlation_centroid", [nprng.integers(1, 50, size=(2, 8, 8)).astype(float), img()], {"threshold": 0.1}),
          ("aotools.image_processing.contrast.rms_contrast", [img()], {}),
          ("aotools.image_processing.contrast.image_contrast", [img()], {}),
          ("aotools.image_processing.psf.azimuthal_average", [img()], {}),
          ("aotools.image_processing.psf.encircled_energy", [img()], {}),
          ("aotools.interpolation.zoom", [img(), 12], {}),
          ("aotools.interpolation.zoom_rbs", [img(), (12, 10)], {}),
          ("aotools.interpolation.zoom_rbs", [cimg(), 12], {}),
          ("aotools.interpolation.binImgs", [img(), 2], {}),
          ("aotools.interpolation.binImgs", [nprng.integers(0, 9, size=(3, 8, 8)).astype(float), 4], {})]
    for f in ("ft", "ift", "ft2", "ift2", "rft", "rft2"):
        T.append(("aotools.fouriertransform." + f, [img() if "r" == f[0] else cimg(), 0.5], {}))
    T += [("aotools.fouriertransform.irft", [cimg()[:, :5], 0.5], {}),
          ("aotools.fouriertransform.irft2", [cimg()[:, :5], 0.5], {}),
          ("aotools.opticalpropagation.angularSpectrum", [cimg(), 5e-7, 0.01, 0.012, 100.], {}),
          ("aotools.opticalpropagation.oneStepFresnel", [cimg(), 5e-7, 0.01, 100.], {}),
          ("aotools.opticalpropagation.twoStepFresnel", [cimg(), 5e-7, 0.01, 0.012, 100.], {}),
          ("aotools.opticalpropagation.lensAgainst", [cimg(), 5e-7, 0.01, 1.], {}),
          ("aotools.turbulence.phasescreen.ift2", [cimg(), 1.], {}),
          ("aotools.turbulence.phasescreen.ft_phase_screen", [0.1, 16, 0.05, 20., 0.01], {"seed": 3}),
          ("aotools.turbulence.phasescreen.ft_sh_phase_screen", [0.1, 16, 0.05, 20., 0.01], {"seed": 3}),
          ("aotools.turbulence.slopecovariance.structure_function_vk", [img() / 10., 0.2, 25.], {}),
          ("aotools.turbulence.slopecovariance.structure_function_kolmogorov", [img() / 10., 0.2], {}),
          ("aotools.turbulence.slopecovariance.calculate_structure_function", [img(16)], {}),
          ("aotools.turbulence.slopecovariance.mirror_covariance_matrix", [numpy.tril(img(6)).astype("float32")], {}),
          ("aotools.turbulence.turb.phase_covariance", [(img() / 10.).astype("float32"), 0.2, 25.], {}),
          ("aotools.turbulence.turb.phase_covariance", [img() / 10., 0.2, 25.], {}),
          ("aotools.turbulence.temporal_ps.calc_slope_temporalps", [nprng.normal(size=(2, 16, 5))], {}),
          ("aotools.turbulence.atmos_conversions.isoplanaticAngle", [img(4) * 1e-15, img(4) * 100., 5e-7], {}),
          ("aotools.turbulence.atmos_conversions.coherenceTime", [img(4) * 1e-15, img(4), 5e-7], {}),
          ("aotools.turbulence.atmos_conversions.r0_from_slopes", [nprng.normal(size=(2, 4, 10)), 5e-7, 0.1], {}),
          ("aotools.turbulence.profile_compression.equivalent_layers", [numpy.linspace(0, 15000., 10), img(10)[0], 4], {}),
          ("aotools.turbulence.profile_compression.optimal_grouping", [2, 3, numpy.linspace(0, 15000., 10), img(10)[0]], {}),
          ("aotools.functions.zernike.phaseFromZernikes", [numpy.array([0., 1., .5, -2.]), 12], {}),
          ("aotools.functions.zernike.zernikeArray", [[2, 3, 5], 12], {}),
          ("aotools.functions.zernike.zernikeRadialFunc", [4, 2, img() / 50.], {}),
          ("aotools.functions.karhunenLoeve.rebin", [img(), (4, 4)], {}),
          ("aotools.functions.karhunenLoeve.stf_vonKarman", [img() / 10., 3.], {}),
          ("aotools.wfs.wfslib.findActiveSubaps", [4, (img(16) > 10).astype(float), 0.5], {}),
          ("aotools.wfs.wfslib.computeFillFactor", [(img(16) > 10).astype(float), numpy.array([[0., 0.], [4., 8.]]), 4], {}),
          ("aotools.wfs.wfslib.make_subaps_2d", [nprng.normal(size=(3, 2, 5)), numpy.array([[1, 0, 1], [1, 1, 0], [0, 1, 0]])], {}),
          ("aotools.astronomy._astronomy.photons_per_band", [5., (img() > 10).astype(float), 0.1, 0.01], {}),
          ("aotools.functions._functions.gaussian2d", [(8, 8), (2., 3.)], {}),
          ("aotools.functions.karhunenLoeve.stf_vonKarman_yao", [img() / 10., 3.], {}),
          ("aotools.functions.karhunenLoeve.stf_kolmogorov", [img() / 10.], {}),
          # separations containing exact zeros (r >= 0 is the domain; the zero-separation branch is a different code path)
          ("aotools.turbulence.slopecovariance.structure_function_vk", [numpy.array([[0., .5, 1.], [2., 0., 3.]]), 0.2, 25.], {}),
          ("aotools.functions.karhunenLoeve.stf_vonKarman", [numpy.array([0., .5, 1., 0.]), 3.], {}),
          ("aotools.turbulence.turb.phase_covariance", [numpy.array([0., .5, 1., 0.]), 0.2, 25.], {}),
          # the same function with other keyword values (a later call must not see anything of an earlier one)
          ("aotools.functions.zernike.zernikeArray", [7, 12], {"norm": "p2v"}),
          ("aotools.functions.zernike.zernikeArray", [7, 12], {"norm": "rms"}),
          ("aotools.functions.zernike.zernikeArray", [7, 12], {}),
          ("aotools.functions.zernike.zernikeArray", [7, 12], {"rot": 0.6}),
          ("aotools.functions.zernike.phaseFromZernikes", [numpy.array([0., 1., .5, -2.]), 12], {"norm": "rms"}),
          ("aotools.functions.zernike.zernike_noll", [5, 12], {}),
          ("aotools.functions.zernike.zernike_noll", [5, 12], {"rot": 1.1}),
          ("aotools.turbulence.temporal_ps.get_tps_time_axis", [100., 64], {}),
          ("aotools.turbulence.slopecovariance.calculate_structure_function", [img(16)], {"step": 2}),
          ("aotools.turbulence.atmos_conversions.rytov_variance", [img(4) * 1e-15, img(4) * 100., 5e-7], {}),
          ("aotools.functions.karhunenLoeve.make_kl", [6, 16], {"ri": 0.25, "nr": 8}),
          ("aotools.functions.karhunenLoeve.make_kl", [10, 16], {"ri": 0.25, "nr": 8}),
          ("aotools.functions.pupil.circle", [3, 8], {})]
    return T


def resolve(path):
    mod, name = path.rsplit(".", 1)
    return getattr(importlib.import_module(mod), name)


def dynamic(chk, rec, public, quick):
    # (a) the repository's own test-suite as a corpus of realistic calls
    import pytest
    buf = io.StringIO()
    with contextlib.redirect_stdout(buf), contextlib.redirect_stderr(buf):
        try:
            pytest.main([os.path.join(common.REPO, "test"), "-q", "-p", "no:cacheprovider", "-x" if False else "-q",
                         "--no-header", "-W", "ignore"])
        except SystemExit:
            pass
    chk.count("dynamic:test-suite-calls", sum(rec.calls.values()))
    # (b) the call table: each array argument in three memory layouts and three dtypes; results must not depend on the
    #     layout, nor on what was called before (second pass in shuffled order, third pass after a DIFFERENT call of the same
    #     function): "calling any function twice with equal arguments, in any order relative to other calls, returns equal results"
    table = call_table(chk.rng)
    runs = []          # (path, label, args, kw, first result, seeded?)

    def invoke(path, a, kw):
        with numpy.errstate(all="ignore"), contextlib.redirect_stdout(io.StringIO()):
            return resolve(path)(*copy.deepcopy(a), **copy.deepcopy(kw))

    for path, args, kw in table:
        arr_idx = [i for i, a in enumerate(args) if isinstance(a, numpy.ndarray)]
        variants = [("C", args)]
        if arr_idx:
            variants = []
            for lay in ("C", "F", "strided"):
                new = list(args)
                ok = True
                for i in arr_idx:
                    d = dict(layouts(args[i], chk.rng))
                    if lay not in d:
                        ok = False
                        break
                    new[i] = d[lay]
                if ok:
                    variants.append((lay, new))
            # other dtypes of the same values (many functions legitimately reject some: exceptions are ignored)
            for dt in ("float32", "int64"):
                new = list(args)
                for i in arr_idx:
                    if args[i].dtype.kind == "f" and (dt == "float32" or numpy.array_equal(args[i], numpy.round(args[i]))):
                        new[i] = args[i].astype(dt)
                if any(new[i].dtype != args[i].dtype for i in arr_idx):
                    variants.append((dt, new))
        ref = None
        for lay, a in variants:
            chk.oracle_cases += 1
            chk.case(("table", path, lay, json.dumps(kw, sort_keys=True, default=str)),
                     sample={"call": path, "layout": lay, "kwargs": kw} if chk.oracle_cases % 37 == 1 else None)
            chk.count("dynamic:layout:" + lay)
            try:
                res = invoke(path, a, kw)
            except Exception as ex:
                rec.errors.setdefault(path, "%s: %s" % (type(ex).__name__, str(ex)[:100]))
                chk.count("dynamic:raised:" + type(ex).__name__)
                continue
            seeded = kw.get("seed", 0) is not None and kw.get("random_seed", 0) is not None
            runs.append((path, lay, a, kw, res, seeded))
            if lay in ("C", "F", "strided") and seeded and path not in rec.global_rng:
                if ref is None:
                    ref = (lay, res)
                elif not _equal(ref[1], res, rtol=1e-9):
                    chk.fail("layout-dependent:%s" % path, "%s returns different results for equal arguments stored %s-ordered and %s-ordered"
                             % (path, ref[0], lay), {"function": path, "layouts": [ref[0], lay], "kwargs": kw, "args": _describe(list(enumerate(a)))})
    # second pass: shuffled order; third pass: each call again right after another call of the same function with other arguments
    order = list(range(len(runs)))
    chk.rng.shuffle(order)
    by_fn = {}
    for n, r in enumerate(runs):
        by_fn.setdefault(r[0], []).append(n)
    for phase, seq in (("shuffled", order), ("after-sibling", [m for n in order for m in ([x for x in by_fn[runs[n][0]] if x != n][:1] + [n])])):
        for n in seq:
            path, lay, a, kw, first, seeded = runs[n]
            if not seeded or path in rec.global_rng:
                continue
            try:
                again = invoke(path, a, kw)
            except Exception:
                continue
            chk.count("dynamic:replayed:" + phase)
            if not _equal(first, again, rtol=1e-9):
                chk.fail("history-dependent:%s" % path, "%s returned a different result when called again with equal arguments later in the "
                         "run (%s pass): its result depends on earlier calls" % (path, phase),
                         {"function": path, "layout": lay, "kwargs": kw, "phase": phase, "args": _describe(list(enumerate(a)))})


def method_table(chk, rec):
    """methods that are computations on an object (not documented mutators such as add_row): calling them again on the same
    object, and on a fresh object built from equal arguments, must give equal results — and must leave the constructor's
    arguments alone"""
    from aotools.turbulence import slopecovariance as sc
    from aotools.turbulence import infinitephasescreen as ips
    rng = chk.rng
    for it in range(3):
        nx = 4
        masks = numpy.array([(numpy.random.default_rng(rng.getrandbits(32)).random((nx, nx)) < 0.8).astype(int) for _ in range(2)])
        masks[:, 0, 0] = 1
        # an off-axis NATURAL guide star (altitude 0) next to a laser guide star, layers above the ground
        ctor = dict(n_wfs=2, pupil_masks=masks, telescope_diameter=4.0, subap_diameters=numpy.array([1.0, 1.0]),
                    gs_altitudes=numpy.array([0.0, 90e3]), gs_positions=numpy.array([[rng.uniform(5, 30), rng.uniform(-30, -5)], [0.0, 10.0]]),
                    wfs_wavelengths=numpy.array([5e-7, 6e-7]), n_layers=2, layer_altitudes=numpy.array([0.0, rng.uniform(2000, 9000)]),
                    layer_r0s=numpy.array([0.2, 0.5]), layer_L0s=numpy.array([25.0, 30.0]), threads=1)
        keep = copy.deepcopy(ctor)
        try:
            obj = sc.CovarianceMatrix(**ctor)
            first = numpy.array(obj.make_covariance_matrix(), copy=True)
            r1 = numpy.array(obj.make_tomographic_reconstructor(), copy=True)
            second = numpy.array(obj.make_covariance_matrix(), copy=True)
            r2 = numpy.array(obj.make_tomographic_reconstructor(), copy=True)
            fresh = numpy.array(sc.CovarianceMatrix(**copy.deepcopy(keep)).make_covariance_matrix(), copy=True)
        except Exception as ex:
            rec.errors.setdefault("CovarianceMatrix", "%s: %s" % (type(ex).__name__, str(ex)[:100]))
            continue
        chk.oracle_cases += 1
        chk.case(("method", "CovarianceMatrix", it))
        rep = {"class": "aotools.turbulence.slopecovariance.CovarianceMatrix", "ctor": _describe(list(keep.items()))}
        if not _equal(first, second, rtol=1e-9) or not _equal(first, fresh, rtol=1e-9):
            chk.fail("hidden-state:CovarianceMatrix.make_covariance_matrix", "CovarianceMatrix.make_covariance_matrix() returns a different "
                     "matrix when called a second time on the same object (or on a fresh object built from equal arguments)", rep)
        if not _equal(r1, r2, rtol=1e-9):
            chk.fail("hidden-state:CovarianceMatrix.make_tomographic_reconstructor", "make_tomographic_reconstructor() differs between two calls", rep)
        for k, v in keep.items():
            if isinstance(v, numpy.ndarray) and _snap(v) != _snap(ctor[k]):
                chk.fail("mutates:aotools.turbulence.slopecovariance.CovarianceMatrix:%s" % k,
                         "CovarianceMatrix modified the constructor argument `%s`" % k, rep)
    for cls, kw in ((ips.PhaseScreenVonKarman, dict(nx_size=8, pixel_scale=0.1, r0=0.2, L0=20., random_seed=3)),
                    (ips.PhaseScreenKolmogorov, dict(nx_size=9, pixel_scale=0.1, r0=0.2, L0=20., random_seed=3))):
        try:
            s1 = cls(**kw)
            s1.add_row()
            a = numpy.array(s1.scrn, copy=True)
            repr(s1); str(s1)
            b = numpy.array(s1.scrn, copy=True)
            s2 = cls(**kw)
            s2.add_row()
            c = numpy.array(s2.scrn, copy=True)
        except Exception as ex:
            rec.errors.setdefault(cls.__name__, "%s: %s" % (type(ex).__name__, str(ex)[:100]))
            continue
        chk.oracle_cases += 1
        chk.case(("method", cls.__name__))
        if a.tobytes() != b.tobytes():
            chk.fail("hidden-state:%s.__repr__" % cls.__name__, "reading / printing a %s changed its screen" % cls.__name__, {"class": cls.__name__, "kwargs": kw})
        if a.tobytes() != c.tobytes():
            chk.fail("hidden-state:%s" % cls.__name__, "two %s objects built from equal arguments differ after the same operations" % cls.__name__,
                     {"class": cls.__name__, "kwargs": kw})


# ---------------------------------------------------------------------------------------------------------------------
# round 4: seeded entry points over the boundary values of the seed domain; stacks against their items

SEEDED_CALLS = [("aotools.turbulence.phasescreen.ft_phase_screen", [0.1, 8, 0.05, 20., 0.01], "seed"),
                ("aotools.turbulence.phasescreen.ft_sh_phase_screen", [0.1, 8, 0.05, 20., 0.01], "seed"),
                ("aotools.turbulence.infinitephasescreen.PhaseScreenVonKarman", [6, 0.1, 0.2, 20.], "random_seed"),
                ("aotools.turbulence.infinitephasescreen.PhaseScreenKolmogorov", [6, 0.1, 0.2, 20.], "random_seed")]


def seed_arguments(rng):
    """(label, value class, factory) of seed arguments: the value 0 and other boundary values of the seed domain in the forms a
    caller may hold them (Python int / bool, NumPy integer scalars, a list or array of words, a SeedSequence).  Generator objects
    are left out here: they are consumed by the call, i.e. explicit state of the caller, C06's subject."""
    out = []

    def add(form, v, make):
        cls = str(v) if v <= 2 else ("<2^32" if v < 2 ** 32 else "<2^53" if v < 2 ** 53 else "<2^64" if v < 2 ** 64 else ">=2^64")
        out.append(("%s:%s" % (form, cls), v, make))
    for v in (0, 1):
        add("int", v, lambda v=v: int(v))
        add("bool", v, lambda v=v: bool(v))
        for t in ("uint8", "int32", "int64", "uint64"):
            add(t, v, lambda v=v, t=t: getattr(numpy, t)(v))
        add("list", v, lambda v=v: [int(v)])
        add("list2", v, lambda v=v: [0, int(v)])
        add("array", v, lambda v=v: numpy.array([v], dtype=numpy.uint32))
        add("seedseq", v, lambda v=v: numpy.random.SeedSequence(int(v)))
    big = rng.getrandbits(rng.randint(65, 128)) | (1 << 64)
    for v in (2, 2 ** 32 - 1, 2 ** 32, 2 ** 53 + 1, 2 ** 63 - 1, 2 ** 64 - 1, 2 ** 64, big):
        add("int", v, lambda v=v: int(v))
        if v < 2 ** 64:
            add("uint64", v, lambda v=v: numpy.uint64(v))
    return out


def seeded_table(chk, rec):
    """every seeded entry point, for every seed argument above: two calls with equal arguments — with an unseeded call, a call
    with another seed and a re-seeding of NumPy's global generator in between — return equal results; list / array seed
    arguments are left as they were"""
    seeds = seed_arguments(chk.rng)
    for path, args, sname in SEEDED_CALLS:
        fn = resolve(path)
        is_class = inspect.isclass(fn)

        def call(seed):
            with numpy.errstate(all="ignore"), contextlib.redirect_stdout(io.StringIO()):
                r = fn(*copy.deepcopy(args), **{sname: seed})
                if not is_class:
                    return [numpy.array(r, copy=True)]
                out = [numpy.array(r.scrn, copy=True)]
                r.add_row()
                return out + [numpy.array(r.scrn, copy=True)]
        for label, v, make in seeds:
            chk.oracle_cases += 1
            chk.case(("seeded", path, label, str(v)), sample={"call": path, "seed": label, "value": str(v)} if (label, path) == ("int:0", SEEDED_CALLS[0][0]) else None)
            chk.count("dynamic:seeded:" + label.split(":")[0])
            rep = {"function": path, "args": args, "seed_argument": sname, "seed_form": label, "seed_value": str(v)}
            try:
                numpy.random.default_rng(make())
            except Exception:
                chk.count("dynamic:seeded:rejected-by-numpy")          # not a seed at all: outside the domain
                continue
            s1 = make()
            keep = copy.deepcopy(s1)
            try:
                first = call(s1)
                call(None)
                call(int(v) + 1)
                numpy.random.seed(chk.rng.randint(0, 10 ** 6))
                second = call(copy.deepcopy(keep))
            except Exception as ex:
                chk.fail("raises:%s:seed=%s:%s" % (path, label, type(ex).__name__), "%s raised %r for the seed %s (%s), which "
                         "numpy.random.default_rng accepts" % (path, ex, v, label), rep)
                continue
            if not _equal(first, second, rtol=1e-9):
                chk.fail("nondeterministic:%s:seed=%s" % (path, label), "%s called twice with equal arguments (%s = %r, i.e. the seed "
                         "value %s) returned different results" % (path, sname, keep, v), rep)
            if isinstance(keep, (list, numpy.ndarray)) and not (type(s1) is type(keep) and numpy.array_equal(s1, keep)
                                                                and getattr(s1, "dtype", None) == getattr(keep, "dtype", None)):
                chk.fail("mutates:%s:%s" % (path, sname), "%s modified the %s it was given as `%s`" % (path, type(keep).__name__, sname), rep)


BATCH_SHAPES = [(1,), (2,), (3,), (4,), (5,), (7,), (2, 3), (3, 2), (3, 3), (1, 3), (5, 1), (2, 3, 2)]


def stack_table(nprng):
    """the functions that accept stacks / leading batch axes.  Per row: path, builder(batch) -> positional arguments with the
    stacked array FIRST built for that batch shape, keyword arguments, where the batch axes sit in the result ('lead': result[idx];
    'after0': result[:, idx], the centroiders' (2, ...) convention), the highest batch rank the function documents (None = any),
    and whether a single item is passed as a one-item stack (functions documented for rank-3 input only).
    Real-input transforms get EVEN signal lengths only (odd ones: open finding real:irft∘rft:odd of C09)."""
    def real(*item):
        return lambda b: [nprng.normal(size=b + item)]

    def cplx(*item):
        return lambda b: [nprng.normal(size=b + item) + 1j * nprng.normal(size=b + item)]

    def pos(*item):
        return lambda b: [nprng.integers(1, 50, size=b + item).astype(float)]

    def sep(*item):
        return lambda b: [nprng.uniform(0.05, 5., size=b + item)]
    ref = nprng.integers(1, 50, size=(8, 8)).astype(float)
    mask = numpy.array([[1, 0, 1], [1, 1, 0], [0, 1, 0]])
    FT, CE = "aotools.fouriertransform.", "aotools.image_processing.centroiders."
    T = []
    for n in (5, 8, 16):
        T += [(FT + "ft", (lambda f: lambda b: f(b) + [0.25])(cplx(n)), {}, "lead", None, False),
              (FT + "ft", (lambda f: lambda b: f(b) + [0.25])(real(n)), {}, "lead", None, False),
              (FT + "ift", (lambda f: lambda b: f(b) + [0.25])(cplx(n)), {}, "lead", None, False)]
    for n in (8, 16):
        T += [(FT + "rft", (lambda f: lambda b: f(b) + [0.25])(real(n)), {}, "lead", None, False),
              (FT + "irft", (lambda f: lambda b: f(b) + [0.25])(cplx(n // 2 + 1)), {}, "lead", None, False)]
    for ny, nx in ((5, 5), (8, 8), (6, 8)):
        T += [(FT + "ft2", (lambda f: lambda b: f(b) + [0.25])(cplx(ny, nx)), {}, "lead", None, False),
              (FT + "ift2", (lambda f: lambda b: f(b) + [0.25])(cplx(ny, nx)), {}, "lead", None, False)]
    T += [(FT + "rft2", (lambda f: lambda b: f(b) + [0.25])(real(8, 8)), {}, "lead", None, False),
          (FT + "irft2", (lambda f: lambda b: f(b) + [0.25])(cplx(8, 5)), {}, "lead", None, False),
          (CE + "centre_of_gravity", pos(8, 8), {}, "after0", None, False),
          (CE + "centre_of_gravity", pos(7, 9), {"threshold": 0.25}, "after0", None, False),
          (CE + "brightest_pixel", (lambda f: lambda b: f(b) + [0.3])(pos(8, 8)), {}, "after0", None, False),
          (CE + "quadCell", pos(2, 2), {}, "after0", None, False),
          (CE + "correlation_centroid", (lambda f: lambda b: f(b) + [ref])(pos(8, 8)), {"threshold": 0.1}, "after0", 1, True),
          ("aotools.interpolation.binImgs", (lambda f: lambda b: f(b) + [2])(pos(8, 8)), {}, "lead", None, False),
          ("aotools.interpolation.binImgs", (lambda f: lambda b: f(b) + [4])(pos(8, 4)), {}, "lead", None, False),
          ("aotools.turbulence.temporal_ps.calc_slope_temporalps", real(16, 6), {}, "lead", None, False),
          ("aotools.wfs.wfslib.make_subaps_2d", (lambda f: lambda b: f(b) + [mask])(real(2, 5)), {}, "lead", 1, True),
          # element-wise functions of a separation array: a stack of separation vectors
          ("aotools.turbulence.slopecovariance.structure_function_vk", (lambda f: lambda b: f(b) + [0.2, 25.])(sep(6)), {}, "lead", None, False),
          ("aotools.turbulence.slopecovariance.structure_function_kolmogorov", (lambda f: lambda b: f(b) + [0.2])(sep(6)), {}, "lead", None, False),
          ("aotools.turbulence.turb.phase_covariance", (lambda f: lambda b: f(b) + [0.2, 25.])(sep(6)), {}, "lead", None, False),
          ("aotools.functions.karhunenLoeve.stf_vonKarman", (lambda f: lambda b: f(b) + [3.])(sep(6)), {}, "lead", None, False),
          ("aotools.functions.karhunenLoeve.stf_kolmogorov", sep(6), {}, "lead", None, False)]
    return T


def stacks(chk, rec, quick, observed):
    """'functions that accept stacks or leading batch axes return, per item, what the single-item call returns': every row of
    stack_table on batch shapes with odd and even lengths and nested batch axes, the stack C-ordered and as a strided view;
    each item of the stacked result against the call on that item alone (a contiguous copy of it)"""
    nprng = numpy.random.default_rng(chk.rng.getrandbits(32))
    table = stack_table(nprng)
    reported = set()
    for path, build, kw, where, max_rank, as_stack1 in table:
        fn = resolve(path)
        shapes = [b for b in BATCH_SHAPES if max_rank is None or len(b) <= max_rank]
        if quick and len(shapes) > 7:
            shapes = [(3,), (5,)] + chk.rng.sample([b for b in shapes if b not in ((3,), (5,))], 5)
        for batch in shapes:
            args = build(batch)
            for lay, stack in layouts(args[0], chk.rng):
                if lay == "F":
                    continue
                chk.oracle_cases += 1
                chk.case(("stack", path, batch, lay, tuple(args[0].shape), json.dumps(kw, sort_keys=True)),
                         sample={"call": path, "stack_shape": list(args[0].shape), "batch": list(batch), "layout": lay} if path.endswith(".rft") and batch == (3,) else None)
                odd = any(n >= 3 and n % 2 for n in batch)
                chk.count("dynamic:stack:rank%d:%s" % (len(batch), "odd" if odd else "even"))
                key = "stack:%s:rank%d:%s" % (path, len(batch), "odd" if odd else "even")
                rep = {"function": path, "stack_shape": list(args[0].shape), "batch": list(batch), "layout": lay, "kwargs": kw,
                       "other_args": [a if not isinstance(a, numpy.ndarray) else a.tolist() for a in args[1:]], "stack": args[0].tolist() if args[0].size <= 400 else None}
                try:
                    with numpy.errstate(all="ignore"), contextlib.redirect_stdout(io.StringIO()):
                        whole = fn(stack, *copy.deepcopy(args[1:]), **copy.deepcopy(kw))
                        whole = whole if isinstance(whole, tuple) else (whole,)
                        worst, bad = 0., None
                        for idx in numpy.ndindex(*batch):
                            if as_stack1:
                                item = numpy.array(args[0][idx[0]:idx[0] + 1], copy=True)
                                sel = (slice(idx[0], idx[0] + 1),)
                            else:
                                item = numpy.array(args[0][idx], copy=True)
                                sel = idx
                            one = fn(item, *copy.deepcopy(args[1:]), **copy.deepcopy(kw))
                            one = one if isinstance(one, tuple) else (one,)
                            for w, o in zip(whole, one):
                                w = numpy.asarray(w)[sel if where == "lead" else (slice(None),) + sel]
                                o = numpy.asarray(o)
                                if w.shape != o.shape:
                                    worst, bad = numpy.inf, bad or (idx, "shape %s instead of %s" % (w.shape, o.shape))
                                    continue
                                scale = max(float(numpy.abs(o).max()) if o.size else 0., 1e-300)
                                err = float(numpy.abs(w - o).max()) / scale if o.size else 0.
                                err = err if err == err else numpy.inf
                                if not numpy.array_equal(numpy.isnan(w), numpy.isnan(o)):
                                    err = numpy.inf
                                worst = max(worst, err)
                                if err > 1e-9 and bad is None:
                                    bad = (idx, "relative difference %.3g" % err)
                except Exception as ex:
                    chk.fail("raises:" + key, "%s raised %r on a stack of shape %s (batch %s, %s)" % (path, ex, args[0].shape, batch, lay), rep)
                    continue
                observed[0] = max(observed[0], worst if worst < 1e-9 else 0.)
                if bad is not None and key not in reported:          # one concrete failing stack per (function, batch rank, parity)
                    reported.add(key)
                    chk.fail(key, "%s on a %s stack of shape %s: item %s of the result differs from the call on that item alone (%s)"
                             % (path, lay, tuple(args[0].shape), bad[0], bad[1]), dict(rep, item=list(bad[0])))


def run(chk):
    quick = chk.tier == "quick"
    chk.rule = ("static: one kernel-checked obligation per public function on the regenerated effect term; dynamic: instrumented "
                "replay of the repository's test-suite and of a call table (arrays C-ordered, Fortran-ordered and strided views); "
                "a case = one (function, layout, kwargs) of the table; test-suite calls are counted in input_distribution; "
                "seeded entry points (finite and infinite screens) twice on equal seed arguments over boundary seed values and forms; "
                "stack-accepting functions on batch shapes (1)..(7),(2,3),(3,2),(3,3),(1,3),(5,1),(2,3,2) against their items")
    chk.assumptions = ["T2's whitelists of view-returning / in-place / global-RNG operations (validated: observed mutations ⊆ predicted)",
                       "instance attributes are explicit state; references kept inside Python containers are not tracked statically",
                       "'returns equal results' is compared with rel. tol 1e-12 on floats (NumPy reductions are alignment-dependent at the ulp level)",
                       "batch-equals-items clause: proved / modelled in C09 (ft stacks), C15 (centroider stacks), C16 (binImgs stacks), C17 (axis); "
                       "sampled here (stack_table: rel. 1e-9 per item, batch shapes with odd lengths >= 3 and nested batch axes, C-ordered and strided)",
                       "seeded entry points: equal results for equal seed arguments sampled over the boundary values of the seed domain (0, 1, "
                       "2^32-1, 2^32, 2^53+1, 2^63-1, 2^64-1, 2^64, a random 65..128-bit value) held as int/bool/NumPy scalars/list/array/SeedSequence"]
    # ---- static side
    try:
        src, meta = T2.translate(common.REPO)
        checks = meta.pop("__checks__")
        from ..translate_formulas import write_if_changed
        write_if_changed(os.path.join(common.LEAN_DIR, "AoVerif/Gen/Effects.lean"), src)
        write_if_changed(os.path.join(common.LEAN_DIR, "AoVerif/Gen/EffectsChecks.lean"), checks)
        csrc, _ = T2.corpus()
        write_if_changed(os.path.join(common.LEAN_DIR, "AoVerif/Gen/EffectsCorpus.lean"), csrc)
    except Exception as ex:
        chk.broke("translator", "T2 cannot translate the current source: %r" % (ex,))
        meta = None
    chk.build_and_audit("AoVerif.Props.C20", "AoVerif.Props.C20", REQUIRED)
    predicted = {}
    if meta is not None:
        names = sorted(meta)
        try:
            ans = common.run_driver(["C20 eff " + n for n in names], "C20")
            for n, a in zip(names, ans):
                chk.corr_cases += 1
                if a == "bad-op":
                    chk.broke("translator", "driver does not know %s" % n)
                    continue
                _, w, g, p = [x.strip() for x in a.split("|")]
                ps = meta[n]["params"]
                predicted[n] = {"writes": [ps[int(i)] for i in w.split()], "global": g == "1", "pure": p == "1"}
                chk.count("static:pure" if p == "1" else "static:flagged")
            chk.obligations.update({"AoVerif.Gen.chk[%s]" % n: [] for n in names})   # kernel evaluation (decide +kernel): no axioms
        except common.LeanError as ex:
            chk.broke("translator", "generated effect terms do not compile / run", str(ex))
    # ---- dynamic side
    rec = Recorder()
    public = instrument(rec)
    dynamic(chk, rec, public, quick)
    method_table(chk, rec)
    seeded_table(chk, rec)
    observed = [0.]
    stacks(chk, rec, quick, observed)
    chk.notes.append("stack vs items: largest relative difference observed below the 1e-9 tolerance: %.3g" % observed[0])
    chk.count("dynamic:functions-exercised", len([q for q in rec.calls if rec.calls[q]]))
    never = sorted(q for q in (meta or {}) if q not in rec.calls)
    chk.notes.append("public functions never exercised dynamically: %s" % ", ".join(never[:40]))
    chk.notes.append("calls that raised (ignored): %s" % json.dumps(rec.errors)[:1500])
    for (q, param), ex in sorted(rec.mutations.items()):
        chk.fail("mutates:%s:%s" % (q, param), "%s modifies its argument `%s` (%s)" % (q, param, ex["what"]),
                 {"function": q, "param": param, **ex})
        pw = predicted.get(q)
        if pw is not None and param not in pw["writes"] and not q.split(".")[-2][:1].isupper():
            chk.broke("translator", "observed mutation of %s.%s was not predicted by the static analysis" % (q, param))
    for q, ex in sorted(rec.global_rng.items()):
        chk.fail("global-rng:%s" % q, "%s advances NumPy's global random generator (hidden state)" % q, {"function": q, "args": ex})
        if q in predicted and not predicted[q]["global"]:
            chk.broke("translator", "observed global-RNG use of %s was not predicted by the static analysis" % q)
    for q, ex in sorted(rec.nondet.items()):
        if q in rec.global_rng:
            continue          # same root cause, already reported
        chk.fail("nondeterministic:%s" % q, "%s returned different results on two calls with equal arguments" % q, {"function": q, "args": ex})
    # statically flagged but nothing observed and no finding: the obligation already failed in build_and_audit
    for q, pw in predicted.items():
        if not pw["pure"] and not (meta or {}).get(q, {}).get("known_impure"):
            chk.notes.append("statically flagged: %s writes %s global=%s" % (q, pw["writes"], pw["global"]))
