"""C12 — Zernike indexing, modes, normalisations and gradient matrices are right."""
import math

import numpy

from .. import common

MANIFEST = {
    "text": "Lean 4 theorems about a hand-written model of zernike.py. For ALL Noll indices j >= 1: the index map is a bijection onto "
            "{|m| <= n, n-|m| even} with an explicit inverse, ordered by n then |m|, even j cosine / odd j sine, and any monotone "
            "faithful binary64 square root makes the code's float formula agree with the Nat.sqrt model for j < 2^49. For all sizes, "
            "rotations and normalisations: modes vanish outside the inscribed pupil, list = slices of count (payloads without algebraic "
            "laws), phase = linear combination, unit rms / unit peak-to-valley for non-degenerate modes, the Cartesian model equals the "
            "code's polar expression, the term-by-term radial integral is the integral, gamma entries times c_j = integer times c_i, makegammas' (n, m) bookkeeping = the Noll sequence for every nzrad. "
            "R_n^m(1) = 1 for ALL valid (n, m) (alternating binomial convolution, proved by induction). For all orders: mode at rot=0 = "
            "c * evaluation of an integer polynomial (exact integer division of the factorials), formal dx/dy of such polynomials are the "
            "partial derivatives (HasDerivAt). "
            "Kernel-checked exact TABLES (labelled as such, not the unbounded claims): radial orthogonality "
            "(n <= 10), the x/y derivative identity of all 91 modes of radial order "
            "<= 12 (makegammas(8) and makegammas(12)) as integer polynomial identities, hence (bounded, radial order <= 12) d/dx Z_i = sum_j "
            "gamma^x_ij Z_j and d/dy likewise as HasDerivAt statements about the model's modes; for EVERY nzrad that derivative statement is "
            "reduced to the decidable integer-polynomial table. The model is tied to the code by a correspondence driver (Noll exhaustively to "
            "1e5/1e6 + block boundaries to 2^49, radial values, pixels, integer-polynomial pixels, arrays, phases, gamma matrices) and a "
            "direct oracle on the real code finds failing inputs.",
    "note": "Trusted: Lean kernel + propext/Classical.choice/Quot.sound; Mathlib's Real.sqrt/cos/sin/intervalIntegral; the correspondence "
            "harness. Not proved for all orders (tables + numeric oracle only): orthonormality / Gram -> identity under grid refinement, "
            "the derivative rules beyond radial order 12; IEEE rounding and NumPy semantics are exercised, not modelled.",
    "technique": "Lean 4 proof over a hand-written model + exact kernel-checked tables + correspondence driver + oracle search",
}
REQUIRED = ["nollN_spec", "nollN_unique", "zernIndex_valid", "nollOf_zernIndex", "zernIndex_nollOf", "noll_bijective", "noll_ordered",
            "noll_sign", "noll_m_zero", "zernIndex_float_agrees", "vanish_outside", "nollPixel_vanish_outside", "normalise_vanish",
            "clip_eq_mask", "list_eq_slices", "phase_linear", "rms_unit", "p2v_unit", "radialFunc_eq_coef", "radialFunc_eq_quot",
            "table_radial_at_one", "table_radial_orthogonal", "radial_integral", "radial_orthogonal_le10", "radial_at_one_le30",
            "radial_at_one", "radial_at_one_rat", "radial_at_one_noll",
            "mode_polar", "table_gammaNM_noll", "gammaNM_noll", "table_gamma_dx", "table_gamma_dy", "gamx_cleared", "gamy_cleared",
            "modeCart_eq_poly", "nollMode_eq_poly", "table_gamma_dx_eval", "table_gamma_dy_eval", "gamma_dx_le8", "gamma_dy_le8",
            "residual_dx_eval", "residual_dy_eval", "gamma_dx_of_table", "gamma_dy_of_table", "table_gamma_dx12", "table_gamma_dy12",
            "gamma_dx_le12", "gamma_dy_le12"]

RT = 1e-9


# ----------------------------------------------------------------------------------------------- helpers
def _Z():
    from aotools.functions import zernike as Z
    return Z


def valid_nm(rng, nmax):
    n = rng.randint(0, nmax)
    a = rng.randrange(n % 2, n + 1, 2)
    return n, (a if rng.random() < 0.5 else -a)


def noll_of(n, m):
    """the explicit inverse (python twin of the Lean `nollOf`, used by the oracle for large j)"""
    t = n * (n + 1) // 2
    a = t + abs(m)
    if m == 0:
        return t + 1
    return a if ((a % 2 == 0) == (m > 0)) else a + 1


def tri(n):
    return n * (n + 1) // 2


def floats(ans):
    return numpy.array([common.h2f(t) for t in ans.split()], dtype=float)


def maxdiff(a, b):
    a, b = numpy.asarray(a, float).ravel(), numpy.asarray(b, float).ravel()
    if a.shape != b.shape:
        return float("inf")
    bad = ~(numpy.isfinite(a) & numpy.isfinite(b))
    if bad.any():
        return float("inf")
    return float(abs(a - b).max()) if a.size else 0.0


def radial_scale(n, m, r):
    s = 0.0
    for i in range((n - m) // 2 + 1):
        s += abs(r) ** (n - 2 * i) * math.factorial(n - i) / (math.factorial(i) * math.factorial((n + m) // 2 - i)
                                                             * math.factorial((n - m) // 2 - i))
    return s


def stencil(k):
    """weights of the (2k+1)-point central first-derivative stencil, exact on polynomials of degree <= 2k"""
    xs = numpy.arange(-k, k + 1, dtype=float)
    A = numpy.vander(xs, 2 * k + 1, increasing=True).T
    b = numpy.zeros(2 * k + 1)
    b[1] = 1
    return numpy.linalg.solve(A, b)


# ----------------------------------------------------------------------------------------------- correspondence
def correspondence(chk, quick):
    Z = _Z()
    rng = chk.rng
    lines, checks = [], []          # checks[i](answer) -> None | message

    def add(line, fn):
        lines.append(line)
        checks.append(fn)

    # (a) Noll indices, exhaustively
    top = 100000 if quick else 1000000
    chunk = 2000
    for lo in range(1, top + 1, chunk):
        hi = min(lo + chunk, top + 1)
        exp = []
        for j in range(lo, hi):
            n, m = Z.zernIndex(j)
            exp += [int(n), int(m)]

        def f(ans, lo=lo, hi=hi, exp=exp):
            got = [int(t) for t in ans.split()]
            if got != exp:
                k = next(i for i in range(min(len(got), len(exp))) if got[i] != exp[i]) if len(got) == len(exp) else 0
                return "zernIndex(%d): implementation %s, model %s" % (lo + k // 2, exp[2 * (k // 2):2 * (k // 2) + 2], got[2 * (k // 2):2 * (k // 2) + 2])
        add("C12 nollrange %d %d" % (lo, hi), f)
        chk.count("noll:exhaustive", hi - lo)
    chk.case(("corr", "noll-exhaustive", top), sample={"op": "C12 nollrange 1 %d" % (top + 1), "impl_first": [Z.zernIndex(j) for j in (1, 2, 3, 4)]})
    # (b) large indices up to 2^49, concentrated at the block boundaries where the square root decides
    big = []
    for _ in range(150 if quick else 3000):
        n = int(math.exp(rng.uniform(math.log(400), math.log(2 ** 24.4))))
        t = tri(n)
        big += [t + rng.choice([-1, 0, 1, 2, n, n + 1, n + 2, rng.randint(0, n)])]
        big.append(rng.randrange(top, 2 ** 49))
    for j in big:
        if not (1 <= j < 2 ** 49):
            continue
        n, m = Z.zernIndex(j)
        for op in ("noll", "nollf"):
            def f(ans, j=j, e=(int(n), int(m)), op=op):
                got = tuple(int(t) for t in ans.split())
                if got != e:
                    return "zernIndex(%d): implementation %s, model(%s) %s" % (j, e, op, got)
            add("C12 %s %d" % (op, j), f)
        chk.count("noll:large")
        chk.case(("corr", "noll", j), sample=None)
    # (c) radial polynomial values at dyadic radii
    nmax = 12 if quick else 24
    for _ in range(150 if quick else 3000):
        n, m = valid_nm(rng, nmax)
        m = abs(m)
        r = common.dyadic(rng, 0, 1.25, bits=6)
        e = float(Z.zernikeRadialFunc(n, m, numpy.array([[r]]))[0, 0])
        sc = radial_scale(n, m, r)

        def f(ans, n=n, m=m, r=r, e=e, sc=sc):
            g = common.h2f(ans)
            if not abs(g - e) <= 1e-11 * max(sc, 1e-300):
                return "zernikeRadialFunc(%d,%d,%r): implementation %r, model %r" % (n, m, r, e, g)
        add("C12 radial %d %d %s" % (n, m, common.f2h(r)), f)
        chk.count("radial:n=%d" % n)
        chk.case(("corr", "radial", n, m, r), sample={"op": "C12 radial", "n": n, "m": m, "r": r, "impl": e} if n > 3 else None)
    # (d) whole modes on small grids, all rotations
    for _ in range(60 if quick else 600):
        n, m = valid_nm(rng, 8 if quick else 12)
        N = rng.randint(1, 12)
        rot = rng.choice([0.0, common.dyadic(rng, -4, 4, bits=5)])
        e = Z.zernike_nm(n, m, N, rot)

        def f(ans, n=n, m=m, N=N, rot=rot, e=e):
            g = floats(ans)
            d = maxdiff(g, e)
            if not d <= RT * max(1.0, abs(e).max()):
                return "zernike_nm(%d,%d,%d,rot=%r): max |implementation - model| = %r" % (n, m, N, rot, d)
        add("C12 mode %d %d %d %s" % (n, m, N, common.f2h(rot)), f)
        chk.count("mode:N%s:rot%s" % ("odd" if N % 2 else "even", "0" if rot == 0 else "≠0"))
        chk.case(("corr", "mode", n, m, N, rot), sample={"op": "C12 mode", "n": n, "m": m, "N": N, "rot": rot} if N > 5 else None)
    # (d') the same pixels at rot = 0 through the INTEGER polynomial form zernPoly (what the kernel-checked gamma tables are about)
    for _ in range(40 if quick else 400):
        n, m = valid_nm(rng, 8 if quick else 12)
        N = rng.randint(2, 12)
        e = Z.zernike_nm(n, m, N)

        def f(ans, n=n, m=m, N=N, e=e):
            d = maxdiff(floats(ans), e)
            if not d <= RT * max(1.0, abs(e).max()):
                return "zernike_nm(%d,%d,%d): max |implementation - integer-polynomial model| = %r" % (n, m, N, d)
        add("C12 polymode %d %d %d" % (n, m, N), f)
        chk.count("polymode:n=%d" % n)
        chk.case(("corr", "polymode", n, m, N), sample=None)
    # (e) array dispatch + normalisations, phase
    for _ in range(30 if quick else 300):
        N = rng.randint(4, 9)
        norm = rng.choice(["noll", "p2v", "rms"])
        rot = rng.choice([0.0, common.dyadic(rng, -4, 4, bits=5)])
        J = rng.randint(1, 12)
        js = [rng.randint(1, 15) for _ in range(rng.randint(1, 5))]
        raw = Z.zernikeArray(max(J, 15), N, rot=rot)
        if min(float(raw[z].max() - raw[z].min()) for z in range(len(raw))) < 1e-6:
            chk.count("array:degenerate-skipped")       # a mode constant on this grid: normalisation undefined (not in the domain)
            continue
        for kind, arg, e in (("arrlist", " ".join(map(str, js)), Z.zernikeArray(list(js), N, norm=norm, rot=rot)),
                             ("arrcount", str(J), Z.zernikeArray(J, N, norm=norm, rot=rot))):
            def f(ans, kind=kind, arg=arg, N=N, norm=norm, rot=rot, e=e):
                d = maxdiff(floats(ans), e)
                if not d <= RT * max(1.0, abs(e).max()):
                    return "zernikeArray(%s [%s], %d, %s, rot=%r): max |implementation - model| = %r" % (kind, arg, N, norm, rot, d)
            add("C12 %s %s %d %s %s" % (kind, norm, N, common.f2h(rot), arg), f)
            chk.count("array:%s:%s" % (kind, norm))
            chk.case(("corr", kind, arg, N, norm, rot), sample=None)
        cs = [common.dyadic(rng, -3, 3, bits=4) for _ in range(rng.randint(1, 8))]
        e = Z.phaseFromZernikes(list(cs), N, norm=norm, rot=rot)

        def f(ans, cs=cs, N=N, norm=norm, rot=rot, e=e):
            d = maxdiff(floats(ans), e)
            if not d <= RT * max(1.0, abs(e).max()):
                return "phaseFromZernikes(%r, %d, %s, rot=%r): max |implementation - model| = %r" % (cs, N, norm, rot, d)
        add("C12 phase %s %d %s %s" % (norm, N, common.f2h(rot), " ".join(common.f2h(c) for c in cs)), f)
        chk.count("phase:%s" % norm)
        chk.case(("corr", "phase", tuple(cs), N, norm, rot), sample={"op": "C12 phase", "coeffs": cs, "N": N, "norm": norm, "rot": rot})
    # (f) gamma matrices (float32 in the implementation); nzrad 12 in every run: theorems gamma_dx_le12 / gamma_dy_le12 are about gammaNM 12
    for nzrad in (list(range(0, 9)) + [12] if quick else range(0, 13)):
        e = Z.makegammas(nzrad)

        def f(ans, nzrad=nzrad, e=e):
            g = floats(ans)
            if g.size != e.size:
                return "makegammas(%d): implementation has %d entries, model %d" % (nzrad, e.size, g.size)
            d = abs(g - e.astype(float).ravel())
            k = int(d.argmax())
            if not d[k] <= 1e-6 * max(1.0, abs(e).max()):
                nz = e.shape[1]
                return "makegammas(%d)[%d][%d,%d]: implementation %r, model %r" % (nzrad, k // (nz * nz), (k // nz) % nz, k % nz,
                                                                                  float(e.ravel()[k]), float(g[k]))
        add("C12 gamma %d" % nzrad, f)
        chk.count("gamma:nzrad=%d" % nzrad)
        chk.case(("corr", "gamma", nzrad), sample={"op": "C12 gamma", "nzrad": nzrad, "shape": list(e.shape)} if nzrad == 3 else None)
    # (g) the cleared INTEGER matrices of the tables: gam[i,j] = g_int[i,j]·c_i/c_j with c = sqrt(n+1) (m=0) or sqrt(2(n+1))
    for nzrad in (list(range(1, 9)) + [12] if quick else range(1, 13)):
        e = Z.makegammas(nzrad).astype(float)
        nz = e.shape[1]
        c = numpy.array([math.sqrt(n + 1) if m == 0 else math.sqrt(2 * (n + 1)) for n, m in (Z.zernIndex(j) for j in range(1, nz + 1))])

        def f(ans, nzrad=nzrad, e=e, nz=nz, c=c):
            g = numpy.array([int(t) for t in ans.split()], dtype=float)
            if g.size != e.size:
                return "makegammas(%d): %d entries, integer model %d" % (nzrad, e.size, g.size)
            g = g.reshape(2, nz, nz) * c[None, :, None] / c[None, None, :]
            d = abs(g - e)
            if not d.max() <= 1e-6 * max(1.0, abs(e).max()):
                k = numpy.unravel_index(int(d.argmax()), d.shape)
                return "makegammas(%d)[%d][%d,%d] = %r but integer form·c_i/c_j = %r" % (nzrad, k[0], k[1], k[2], float(e[k]), float(g[k]))
        add("C12 gammaint %d" % nzrad, f)
        chk.count("gammaint:nzrad=%d" % nzrad)
        chk.case(("corr", "gammaint", nzrad), sample=None)
    ans = common.run_driver(lines, "C12")
    nbad = 0
    for line, a, fn in zip(lines, ans, checks):
        chk.corr_cases += 1
        msg = "driver answered bad-op for: " + line[:200] if a == "bad-op" else fn(a)
        if msg:
            nbad += 1
            if nbad <= 5:
                chk.broke("correspondence", msg, line[:400])


# ----------------------------------------------------------------------------------------------- oracle
def oracle(chk, quick):
    Z = _Z()
    import aotools
    rng = chk.rng

    # D8 class: the mode functions must run at all
    try:
        Z.zernike_noll(1, 4)
    except Exception as ex:
        chk.fail("modes-raise:%s" % type(ex).__name__, "zernike_noll(1, 4) raises %r — every mode-producing function is unusable" % (ex,),
                 {"call": "aotools.functions.zernike.zernike_noll(1, 4)", "exception": repr(ex)})
        modes_ok = False
    else:
        modes_ok = True

    # ---- Noll index: bijection onto the valid set, ordering, parity — exhaustively
    top = 100000 if quick else 1000000
    prev = None
    seen = set()
    nfail = 0
    for j in range(1, top + 1):
        n, m = Z.zernIndex(j)
        n, m = int(n), int(m)
        what = None
        if not (n >= 0 and abs(m) <= n and (n - abs(m)) % 2 == 0):
            what, key = "zernIndex(%d) = [%d, %d] is not a valid (n, m)" % (j, n, m), "noll:valid"
        elif (n, m) in seen:
            what, key = "zernIndex(%d) = [%d, %d] repeats an earlier index (not injective)" % (j, n, m), "noll:injective"
        elif prev is not None and (n, abs(m)) < (prev[0], abs(prev[1])):
            what, key = "zernIndex(%d) = [%d, %d] after [%d, %d]: not ordered by n then |m|" % (j, n, m, prev[0], prev[1]), "noll:order"
        elif (m > 0 and j % 2 != 0) or (m < 0 and j % 2 != 1):
            what, key = "zernIndex(%d) = [%d, %d]: even indices must be cosine (m>0), odd sine (m<0)" % (j, n, m), "noll:parity"
        elif noll_of(n, m) != j:
            what, key = "zernIndex(%d) = [%d, %d] but that pair has Noll index %d" % (j, n, m, noll_of(n, m)), "noll:inverse"
        elif j == tri(n + 1) and len(seen) + 1 != j:
            what, key = "indices 1..%d do not cover all modes of order <= %d" % (j, n), "noll:surjective"
        if what and nfail < 5:
            nfail += 1
            chk.fail(key, what, {"call": "zernIndex(%d)" % j, "got": [n, m]})
        seen.add((n, m))
        prev = (n, m)
    # injective + valid + all pairs of order <= n are tri(n+1) many  =>  onto, checked at every complete block above
    chk.oracle_cases += top
    chk.count("oracle:noll-exhaustive", top)
    chk.case(("oracle", "noll-exhaustive", top))
    for _ in range(300 if quick else 20000):
        n = int(math.exp(rng.uniform(math.log(400), math.log(2 ** 24.4))))
        a = rng.randrange(n % 2, n + 1, 2)
        m = a if rng.random() < 0.5 else -a
        j = noll_of(n, m)
        if j >= 2 ** 49:
            continue
        chk.oracle_cases += 1
        chk.case(("oracle", "noll-large", j))
        got = [int(t) for t in Z.zernIndex(j)]
        if got != [n, m]:
            chk.fail("noll:large", "zernIndex(%d) = %s, but (n, m) = (%d, %d) is the mode with that index" % (j, got, n, m),
                     {"call": "zernIndex(%d)" % j, "got": got, "expected": [n, m]})
    if not modes_ok:
        return

    # ---- radial polynomials on the real code: R(1) = 1 and ∫ R_n^m R_n'^m ρ dρ = δ/(2(n+1)) by Gauss–Legendre (exact for these degrees)
    nmax = 14 if quick else 24
    x, w = numpy.polynomial.legendre.leggauss(nmax + 2)
    rho, wr = (0.5 * (x + 1)).reshape(1, -1), 0.5 * w
    for m in range(0, nmax + 1):
        ns = list(range(m, nmax + 1, 2))
        R = {n: Z.zernikeRadialFunc(n, m, rho)[0] for n in ns}
        for n in ns:
            chk.oracle_cases += 1
            chk.case(("oracle", "radial", n, m))
            sc = radial_scale(n, m, 1.0)
            one = float(Z.zernikeRadialFunc(n, m, numpy.array([[1.0]]))[0, 0])
            if not abs(one - 1) <= 1e-12 * sc:
                chk.fail("radial:R(1)", "zernikeRadialFunc(%d,%d,1.0) = %r ≠ 1" % (n, m, one), {"n": n, "m": m, "got": one})
            for n2 in ns:
                if n2 < n:
                    continue
                val = float((R[n] * R[n2] * rho[0] * wr).sum())
                exp = 1.0 / (2 * (n + 1)) if n == n2 else 0.0
                if not abs(val - exp) <= 1e-12 * sc * radial_scale(n2, m, 1.0):
                    chk.fail("radial:orthogonality", "∫ R_%d^%d R_%d^%d ρ dρ = %r, expected %r" % (n, m, n2, m, val, exp),
                             {"n": n, "n2": n2, "m": m, "got": val, "expected": exp})

    # ---- modes on grids
    for it in range(25 if quick else 400):
        N = rng.randint(4, 40) if it % 5 else rng.randint(1, 6)
        rot = rng.choice([0.0, rng.uniform(-7, 7)])
        norm = rng.choice(["noll", "p2v", "rms"])
        J = rng.randint(1, 28)
        js = [rng.randint(1, J) for _ in range(rng.randint(1, 6))]
        chk.oracle_cases += 1
        chk.count("oracle:grid:N%s:%s:rot%s" % ("odd" if N % 2 else "even", norm, "0" if rot == 0 else "≠0"))
        chk.case(("oracle", "grid", N, norm, rot, J, tuple(js)), sample={"N": N, "norm": norm, "rot": rot, "J": J, "list": js} if it < 2 else None)
        rep = {"N": N, "norm": norm, "rot": rot, "J": J, "list": js}
        jl = list(js)
        with numpy.errstate(all="ignore"):
            full = Z.zernikeArray(J, N, norm=norm, rot=rot)
            sub = Z.zernikeArray(jl, N, norm=norm, rot=rot)
            raw = Z.zernikeArray(J, N, rot=rot)
        if jl != js:
            chk.fail("pure:index-list", "zernikeArray modified its index list argument", rep)
        if full.shape != (J, N, N) or sub.shape != (len(js), N, N):
            chk.fail("shape:zernikeArray", "zernikeArray shapes %s / %s" % (full.shape, sub.shape), rep)
            continue
        # vanish outside the inscribed pupil: pixel centre (i+.5-N/2, k+.5-N/2), radius N/2, in exact integers
        idx = 2 * numpy.arange(N) + 1 - N
        outside = (idx[None, :] ** 2 + idx[:, None] ** 2) > N * N
        for z in range(J):
            vals = full[z][outside]
            if vals.size and not numpy.all(vals == 0):        # NaN ≠ 0 too, unless the mode is degenerate (handled below)
                if numpy.isfinite(full[z]).all():
                    chk.fail("vanish-outside:%s" % norm, "zernikeArray(%d,%d,%s,rot=%r)[%d] is non-zero outside the pupil (max %r)"
                             % (J, N, norm, rot, z, float(abs(vals).max())), dict(rep, mode=z + 1))
                    break
        # list = slices of count
        for t, j in enumerate(js):
            a, b = sub[t], full[j - 1]
            fin = numpy.isfinite(a) & numpy.isfinite(b)
            if not (numpy.array_equal(numpy.isfinite(a), numpy.isfinite(b)) and numpy.allclose(a[fin], b[fin], rtol=1e-12, atol=1e-12)):
                chk.fail("list-eq-slices:%s" % norm, "zernikeArray(%r,%d,%s,rot=%r)[%d] ≠ zernikeArray(%d,…)[%d]" % (js, N, norm, rot, t, J, j - 1),
                         dict(rep, position=t, index=j))
                break
        # unit rms / unit peak-to-valley for modes that are not constant on the grid
        pup = aotools.circle(N / 2., N)
        for z in range(J):
            if float(raw[z].max() - raw[z].min()) < 1e-6:
                chk.count("oracle:degenerate-mode-skipped")
                continue
            if norm == "p2v":
                v = float(full[z].max() - full[z].min())
            elif norm == "rms":
                v = float(numpy.sqrt((full[z] ** 2).sum() / pup.sum()))
            else:
                break
            if not abs(v - 1) <= RT:
                chk.fail("unit-%s" % norm, "zernikeArray(%d,%d,%s,rot=%r)[%d] has %s %r ≠ 1" % (J, N, norm, rot, z, norm, v), dict(rep, mode=z + 1, got=v))
                break
        # phase = linear combination; coefficient vector untouched; additive and homogeneous
        cs = numpy.array([rng.uniform(-2, 2) for _ in range(J)])
        cs2 = numpy.array([rng.uniform(-2, 2) for _ in range(J)])
        al = rng.uniform(-3, 3)
        keep = cs.copy()
        with numpy.errstate(all="ignore"):
            ph = Z.phaseFromZernikes(cs, N, norm=norm, rot=rot)
            ph2 = Z.phaseFromZernikes(cs2, N, norm=norm, rot=rot)
            ph3 = Z.phaseFromZernikes(list(al * cs + cs2), N, norm=norm, rot=rot)
        if not numpy.array_equal(cs, keep):
            chk.fail("pure:coefficients", "phaseFromZernikes modified its coefficient argument", rep)
        if numpy.isfinite(full).all():
            lin = numpy.tensordot(cs, full, 1)
            sc = max(1.0, float(abs(full).max()) * float(abs(cs).sum()))
            if ph.shape != (N, N) or not abs(ph - lin).max() <= RT * sc:
                chk.fail("phase-linear:%s" % norm, "phaseFromZernikes(c,%d,%s,rot=%r) ≠ Σ c_z·zernikeArray(%d,…)[z]" % (N, norm, rot, J),
                         dict(rep, coeffs=cs.tolist()))
            elif not abs(ph3 - (al * ph + ph2)).max() <= RT * 10 * sc:
                chk.fail("phase-linear:superposition:%s" % norm, "phaseFromZernikes(a·c+d) ≠ a·phase(c)+phase(d)", dict(rep, coeffs=cs.tolist(),
                                                                                                           coeffs2=cs2.tolist(), a=al))
        # a second identical call gives the identical array (no state between calls)
        with numpy.errstate(all="ignore"):
            again = Z.zernikeArray(J, N, norm=norm, rot=rot)
        if not numpy.array_equal(again, full, equal_nan=True):
            chk.fail("state:zernikeArray", "two identical zernikeArray calls differ", rep)

    # ---- all rotations: cos(mθ+rot) = cos(rot)·cos(mθ) − sin(rot)·sin(mθ), i.e. the rotated cosine mode is that combination of
    # the unrotated cosine and sine partners (and similarly for the sine mode) — evaluated in one process with the unrotated mode
    # requested first, then several rotations of the same (n, m, N)
    for it in range(20 if quick else 300):
        n, m = valid_nm(rng, 8)
        if m == 0:
            continue
        m = abs(m)
        N = rng.randint(4, 24)
        chk.oracle_cases += 1
        chk.case(("oracle", "rotation", n, m, N))
        with numpy.errstate(all="ignore"):
            c0, s0 = Z.zernike_nm(n, m, N, 0), Z.zernike_nm(n, -m, N, 0)
            for rot in (rng.uniform(-7, 7), -numpy.pi / 2, rng.uniform(-1, 1)):
                cr, sr = Z.zernike_nm(n, m, N, rot), Z.zernike_nm(n, -m, N, rot)
                sc = max(1.0, float(numpy.abs(c0).max()))
                e1 = float(numpy.abs(cr - (numpy.cos(rot) * c0 - numpy.sin(rot) * s0)).max())
                e2 = float(numpy.abs(sr - (numpy.cos(rot) * s0 + numpy.sin(rot) * c0)).max())
                if max(e1, e2) > 1e-9 * sc:
                    chk.fail("rotation:zernike_nm", "zernike_nm(%d,±%d,%d,rot=%r) is not the rotation of the unrotated pair (errors %.3g, %.3g)"
                             % (n, m, N, rot, e1, e2), {"n": n, "m": m, "N": N, "rot": rot})
                    break
    # ---- a few high radial orders in every run: R_n^m(1) = 1 needs factorials beyond 20! (integer overflow territory)
    for n, m in ((21, 1), (24, 4), (30, 0), (33, 11)):
        chk.oracle_cases += 1
        with numpy.errstate(all="ignore"):
            v = float(numpy.asarray(Z.zernikeRadialFunc(n, m, numpy.array([1.0]))).ravel()[0])
        if not abs(v - 1.0) <= 1e-6:
            chk.fail("radial-at-one:high-order", "zernikeRadialFunc(%d,%d,1) = %r ≠ 1" % (n, m, v), {"n": n, "m": m, "got": v})

    # ---- orthonormality under Noll normalisation: Gram matrix within 2(n_max+1)/N of the identity, N refined
    sizes = [32, 65, 128] if quick else [32, 65, 128, 255, 512]
    for N in sizes:
        for J in ([10, 28] if quick else [3, 10, 21, 28, 45]):
            if N >= 500 and J > 28:
                continue
            rot = rng.choice([0.0, rng.uniform(-7, 7)])
            chk.oracle_cases += 1
            chk.case(("oracle", "gram", N, J, rot))
            Zs = Z.zernikeArray(J, N, rot=rot)
            pup = aotools.circle(N / 2., N)
            G = numpy.einsum("iab,jab->ij", Zs, Zs) / pup.sum()
            nmx = int(Z.zernIndex(J)[0])
            err = float(abs(G - numpy.eye(J)).max())
            if not err <= 2.0 * (nmx + 1) / N:
                k = int(abs(G - numpy.eye(J)).argmax())
                chk.fail("gram:noll", "Gram matrix of zernikeArray(%d,%d,rot=%r) differs from I by %r at (%d,%d) (bound %r)"
                         % (J, N, rot, err, k // J + 1, k % J + 1, 2.0 * (nmx + 1) / N), {"J": J, "N": N, "rot": rot, "err": err})

    # ---- gamma matrices against the exact polynomial derivative of the generated modes:
    #      along a grid line a mode of radial order n is a polynomial of degree <= n, so a (2k+1)-point stencil, 2k >= n, is exact
    for nzrad in (range(1, 9) if quick else range(1, 13)):
        chk.oracle_cases += 1
        chk.case(("oracle", "gamma", nzrad))
        g = Z.makegammas(nzrad)
        nz = (nzrad + 1) * (nzrad + 2) // 2
        if g.shape != (2, nz, nz):
            chk.fail("gamma:shape", "makegammas(%d).shape = %s, expected (2,%d,%d)" % (nzrad, g.shape, nz, nz), {"nzrad": nzrad})
            continue
        g = g.astype(float)
        N = 40 + 4 * nzrad + rng.randint(0, 1)
        h = 2.0 / N
        Zs = Z.zernikeArray(nz, N)
        k = (nzrad + 1) // 2
        wts = stencil(k)
        pup = aotools.circle(N / 2., N) > 0
        vx, vy = numpy.ones((N, N), bool), numpy.ones((N, N), bool)
        dx, dy = numpy.zeros_like(Zs), numpy.zeros_like(Zs)
        for s in range(-k, k + 1):
            vx &= numpy.roll(pup, -s, axis=1)
            vy &= numpy.roll(pup, -s, axis=0)
            dx += wts[s + k] * numpy.roll(Zs, -s, axis=2) / h
            dy += wts[s + k] * numpy.roll(Zs, -s, axis=1) / h
        vx[:, :k] = False; vx[:, N - k:] = False; vy[:k] = False; vy[N - k:] = False
        px, py = numpy.tensordot(g[0], Zs, 1), numpy.tensordot(g[1], Zs, 1)
        sc = max(1.0, float(abs(g).max()) * float(abs(Zs).max()))
        for name, d, p, v in (("x", dx, px, vx), ("y", dy, py, vy)):
            errs = [float(abs((d[i] - p[i])[v]).max()) for i in range(nz)]
            i = int(numpy.argmax(errs))
            if not errs[i] <= 1e-5 * sc:
                chk.fail("gamma:%s" % name, "∂%s Z_%d ≠ Σ_j gam%s[%d,j]·Z_j for makegammas(%d): max deviation %r on a %d-grid"
                         % (name, i + 1, name, i, nzrad, errs[i], N), {"nzrad": nzrad, "N": N, "mode": i + 1, "axis": name, "err": errs[i]})


def run(chk):
    quick = chk.tier == "quick"
    chk.rule = ("correspondence: Noll indices exact (exhaustive to 1e5 quick / 1e6 thorough + block boundaries up to 2^49, both the Nat.sqrt "
                "model and the literal binary64 formula); radial values |impl-model| <= 1e-11·Σ|terms|; pixels/arrays/phases <= 1e-9·max(1,|impl|); "
                "gamma entries <= 1e-6·scale (float32 storage). oracle on the real code: Noll bijection/order/parity exhaustively, explicit "
                "inverse at random large j; R(1)=1 and radial orthogonality by Gauss–Legendre (exact quadrature) <= 1e-12·Σ|c|Σ|c'|; vanish outside "
                "(exact), list = slices (1e-12), unit rms/p2v (1e-9), phase linearity (1e-9·scale), Gram-I <= 2(n_max+1)/N; "
                "gamma identity against an exact stencil derivative <= 1e-5·scale. distinct = distinct argument tuples")
    chk.assumptions = [
        "orthonormality of the modes for ALL orders and 'Gram matrix -> identity as the grid is refined' are not proved (no Jacobi-polynomial "
        "theory in Mathlib): proved radial orthogonality over R for n,n' <= 10 (radial_integral + kernel-checked table) + numeric oracle "
        "(exact Gauss-Legendre radial integrals to n = 14/24; Gram bound 2(n_max+1)/N, a calibrated constant, not a theorem)",
        "derivative (gamma) identities: proved as HasDerivAt statements (gamma_dx_le12, gamma_dy_le12; gamma_dx_le8, gamma_dy_le8) for the 91 "
        "modes of radial order <= 12 only: the polynomial identity dP_i = sum g_ij P_j is a kernel-checked TABLE (nzrad 8 and 12); for every "
        "nzrad the derivative claim is reduced to that decidable table (gamma_dx_of_table, gamma_dy_of_table), the bridge (modeCart = c * "
        "eval(zernPoly), Poly.dx/dy = partial derivatives of Poly.eval, gamx/gamy_cleared, gammaNM_noll) holding for all orders; orders > 12 "
        "are NOT proved (Noll's recurrence for general n is missing) and not exercised (oracle with an exact stencil derivative to nzrad 8 / 12)",
        "binary64: the square root is assumed correctly rounded hence monotone, exact on integers, relative error <= 2^-53 (hypotheses of "
        "zernIndex_float_agrees; '-1.+s' and '/2.' are exact for a binary64 s >= 1); rounding elsewhere is not modelled",
        "the polar form cos(m*atan2(y,x)+rot) of the code is tied to the Cartesian polynomial model by theorem mode_polar for points given in "
        "polar form and by the pixel correspondence; atan2 itself is not modelled",
        "degenerate normalisations (a mode constant on the grid, e.g. piston for N<=3, defocus for N=2) divide by zero in the code and are "
        "outside the domain (hypotheses hd / hS of p2v_unit / rms_unit; skipped and counted by the oracle)",
    ]
    chk.build_and_audit("AoVerif.Props.C12", "AoVerif.Props.C12", REQUIRED)
    modes_ok = True
    try:
        _Z().zernike_noll(1, 4)
    except Exception:
        modes_ok = False
    if modes_ok:
        try:
            correspondence(chk, quick)
        except common.LeanError as ex:
            chk.broke("correspondence", "driver does not build / run", str(ex))
    else:
        chk.broke("correspondence", "the implementation's mode functions raise; correspondence cannot run")
    oracle(chk, quick)
