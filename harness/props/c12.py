"""C12 — Zernike indexing, modes, normalisations and gradient matrices are right."""
import math

import numpy

from .. import common

MANIFEST = {
    "text": "Lean 4 theorems about a hand-written model of zernike.py. For ALL Noll indices j >= 1: the index map is a bijection onto "
            "{|m| <= n, n-|m| even} with an explicit inverse, ordered by n then |m|, even j cosine / odd j sine, and any monotone "
            "faithful binary64 square root makes the code's float formula agree with the Nat.sqrt model for j < 2^49. For all sizes, "
            "rotations and normalisations: modes vanish outside the inscribed pupil, list = slices of count (payloads without algebraic "
            "laws), phase = linear combination, unit rms / unit peak-to-valley for non-degenerate modes, the Cartesian model equals the "
            "code's polar expression, the term-by-term radial integral is the integral, gamma entries times c_j = integer times c_i, makegammas' (n, m) bookkeeping = the Noll sequence for every nzrad. "
            "R_n^m(1) = 1 for ALL valid (n, m) (alternating binomial convolution, proved by induction). For all orders: mode at rot=0 = "
            "c * evaluation of an integer polynomial (exact integer division of the factorials), formal dx/dy of such polynomials are the "
            "partial derivatives (HasDerivAt). "
            "Kernel-checked exact TABLES (labelled as such, not the unbounded claims): radial orthogonality "
            "(n <= 10), the x/y derivative identity of all 91 modes of radial order "
            "<= 12 (makegammas(8) and makegammas(12)) as integer polynomial identities, hence (bounded, radial order <= 12) d/dx Z_i = sum_j "
            "gamma^x_ij Z_j and d/dy likewise as HasDerivAt statements about the model's modes; for EVERY nzrad that derivative statement is "
            "reduced to the decidable integer-polynomial table. The side conditions of the unit rms / unit peak-to-valley theorems are "
            "discharged for the ACTUAL generated images at rot = 0: pixel = Noll constant x exact rational pixel (all j, N), so 'not constant / "
            "not zero on the grid' is a decidable exact check, kernel-evaluated as a TABLE for j <= 28, N <= 12 with the explicit exclusion lists "
            "(every mode for N = 1, piston/defocus/... for N = 2, piston and Noll 15, 25 for N = 3, none for 4 <= N <= 12); the pupil is "
            "non-empty for every N >= 1; the integer division in the polynomial coefficients is exact for all orders; an integral float "
            "count/size is the integer call. The model is tied to the code by a correspondence driver (Noll exhaustively to "
            "1e5/1e6 + block boundaries to 2^49, radial values, pixels, integer-polynomial pixels, arrays, phases, gamma matrices, the "
            "degeneracy table, int(numpy.round(.)) of float counts) and a direct oracle on the real code finds failing inputs (incl. call "
            "sequences over the normalisations, package-level names, numpy integer scalars, the Noll constant read off the pixels).",
    "note": "Trusted: Lean kernel + propext/Classical.choice/Quot.sound; Mathlib's Real.sqrt/cos/sin/intervalIntegral; the correspondence "
            "harness. Not proved for all orders (tables + numeric oracle only): orthonormality / Gram -> identity under grid refinement, "
            "the derivative rules beyond radial order 12; IEEE rounding and NumPy semantics are exercised, not modelled.",
    "technique": "Lean 4 proof over a hand-written model + exact kernel-checked tables + correspondence driver + oracle search",
}
REQUIRED = ["nollN_spec", "nollN_unique", "zernIndex_valid", "nollOf_zernIndex", "zernIndex_nollOf", "noll_bijective", "noll_ordered",
            "noll_sign", "noll_m_zero", "zernIndex_float_agrees", "vanish_outside", "nollPixel_vanish_outside", "normalise_vanish",
            "clip_eq_mask", "list_eq_slices", "phase_linear", "rms_unit", "p2v_unit", "radialFunc_eq_coef", "radialFunc_eq_quot",
            "table_radial_at_one", "table_radial_orthogonal", "radial_integral", "radial_orthogonal_le10", "radial_at_one_le30",
            "radial_at_one", "radial_at_one_rat", "radial_at_one_noll",
            "mode_polar", "table_gammaNM_noll", "gammaNM_noll", "table_gamma_dx", "table_gamma_dy", "gamx_cleared", "gamy_cleared",
            "modeCart_eq_poly", "nollMode_eq_poly", "table_gamma_dx_eval", "table_gamma_dy_eval", "gamma_dx_le8", "gamma_dy_le8",
            "residual_dx_eval", "residual_dy_eval", "gamma_dx_of_table", "gamma_dy_of_table", "table_gamma_dx12", "table_gamma_dy12",
            "gamma_dx_le12", "gamma_dy_le12",
            # round 3
            "nollPixel_eq_polyPixel", "p2v_ne_zero_of_two", "sumsq_ne_zero_of_mem", "noll_p2v_ne_zero", "noll_sumsq_ne_zero",
            "pupil_nonempty", "table_nondegenerate_le6", "table_nondegenerate_7_9", "table_nondegenerate_10_12", "table_nondegenerate",
            "p2v_unit_noll", "rms_unit_noll", "p2v_unit_noll_ge4", "rms_unit_noll_ge4", "radialCoefInt_exact",
            "table_radialCoefInt_exact", "npRound_integral", "count_float_integral"]

RT = 1e-9
EPS = 2.0 ** -52
WORST = {}


def _worst(name, v):
    WORST[name] = max(WORST.get(name, 0.0), float(v))


GRAM_C = 1.0      # |Gram - I| <= GRAM_C·(n_max+1)/N; observed on the clean tree: <= 0.63 (all N in 24..140, 200..512, J <= 45, any rot)


# ----------------------------------------------------------------------------------------------- helpers
def _Z():
    from aotools.functions import zernike as Z
    return Z


def valid_nm(rng, nmax):
    n = rng.randint(0, nmax)
    a = rng.randrange(n % 2, n + 1, 2)
    return n, (a if rng.random() < 0.5 else -a)


def noll_of(n, m):
    """the explicit inverse (python twin of the Lean `nollOf`, used by the oracle for large j)"""
    t = n * (n + 1) // 2
    a = t + abs(m)
    if m == 0:
        return t + 1
    return a if ((a % 2 == 0) == (m > 0)) else a + 1


def tri(n):
    return n * (n + 1) // 2


def floats(ans):
    return numpy.array([common.h2f(t) for t in ans.split()], dtype=float)


def maxdiff(a, b):
    a, b = numpy.asarray(a, float).ravel(), numpy.asarray(b, float).ravel()
    if a.shape != b.shape:
        return float("inf")
    bad = ~(numpy.isfinite(a) & numpy.isfinite(b))
    if bad.any():
        return float("inf")
    return float(abs(a - b).max()) if a.size else 0.0


def radial_scale(n, m, r):
    s = 0.0
    for i in range((n - m) // 2 + 1):
        s += abs(r) ** (n - 2 * i) * math.factorial(n - i) / (math.factorial(i) * math.factorial((n + m) // 2 - i)
                                                             * math.factorial((n - m) // 2 - i))
    return s


def apis():
    """the public spellings of the zernike functions: module, sub-package and package level"""
    import aotools
    from aotools import functions as F
    from aotools.functions import zernike as Z
    return [("aotools.functions.zernike", Z), ("aotools.functions", F), ("aotools", aotools)]


def as_int(rng, v, wide=True):
    """the same integer as a Python int or one of numpy's integer scalars (all are 'int' to a caller)"""
    kinds = [int, numpy.int64, numpy.intp] + ([numpy.int32] if (not wide or abs(v) < 2 ** 26) else [])
    if v >= 0:                                                   # round 5: unsigned scalars (uint32 below 2^26: 8(j-1)+1 must fit)
        kinds += [numpy.uint64] + ([numpy.uint32] if (not wide or v < 2 ** 26) else [])
    return rng.choice(kinds)(v)


def as_count(rng, v):
    """a count / size as any integer scalar or (round 5) a 0-d integer array"""
    return numpy.array(v) if rng.random() < 0.12 else as_int(rng, v)


def as_list(rng, js):
    """an index list as list / tuple / numpy integer array"""
    k = rng.randrange(7)
    if k == 0:
        return list(js)
    if k == 1:
        return tuple(js)
    if k == 2:
        return numpy.array(js, dtype=numpy.int64)
    if k == 3:
        return [as_int(rng, j) for j in js]
    if k == 4:                                                   # round 5: other integer dtypes
        return numpy.array(js, dtype=rng.choice([numpy.int32, numpy.uint32, numpy.uint64, numpy.int16, numpy.uint16]))
    if k == 5:                                                   # round 5: a strided / reversed view of a larger array
        big = numpy.zeros(2 * len(js) + 1, dtype=numpy.int64)
        if rng.random() < 0.5:
            big[1::2] = js
            return big[1::2]
        big[1::2] = js[::-1]
        return big[1::2][::-1]
    a = numpy.array(js, dtype=numpy.int64)                       # round 5: read-only
    a.setflags(write=False)
    return a


def coef_abs_sum(n, m):
    """Σ|c_i| of R_n^m: the size of the terms the factorial sum adds up at r = 1"""
    return radial_scale(n, m, 1.0)


def const_excl(j, N):
    """python twin of the Lean `constExcl` (modes j <= 28 constant on the N-grid at rot = 0, N <= 12)"""
    return N == 1 or (N == 2 and j in (1, 4, 6, 11, 12, 14, 15, 22, 24, 25, 26, 28)) or (N == 3 and j in (1, 15, 25))


def zero_excl(j, N):
    """python twin of the Lean `zeroExcl` (modes j <= 28 identically zero on the N-grid at rot = 0, N <= 12)"""
    return (N == 1 and j not in (1, 4, 11, 22)) or (N == 2 and j in (4, 6, 12, 15, 22, 24, 25, 28)) or (N == 3 and j in (15, 25))


def stencil(k):
    """weights of the (2k+1)-point central first-derivative stencil, exact on polynomials of degree <= 2k"""
    xs = numpy.arange(-k, k + 1, dtype=float)
    A = numpy.vander(xs, 2 * k + 1, increasing=True).T
    b = numpy.zeros(2 * k + 1)
    b[1] = 1
    return numpy.linalg.solve(A, b)


# ----------------------------------------------------------------------------------------------- correspondence
def correspondence(chk, quick):
    Z = _Z()
    rng = chk.rng
    lines, checks = [], []          # checks[i](answer) -> None | message

    def add(line, fn):
        lines.append(line)
        checks.append(fn)

    # (a) Noll indices, exhaustively
    top = 100000 if quick else 1000000
    chunk = 2000
    for lo in range(1, top + 1, chunk):
        hi = min(lo + chunk, top + 1)
        exp = []
        for j in range(lo, hi):
            n, m = Z.zernIndex(j)
            exp += [int(n), int(m)]

        def f(ans, lo=lo, hi=hi, exp=exp):
            got = [int(t) for t in ans.split()]
            if got != exp:
                k = next(i for i in range(min(len(got), len(exp))) if got[i] != exp[i]) if len(got) == len(exp) else 0
                return "zernIndex(%d): implementation %s, model %s" % (lo + k // 2, exp[2 * (k // 2):2 * (k // 2) + 2], got[2 * (k // 2):2 * (k // 2) + 2])
        add("C12 nollrange %d %d" % (lo, hi), f)
        chk.count("noll:exhaustive", hi - lo)
    chk.case(("corr", "noll-exhaustive", top), sample={"op": "C12 nollrange 1 %d" % (top + 1), "impl_first": [Z.zernIndex(j) for j in (1, 2, 3, 4)]})
    # (b) large indices up to 2^49, concentrated at the block boundaries where the square root decides
    big = []
    for _ in range(150 if quick else 3000):
        n = int(math.exp(rng.uniform(math.log(400), math.log(2 ** 24.4))))
        t = tri(n)
        big += [t + rng.choice([-1, 0, 1, 2, n, n + 1, n + 2, rng.randint(0, n)])]
        big.append(rng.randrange(top, 2 ** 49))
    for j in big:
        if not (1 <= j < 2 ** 49):
            continue
        n, m = Z.zernIndex(j)
        for op in ("noll", "nollf"):
            def f(ans, j=j, e=(int(n), int(m)), op=op):
                got = tuple(int(t) for t in ans.split())
                if got != e:
                    return "zernIndex(%d): implementation %s, model(%s) %s" % (j, e, op, got)
            add("C12 %s %d" % (op, j), f)
        chk.count("noll:large")
        chk.case(("corr", "noll", j), sample=None)
    # (c) radial polynomial values at dyadic radii
    nmax = 12 if quick else 24
    for _ in range(150 if quick else 3000):
        n, m = valid_nm(rng, nmax)
        m = abs(m)
        r = common.dyadic(rng, 0, 1.25, bits=6)
        e = float(Z.zernikeRadialFunc(n, m, numpy.array([[r]]))[0, 0])
        sc = radial_scale(n, m, r)

        def f(ans, n=n, m=m, r=r, e=e, sc=sc):
            g = common.h2f(ans)
            if not abs(g - e) <= 1e-11 * max(sc, 1e-300):
                return "zernikeRadialFunc(%d,%d,%r): implementation %r, model %r" % (n, m, r, e, g)
        add("C12 radial %d %d %s" % (n, m, common.f2h(r)), f)
        chk.count("radial:n=%d" % n)
        chk.case(("corr", "radial", n, m, r), sample={"op": "C12 radial", "n": n, "m": m, "r": r, "impl": e} if n > 3 else None)
    # (d) whole modes on small grids, all rotations
    for _ in range(60 if quick else 600):
        n, m = valid_nm(rng, 8 if quick else 12)
        N = rng.randint(1, 12)
        rot = rng.choice([0.0, common.dyadic(rng, -4, 4, bits=5)])
        e = Z.zernike_nm(n, m, N, rot)

        def f(ans, n=n, m=m, N=N, rot=rot, e=e):
            g = floats(ans)
            d = maxdiff(g, e)
            if not d <= RT * max(1.0, abs(e).max()):
                return "zernike_nm(%d,%d,%d,rot=%r): max |implementation - model| = %r" % (n, m, N, rot, d)
        add("C12 mode %d %d %d %s" % (n, m, N, common.f2h(rot)), f)
        chk.count("mode:N%s:rot%s" % ("odd" if N % 2 else "even", "0" if rot == 0 else "≠0"))
        chk.case(("corr", "mode", n, m, N, rot), sample={"op": "C12 mode", "n": n, "m": m, "N": N, "rot": rot} if N > 5 else None)
    # (d') the same pixels at rot = 0 through the INTEGER polynomial form zernPoly (what the kernel-checked gamma tables are about)
    for _ in range(40 if quick else 400):
        n, m = valid_nm(rng, 8 if quick else 12)
        N = rng.randint(2, 12)
        e = Z.zernike_nm(n, m, N)

        def f(ans, n=n, m=m, N=N, e=e):
            d = maxdiff(floats(ans), e)
            if not d <= RT * max(1.0, abs(e).max()):
                return "zernike_nm(%d,%d,%d): max |implementation - integer-polynomial model| = %r" % (n, m, N, d)
        add("C12 polymode %d %d %d" % (n, m, N), f)
        chk.count("polymode:n=%d" % n)
        chk.case(("corr", "polymode", n, m, N), sample=None)
    # (e) array dispatch + normalisations, phase
    for _ in range(30 if quick else 300):
        N = rng.randint(4, 9)
        norm = rng.choice(["noll", "p2v", "rms"])
        rot = rng.choice([0.0, common.dyadic(rng, -4, 4, bits=5)])
        J = rng.randint(1, 12)
        js = [rng.randint(1, 15) for _ in range(rng.randint(1, 5))]
        raw = Z.zernikeArray(max(J, 15), N, rot=rot)
        if min(float(raw[z].max() - raw[z].min()) for z in range(len(raw))) < 1e-6:
            chk.count("array:degenerate-skipped")       # a mode constant on this grid: normalisation undefined (not in the domain)
            continue
        for kind, arg, e in (("arrlist", " ".join(map(str, js)), Z.zernikeArray(list(js), N, norm=norm, rot=rot)),
                             ("arrcount", str(J), Z.zernikeArray(J, N, norm=norm, rot=rot))):
            def f(ans, kind=kind, arg=arg, N=N, norm=norm, rot=rot, e=e):
                d = maxdiff(floats(ans), e)
                if not d <= RT * max(1.0, abs(e).max()):
                    return "zernikeArray(%s [%s], %d, %s, rot=%r): max |implementation - model| = %r" % (kind, arg, N, norm, rot, d)
            add("C12 %s %s %d %s %s" % (kind, norm, N, common.f2h(rot), arg), f)
            chk.count("array:%s:%s" % (kind, norm))
            chk.case(("corr", kind, arg, N, norm, rot), sample=None)
        cs = [common.dyadic(rng, -3, 3, bits=4) for _ in range(rng.randint(1, 8))]
        if rng.random() < 0.4:            # leading / interior / trailing zeros
            cs = [0.0 if rng.random() < 0.5 else c for c in cs]
            cs[0] = 0.0
        e = Z.phaseFromZernikes(list(cs), N, norm=norm, rot=rot)

        def f(ans, cs=cs, N=N, norm=norm, rot=rot, e=e):
            d = maxdiff(floats(ans), e)
            if not d <= RT * max(1.0, abs(e).max()):
                return "phaseFromZernikes(%r, %d, %s, rot=%r): max |implementation - model| = %r" % (cs, N, norm, rot, d)
        add("C12 phase %s %d %s %s" % (norm, N, common.f2h(rot), " ".join(common.f2h(c) for c in cs)), f)
        chk.count("phase:%s" % norm)
        chk.case(("corr", "phase", tuple(cs), N, norm, rot), sample={"op": "C12 phase", "coeffs": cs, "N": N, "norm": norm, "rot": rot})
    # (f) gamma matrices (float32 in the implementation); nzrad 12 in every run: theorems gamma_dx_le12 / gamma_dy_le12 are about gammaNM 12
    for nzrad in (list(range(0, 9)) + [12] if quick else range(0, 13)):
        e = Z.makegammas(nzrad)

        def f(ans, nzrad=nzrad, e=e):
            g = floats(ans)
            if g.size != e.size:
                return "makegammas(%d): implementation has %d entries, model %d" % (nzrad, e.size, g.size)
            d = abs(g - e.astype(float).ravel())
            k = int(d.argmax())
            if not d[k] <= 1e-6 * max(1.0, abs(e).max()):
                nz = e.shape[1]
                return "makegammas(%d)[%d][%d,%d]: implementation %r, model %r" % (nzrad, k // (nz * nz), (k // nz) % nz, k % nz,
                                                                                  float(e.ravel()[k]), float(g[k]))
        add("C12 gamma %d" % nzrad, f)
        chk.count("gamma:nzrad=%d" % nzrad)
        chk.case(("corr", "gamma", nzrad), sample={"op": "C12 gamma", "nzrad": nzrad, "shape": list(e.shape)} if nzrad == 3 else None)
    # (g) the cleared INTEGER matrices of the tables: gam[i,j] = g_int[i,j]·c_i/c_j with c = sqrt(n+1) (m=0) or sqrt(2(n+1))
    for nzrad in (list(range(1, 9)) + [12] if quick else range(1, 13)):
        e = Z.makegammas(nzrad).astype(float)
        nz = e.shape[1]
        c = numpy.array([math.sqrt(n + 1) if m == 0 else math.sqrt(2 * (n + 1)) for n, m in (Z.zernIndex(j) for j in range(1, nz + 1))])

        def f(ans, nzrad=nzrad, e=e, nz=nz, c=c):
            g = numpy.array([int(t) for t in ans.split()], dtype=float)
            if g.size != e.size:
                return "makegammas(%d): %d entries, integer model %d" % (nzrad, e.size, g.size)
            g = g.reshape(2, nz, nz) * c[None, :, None] / c[None, None, :]
            d = abs(g - e)
            if not d.max() <= 1e-6 * max(1.0, abs(e).max()):
                k = numpy.unravel_index(int(d.argmax()), d.shape)
                return "makegammas(%d)[%d][%d,%d] = %r but integer form·c_i/c_j = %r" % (nzrad, k[0], k[1], k[2], float(e[k]), float(g[k]))
        add("C12 gammaint %d" % nzrad, f)
        chk.count("gammaint:nzrad=%d" % nzrad)
        chk.case(("corr", "gammaint", nzrad), sample=None)
    # (h) the exact-rational degeneracy table behind p2v_unit_noll / rms_unit_noll (table_nondegenerate, rot = 0, j <= 28, N <= 12):
    #     'mode j is constant / identically zero on the N-grid' as computed by the model at ℚ = what the implementation produces
    Jt = 28
    for N in range(1, 13):
        imgs = [Z.zernike_noll(j, N) for j in range(1, Jt + 1)]
        exp = []
        for im in imgs:
            exp += [int(float(im.max() - im.min()) > 1e-6), int(float((im ** 2).sum()) > 1e-12)]
        lst_c = [j for j in range(1, Jt + 1) if const_excl(j, N)]
        lst_z = [j for j in range(1, Jt + 1) if zero_excl(j, N)]

        def f(ans, N=N, exp=exp, lst_c=lst_c, lst_z=lst_z):
            got = [int(t) for t in ans.split()]
            if got != exp:
                k = next((i for i in range(min(len(got), len(exp))) if got[i] != exp[i]), 0)
                return ("zernike_noll(%d,%d) is %s on the grid according to the implementation, the exact model says the opposite"
                        % (k // 2 + 1, N, ("not constant" if exp[k] else "constant") if k % 2 == 0 else ("not zero" if exp[k] else "zero")))
            if [i // 2 + 1 for i in range(0, len(got), 2) if not got[i]] != lst_c or [i // 2 + 1 for i in range(1, len(got), 2) if not got[i]] != lst_z:
                return "exclusion lists constExcl / zeroExcl of the theorems differ from the model's table for N = %d" % N
        add("C12 degen %d %d" % (N, Jt), f)
        chk.count("degen:N=%d" % N)
        chk.case(("corr", "degen", N, Jt), sample={"op": "C12 degen", "N": N, "constant": lst_c, "zero": lst_z} if N == 2 else None)
    # (i) the count path takes int(numpy.round(J)), int(numpy.round(N)): float counts / sizes (dyadic, so num/den is exact)
    for _ in range(12 if quick else 120):
        dJ, dN = rng.choice([1, 2, 4, 8]), rng.choice([1, 2, 4, 8])
        nJ, nN = rng.randint(0, 9 * dJ), rng.randint(dN // 2 + 1, 9 * dN)
        if rng.random() < 0.4:
            nJ = (2 * rng.randint(0, 8) + 1) * dJ // 2 if dJ > 1 else nJ        # exact ties k + 1/2: numpy rounds them to even
        Jf, Nf = nJ / dJ, nN / dN
        typ = rng.choice([float, numpy.float64, numpy.float32])
        with numpy.errstate(all="ignore"):
            e = Z.zernikeArray(typ(Jf), typ(Nf))
        cell = {}

        def fJ(ans, cell=cell, e=e, Jf=Jf, Nf=Nf):
            cell["J"] = int(ans)
            if e.shape[0] != cell["J"]:
                return "zernikeArray(%r, %r) has %d modes, int(round(J)) of the model = %d" % (Jf, Nf, e.shape[0], cell["J"])

        def fN(ans, cell=cell, e=e, Jf=Jf, Nf=Nf):
            k = int(ans)
            if e.shape[1:] != (k, k):
                return "zernikeArray(%r, %r) has size %s, int(round(N)) of the model = %d" % (Jf, Nf, e.shape[1:], k)
            if "J" in cell and e.shape[0] == cell["J"] and not numpy.array_equal(e, Z.zernikeArray(cell["J"], k)):
                return "zernikeArray(%r, %r) ≠ zernikeArray(%d, %d)" % (Jf, Nf, cell["J"], k)
        add("C12 round %d %d" % (nJ, dJ), fJ)
        add("C12 round %d %d" % (nN, dN), fN)
        chk.count("count-float:%s:%s" % (typ.__name__, "tie" if (2 * nJ) % dJ == 0 and nJ % dJ else "no-tie"))
        chk.case(("corr", "count-float", Jf, Nf, typ.__name__), sample={"op": "C12 round", "J": Jf, "N": Nf})
    ans = common.run_driver(lines, "C12")
    nbad = 0
    for line, a, fn in zip(lines, ans, checks):
        chk.corr_cases += 1
        msg = "driver answered bad-op for: " + line[:200] if a == "bad-op" else fn(a)
        if msg:
            nbad += 1
            if nbad <= 5:
                chk.broke("correspondence", msg, line[:400])


# ----------------------------------------------------------------------------------------------- oracle
def oracle(chk, quick):
    Z = _Z()
    import aotools
    rng = chk.rng
    APIS = apis()

    # D8 class: the mode functions must run at all
    try:
        Z.zernike_noll(1, 4)
    except Exception as ex:
        chk.fail("modes-raise:%s" % type(ex).__name__, "zernike_noll(1, 4) raises %r — every mode-producing function is unusable" % (ex,),
                 {"call": "aotools.functions.zernike.zernike_noll(1, 4)", "exception": repr(ex)})
        modes_ok = False
    else:
        modes_ok = True

    # ---- Noll index: bijection onto the valid set, ordering, parity — exhaustively
    top = 100000 if quick else 1000000
    prev = None
    seen = set()
    nfail = 0
    for j in range(1, top + 1):
        n, m = Z.zernIndex(j)
        n, m = int(n), int(m)
        what = None
        if not (n >= 0 and abs(m) <= n and (n - abs(m)) % 2 == 0):
            what, key = "zernIndex(%d) = [%d, %d] is not a valid (n, m)" % (j, n, m), "noll:valid"
        elif (n, m) in seen:
            what, key = "zernIndex(%d) = [%d, %d] repeats an earlier index (not injective)" % (j, n, m), "noll:injective"
        elif prev is not None and (n, abs(m)) < (prev[0], abs(prev[1])):
            what, key = "zernIndex(%d) = [%d, %d] after [%d, %d]: not ordered by n then |m|" % (j, n, m, prev[0], prev[1]), "noll:order"
        elif (m > 0 and j % 2 != 0) or (m < 0 and j % 2 != 1):
            what, key = "zernIndex(%d) = [%d, %d]: even indices must be cosine (m>0), odd sine (m<0)" % (j, n, m), "noll:parity"
        elif noll_of(n, m) != j:
            what, key = "zernIndex(%d) = [%d, %d] but that pair has Noll index %d" % (j, n, m, noll_of(n, m)), "noll:inverse"
        elif j == tri(n + 1) and len(seen) + 1 != j:
            what, key = "indices 1..%d do not cover all modes of order <= %d" % (j, n), "noll:surjective"
        if what and nfail < 5:
            nfail += 1
            chk.fail(key, what, {"call": "zernIndex(%d)" % j, "got": [n, m]})
        seen.add((n, m))
        prev = (n, m)
    # injective + valid + all pairs of order <= n are tri(n+1) many  =>  onto, checked at every complete block above
    chk.oracle_cases += top
    chk.count("oracle:noll-exhaustive", top)
    chk.case(("oracle", "noll-exhaustive", top))
    for _ in range(300 if quick else 20000):
        n = int(math.exp(rng.uniform(math.log(400), math.log(2 ** 24.4))))
        a = rng.randrange(n % 2, n + 1, 2)
        m = a if rng.random() < 0.5 else -a
        j = noll_of(n, m)
        if j >= 2 ** 49:
            continue
        chk.oracle_cases += 1
        chk.case(("oracle", "noll-large", j))
        api, A = rng.choice(APIS)
        jj = as_int(rng, j)
        got = [int(t) for t in A.zernIndex(jj)]
        if got != [n, m]:
            chk.fail("noll:large", "zernIndex(%d) = %s, but (n, m) = (%d, %d) is the mode with that index" % (j, got, n, m),
                     {"call": "%s.zernIndex(%s(%d))" % (api, type(jj).__name__, j), "got": got, "expected": [n, m]})
    # the same indices as numpy integer scalars and through the package-level names: the answer must not depend on the spelling
    for _ in range(1500 if quick else 30000):
        j = rng.choice([rng.randint(1, 300), rng.randint(1, 2 ** 26 - 1)])
        api, A = rng.choice(APIS)
        jj = rng.choice([numpy.int64, numpy.int32, numpy.intp, numpy.uint32, numpy.uint64, numpy.array])(j)   # round 5: unsigned, 0-d array
        chk.oracle_cases += 1
        chk.count("oracle:noll:%s:%s" % (api, type(jj).__name__))
        with numpy.errstate(all="ignore"):
            got = [int(t) for t in A.zernIndex(jj)]
        ref = [int(t) for t in Z.zernIndex(j)]
        if got != ref or noll_of(*got) != j:
            chk.fail("noll:numpy-int", "%s.zernIndex(%s(%d)) = %s, zernIndex(%d) = %s" % (api, type(jj).__name__, j, got, j, ref),
                     {"call": "%s.zernIndex(numpy.%s(%d))" % (api, type(jj).__name__, j), "got": got, "expected": ref})
    chk.case(("oracle", "noll-numpy-int"))
    if not modes_ok:
        return

    # ---- radial polynomials on the real code: R(1) = 1 and ∫ R_n^m R_n'^m ρ dρ = δ/(2(n+1)) by Gauss–Legendre (exact for these degrees)
    nmax = 14 if quick else 24
    x, w = numpy.polynomial.legendre.leggauss(nmax + 2)
    rho, wr = (0.5 * (x + 1)).reshape(1, -1), 0.5 * w
    for m in range(0, nmax + 1):
        ns = list(range(m, nmax + 1, 2))
        R = {n: Z.zernikeRadialFunc(n, m, rho)[0] for n in ns}
        for n in ns:
            chk.oracle_cases += 1
            chk.case(("oracle", "radial", n, m))
            sc = radial_scale(n, m, 1.0)
            one = float(Z.zernikeRadialFunc(n, m, numpy.array([[1.0]]))[0, 0])
            if not abs(one - 1) <= 1e-12 * sc:
                chk.fail("radial:R(1)", "zernikeRadialFunc(%d,%d,1.0) = %r ≠ 1" % (n, m, one), {"n": n, "m": m, "got": one})
            for n2 in ns:
                if n2 < n:
                    continue
                val = float((R[n] * R[n2] * rho[0] * wr).sum())
                exp = 1.0 / (2 * (n + 1)) if n == n2 else 0.0
                if not abs(val - exp) <= 1e-12 * sc * radial_scale(n2, m, 1.0):
                    chk.fail("radial:orthogonality", "∫ R_%d^%d R_%d^%d ρ dρ = %r, expected %r" % (n, m, n2, m, val, exp),
                             {"n": n, "n2": n2, "m": m, "got": val, "expected": exp})

    # ---- modes on grids
    for it in range(25 if quick else 400):
        N = rng.randint(4, 40) if it % 5 else rng.randint(1, 6)
        rot = rng.choice([0.0, rng.uniform(-7, 7)])
        norm = rng.choice(["noll", "p2v", "rms"])
        J = rng.randint(1, 28)
        js = [rng.randint(1, J) for _ in range(rng.randint(1, 6))]
        chk.oracle_cases += 1
        chk.count("oracle:grid:N%s:%s:rot%s" % ("odd" if N % 2 else "even", norm, "0" if rot == 0 else "≠0"))
        chk.case(("oracle", "grid", N, norm, rot, J, tuple(js)), sample={"N": N, "norm": norm, "rot": rot, "J": J, "list": js} if it < 2 else None)
        api, A = rng.choice(APIS)                                   # module / sub-package / package-level spelling
        chk.count("oracle:api:%s" % api)
        Jc, Nc = as_count(rng, J), as_count(rng, N)                 # Python int, a numpy integer scalar or a 0-d integer array
        chk.count("oracle:int-type:%s" % type(Jc).__name__)
        how = rng.randrange(3)                                      # round 5: keywords / positional / defaults left out
        chk.count("oracle:spelling:%s" % ["keywords", "positional", "defaults-omitted"][how])
        rep = {"N": N, "norm": norm, "rot": rot, "J": J, "list": js, "api": api, "J_type": type(Jc).__name__, "N_type": type(Nc).__name__,
               "spelling": ["f(a, N, norm=norm, rot=rot)", "f(a, N, norm, rot)", "f(a, N[, norm=…][, rot=…]) with default-valued arguments left out"][how]}
        jl = as_list(rng, js)
        chk.count("oracle:index-list:%s" % (type(jl).__name__ + (":" + str(jl.dtype) + ("" if jl.flags.c_contiguous and jl.flags.writeable else ":view/ro")
                                                                  if isinstance(jl, numpy.ndarray) else "")))
        jl_before = [int(t) for t in jl]

        def spelled(fn, a, n_):
            if how == 0:
                return fn(a, n_, norm=norm, rot=rot)
            if how == 1:
                return fn(a, n_, norm, rot)
            kw = {}
            if norm != "noll":
                kw["norm"] = norm
            if rot != 0:
                kw["rot"] = rot
            return fn(a, n_, **kw)
        with numpy.errstate(all="ignore"):
            # the un-normalised modes, one by one and BEFORE any normalised call (only used to recognise degenerate modes)
            raw = numpy.array([(A.zernike_noll(as_int(rng, j), Nc, rot) if (rot != 0 or how != 2) else A.zernike_noll(as_int(rng, j), Nc))
                               for j in range(1, J + 1)])
            full = spelled(A.zernikeArray, Jc, Nc)
            sub = spelled(A.zernikeArray, jl, Nc)
        if [int(t) for t in jl] != jl_before or jl_before != js:
            chk.fail("pure:index-list", "zernikeArray modified its index list argument", rep)
        if full.shape != (J, N, N) or sub.shape != (len(js), N, N):
            chk.fail("shape:zernikeArray", "zernikeArray shapes %s / %s" % (full.shape, sub.shape), rep)
            continue
        # vanish outside the inscribed pupil: pixel centre (i+.5-N/2, k+.5-N/2), radius N/2, in exact integers
        idx = 2 * numpy.arange(N) + 1 - N
        outside = (idx[None, :] ** 2 + idx[:, None] ** 2) > N * N
        for z in range(J):
            vals = full[z][outside]
            if vals.size and not numpy.all(vals == 0):        # NaN ≠ 0 too, unless the mode is degenerate (handled below)
                if numpy.isfinite(full[z]).all():
                    chk.fail("vanish-outside:%s" % norm, "zernikeArray(%d,%d,%s,rot=%r)[%d] is non-zero outside the pupil (max %r)"
                             % (J, N, norm, rot, z, float(abs(vals).max())), dict(rep, mode=z + 1))
                    break
        # round 5 — the array is the stack of the single modes (zernike_noll with the same size and rotation), normalised as asked:
        # bit-identical under Noll normalisation (a copy), divided by the mode's own p2v / rms otherwise
        npup = int((~outside).sum())
        for z in range(J):
            if float(raw[z].max() - raw[z].min()) < 1e-6 and norm != "noll":
                continue
            with numpy.errstate(all="ignore"):
                exp = (raw[z] if norm == "noll" else raw[z] / (raw[z].max() - raw[z].min()) if norm == "p2v" else
                       raw[z] / numpy.sqrt((raw[z] ** 2).sum() / npup))
            d = maxdiff(full[z], exp)
            _worst("array-eq-modes", d / max(1.0, float(abs(exp).max())))
            if not (numpy.array_equal(full[z], exp) if norm == "noll" else d <= 1e-12 * max(1.0, float(abs(exp).max()))):
                chk.fail("array-eq-modes:%s" % norm, "zernikeArray(%d,%d,%s,rot=%r)[%d] is not zernike_noll(%d,%d,rot=%r)%s (max difference %r)"
                         % (J, N, norm, rot, z, z + 1, N, rot, "" if norm == "noll" else " divided by its own " + norm, d), dict(rep, mode=z + 1))
                break
        # list = slices of count
        for t, j in enumerate(js):
            a, b = sub[t], full[j - 1]
            fin = numpy.isfinite(a) & numpy.isfinite(b)
            if not (numpy.array_equal(numpy.isfinite(a), numpy.isfinite(b)) and numpy.allclose(a[fin], b[fin], rtol=1e-12, atol=1e-12)):
                chk.fail("list-eq-slices:%s" % norm, "zernikeArray(%r,%d,%s,rot=%r)[%d] ≠ zernikeArray(%d,…)[%d]" % (js, N, norm, rot, t, J, j - 1),
                         dict(rep, position=t, index=j))
                break
        # unit rms / unit peak-to-valley for modes that are not constant on the grid
        pup = aotools.circle(N / 2., N)
        for z in range(J):
            if float(raw[z].max() - raw[z].min()) < 1e-6:
                chk.count("oracle:degenerate-mode-skipped")
                continue
            if norm == "p2v":
                v = float(full[z].max() - full[z].min())
            elif norm == "rms":
                v = float(numpy.sqrt((full[z] ** 2).sum() / pup.sum()))
            else:
                break
            if not abs(v - 1) <= RT:
                chk.fail("unit-%s" % norm, "zernikeArray(%d,%d,%s,rot=%r)[%d] has %s %r ≠ 1" % (J, N, norm, rot, z, norm, v), dict(rep, mode=z + 1, got=v))
                break
        # phase = linear combination; coefficient vector untouched; additive and homogeneous
        cs = numpy.array([rng.uniform(-2, 2) for _ in range(J)])
        cs2 = numpy.array([rng.uniform(-2, 2) for _ in range(J)])
        # sparse coefficient vectors (piston/tip/tilt removed, a single mode, trailing zeros, all zero): each coefficient must stay
        # with its own Noll index whatever the zeros around it
        pat = rng.randrange(8)
        if pat == 0:
            cs[:rng.randint(1, J)] = 0.0
        elif pat == 1:
            cs[rng.randint(0, J - 1):] = 0.0
        elif pat == 2:
            k = rng.randrange(J); v = cs[k]; cs[:] = 0.0; cs[k] = v
        elif pat == 3:
            cs[[i for i in range(J) if rng.random() < 0.5]] = 0.0
        chk.count("oracle:phase-coefficients:%s" % ["leading-zeros", "trailing-zeros", "single-mode", "random-zeros", "dense", "dense", "dense", "dense"][pat])
        al = rng.uniform(-3, 3)
        keep = cs.copy()
        with numpy.errstate(all="ignore"):
            ph = spelled(A.phaseFromZernikes, cs, Nc)
            ph2 = A.phaseFromZernikes(cs2, N, norm=norm, rot=rot)
            ph3 = A.phaseFromZernikes(list(al * cs + cs2), N, norm=norm, rot=rot)
        if not numpy.array_equal(cs, keep):
            chk.fail("pure:coefficients", "phaseFromZernikes modified its coefficient argument", rep)
        if numpy.isfinite(full).all():
            lin = numpy.tensordot(cs, full, 1)
            sc = max(1.0, float(abs(full).max()) * float(abs(cs).sum()))
            if ph.shape != (N, N) or not abs(ph - lin).max() <= RT * sc:
                chk.fail("phase-linear:%s" % norm, "phaseFromZernikes(c,%d,%s,rot=%r) ≠ Σ c_z·zernikeArray(%d,…)[z]" % (N, norm, rot, J),
                         dict(rep, coeffs=cs.tolist()))
            elif not abs(ph3 - (al * ph + ph2)).max() <= RT * 10 * sc:
                chk.fail("phase-linear:superposition:%s" % norm, "phaseFromZernikes(a·c+d) ≠ a·phase(c)+phase(d)", dict(rep, coeffs=cs.tolist(),
                                                                                                           coeffs2=cs2.tolist(), a=al))
        # a second identical call gives the identical array (no state between calls)
        full_copy = full.copy()
        with numpy.errstate(all="ignore"):
            again = A.zernikeArray(J, N, norm=norm, rot=rot)
        if not numpy.array_equal(again, full_copy, equal_nan=True):
            chk.fail("state:zernikeArray", "two identical zernikeArray calls differ", rep)

    # ---- call SEQUENCES over the normalisations for one (J, N, rot): every answer must be the one a fresh call gives, whatever was
    #      asked before, and an array handed out earlier must not change when the function is called again (no shared buffers)
    for it in range(10 if quick else 150):
        N = rng.randint(4, 28)
        J = rng.randint(2, 12)
        rot = rng.choice([0.0, rng.uniform(-7, 7)])
        api, A = rng.choice(APIS)
        perm = ["noll", "p2v", "rms"]
        rng.shuffle(perm)
        seq = perm + perm[1::-1] + [rng.choice(perm)]          # a b c b a x: every norm is asked both before and after every other
        chk.oracle_cases += 1
        chk.count("oracle:sequence:%s" % "-".join(seq[:3]))
        chk.case(("oracle", "sequence", N, J, rot, tuple(seq)), sample={"N": N, "J": J, "rot": rot, "norms": seq} if it < 2 else None)
        pup = aotools.circle(N / 2., N)
        with numpy.errstate(all="ignore"):
            raw = numpy.array([A.zernike_noll(j, N, rot) for j in range(1, J + 1)])
        live = [z for z in range(J) if float(raw[z].max() - raw[z].min()) >= 1e-6]      # modes that are not constant on this grid
        if len(live) < J:                                       # a degenerate mode (none for N >= 4 at rot = 0): normalisation undefined
            chk.count("oracle:sequence:degenerate-skipped")
            continue
        handed, first, calls, bad = [], {}, [], None
        for k, norm in enumerate(seq):
            kind = rng.choice(["count", "count", "phase"]) if k else "count"
            calls.append("%s.%s" % (api, ("zernikeArray(%d,%d,norm=%r,rot=%r)" % (J, N, norm, rot)) if kind == "count" else
                                    ("phaseFromZernikes(<%d coefficients>,%d,norm=%r,rot=%r)" % (J, N, norm, rot))))
            rep = {"N": N, "J": J, "rot": rot, "api": api, "calls": list(calls)}
            with numpy.errstate(all="ignore"):
                ref = A.zernikeArray(list(range(1, J + 1)), N, norm=norm, rot=rot)      # the list path, asked now
                if kind == "count":
                    out = A.zernikeArray(J, N, norm=norm, rot=rot)
                else:
                    cs = numpy.array([rng.uniform(-2, 2) for _ in range(J)])
                    out = A.phaseFromZernikes(cs, N, norm=norm, rot=rot)
            if kind == "count":
                for z in live:
                    if out.shape != ref.shape or not numpy.allclose(out[z], ref[z], rtol=1e-12, atol=1e-12):
                        bad = ("sequence:list-eq-slices:%s" % norm, "after the calls %s: zernikeArray(%d,%d,%s,rot=%r)[%d] ≠ zernikeArray([1..%d],…)[%d]"
                               % (calls[:-1], J, N, norm, rot, z, J, z), dict(rep, mode=z + 1))
                        break
                    v = (float(out[z].max() - out[z].min()) if norm == "p2v" else
                         float(numpy.sqrt((out[z] ** 2).sum() / pup.sum())) if norm == "rms" else 1.0)
                    if not abs(v - 1) <= RT:
                        bad = ("sequence:unit-%s" % norm, "after the calls %s: zernikeArray(%d,%d,%s,rot=%r)[%d] has %s %r ≠ 1"
                               % (calls[:-1], J, N, norm, rot, z, norm, v), dict(rep, mode=z + 1, got=v))
                        break
                if bad is None and norm in first and not numpy.array_equal(out, first[norm]):
                    bad = ("sequence:state:%s" % norm, "zernikeArray(%d,%d,%s,rot=%r) differs from the same call made earlier in %s"
                           % (J, N, norm, rot, calls), rep)
                first.setdefault(norm, out.copy())
            else:
                lin = numpy.tensordot(cs, ref, 1)
                sc = max(1.0, float(abs(ref).max()) * float(abs(cs).sum()))
                if not (out.shape == (N, N) and float(abs(out - lin).max()) <= RT * sc):
                    bad = ("sequence:phase-linear:%s" % norm, "after the calls %s: phaseFromZernikes(c,%d,%s,rot=%r) ≠ Σ c_z·zernikeArray([1..%d],…)[z]"
                           % (calls[:-1], N, norm, rot, J), dict(rep, coeffs=cs.tolist()))
            if bad is None:
                for k0, arr, keep in handed:
                    if not numpy.array_equal(arr, keep, equal_nan=True):
                        bad = ("sequence:earlier-result-modified", "the array returned by call %d (%s) was changed by the later call %s"
                               % (k0 + 1, calls[k0], calls[-1]), dict(rep, modified_result_of_call=k0 + 1))
                        break
            if bad:
                chk.fail(*bad)
                break
            handed.append((k, out, out.copy()))

    # ---- all rotations: cos(mθ+rot) = cos(rot)·cos(mθ) − sin(rot)·sin(mθ), i.e. the rotated cosine mode is that combination of
    # the unrotated cosine and sine partners (and similarly for the sine mode) — evaluated in one process with the unrotated mode
    # requested first, then several rotations of the same (n, m, N)
    for it in range(20 if quick else 300):
        n, m = valid_nm(rng, 8)
        if m == 0:
            continue
        m = abs(m)
        N = rng.randint(4, 24)
        chk.oracle_cases += 1
        chk.case(("oracle", "rotation", n, m, N))
        with numpy.errstate(all="ignore"):
            c0, s0 = Z.zernike_nm(n, m, N, 0), Z.zernike_nm(n, -m, N, 0)
            for rot in (rng.uniform(-7, 7), -numpy.pi / 2, rng.uniform(-1, 1)):
                cr, sr = Z.zernike_nm(n, m, N, rot), Z.zernike_nm(n, -m, N, rot)
                sc = max(1.0, float(numpy.abs(c0).max()))
                e1 = float(numpy.abs(cr - (numpy.cos(rot) * c0 - numpy.sin(rot) * s0)).max())
                e2 = float(numpy.abs(sr - (numpy.cos(rot) * s0 + numpy.sin(rot) * c0)).max())
                if max(e1, e2) > 1e-9 * sc:
                    chk.fail("rotation:zernike_nm", "zernike_nm(%d,±%d,%d,rot=%r) is not the rotation of the unrotated pair (errors %.3g, %.3g)"
                             % (n, m, N, rot, e1, e2), {"n": n, "m": m, "N": N, "rot": rot})
                    break
    # ---- a few high radial orders in every run: R_n^m(1) = 1 needs factorials beyond 20! (integer overflow territory)
    for n, m in ((21, 1), (24, 4), (30, 0), (33, 11)):
        chk.oracle_cases += 1
        with numpy.errstate(all="ignore"):
            v = float(numpy.asarray(Z.zernikeRadialFunc(n, m, numpy.array([1.0]))).ravel()[0])
        tol = max(1e-9, 64 * EPS * coef_abs_sum(n, m))     # the terms that cancel are of size Σ|c_i| (4.6e10 for (33, 11))
        if not abs(v - 1.0) <= tol:
            chk.fail("radial-at-one:high-order", "zernikeRadialFunc(%d,%d,1) = %r ≠ 1 (tolerance %.3g = 64·eps·Σ|c_i|)" % (n, m, v, tol),
                     {"n": n, "m": m, "got": v, "tolerance": tol})

    # ---- the Noll constant itself, exactly: inside the pupil a generated mode divided by the implementation's own radial function and
    #      the angular factor is the constant sqrt(n+1) (m = 0) or sqrt(2(n+1)) — the normalisation for which the continuous Gram matrix
    #      is the identity (∫R²ρdρ = 1/(2(n+1)) is checked above).  The Gram bound below cannot see a wrong constant at high order.
    for it in range(60 if quick else 900):
        n, m = valid_nm(rng, 12 if quick else 20)
        N = rng.randint(6, 48)
        rot = rng.choice([0.0, rng.uniform(-7, 7)])
        api, A = rng.choice(APIS)
        by_index = rng.random() < 0.5
        chk.oracle_cases += 1
        chk.count("oracle:noll-constant:%s" % ("m=0" if m == 0 else "m≠0"))
        chk.case(("oracle", "noll-constant", n, m, N, rot, by_index), sample={"n": n, "m": m, "N": N, "rot": rot} if it < 2 else None)
        with numpy.errstate(all="ignore"):
            img = A.zernike_noll(as_int(rng, noll_of(n, m)), as_int(rng, N), rot) if by_index else A.zernike_nm(n, m, as_int(rng, N), rot)
            coords = (numpy.arange(N) - N / 2. + 0.5) / (N / 2.)
            X, Y = numpy.meshgrid(coords, coords)
            a = abs(m)
            shape = Z.zernikeRadialFunc(n, a, numpy.sqrt(X ** 2 + Y ** 2))
            if m > 0:
                shape = shape * numpy.cos(a * numpy.arctan2(Y, X) + rot)
            elif m < 0:
                shape = shape * numpy.sin(a * numpy.arctan2(Y, X) + rot)
        idx = 2 * numpy.arange(N) + 1 - N
        inside = (idx[None, :] ** 2 + idx[:, None] ** 2) <= N * N
        top_ = float(abs(shape[inside]).max())
        if not top_ > 1e-9:
            chk.count("oracle:noll-constant:degenerate-skipped")
            continue
        big = inside & (abs(shape) >= 0.05 * top_)
        ratio = abs(img[big] / shape[big])
        c = math.sqrt(n + 1) if m == 0 else math.sqrt(2 * (n + 1))
        est = float(numpy.median(ratio))
        call = ("zernike_noll(%d,%d,rot=%r)" % (noll_of(n, m), N, rot)) if by_index else ("zernike_nm(%d,%d,%d,rot=%r)" % (n, m, N, rot))
        rep = {"call": "%s.%s" % (api, call), "n": n, "m": m, "N": N, "rot": rot}
        tol = max(1e-9, 2000 * EPS * coef_abs_sum(n, a))        # a re-ordered radial sum may differ by eps·Σ|c_i| where |R·trig| >= top/20
        if not abs(est - c) <= tol * c:
            chk.fail("noll-constant:%s" % ("m=0" if m == 0 else "m≠0"),
                     "%s = %r · R_%d^%d(r)·trig inside the pupil, the Noll constant is %r" % (call, est, n, a, c), dict(rep, got=est, expected=c))
        elif not float(abs(ratio - c).max()) <= tol * c:
            chk.fail("mode-shape", "%s is not a constant multiple of R_%d^%d(r)·cos/sin(%dθ+rot) inside the pupil (ratio varies by %r)"
                     % (call, n, a, a, float(ratio.max() - ratio.min())), rep)

    # ---- orthonormality under Noll normalisation: Gram matrix within (n_max+1)/N of the identity, N refined
    sizes = [32, 65, 128, rng.randint(40, 140)] if quick else [32, 65, 128, 255, 512] + [rng.randint(24, 200) for _ in range(6)]
    for N in sizes:
        for J in ([10, 28] if quick else [3, 10, 21, 28, 45]):
            if N >= 500 and J > 28:
                continue
            rot = rng.choice([0.0, rng.uniform(-7, 7)])
            chk.oracle_cases += 1
            chk.case(("oracle", "gram", N, J, rot))
            Zs = Z.zernikeArray(J, N, rot=rot)
            pup = aotools.circle(N / 2., N)
            G = numpy.einsum("iab,jab->ij", Zs, Zs) / pup.sum()
            nmx = int(Z.zernIndex(J)[0])
            err = float(abs(G - numpy.eye(J)).max())
            if not err <= GRAM_C * (nmx + 1) / N:
                k = int(abs(G - numpy.eye(J)).argmax())
                chk.fail("gram:noll", "Gram matrix of zernikeArray(%d,%d,rot=%r) differs from I by %r at (%d,%d) (bound %r)"
                         % (J, N, rot, err, k // J + 1, k % J + 1, GRAM_C * (nmx + 1) / N), {"J": J, "N": N, "rot": rot, "err": err})

    # ---- gamma matrices against the exact polynomial derivative of the generated modes:
    #      along a grid line a mode of radial order n is a polynomial of degree <= n, so a (2k+1)-point stencil, 2k >= n, is exact
    for nzrad in (range(1, 9) if quick else range(1, 13)):
        chk.oracle_cases += 1
        chk.case(("oracle", "gamma", nzrad))
        g = Z.makegammas(nzrad)
        nz = (nzrad + 1) * (nzrad + 2) // 2
        if g.shape != (2, nz, nz):
            chk.fail("gamma:shape", "makegammas(%d).shape = %s, expected (2,%d,%d)" % (nzrad, g.shape, nz, nz), {"nzrad": nzrad})
            continue
        g = g.astype(float)
        N = 40 + 4 * nzrad + rng.randint(0, 1)
        h = 2.0 / N
        Zs = Z.zernikeArray(nz, N)
        k = (nzrad + 1) // 2
        wts = stencil(k)
        pup = aotools.circle(N / 2., N) > 0
        vx, vy = numpy.ones((N, N), bool), numpy.ones((N, N), bool)
        dx, dy = numpy.zeros_like(Zs), numpy.zeros_like(Zs)
        for s in range(-k, k + 1):
            vx &= numpy.roll(pup, -s, axis=1)
            vy &= numpy.roll(pup, -s, axis=0)
            dx += wts[s + k] * numpy.roll(Zs, -s, axis=2) / h
            dy += wts[s + k] * numpy.roll(Zs, -s, axis=1) / h
        vx[:, :k] = False; vx[:, N - k:] = False; vy[:k] = False; vy[N - k:] = False
        px, py = numpy.tensordot(g[0], Zs, 1), numpy.tensordot(g[1], Zs, 1)
        sc = max(1.0, float(abs(g).max()) * float(abs(Zs).max()))
        for name, d, p, v in (("x", dx, px, vx), ("y", dy, py, vy)):
            errs = [float(abs((d[i] - p[i])[v]).max()) for i in range(nz)]
            i = int(numpy.argmax(errs))
            if not errs[i] <= 1e-5 * sc:
                chk.fail("gamma:%s" % name, "∂%s Z_%d ≠ Σ_j gam%s[%d,j]·Z_j for makegammas(%d): max deviation %r on a %d-grid"
                         % (name, i + 1, name, i, nzrad, errs[i], N), {"nzrad": nzrad, "N": N, "mode": i + 1, "axis": name, "err": errs[i]})


# ----------------------------------------------------------------------------------------------- round 5: generator audit
# An oracle-side reference of a mode that shares nothing with the module under test: exact integer coefficients of R_n^m,
# pixel coordinates (2i+1-N)/N, the pupil in exact integer geometry, the Noll constants.
R5_MODE_EPS = 256.0       # |mode - reference| <= R5_MODE_EPS·eps·c·Σ|c_i| r^(n-2i) per pixel; observed on the clean tree <= 0.90 (20 quick seeds, 2 thorough runs): margin 280x
R5_RADIAL_EPS = 128.0     # |zernikeRadialFunc - exact rational value| <= R5_RADIAL_EPS·eps·Σ|c_i| r^(n-2i); observed <= 1.43: margin 90x
R5_GAMMA_TOL = 1e-5       # analytic gradient vs Σ gamma·modes, relative to max(1, max|gamma|·max|mode|); observed <= 1.6e-7 (float32 storage) to nzrad 24: margin 60x


def nm_of_noll(j):
    """(n, m) of Noll index j in integer arithmetic (oracle-side twin of the Lean `zernIndex`)"""
    n = (math.isqrt(8 * (j - 1) + 1) - 1) // 2
    p = j - tri(n)                       # 1 .. n+1
    k = n % 2
    a = ((p + k) // 2) * 2 - k
    return n, (0 if a == 0 else (a if j % 2 == 0 else -a))


def ref_coefs(n, a):
    """the integer coefficients c_i of R_n^a(r) = Σ_i c_i r^(n-2i)"""
    return [(-1) ** i * (math.factorial(n - i) // (math.factorial(i) * math.factorial((n + a) // 2 - i) * math.factorial((n - a) // 2 - i)))
            for i in range((n - a) // 2 + 1)]


def ref_mode(n, m, N, rot=0.0):
    """(mode, per-pixel size of the terms that are added up) on the N-grid, Noll normalisation"""
    a = abs(m)
    idx = 2 * numpy.arange(N) + 1 - N
    X, Y = numpy.meshgrid(idx / float(N), idx / float(N))
    inside = (idx[None, :] ** 2 + idx[:, None] ** 2) <= N * N
    r = numpy.sqrt(X ** 2 + Y ** 2)
    R, S = numpy.zeros((N, N)), numpy.zeros((N, N))
    for i, c in enumerate(ref_coefs(n, a)):
        t = float(c) * r ** (n - 2 * i)
        R += t
        S += abs(t)
    c = math.sqrt(n + 1) if m == 0 else math.sqrt(2 * (n + 1))
    th = numpy.arctan2(Y, X)
    trig = 1.0 if m == 0 else (numpy.cos(a * th + rot) if m > 0 else numpy.sin(a * th + rot))
    return c * R * trig * inside, c * S * inside + 1e-300, inside


def ref_normalised(j, N, norm, rot):
    """reference of zernikeArray([j], N, norm, rot)[0], its error scale, and whether the normalisation is defined"""
    n, m = nm_of_noll(j)
    Zr, S, inside = ref_mode(n, m, N, float(rot))
    if norm == "p2v":
        d = float(Zr.max() - Zr.min())
    elif norm == "rms":
        d = math.sqrt(float((Zr ** 2).sum()) / int(inside.sum()))
    else:
        d = 1.0
    if not d > 1e-6:
        return None, None, False
    if norm == "noll":
        return Zr, S, True
    # the divisor itself carries the rounding error of the pixels it is made of (relative size max(S)/d): every pixel inherits it
    return Zr / d, S / d + numpy.abs(Zr / d) * (2.0 * float(S.max()) / d), True


def modes_match(arr, js, N, norm, rot, mult=R5_MODE_EPS):
    """None if arr[t] is mode js[t] (normalised as asked) to rounding, else (position, max error in units of eps·scale); degenerate modes skipped"""
    if numpy.shape(arr) != (len(js), N, N):
        return (-1, float("inf"))
    for t, j in enumerate(js):
        ref, S, ok = ref_normalised(int(j), N, norm, rot)
        if not ok:
            continue
        with numpy.errstate(all="ignore"):
            e = numpy.abs(numpy.asarray(arr[t], dtype=float) - ref) / (EPS * S + 1e-15 * float(abs(ref).max()))
        e = float(numpy.nanmax(numpy.where(numpy.isfinite(e), e, numpy.inf)))
        _worst("mode-vs-reference (eps·scale)", e)
        if not e <= mult:
            return (t, e)
    return None


def lib_call(chk, key, rep, fn, *a, **k):
    """(True, value) or (False, None) after recording a failing input when the library raises on an in-domain call"""
    try:
        with numpy.errstate(all="ignore"):
            return True, fn(*a, **k)
    except Exception as ex:
        chk.fail("raises:%s:%s" % (key, type(ex).__name__), "%s raised %s: %s" % (rep.get("call", key), type(ex).__name__, str(ex)[:200]), rep)
        return False, None


def coef_container(rng, vals):
    """the same coefficient VALUES in the containers a caller may hold them in; (object, label).  `vals` must be exactly representable
    in the container's element type (the caller picks integers / float32-exact numbers for the narrow ones)"""
    vals = [float(v) for v in vals]
    integral = all(v == int(v) and abs(v) < 100 for v in vals)
    f32 = all(float(numpy.float32(v)) == v for v in vals)
    kinds = ["list", "tuple", "float64", "strided", "reversed", "readonly", "fortran-slice", "numpy-scalars"]
    if integral:
        kinds += ["int-list", "int64", "int32", "int8"]
    if f32:
        kinds += ["float32"]
    k = rng.choice(kinds)
    n = len(vals)
    if k == "list":
        return list(vals), k
    if k == "tuple":
        return tuple(vals), k
    if k == "float64":
        return numpy.array(vals), k
    if k == "strided":
        big = numpy.full(3 * n + 2, 7.25)
        big[1::3][:n] = vals
        return big[1::3][:n], k
    if k == "reversed":
        return numpy.array(vals[::-1])[::-1], k
    if k == "readonly":
        a = numpy.array(vals)
        a.setflags(write=False)
        return a, k
    if k == "fortran-slice":
        big = numpy.asfortranarray(numpy.full((3, n), -1.5))
        big[1, :] = vals
        return big[1, :], k
    if k == "numpy-scalars":
        return [numpy.float64(v) for v in vals], k
    if k == "int-list":
        return [int(v) for v in vals], k
    if k == "float32":
        return numpy.array(vals, dtype=numpy.float32), k
    return numpy.array([int(v) for v in vals], dtype={"int64": numpy.int64, "int32": numpy.int32, "int8": numpy.int8}[k]), k


def analytic_gradient(n, m, X, Y):
    """(d/dx, d/dy) of the Noll-normalised mode (n, m) at the points (X, Y) (r > 0), from the exact coefficients of R_n^|m|"""
    a = abs(m)
    r, th = numpy.sqrt(X ** 2 + Y ** 2), numpy.arctan2(Y, X)
    cf = ref_coefs(n, a)
    R = sum(float(c) * r ** (n - 2 * i) for i, c in enumerate(cf))
    dR = sum((float(c) * (n - 2 * i) * r ** (n - 2 * i - 1) for i, c in enumerate(cf) if n - 2 * i > 0), numpy.zeros_like(r))
    if m == 0:
        c, T, dT = math.sqrt(n + 1), 1.0, 0.0
    elif m > 0:
        c, T, dT = math.sqrt(2 * (n + 1)), numpy.cos(a * th), -a * numpy.sin(a * th)
    else:
        c, T, dT = math.sqrt(2 * (n + 1)), numpy.sin(a * th), a * numpy.cos(a * th)
    return c * (dR * numpy.cos(th) * T - R / r * numpy.sin(th) * dT), c * (dR * numpy.sin(th) * T + R / r * numpy.cos(th) * dT)


def oracle_round5(chk, quick):
    """input classes and call histories the earlier generators never produced (see notes/asbuilt/C12.md, Round 5)"""
    import inspect
    from fractions import Fraction
    import aotools
    Z = _Z()
    rng = chk.rng
    APIS = apis()
    NORMS = ["noll", "p2v", "rms"]

    # ---- (1) every public spelling is the same function: then everything checked through one of them holds for all
    for name, f in sorted(vars(Z).items()):
        if not (inspect.isfunction(f) and f.__module__ == Z.__name__) or name.startswith("_"):
            continue                      # private helpers are not part of the package-level API (`from .zernike import *` skips them)
        for api, A in APIS[1:]:
            g = getattr(A, name, None)
            chk.oracle_cases += 1
            chk.count("oracle:alias:%s" % api)
            if g is f:
                continue
            # not the same object: allowed only if it behaves the same on a few calls
            args = {"zernIndex": [(7,), (232,)], "zernike_noll": [(8, 9, 0.3)], "zernike_nm": [(3, -1, 9, 0.3)], "makegammas": [(4,)],
                    "zernikeArray": [(6, 9, "rms", 0.3), ([2, 5], 8, "p2v", 0.0)], "phaseFromZernikes": [([0.0, 1.0, -2.0], 9, "rms", 0.3)],
                    "zernikeRadialFunc": [(5, 1, numpy.array([[0.25, 0.5]]))]}.get(name, [])
            same = g is not None and bool(args)
            for a in (args if same else []):
                try:
                    with numpy.errstate(all="ignore"):
                        same = same and numpy.array_equal(numpy.asarray(g(*a), dtype=float), numpy.asarray(f(*a), dtype=float))
                except Exception:
                    same = False
            if not same:
                chk.fail("alias:%s" % name, "%s.%s is not aotools.functions.zernike.%s (%s)" % (api, name, name, "missing" if g is None else
                                                                                                  "another function with different results"),
                         {"call": "%s.%s" % (api, name), "arguments": repr(args)[:300]})
    chk.case(("oracle", "r5-alias"))

    # ---- (2) radial polynomial against EXACT rational arithmetic, orders 13..40 (factorials up to 40! ~ 8e47), argument arrays of every layout;
    #          the argument must come back untouched
    for it in range(80 if quick else 1200):
        n = rng.randint(13, 40) if it % 4 else rng.randint(0, 12)
        a = rng.randrange(n % 2, n + 1, 2)
        k = rng.randint(2, 7)
        # radii up to 90/64: zernike_nm hands the radial function the corner pixels (r up to sqrt 2) as well
        fr = [Fraction(rng.randint(0, 64 if rng.random() < 0.7 else 90), 64) for _ in range(2 * k - 1)] + [Fraction(1)]
        rv = numpy.array([float(x) for x in fr])
        lay = rng.choice(["2d", "1d", "fortran", "strided", "negative-stride", "readonly", "0d", "broadcast"])
        if lay == "2d":
            r = rv.reshape(2, k).copy()
        elif lay == "1d":
            r = rv.copy()
        elif lay == "fortran":
            r = numpy.asfortranarray(rv.reshape(2, k))
        elif lay == "strided":
            big = numpy.full((2, 2 * k + 1), 0.125)
            big[:, 1::2] = rv.reshape(2, k)
            r = big[:, 1::2]
        elif lay == "negative-stride":
            r = rv[::-1].copy()[::-1].reshape(2, k)
        elif lay == "readonly":
            r = rv.reshape(2, k).copy()
            r.setflags(write=False)
        elif lay == "0d":
            fr = fr[:1]
            r = numpy.array(float(fr[0]))
        else:
            fr = fr[:k] * 2
            r = numpy.broadcast_to(rv[:k], (2, k))
        keep = numpy.array(r, copy=True)
        chk.oracle_cases += 1
        chk.count("oracle:radial-exact:%s" % lay)
        chk.case(("oracle", "r5-radial", n, a, lay, tuple(float(x) for x in fr[:3])), sample={"n": n, "m": a, "layout": lay} if it < 2 else None)
        api, A = rng.choice(APIS)
        rep = {"call": "%s.zernikeRadialFunc(%d, %d, r)" % (api, n, a), "n": n, "m": a, "r": [float(x) for x in fr], "layout": lay}
        ok, got = lib_call(chk, "zernikeRadialFunc:%s" % lay, rep, A.zernikeRadialFunc, as_int(rng, n), as_int(rng, a), r)
        if not ok:
            continue
        if not numpy.array_equal(numpy.asarray(r), keep):
            chk.fail("pure:radial-argument", "zernikeRadialFunc(%d,%d,r) modified its argument r (%s array)" % (n, a, lay), rep)
        got = numpy.asarray(got, dtype=float)
        if got.shape != keep.shape:
            chk.fail("shape:zernikeRadialFunc", "zernikeRadialFunc(%d,%d,r): r has shape %s, result %s" % (n, a, keep.shape, got.shape), rep)
            continue
        cf = ref_coefs(n, a)
        for x, g in zip(fr, got.ravel()):
            ex = sum(c * x ** (n - 2 * i) for i, c in enumerate(cf))
            sc = float(sum(abs(c) * x ** (n - 2 * i) for i, c in enumerate(cf)))
            err = abs(float(g) - float(ex)) if math.isfinite(float(g)) else float("inf")
            _worst("radial-exact (eps·Σ|terms|)", err / (EPS * sc) if sc > 0 else (0.0 if err == 0 else float("inf")))
            if not err <= R5_RADIAL_EPS * EPS * sc:
                chk.fail("radial:exact" + (":high-order" if n > 12 else ""), "zernikeRadialFunc(%d,%d,%r) = %r, exact value %r (terms of size %.3g)"
                         % (n, a, float(x), float(g), float(ex), sc), dict(rep, r_value=float(x), got=float(g), expected=float(ex)))
                break

    # ---- (3) modes of high radial order (13..30, Noll indices up to 496) through every mode-producing entry point, against the reference
    for it in range(30 if quick else 400):
        n = rng.randint(13, 30)
        a = rng.randrange(n % 2, n + 1, 2)
        m = a if rng.random() < 0.5 else -a
        j = noll_of(n, m)
        N = rng.randint(5, 26)
        rot = rng.choice([0.0, rng.uniform(-7, 7)])
        norm = rng.choice(NORMS)
        api, A = rng.choice(APIS)
        entry = rng.choice(["zernike_nm", "zernike_noll", "zernikeArray-list", "phaseFromZernikes-unit-vector"])
        if entry == "phaseFromZernikes-unit-vector" and j > 300:
            entry = "zernike_noll"
        chk.oracle_cases += 1
        chk.count("oracle:high-order:%s" % entry)
        chk.case(("oracle", "r5-high-order", n, m, N, rot, norm, entry), sample={"n": n, "m": m, "N": N, "rot": rot, "entry": entry} if it < 2 else None)
        if entry == "zernike_nm":
            call, fn, args, nrm = "zernike_nm(%d,%d,%d,%r)" % (n, m, N, rot), A.zernike_nm, (as_int(rng, n), m, as_count(rng, N), rot), "noll"
        elif entry == "zernike_noll":
            call, fn, args, nrm = "zernike_noll(%d,%d,%r)" % (j, N, rot), A.zernike_noll, (as_int(rng, j), as_count(rng, N), rot), "noll"
        elif entry == "zernikeArray-list":
            call, fn, args, nrm = "zernikeArray([%d],%d,%r,%r)[0]" % (j, N, norm, rot), A.zernikeArray, ([as_int(rng, j)], N, norm, rot), norm
        else:
            e = [0.0] * j
            e[j - 1] = 1.0
            call, fn, args, nrm = "phaseFromZernikes(e_%d,%d,%r,%r)" % (j, N, norm, rot), A.phaseFromZernikes, (e, N, norm, rot), norm
        rep = {"call": "%s.%s" % (api, call), "n": n, "m": m, "noll_index": j, "N": N, "rot": rot, "norm": nrm}
        ok, got = lib_call(chk, entry, rep, fn, *args)
        if not ok:
            continue
        got = numpy.asarray(got, dtype=float)
        if got.ndim == 3:
            got = got[0]
        bad = modes_match(got[None] if got.ndim == 2 else got, [j], N, nrm, rot)
        if bad is not None:
            chk.fail("mode:high-order:%s" % entry, "%s is not the mode (n, m) = (%d, %d)%s: off by %.3g × eps × the size of the radial terms"
                     % (call, n, m, "" if nrm == "noll" else " with unit " + nrm, bad[1]), rep)

    # ---- (4) one LARGE count per run (Noll indices beyond 231 = radial order 21): array = reference, list = slices, vanishing outside
    for it in range(2 if quick else 6):
        J = rng.randint(236, 300)
        N = rng.choice([7, 10, 13, 16])
        norm, rot = rng.choice(NORMS), rng.choice([0.0, rng.uniform(-7, 7)])
        api, A = rng.choice(APIS)
        chk.oracle_cases += 1
        chk.case(("oracle", "r5-large-count", J, N, norm, rot))
        rep = {"call": "%s.zernikeArray(%d, %d, %r, %r)" % (api, J, N, norm, rot), "J": J, "N": N, "norm": norm, "rot": rot}
        ok, full = lib_call(chk, "zernikeArray:large-count", rep, A.zernikeArray, as_count(rng, J), as_count(rng, N), norm, rot)
        if not ok:
            continue
        picks = sorted(rng.sample(range(1, J + 1), 12) + [J, 232])
        bad = modes_match(full[[p - 1 for p in picks]] if numpy.shape(full) == (J, N, N) else full, picks, N, norm, rot)
        if bad is not None:
            chk.fail("mode:large-count", "zernikeArray(%d,%d,%s,rot=%r)[%d] is not Noll mode %d (off by %.3g × eps × size of the radial terms)"
                     % (J, N, norm, rot, picks[bad[0]] - 1 if bad[0] >= 0 else -1, picks[bad[0]] if bad[0] >= 0 else -1, bad[1]), rep)
            continue
        ok, sub = lib_call(chk, "zernikeArray:large-list", rep, A.zernikeArray, as_list(rng, picks), N, norm, rot)
        if ok and not (numpy.shape(sub) == (len(picks), N, N) and all(
                numpy.allclose(sub[t], full[p - 1], rtol=1e-12, atol=1e-12, equal_nan=True) for t, p in enumerate(picks))):
            chk.fail("list-eq-slices:large", "zernikeArray(%r,%d,%s,rot=%r) ≠ the slices of zernikeArray(%d,…)" % (picks, N, norm, rot, J), rep)
        idx = 2 * numpy.arange(N) + 1 - N
        outside = (idx[None, :] ** 2 + idx[:, None] ** 2) > N * N
        fin = numpy.isfinite(full).all(axis=(1, 2))
        if outside.any() and numpy.abs(full[fin][:, outside]).max(initial=0.0) != 0:
            chk.fail("vanish-outside:large", "zernikeArray(%d,%d,%s,rot=%r) is non-zero outside the pupil" % (J, N, norm, rot), rep)

    # ---- (5) coefficient vectors: every container / element type / layout, exact power-of-two homogeneity (tiny and huge amplitudes),
    #          the empty vector, long vectors
    for it in range(40 if quick else 500):
        N = rng.randint(4, 24)
        J = rng.randint(1, 30) if it % 6 else rng.randint(60, 120)
        norm, rot = rng.choice(NORMS), rng.choice([0.0, rng.uniform(-7, 7), rng.randint(-3, 3)])
        kind = rng.choice(["integers", "float32-exact", "float64"])
        if kind == "integers":
            vals = [float(rng.randint(-5, 5)) for _ in range(J)]
        elif kind == "float32-exact":
            vals = [float(numpy.float32(rng.uniform(-2, 2))) for _ in range(J)]
        else:
            vals = [rng.uniform(-2, 2) for _ in range(J)]
        if rng.random() < 0.3:
            vals[0] = 0.0
        if rng.random() < 0.3:
            vals[-1] = 0.0
        cs, label = coef_container(rng, vals)
        api, A = rng.choice(APIS)
        chk.oracle_cases += 1
        chk.count("oracle:coefficients:%s" % label)
        chk.case(("oracle", "r5-coefficients", N, J, norm, rot, label, tuple(vals[:4])), sample={"N": N, "J": J, "norm": norm, "rot": rot, "container": label} if it < 3 else None)
        rep = {"call": "%s.phaseFromZernikes(<%s of %d coefficients>, %d, %r, %r)" % (api, label, J, N, norm, rot), "coeffs": vals, "container": label,
               "N": N, "norm": norm, "rot": rot}
        with numpy.errstate(all="ignore"):
            live = all(ref_normalised(j, N, norm, rot)[2] for j in range(1, J + 1))
        if not live:
            chk.count("oracle:coefficients:degenerate-skipped")
            continue
        keep = [float(v) for v in cs]
        ok, ph = lib_call(chk, "phaseFromZernikes:%s" % label, rep, A.phaseFromZernikes, cs, as_count(rng, N), norm, rot)
        if not ok:
            continue
        if [float(v) for v in cs] != keep or keep != vals:
            chk.fail("pure:coefficients", "phaseFromZernikes modified its coefficient argument (%s)" % label, rep)
        refs = [ref_normalised(j, N, norm, rot) for j in range(1, J + 1)]
        lin = sum(v * rf[0] for v, rf in zip(vals, refs))
        S = sum(abs(v) * rf[1] for v, rf in zip(vals, refs)) + 1e-15 * max(float(abs(rf[0]).max()) for rf in refs) * sum(abs(v) for v in vals) + 1e-300
        ph = numpy.asarray(ph, dtype=float)
        if ph.shape != (N, N):
            chk.fail("shape:phaseFromZernikes", "phaseFromZernikes returned shape %s for size %d" % (ph.shape, N), rep)
            continue
        e = float(numpy.nanmax(numpy.where(numpy.isfinite(ph), numpy.abs(ph - lin) / (EPS * S), numpy.inf)))
        _worst("phase-vs-reference (eps·scale)", e)
        if not e <= R5_MODE_EPS:
            chk.fail("phase-linear:container:%s" % ("integer" if label.startswith("int") else "float32" if label == "float32" else "other"),
                     "phaseFromZernikes(%s %r…, %d, %s, rot=%r) is not Σ c_j·Z_j (off by %.3g × eps × size of the terms)" % (label, vals[:6], N, norm, rot, e), rep)
            continue
        # exact homogeneity under powers of two: scaling every coefficient by 2^k scales the phase by 2^k bit for bit (no rounding involved)
        kpow = rng.choice([-200, -60, 60, 200])
        sc = [v * 2.0 ** kpow for v in vals]
        ok, ph2 = lib_call(chk, "phaseFromZernikes:scaled", dict(rep, scaled_by="2**%d" % kpow), A.phaseFromZernikes, numpy.array(sc), N, norm, rot)
        # (to rounding, not bit for bit: the sum over modes may go through a BLAS kernel whose blocking depends on the alignment of the
        #  buffers of that call — a harmless tensordot formulation differs in the last bit between two calls)
        if ok and not (numpy.asarray(ph2).shape == ph.shape and
                       float(numpy.abs(numpy.asarray(ph2) / 2.0 ** kpow - ph).max()) <= 1e-12 * max(float(numpy.abs(ph).max()), 1e-300)):
            chk.fail("phase-linear:scale:%s" % ("tiny" if kpow < 0 else "huge"),
                     "phaseFromZernikes(2^%d·c, %d, %s, rot=%r) ≠ 2^%d·phaseFromZernikes(c, …) (a linear map: equal to rounding)" % (kpow, N, norm, rot, kpow),
                     dict(rep, scaled_by="2**%d" % kpow))
    for N in (5, 8):                                    # the empty coefficient vector is the zero phase
        chk.oracle_cases += 1
        rep = {"call": "phaseFromZernikes([], %d)" % N}
        ok, ph = lib_call(chk, "phaseFromZernikes:empty", rep, Z.phaseFromZernikes, [], N)
        if ok and not (numpy.shape(ph) == (N, N) and not numpy.any(ph)):
            chk.fail("phase-linear:empty", "phaseFromZernikes([], %d) is not the zero phase" % N, rep)

    # ---- (6) rotations of every type and size: the rotated pair is the rotation of the unrotated pair (reference-free, exact trigonometry),
    #          through zernike_nm, zernike_noll and zernikeArray
    for it in range(40 if quick else 400):
        n, m = valid_nm(rng, 9)
        if m == 0:
            continue
        a = abs(m)
        N = rng.randint(4, 24)
        kind = rng.choice(["int", "int", "float32", "float64-scalar", "0-d array", "quarter-turns", "large", "minus-zero", "tiny"])
        rot = {"int": rng.choice([-3, -2, -1, 1, 2, 3, 6]), "float32": numpy.float32(rng.uniform(-7, 7)),
               "float64-scalar": numpy.float64(rng.uniform(-7, 7)), "0-d array": numpy.array(rng.uniform(-7, 7)),
               "quarter-turns": rng.randint(-8, 8) * math.pi / 2, "large": rng.uniform(-1e4, 1e4), "minus-zero": -0.0,
               "tiny": rng.choice([1e-300, -1e-20, 5e-324])}[kind]
        rv = float(rot)
        jc, js_ = noll_of(n, a), noll_of(n, -a)
        entry = rng.choice(["zernike_nm", "zernike_noll", "zernikeArray"])
        api, A = rng.choice(APIS)
        chk.oracle_cases += 1
        chk.count("oracle:rotation-type:%s" % kind)
        chk.case(("oracle", "r5-rotation", n, a, N, kind, rv, entry))
        rep = {"call": "%s.%s with rot = %s(%r)" % (api, entry, type(rot).__name__, rv), "n": n, "m": a, "N": N, "rot": rv, "rot_type": type(rot).__name__}

        def pair(r_):
            if entry == "zernike_nm":
                return A.zernike_nm(n, a, N, r_), A.zernike_nm(n, -a, N, r_)
            if entry == "zernike_noll":
                return A.zernike_noll(jc, N, r_), A.zernike_noll(js_, N, r_)
            arr = A.zernikeArray([jc, js_], N, "noll", r_)
            return arr[0], arr[1]
        ok, first = lib_call(chk, "rotation:%s" % kind, rep, pair, 0)
        ok2, second = lib_call(chk, "rotation:%s" % kind, rep, pair, rot) if ok else (False, None)
        if not (ok and ok2):
            continue
        (c0, s0), (cr, sr) = first, second
        scl = max(1.0, float(numpy.abs(c0).max()))
        e1 = float(numpy.abs(cr - (math.cos(rv) * c0 - math.sin(rv) * s0)).max())
        e2 = float(numpy.abs(sr - (math.cos(rv) * s0 + math.sin(rv) * c0)).max())
        _worst("rotation-type", max(e1, e2) / scl)
        if not max(e1, e2) <= 1e-9 * scl:                  # observed <= 2e-12 (rot up to 1e4: the angle m·θ+rot is rounded at 1e4·eps)
            chk.fail("rotation:type:%s" % kind, "%s(n=%d, m=±%d, N=%d, rot=%s(%r)) is not the rotation by %r of the unrotated pair (errors %.3g, %.3g)"
                     % (entry, n, a, N, type(rot).__name__, rv, rv, e1, e2), rep)

    # ---- (7) call HISTORIES the earlier sequences do not contain
    for it in range(12 if quick else 120):
        N, norm, rot = rng.randint(4, 20), rng.choice(NORMS), rng.choice([0.0, rng.uniform(-7, 7)])
        api, A = rng.choice(APIS)
        L = rng.randint(1, 5)
        calls = []
        chk.oracle_cases += 1
        chk.case(("oracle", "r5-history", N, norm, rot, L, it))
        rep = {"N": N, "norm": norm, "rot": rot, "api": api, "calls": calls}

        def step(desc, fn, *args):
            calls.append(desc)
            return lib_call(chk, "history", dict(rep, call=desc, calls=list(calls)), fn, *args)

        def judge(key, arr, js, what):
            bad = modes_match(arr, js, N, norm, rot)
            if bad is not None:
                chk.fail(key, "after the calls %s: %s — entry %d is not Noll mode %d (off by %.3g × eps × size of the terms)"
                         % (calls[:-1], what, bad[0], js[bad[0]] if bad[0] >= 0 else -1, bad[1]), dict(rep, calls=list(calls)))
            return bad is None
        # (7a) several different index lists of ONE length for one (N, norm, rot); then the same list OBJECT with changed contents
        lists = [[rng.randint(1, 28) for _ in range(L)] for _ in range(3)]
        good = True
        for js in lists:
            cont = rng.choice([list, tuple, numpy.array])(js)
            ok, out = step("zernikeArray(%s(%r),%d,%r,%r)" % (type(cont).__name__, js, N, norm, rot), A.zernikeArray, cont, N, norm, rot)
            good = good and ok and judge("history:index-list:same-length", out, js, "zernikeArray(%r, …)" % (js,))
            if not good:
                break
        if good:
            obj = list(lists[0])
            ok, out = step("L = %r; zernikeArray(L,%d,%r,%r)" % (obj, N, norm, rot), A.zernikeArray, obj, N, norm, rot)
            obj[rng.randrange(L)] = rng.randint(29, 45)
            ok2, out2 = step("L[:] = %r; zernikeArray(L,%d,%r,%r)" % (obj, N, norm, rot), A.zernikeArray, obj, N, norm, rot) if ok else (False, None)
            if ok2:
                judge("history:index-list:same-object", out2, obj, "zernikeArray(L, …) with the caller's list L changed in place between the calls")
        # (7b) the caller overwrites what it was given, then asks again: the second answer must be the first one
        j = rng.randint(1, 28)
        n, m = nm_of_noll(j)
        Jn = rng.randint(2, 10)
        cvec = [rng.uniform(-2, 2) for _ in range(Jn)]
        nz = rng.randint(1, 5)
        for name, fn, args in (("zernike_noll", A.zernike_noll, (j, N, rot)), ("zernike_nm", A.zernike_nm, (n, m, N, rot)),
                               ("zernikeArray", A.zernikeArray, (Jn, N, norm, rot)), ("zernikeArray-list", A.zernikeArray, ([j, 1, j], N, norm, rot)),
                               ("phaseFromZernikes", A.phaseFromZernikes, (cvec, N, norm, rot)), ("makegammas", A.makegammas, (nz,)),
                               ("zernIndex", A.zernIndex, (j,)), ("zernikeRadialFunc", A.zernikeRadialFunc, (n, abs(m), numpy.linspace(0, 1, 5).reshape(1, 5)))):
            desc = "%s%r" % (name.split("-")[0], args if name != "zernikeRadialFunc" else (n, abs(m), "linspace(0,1,5)"))
            ok, first = step(desc, fn, *args)
            if not ok:
                continue
            if isinstance(first, list):
                keep = list(first)
                first[:] = [99] * len(first)
            else:
                keep = numpy.array(first, copy=True)
                try:
                    first[...] = 12345.0
                except (ValueError, TypeError):
                    pass                                  # a read-only result cannot be spoiled by the caller
            ok, second = step(desc + "  [after the caller overwrote the first result]", fn, *args)
            if not ok:
                continue
            same = (list(second) == keep) if isinstance(keep, list) else (numpy.shape(second) == keep.shape and numpy.array_equal(second, keep, equal_nan=True))
            if not same:
                chk.fail("history:result-overwritten:%s" % name, "%s returns something else after the caller overwrote the array/list returned by "
                         "the first identical call (results share storage with internal state): calls %s" % (desc, calls), dict(rep, calls=list(calls)))
        # (7c) one mode at sizes N1, N2, N1 and as cosine, sine, cosine: the third answer is the first, bit for bit
        n, m = valid_nm(rng, 8)
        N2 = N + rng.randint(1, 6)
        seqs = [(n, m, N, rot), (n, m, N2, rot), (n, -m, N, rot), (n, m, N, rot)]
        outs = []
        for a_ in seqs:
            ok, o = step("zernike_nm%r" % (a_,), A.zernike_nm, *a_)
            outs.append(numpy.array(o, copy=True) if ok else None)
        if all(o is not None for o in outs):
            jn = noll_of(n, m)
            okm = True
            for a_, o in zip(seqs, outs):
                bad = modes_match(o[None], [noll_of(a_[0], a_[1])], a_[2], "noll", rot)
                if bad is not None:
                    okm = False
                    chk.fail("history:size-and-sign", "in the call sequence %s, zernike_nm%r is not that mode (off by %.3g × eps × size of the terms)"
                             % (calls[-4:], a_, bad[1]), dict(rep, calls=list(calls)))
                    break
            if okm and not numpy.array_equal(outs[0], outs[3]):
                chk.fail("history:size-and-sign", "zernike_nm%r differs from the same call made three calls earlier (%s)" % (seqs[0], calls[-4:]),
                         dict(rep, calls=list(calls)))

    # ---- (9) documented defaults (norm="noll", rot=0) and keyword-only spellings, every entry point, against the reference
    for it in range(6 if quick else 60):
        N, J = rng.randint(4, 20), rng.randint(2, 12)
        js = [rng.randint(1, 28) for _ in range(3)]
        norm, rot = rng.choice(["p2v", "rms"]), rng.uniform(-7, 7)
        cvec = [rng.uniform(-2, 2) for _ in range(J)]
        api, A = rng.choice(APIS)
        chk.oracle_cases += 1
        chk.case(("oracle", "r5-defaults", N, J, tuple(js), norm, rot))
        allj = list(range(1, J + 1))
        for desc, fn, args, kw, idx, nrm, rt in (
                ("zernikeArray(%d,%d)" % (J, N), A.zernikeArray, (J, N), {}, allj, "noll", 0.0),
                ("zernikeArray(%r,%d)" % (js, N), A.zernikeArray, (js, N), {}, js, "noll", 0.0),
                ("zernikeArray(%d,%d,rot=%r)" % (J, N, rot), A.zernikeArray, (J, N), {"rot": rot}, allj, "noll", rot),
                ("zernikeArray(%r,%d,norm=%r)" % (js, N, norm), A.zernikeArray, (js, N), {"norm": norm}, js, norm, 0.0),
                ("zernikeArray(J=%d,N=%d,rot=%r,norm=%r)" % (J, N, rot, norm), A.zernikeArray, (), {"J": J, "N": N, "rot": rot, "norm": norm}, allj, norm, rot),
                ("zernike_noll(%d,%d)" % (js[0], N), A.zernike_noll, (js[0], N), {}, js[:1], "noll", 0.0),
                ("zernike_noll(j=%d,N=%d,rot=%r)" % (js[1], N, rot), A.zernike_noll, (), {"j": js[1], "N": N, "rot": rot}, js[1:2], "noll", rot),
                ("zernike_nm(%d,%d,%d)" % (nm_of_noll(js[2]) + (N,)), A.zernike_nm, nm_of_noll(js[2]) + (N,), {}, js[2:3], "noll", 0.0),
                ("phaseFromZernikes(c,%d)" % N, A.phaseFromZernikes, (cvec, N), {}, None, "noll", 0.0),
                ("phaseFromZernikes(c,%d,rot=%r)" % (N, rot), A.phaseFromZernikes, (cvec, N), {"rot": rot}, None, "noll", rot),
                ("phaseFromZernikes(zCoeffs=c,size=%d,norm=%r)" % (N, norm), A.phaseFromZernikes, (), {"zCoeffs": cvec, "size": N, "norm": norm}, None, norm, 0.0)):
            rep = {"call": "%s.%s" % (api, desc), "N": N, "coeffs": cvec if idx is None else None, "expected_norm": nrm, "expected_rot": rt}
            chk.count("oracle:defaults")
            ok, out = lib_call(chk, "defaults", rep, fn, *args, **kw)
            if not ok:
                continue
            if idx is not None:
                out = numpy.asarray(out, dtype=float)
                bad = modes_match(out[None] if out.ndim == 2 else out, idx, N, nrm, rt)
                if bad is not None:
                    chk.fail("defaults:%s" % desc.split("(")[0], "%s is not the mode(s) %r with norm=%r, rot=%r (the documented defaults are norm='noll', rot=0): "
                             "off by %.3g × eps × size of the terms" % (desc, idx, nrm, rt, bad[1]), rep)
            else:
                refs = [ref_normalised(j, N, nrm, rt) for j in allj]
                if not all(r_[2] for r_ in refs):
                    continue
                lin = sum(v * r_[0] for v, r_ in zip(cvec, refs))
                S = sum(abs(v) * r_[1] for v, r_ in zip(cvec, refs)) + 1e-300
                e = float(numpy.max(numpy.abs(numpy.asarray(out, dtype=float) - lin) / (EPS * S))) if numpy.shape(out) == (N, N) else float("inf")
                if not e <= R5_MODE_EPS:
                    chk.fail("defaults:phaseFromZernikes", "%s is not Σ c_j·Z_j with norm=%r, rot=%r (the documented defaults are norm='noll', rot=0): "
                             "off by %.3g × eps × size of the terms" % (desc, nrm, rt, e), rep)

    # ---- (8) gamma matrices BEYOND radial order 12 (not covered by the kernel-checked tables): the analytic x/y gradient of every mode
    #          (exact coefficients) against Σ_j gamma_ij · generated mode j at the pixel centres of a small grid
    orders = ([rng.randint(13, 20), rng.randint(1, 12)] if quick else list(range(13, 25)) + [rng.randint(1, 12)])
    for nzrad in orders:
        chk.oracle_cases += 1
        chk.count("oracle:gamma-analytic:%s" % ("<=12" if nzrad <= 12 else ">12"))
        chk.case(("oracle", "r5-gamma", nzrad))
        arg = as_count(rng, nzrad)
        rep = {"call": "makegammas(%s(%d))" % (type(arg).__name__, nzrad), "nzrad": nzrad}
        ok, g = lib_call(chk, "makegammas", rep, Z.makegammas, arg)
        if not ok:
            continue
        nz = (nzrad + 1) * (nzrad + 2) // 2
        if numpy.shape(g) != (2, nz, nz):
            chk.fail("gamma:shape", "makegammas(%d).shape = %s, expected (2,%d,%d)" % (nzrad, numpy.shape(g), nz, nz), rep)
            continue
        g = numpy.asarray(g, dtype=float)
        N = rng.choice([15, 16, 19, 20])
        Zs = Z.zernikeArray(nz, N)
        co = (2 * numpy.arange(N) + 1 - N) / float(N)
        X, Y = numpy.meshgrid(co, co)
        ins = (X ** 2 + Y ** 2 <= 1.0) & (X ** 2 + Y ** 2 > 0.01)
        px, py = numpy.tensordot(g[0], Zs, 1), numpy.tensordot(g[1], Zs, 1)
        scl = max(1.0, float(abs(g).max()) * float(abs(Zs).max()))
        worst = (0.0, None)
        for j in range(1, nz + 1):
            n, m = nm_of_noll(j)
            gx, gy = analytic_gradient(n, m, X, Y)
            for name, d, p_ in (("x", gx, px[j - 1]), ("y", gy, py[j - 1])):
                e = float(abs((d - p_)[ins]).max())
                if not e <= worst[0]:
                    worst = (e, (name, j, n, m))
        _worst("gamma-analytic", worst[0] / scl)
        if not worst[0] <= R5_GAMMA_TOL * scl:
            name, j, n, m = worst[1]
            chk.fail("gamma:%s%s" % (name, ":high-order" if n > 12 else ""), "∂%s Z_%d (n=%d, m=%d) ≠ Σ_j gam%s[%d,j]·Z_j for makegammas(%d): max deviation %r on a %d-grid "
                     "(analytic gradient from the exact radial coefficients)" % (name, j, n, m, name, j - 1, nzrad, worst[0], N),
                     dict(rep, N=N, mode=j, axis=name, err=worst[0]))
    chk.notes.append("round-5 sections, largest observed / allowed: " + ", ".join("%s %.3g" % kv for kv in sorted(WORST.items())))


def run(chk):
    quick = chk.tier == "quick"
    WORST.clear()
    chk.rule = ("correspondence: Noll indices exact (exhaustive to 1e5 quick / 1e6 thorough + block boundaries up to 2^49, both the Nat.sqrt "
                "model and the literal binary64 formula); radial values |impl-model| <= 1e-11·Σ|terms|; pixels/arrays/phases <= 1e-9·max(1,|impl|); "
                "gamma entries <= 1e-6·scale (float32 storage). oracle on the real code: Noll bijection/order/parity exhaustively, explicit "
                "inverse at random large j; R(1)=1 and radial orthogonality by Gauss–Legendre (exact quadrature) <= 1e-12·Σ|c|Σ|c'|; vanish outside "
                "(exact), list = slices (1e-12), unit rms/p2v (1e-9), phase linearity (1e-9·scale), Gram-I <= (n_max+1)/N (observed <= "
                "0.63(n_max+1)/N for all N in 24..140 and 200..512, J <= 45); the Noll constant read off the pixels: |mode/(R·trig)| = sqrt(n+1) "
                "or sqrt(2(n+1)) to max(1e-9, 2000·eps·Σ|c_i|) relative (observed 4e-16); call sequences a b c b a x over the three normalisations for one (J, N, rot): "
                "count = list path asked at the same moment (1e-12; observed 0), unit rms/p2v (1e-9; observed 3e-16), phase = Σ c·list modes "
                "(1e-9·scale; observed 3e-16), same call twice bit-identical, arrays handed out earlier bit-identical after later calls; "
                "R_n^m(1)=1 at orders 21–33 within max(1e-9, 64·eps·Σ|c_i|) (observed 0: every term is an exact integer below 2^53); "
                "zernIndex through every public spelling and numpy.int32/int64 scalars = the Python-int answer; "
                "gamma identity against an exact stencil derivative <= 1e-5·scale. correspondence also: the exact-rational degeneracy table "
                "(j <= 28, N <= 12) = thresholded implementation (max-min > 1e-6, Σv² > 1e-12) = exclusion lists of the theorems; "
                "int(numpy.round(J)), int(numpy.round(N)) of dyadic float counts incl. exact ties. distinct = distinct argument tuples. "
                "ROUND 5 (generator audit) — an oracle-side reference mode (exact integer radial coefficients, pixel coordinates (2i+1-N)/N, "
                "integer-geometry pupil, Noll constants) shares nothing with the module: |mode - reference| <= 256·eps·c·Σ|c_i|r^(n-2i) per pixel "
                "(observed <= 0.9); zernikeRadialFunc vs exact rational arithmetic at dyadic radii (orders to 40, radii to 90/64, every array layout) "
                "<= 128·eps·Σ|terms| (observed <= 1.5), argument untouched; modes of radial order 13..30 through zernike_nm / zernike_noll / "
                "zernikeArray([j]) / phaseFromZernikes(e_j); one count of 236..300 modes per run; zernikeArray = stack of zernike_noll "
                "(Noll: bit-identical; p2v / rms: 1e-12, observed 0); coefficient vectors as list / tuple / float64 / float32 / int8..64 / "
                "strided / reversed / read-only / Fortran-slice / numpy-scalar lists, long (60..120) and empty, phase(2^k c) = 2^k phase(c) "
                "bit for bit (k = ±60, ±200); rotations as Python int / float32 / numpy.float64 / 0-d array / quarter turns / up to 1e4 / "
                "-0.0 / denormal <= 1e-9 (observed <= 1e-12); counts and sizes as uint32/uint64 scalars and 0-d arrays, index lists as "
                "int16..uint64 arrays, strided / reversed views, read-only; keyword / positional / default-omitted spellings and the "
                "documented defaults; package-level names are the same function objects; histories: several index lists of one length, the "
                "same list object changed in place, results overwritten by the caller before the same call is repeated (all eight "
                "functions), one mode at sizes N1 N2 N1 and as cos / sin / cos; gamma matrices of radial order 13..20 (thorough ..24) "
                "against the analytic gradient from the exact coefficients <= 1e-5·scale (observed <= 1.6e-7, float32 storage)")
    chk.assumptions = [
        "orthonormality of the modes for ALL orders and 'Gram matrix -> identity as the grid is refined' are not proved (no Jacobi-polynomial "
        "theory in Mathlib): proved radial orthogonality over R for n,n' <= 10 (radial_integral + kernel-checked table) + numeric oracle "
        "(exact Gauss-Legendre radial integrals to n = 14/24; Gram bound (n_max+1)/N, a calibrated constant (observed <= 0.63), not a "
        "theorem; the Noll constant itself is read off the generated pixels exactly (mode / (zernikeRadialFunc · cos|sin) inside the pupil), "
        "which with the exact radial norm 1/(2(n+1)) is the continuous normalisation)",
        "derivative (gamma) identities: proved as HasDerivAt statements (gamma_dx_le12, gamma_dy_le12; gamma_dx_le8, gamma_dy_le8) for the 91 "
        "modes of radial order <= 12 only: the polynomial identity dP_i = sum g_ij P_j is a kernel-checked TABLE (nzrad 8 and 12); for every "
        "nzrad the derivative claim is reduced to that decidable table (gamma_dx_of_table, gamma_dy_of_table), the bridge (modeCart = c * "
        "eval(zernPoly), Poly.dx/dy = partial derivatives of Poly.eval, gamx/gamy_cleared, gammaNM_noll) holding for all orders; orders > 12 "
        "are NOT proved (Noll's recurrence for general n is missing); they are EXERCISED only: oracle with an exact stencil derivative to "
        "nzrad 8 / 12 and (round 5) with the analytic gradient from the exact radial coefficients for one random nzrad in 13..20 per quick run, "
        "all of 13..24 in the thorough tier",
        "binary64: the square root is assumed correctly rounded hence monotone, exact on integers, relative error <= 2^-53 (hypotheses of "
        "zernIndex_float_agrees; '-1.+s' and '/2.' are exact for a binary64 s >= 1); rounding elsewhere is not modelled",
        "the polar form cos(m*atan2(y,x)+rot) of the code is tied to the Cartesian polynomial model by theorem mode_polar for points given in "
        "polar form and by the pixel correspondence; atan2 itself is not modelled",
        "degenerate normalisations (a mode constant on the grid, e.g. piston for N<=3, defocus for N=2) divide by zero in the code and are "
        "outside the domain (hypotheses hd / hS of p2v_unit / rms_unit; skipped and counted by the oracle). The hypotheses are DISCHARGED "
        "for the actual images only at rot = 0 and j <= 28, N <= 12 (p2v_unit_noll, rms_unit_noll: kernel-checked exact-rational TABLE with "
        "the exclusion lists constExcl / zeroExcl — all modes for N = 1; 1,4,6,11,12,14,15,22,24,25,26,28 constant and 4,6,12,15,22,24,25,28 "
        "zero for N = 2; 1,15,25 constant and 15,25 zero for N = 3; none for 4 <= N <= 12); for any other (j, N) they are reduced to the "
        "decidable check nonconstPix/nonzeroPix (noll_p2v_ne_zero, noll_sumsq_ne_zero) but not evaluated; for rot ≠ 0 non-degeneracy is "
        "not proved (special angles can make a mode vanish on a small grid) — sampled by the oracle only",
        "the count path's int(numpy.round(.)) is modelled for non-negative rational counts (npRound: nearest, ties to even; "
        "count_float_integral: integral floats = the integer call) and exercised with dyadic floats; negative or non-finite counts are "
        "outside the domain",
        "numpy integer SCALARS narrower than 32 bits are not generated (8*(j-1)+1 wraps for numpy.int16 j > 4096 under NumPy 2 promotion; "
        "numpy.int32 / uint32 only below 2^26); generated: Python int, int32, int64, intp, uint32, uint64, 0-d int64 arrays; index lists as "
        "list / tuple / list of numpy scalars / arrays of int16, uint16, int32, uint32, int64, uint64 (indices <= 28 there), strided, "
        "reversed and read-only views",
        "coefficient vectors of element type float32 / int8..int64 are taken at their exact values (the phase is computed in binary64); "
        "a float32 ROTATION is taken at its exact binary64 value",
        "statefulness is sampled, not proved: the model is a pure function, the oracle runs call sequences over all orders of the three "
        "normalisations for one (J, N, rot) and checks earlier results bit-for-bit after later calls",
    ]
    chk.build_and_audit("AoVerif.Props.C12", "AoVerif.Props.C12", REQUIRED)
    modes_ok = True
    try:
        _Z().zernike_noll(1, 4)
    except Exception:
        modes_ok = False
    if modes_ok:
        try:
            correspondence(chk, quick)
        except common.LeanError as ex:
            chk.broke("correspondence", "driver does not build / run", str(ex))
    else:
        chk.broke("correspondence", "the implementation's mode functions raise; correspondence cannot run")
    oracle(chk, quick)
    try:
        _Z().zernike_noll(1, 4)
    except Exception:
        return
    oracle_round5(chk, quick)
