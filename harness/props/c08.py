"""C08 — all closed-form turbulence statistics describe one von Karman model."""
import json
import math

import numpy

from .. import common, t1check

MANIFEST = {
    "text": "Lean 4 theorems over the real numbers about the five structure-function / covariance formulas and the screen "
            "power spectrum, REGENERATED from the Python source on every run (translator T1), with the Bessel function K "
            "left universally quantified: the copies agree (also in the KL module's dimensionless variables), D(0)=0 exactly, "
            "shape identity kappa_C*D(r+eps)=kappa_D*2*(C0-C(r)) with explicit constants, r0^(-5/3) scaling of all of them, "
            "ratio of the Kolmogorov copies, Yao's series -> Kolmogorov; and from the NAMED HYPOTHESES H1 (h(x)=x^(5/6)K_5/6(x) "
            "antitone with limits h0 and 0) / H2 (positive-definite radial kernel): D non-decreasing on [0,inf), 0<=D<=saturation, "
            "D->0 at 0+, D->kappa_D (L0/r0)^(5/3), 0<=C<=C0, C non-increasing, C->0, every covariance matrix of a finite point set "
            "positive semi-definite. Correspondence: the generated definitions and the normal forms used in the theorems are "
            "executed at Float against the real functions on scalars and arrays (zeros included). A direct oracle on the real "
            "code checks every clause of the property numerically, including the Hankel transform of the spectrum and the "
            "Kolmogorov limit, and supplies failing inputs.",
    "note": "Partial: H1 and H2 are classical facts about K_5/6 that Mathlib 4.33 cannot state (no Bessel functions); they are "
            "theorem hypotheses (not axioms), jointly satisfiable by one kv (H1_H2_jointly_satisfiable), and the clauses that rest on "
            "them - in particular positive semi-definiteness, whose theorem cov_posSemidef assumes H2, i.e. its own conclusion up to a "
            "non-negative factor, and which is therefore carried by the eigenvalue oracle only - as well as "
            "the Hankel-transform identity, the limit L0->infinity and the closeness of the published constants "
            "(0.17253 vs kappa_C, 0.0863, 6.88, 0.023) - are evaluated numerically by the oracle only. Trusted: Lean kernel + "
            "propext/Classical.choice/Quot.sound; Mathlib's Real.rpow/Gamma/pi as the meaning of **, scipy.special.gamma, "
            "numpy.pi; translator T1 (self-checked each run); IEEE rounding and NumPy broadcasting are exercised, not modelled.",
    "technique": "Lean 4 proof over a model regenerated from source (translator) with named analytic hypotheses + "
                 "differential correspondence at Float + oracle search",
}
REQUIRED = ["copies_agree", "psd_copies_agree", "kolmogorov_copies", "D_zero", "kl_D_zero", "vk_normal_form",
            "cov_normal_form", "vk_dimensionless", "shape_identity_normal", "shape_identity", "r0_scaling_vk",
            "r0_scaling_cov", "r0_scaling_kolmogorov", "r0_scaling_psd", "psd_nonneg", "D_nonneg", "D_le_sat",
            "D_monotone", "D_tendsto_zero", "D_saturates", "cov_bounds", "cov_antitone", "cov_tendsto_zero",
            "covIdeal_tendsto_covZero", "cov_posSemidef", "H1_H2_jointly_satisfiable", "yao_zero", "yao_tendsto_kolmogorov",
            "saturation_constant", "kolmogorov_constants_close", "D_eq_twice_cov_diff", "sat_eq_twice_variance",
            "kolmogorov_monotone", "psd_antitone", "covExt_posSemidef", "cov_eq_covExt"]
T1_NAMES = ["phase_covariance", "structure_function_vk", "structure_function_kolmogorov", "kl_stf_kolmogorov",
            "kl_stf_vonKarman", "kl_stf_vonKarman_yao", "psd_ft_phase_screen", "psd_ft_sh_phase_screen"]

KD = 0.17253                      # the constant of structure_function_vk / stf_vonKarman
EPS_COV = 1e-40                   # phase_covariance's own offset
# tolerances (see `run`): TC for anything that goes through phase_covariance, as a fraction of C0.  phase_covariance works in
# double precision since fix C08-phase-covariance-large-L0 (the 1e-5 of the float32 era is gone): calibrated on the repaired
# tree over seeds 0-9 — Lean-vs-python 2.1e-14, scalar-vs-array 4e-16, range 1.2e-15, shape identity 8e-15 (of 4 TC), monotone
# 3.3e-15 (TM), smallest eigenvalue -2.1e-16 n (TE) — so 1e-10 leaves >= 4000x and still rejects single precision (6e-8).
# TD for the other double-precision pipelines, relative to the saturation value / variance
TC, TD = 1e-10, 1e-9
TM, TE = 1e-10, 1e-10


WORST = {}


def track(key, value, tol):
    """remember the largest observed value of a toleranced quantity as a fraction of its tolerance (reported in the notes)"""
    if tol > 0 and value == value:
        WORST[key] = max(WORST.get(key, 0.0), float(value) / float(tol))


def fscalar(x):
    """value of a scalar call as a float; a function that answers a scalar with a 1-element array is reported by the
    elementwise clause (shape != ()), here its single value is used so that the other clauses can still be evaluated"""
    a = numpy.asarray(x, dtype=float)
    return float(a.reshape(-1)[0]) if a.size == 1 else float("nan")


def logu(rng, lo, hi):
    return math.exp(rng.uniform(math.log(lo), math.log(hi)))


def gen_atm(rng):
    """r0 > 0, L0 > 0 from the property's domain; now and then a very large outer scale"""
    r0 = logu(rng, 0.02, 2.0)
    u = rng.random()
    L0 = logu(rng, 0.5, 1e3) if u < 0.8 else rng.choice([1e4, 1e5, 1e6, 1e7, 3e7])
    return r0, L0


def gen_r(rng, L0, allow_zero=True):
    """a separation r >= 0: exactly 0, tiny, below / around / far above the outer scale"""
    u = rng.random()
    if allow_zero and u < 0.12:
        return 0.0, "r=0"
    if u < 0.25:
        return logu(rng, 1e-20, 1e-6), "r:tiny"
    if u < 0.31:
        # a separation bit-for-bit equal to (a small multiple of) the outer scale: tabulating D at multiples of L0 is what callers do, and
        # an implementation that uses L0 as its internal stand-in for "no separation" confuses the two (seeded change C08-I)
        return rng.choice([1.0, 1.0, 2.0, 0.5, 3.0, 0.25]) * L0, "r=k*L0"
    if u < 0.75:
        return logu(rng, 1e-6, 1.0) * L0, "r<L0"
    return logu(rng, 1.0, 1e4) * L0, "r>L0"


def kappa_c():
    from scipy.special import gamma
    return gamma(11. / 6) * gamma(5. / 6) * math.pi ** (-8. / 3) * (24 * gamma(6. / 5) / 5) ** (5. / 6)


def h_zero():
    from scipy.special import gamma
    return 2 ** (-1. / 6) * gamma(5. / 6)


# --------------------------------------------------------------------------------------------- T1 self-check
def arggen(name, rng):
    """moderate arguments on which the Float Bessel quadrature of the driver is accurate to ~1e-8 relative
    (the wide domain, zero included, is covered by `correspondence` with scale-relative tolerances)"""
    r0, L0 = logu(rng, 0.02, 2.0), logu(rng, 0.5, 1e3)
    r = logu(rng, 1e-3, 5.0) * L0
    if name in ("kl_stf_kolmogorov", "kl_stf_vonKarman", "kl_stf_vonKarman_yao"):
        L = logu(rng, 1.0, 50.0)
        return {"r": logu(rng, 1e-3, 2.0) * L, "L0": L, "L": L}
    f0 = 1. / L0
    return {"r": r, "r0": r0, "L0": L0, "seperation": r, "separation": r, "f": logu(rng, 1e-3, 1e3) * f0,
            "fm": logu(rng, 10., 1e4), "f0": f0}


# --------------------------------------------------------------------------------------------- correspondence
def correspondence(chk, n):
    """generated definitions and theorem normal forms at Float (Lean driver) vs the REAL functions, scalars and arrays"""
    from aotools.turbulence import turb, slopecovariance as sc
    from aotools.functions import karhunenLoeve as kl
    rng = chk.rng
    lines, checks = [], []          # checks: (expected value, rtol, atol, description)

    def op(kind, name, *args):
        lines.append("C08 %s %s %s" % (kind, name, " ".join(common.f2h(a) for a in args)))

    # constants used in the theorem statements
    for nm, val in (("h0", h_zero()), ("kC", kappa_c()), ("kD", KD)):
        op("m", nm)
        checks.append((val, 1e-12, 0.0, "constant %s" % nm))
    for it in range(n):
        r0, L0 = gen_atm(rng)
        A = (L0 / r0) ** (5. / 3)
        sat, c0 = KD * A, 0.5 * kappa_c() * A
        shape = tuple(rng.randint(1, 4) for _ in range(rng.choice([0, 1, 1, 2, 3])))
        cnt = int(numpy.prod(shape)) if shape else 1
        rs, classes = zip(*[gen_r(rng, L0) for _ in range(cnt)])
        for c in classes:
            chk.count("corr:" + c)
        chk.count("corr:shape-rank%d" % len(shape))
        arr = numpy.array(rs).reshape(shape) if shape else float(rs[0])
        with numpy.errstate(all="ignore"):
            Dv = numpy.asarray(sc.structure_function_vk(arr, r0, L0), dtype=float)
            Kv = numpy.asarray(kl.stf_vonKarman(arr, L0), dtype=float)
            Cv = numpy.asarray(turb.phase_covariance(arr, r0, L0), dtype=float)
            Ko = numpy.asarray(sc.structure_function_kolmogorov(arr, r0), dtype=float)
        want_shape = numpy.shape(arr)
        for fn, v in (("structure_function_vk", Dv), ("stf_vonKarman", Kv), ("phase_covariance", Cv),
                      ("structure_function_kolmogorov", Ko)):
            if v.shape != want_shape:
                chk.broke("correspondence", "%s returns shape %s for an input of shape %s" % (fn, v.shape, want_shape))
                return
        satk = KD * L0 ** (5. / 3)
        chk.case(("corr", r0, L0, rs), sample={"r0": r0, "L0": L0, "r": list(rs)[:4], "shape": list(shape)} if it < 2 else None)
        for k, r in enumerate(rs):
            d, kk, c, ko = (float(x.reshape(-1)[k]) for x in (Dv, Kv, Cv, Ko))
            # (a) the regenerated definitions, element by element
            op("f", "structure_function_vk", r, r0, L0); checks.append((d, 1e-9, 1e-3 * TD * sat, "structure_function_vk(%r,%r,%r)" % (r, r0, L0)))
            op("f", "kl_stf_vonKarman", r, L0); checks.append((kk, 1e-9, 1e-3 * TD * satk, "stf_vonKarman(%r,%r)" % (r, L0)))
            op("f", "phase_covariance", r, r0, L0); checks.append((c, 0.0, TC * c0, "phase_covariance(%r,%r,%r)" % (r, r0, L0)))
            op("f", "structure_function_kolmogorov", r, r0); checks.append((ko, 1e-12, 0.0, "structure_function_kolmogorov(%r,%r)" % (r, r0)))
            # (b) the normal forms the theorems rewrite them to
            if r > 0:
                op("m", "sfpos", r, r0, L0); checks.append((d, 1e-9, 1e-3 * TD * sat, "normal form sfPos vs structure_function_vk(%r,%r,%r)" % (r, r0, L0)))
            op("m", "cideal", r + EPS_COV, r0, L0); checks.append((c, 0.0, TC * c0, "normal form covIdeal vs phase_covariance(%r,%r,%r)" % (r, r0, L0)))
        # (c) C0 and the saturation value of the theorems vs the real code at r = 0 and r >> L0
        with numpy.errstate(all="ignore"):
            cz = fscalar(turb.phase_covariance(0., r0, L0))
            dinf = fscalar(sc.structure_function_vk(1e5 * L0, r0, L0))
        op("m", "c0", r0, L0); checks.append((cz, 0.0, TC * c0, "covZero vs phase_covariance(0,%r,%r)" % (r0, L0)))
        op("m", "sat", r0, L0); checks.append((dinf, 1e-12, 0.0, "sfSat vs structure_function_vk(1e5 L0,%r,%r)" % (r0, L0)))
    ans = common.run_driver(lines, "C08")
    bad = 0
    worst = {}
    for line, a, (e, rt, at, what) in zip(lines, ans, checks):
        chk.corr_cases += 1
        if a == "bad-op":
            ok, got = False, "bad-op"
        else:
            got = common.h2f(a)
            ok = common.close(got, e, rt, at)
            if e == e and got == got and abs(e) != float("inf"):
                key = line.split()[2]
                den = at + rt * max(abs(got), abs(e))
                worst[key] = max(worst.get(key, 0.0), abs(got - e) / den if den > 0 else 0.0)
        if not ok:
            bad += 1
            if bad <= 3:
                chk.broke("correspondence", "Lean model and real code disagree on %s: lean=%r python=%r (op `%s`)"
                          % (what, got, e, line))
    chk.notes.append("correspondence: worst |lean-python| as a fraction of the tolerance, per op: %s"
                     % json.dumps({k: float("%.2e" % v) for k, v in sorted(worst.items())}))
    return bad


# --------------------------------------------------------------------------------------------- oracle helpers
_GL = numpy.polynomial.legendre.leggauss(12)
_Z = None


def _panels(edges, fun):
    a, b = edges[:-1], edges[1:]
    x = 0.5 * (a + b)[:, None] + 0.5 * (b - a)[:, None] * _GL[0][None, :]
    return float(numpy.sum(0.5 * (b - a)[:, None] * _GL[1][None, :] * fun(x)))


def sf_from_psd(psd, r, r0, L0):
    """D(r) = 4 pi int_0^inf f Phi(f) (1 - J0(2 pi f r)) df  (2-D Hankel transform of the spectrum, no inner scale),
    composite Gauss-Legendre: log panels up to the first zero of J0, one panel per J0 lobe for 1500 lobes, then the
    non-oscillating tail (the neglected oscillating tail is < 1e-7 of D)"""
    global _Z
    from scipy.special import j0, jn_zeros
    if _Z is None:
        _Z = jn_zeros(0, 1500)
    f0 = 1. / L0
    big = 1e150                                                     # fm: exp(-(f/fm)^2) = 1 exactly for every f used, i.e. l0 -> 0 (fm^2 still finite)

    def g(f):
        return 4 * numpy.pi * f * psd(f, big, f0, r0) * (1 - j0(2 * numpy.pi * f * r))
    f1 = _Z[0] / (2 * numpy.pi * r)
    e1 = numpy.exp(numpy.linspace(math.log(1e-5 * min(f0, f1)), math.log(f1), 400))
    e2 = _Z / (2 * numpy.pi * r)
    F = e2[-1]

    def gt(u):                                                      # f = F/u
        return 4 * numpy.pi * (F / u) * psd(F / u, big, f0, r0) * F / u ** 2
    ue = numpy.concatenate([[1e-9], numpy.linspace(0, 1, 41)[1:]])
    return _panels(e1, g) + _panels(e2, g) + _panels(ue, gt)


def psd_callables(chk):
    out = {}
    for fn in ("ft_phase_screen", "ft_sh_phase_screen"):
        entry = {"module": "aotools/turbulence/phasescreen.py", "python": fn, "extract": "PSD_phi"}
        try:
            out[fn] = t1check.callable_for(chk, "psd_" + fn, dict(entry, layout=[]), ["f", "fm", "f0", "r0"])
        except Exception as ex:
            chk.broke("translator", "cannot extract PSD_phi of phasescreen.%s: %s" % (fn, ex))
    return out


# --------------------------------------------------------------------------------------------- oracle
def oracle(chk, n, n_hankel, n_psd_mat):
    """every clause of the property evaluated directly on the REAL code"""
    from aotools.turbulence import turb, slopecovariance as sc
    from aotools.functions import karhunenLoeve as kl
    rng = chk.rng
    kc, hz = kappa_c(), h_zero()
    failed = set()

    def bad(key, what, **replay):
        if key not in failed or len(chk.failures) < 40:
            chk.fail(key, what, replay)
        failed.add(key)

    def call(fn, *a):
        """call with private copies of array arguments (in-place writes are looked for separately, by `raw`)"""
        with numpy.errstate(all="ignore"):
            return fn(*[x.copy() if isinstance(x, numpy.ndarray) else x for x in a])

    def raw(fn, *a):
        with numpy.errstate(all="ignore"):
            return fn(*a)

    # ---- constants of the two formulas agree to the rounding of the published figures (numeric only)
    chk.notes.append("kappa_D/kappa_C - 1 = %.3e (6.88/6.8839 - 1 = %.3e); kappa_D/2 = %.5f vs 0.0863"
                     % (KD / kc - 1, 6.88 / 6.8839 - 1, KD / 2))

    for it in range(n):
        chk.oracle_cases += 1
        r0, L0 = gen_atm(rng)
        if rng.random() < 0.1:
            # the edges of the parameter domain (round 5): sub-millimetre … kilometre r0, outer scales of a millimetre … 1e10 m
            r0, L0 = logu(rng, 1e-4, 1e3), logu(rng, 1e-3, 1e10)
            chk.count("oracle:wide-atmosphere")
        A = (L0 / r0) ** (5. / 3)
        sat, c0 = KD * A, 0.5 * kc * A
        chk.count("oracle:L0>=1e6" if L0 >= 1e6 else "oracle:L0<1e6")
        # a sorted grid of separations: 0, tiny, log-dense through the outer scale, far beyond it (up to 1e12 L0), plus random ones
        grid = [0.0] + [gen_r(rng, L0, allow_zero=False)[0] for _ in range(12)]
        grid += list(numpy.exp(numpy.linspace(math.log(1e-8 * L0), math.log(1e4 * L0), 60))) + [1e8 * L0, 1e12 * L0]
        r = numpy.array(sorted(set(grid)))
        chk.case(("oracle", r0, L0, len(r)), sample={"r0": r0, "L0": L0, "n_r": len(r), "r[:4]": r[:4].tolist()} if it < 2 else None)
        rep = dict(r0=r0, L0=L0)
        vals = {}
        for fn, f, extra in (("structure_function_vk", sc.structure_function_vk, (r0, L0)), ("phase_covariance", turb.phase_covariance, (r0, L0)),
                             ("stf_vonKarman", kl.stf_vonKarman, (L0,)), ("structure_function_kolmogorov", sc.structure_function_kolmogorov, (r0,))):
            for dt in (numpy.float64, numpy.float32):
                arg = r.astype(dt)
                keep = arg.copy()
                v = numpy.asarray(raw(f, arg, *extra), dtype=float)
                if dt is numpy.float64:
                    vals[fn] = v
                if not numpy.array_equal(arg, keep):
                    i = int(numpy.flatnonzero(arg != keep)[0])
                    bad("inplace:" + fn, "%s modified its %s separation array in place: element %d was %r, is %r (r0=%r L0=%r)"
                        % (fn, dt.__name__, i, float(keep[i]), float(arg[i]), r0, L0), fn=fn, dtype=dt.__name__, **rep)
        D, C, Kl, Ko = (vals[k] for k in ("structure_function_vk", "phase_covariance", "stf_vonKarman", "structure_function_kolmogorov"))
        # ---- defined (finite) on the whole domain, scalars and arrays, zero included
        for fn, f, v, extra in (("structure_function_vk", sc.structure_function_vk, D, (r0, L0)),
                                ("phase_covariance", turb.phase_covariance, C, (r0, L0)),
                                ("stf_vonKarman", kl.stf_vonKarman, Kl, (L0,)),
                                ("structure_function_kolmogorov", sc.structure_function_kolmogorov, Ko, (r0,))):
            if v.shape != r.shape:
                bad("shape:" + fn, "%s returns shape %s for shape %s" % (fn, v.shape, r.shape), fn=fn, **rep)
                return
            for i in numpy.flatnonzero(~numpy.isfinite(v))[:2]:
                bad("nan:%s:%s" % (fn, "r=0" if r[i] == 0 else "r>0"),
                    "%s(%r, %s) = %r (array call)" % (fn, float(r[i]), ", ".join(map(repr, extra)), float(v[i])),
                    fn=fn, r=float(r[i]), **rep)
            s0 = numpy.asarray(call(f, 0.0, *extra), dtype=float)          # scalar call at exactly zero
            if s0.shape != () or not numpy.isfinite(s0):
                bad("nan:%s:r=0" % fn, "%s(0.0, %s) = %r (scalar call)" % (fn, ", ".join(map(repr, extra)), s0.tolist()),
                    fn=fn, r=0.0, **rep)
            # scalar calls agree with the array call (elementwise function), repeated calls agree (no state)
            for i in (rng.randrange(len(r)), rng.randrange(len(r))):
                s = numpy.asarray(call(f, float(r[i]), *extra), dtype=float)
                at = TC * c0 if fn == "phase_covariance" else 1e-14 * (sat if fn != "stf_vonKarman" else KD * L0 ** (5. / 3))
                if fn == "phase_covariance" and s.shape == ():
                    track("elementwise:phase_covariance", abs(float(s) - float(v[i])), 1e-13 * abs(float(v[i])) + at)
                if s.shape != () or not common.close(float(s), float(v[i]), 1e-13, at):
                    s = s.reshape(-1)[:1] if s.size else numpy.array([float("nan")])
                    bad("elementwise:" + fn, "%s(%r) as a scalar gives %r, inside an array %r" % (fn, float(r[i]), s.tolist(), float(v[i])),
                        fn=fn, r=float(r[i]), **rep)
            v2 = numpy.asarray(call(f, r, *extra), dtype=float)
            if not numpy.array_equal(v, v2, equal_nan=True):
                bad("repeat:" + fn, "two identical calls of %s return different values" % fn, fn=fn, **rep)
        if not (numpy.isfinite(D).all() and numpy.isfinite(C).all() and numpy.isfinite(Kl).all()):
            continue
        # ---- zero at zero separation
        for fn, v in (("structure_function_vk", D), ("stf_vonKarman", Kl), ("structure_function_kolmogorov", Ko)):
            if v[0] != 0.0:
                bad("zero:" + fn, "%s(0) = %r, not 0 (r0=%r L0=%r)" % (fn, float(v[0]), r0, L0), fn=fn, **rep)
        # ---- the copies agree
        e = numpy.abs(Kl * r0 ** (-5. / 3) - D)
        i = int(numpy.argmax(e))
        if e[i] > 1e-12 * abs(D[i]) + 1e-14 * sat:
            bad("copies:stf_vonKarman(r,L0)", "r0^(-5/3) stf_vonKarman(r, L0) = %r but structure_function_vk(r, r0, L0) = %r at r=%r r0=%r L0=%r"
                % (float(Kl[i] * r0 ** (-5. / 3)), float(D[i]), float(r[i]), r0, L0), r=float(r[i]), **rep)
        Kd = numpy.asarray(call(kl.stf_vonKarman, r / r0, L0 / r0), dtype=float)
        e = numpy.abs(Kd - D)
        i = int(numpy.argmax(e))
        if not e[i] <= 1e-9 * abs(D[i]) + 1e-13 * sat:
            bad("copies:stf_vonKarman(r/r0,L0/r0)", "stf_vonKarman(r/r0, L0/r0) = %r but structure_function_vk(r, r0, L0) = %r at r=%r r0=%r L0=%r"
                % (float(Kd[i]), float(D[i]), float(r[i]), r0, L0), r=float(r[i]), **rep)
        Kk = numpy.asarray(call(kl.stf_kolmogorov, r / r0), dtype=float)
        pos = Ko > 0
        if not (numpy.all(Kk[~pos] == 0) and numpy.abs(Kk[pos] / Ko[pos] - 1).max() <= 1e-3
                and numpy.ptp(Kk[pos] / Ko[pos]) <= 1e-12):
            i = int(numpy.flatnonzero(pos)[numpy.argmax(numpy.abs(Kk[pos] / Ko[pos] - 1))])
            bad("copies:kolmogorov", "stf_kolmogorov(r/r0) = %r and structure_function_kolmogorov(r, r0) = %r at r=%r r0=%r differ by more than "
                "the rounding of their constants (or not by one constant factor)" % (float(Kk[i]), float(Ko[i]), float(r[i]), r0), r=float(r[i]), r0=r0)
        # ---- structure function = 2 (C(0) - C(r)).  Constant-free shape: D(r)/D(inf) = (C(0) - C(r))/C(0) to the
        #      precision of phase_covariance; and D(inf) = 2 C(0) to the rounding of the published constant 0.17253
        dinf = fscalar(call(sc.structure_function_vk, 1e5 * L0, r0, L0))
        twice = 2 * (C[0] - C)
        e = numpy.abs(D * 2 * C[0] - dinf * twice)
        i = int(numpy.argmax(e))
        track("shape:D/Dinf=(C0-C)/C0", e[i], 4 * TC * c0 * dinf)
        if not e[i] <= 4 * TC * c0 * dinf:
            bad("shape:D/Dinf=(C0-C)/C0", "D(r)/D(inf) = %r but (C(0) - C(r))/C(0) = %r at r=%r r0=%r L0=%r"
                % (float(D[i] / dinf), float(twice[i] / (2 * C[0])), float(r[i]), r0, L0), r=float(r[i]), **rep)
        e = numpy.abs(D - twice) - 1e-3 * numpy.abs(D)
        i = int(numpy.argmax(e))
        # absolute slack 1e-9·C(0): the binary64 covariance resolves C(0) − C(r) to ~1e-15·C(0); a covariance that is flat near
        # zero (or only single precision) makes D = 2(C(0) − C(r)) wrong by 100 % at small separations while staying within 1e-5·C(0)
        track("shape:D=2(C0-C)", e[i], 1e-9 * c0)
        if not e[i] <= 1e-9 * c0:
            bad("shape:D=2(C0-C)", "D(r) = %r but 2 (C(0) - C(r)) = %r at r=%r r0=%r L0=%r (more than the rounding of the published constants)"
                % (float(D[i]), float(twice[i]), float(r[i]), r0, L0), r=float(r[i]), **rep)
        # ---- non-decreasing, bounded by the saturation value, saturating at twice the variance 0.0863 (L0/r0)^(5/3)
        dd = numpy.diff(D)
        i = int(numpy.argmin(dd))
        if dd[i] < -1e-12 * sat:
            bad("monotone:structure_function_vk", "D decreases from %r at r=%r to %r at r=%r (r0=%r L0=%r)"
                % (float(D[i]), float(r[i]), float(D[i + 1]), float(r[i + 1]), r0, L0), r=[float(r[i]), float(r[i + 1])], **rep)
        dc = numpy.diff(C)
        i = int(numpy.argmax(dc))
        track("monotone:phase_covariance", dc[i], TM * c0)
        if dc[i] > TM * c0:
            bad("monotone:phase_covariance", "C increases from %r at r=%r to %r at r=%r (r0=%r L0=%r)"
                % (float(C[i]), float(r[i]), float(C[i + 1]), float(r[i + 1]), r0, L0), r=[float(r[i]), float(r[i + 1])], **rep)
        if D.min() < -1e-12 * sat or D.max() > dinf * (1 + 1e-12):
            i = int(numpy.argmax(numpy.abs(D - sat / 2)))
            bad("range:structure_function_vk", "D(%r) = %r outside [0, D(inf) = %r]" % (float(r[i]), float(D[i]), dinf),
                r=float(r[i]), **rep)
        track("range:phase_covariance", max(-C.min(), C.max() - c0), TC * c0)
        if C.min() < -TC * c0 or C.max() > c0 * (1 + TC):
            i = int(numpy.argmax(numpy.abs(C - c0 / 2)))
            bad("range:phase_covariance", "C(%r) = %r outside [0, C0 = %r]" % (float(r[i]), float(C[i]), c0), r=float(r[i]), **rep)
        far = r >= 30 * L0
        if far.any() and not numpy.allclose(D[far], dinf, rtol=1e-9, atol=0):
            i = int(numpy.flatnonzero(far)[0])
            bad("saturation:structure_function_vk", "D(%r) = %r has not saturated: D(1e5 L0) = %r" % (float(r[i]), float(D[i]), dinf),
                r=float(r[i]), **rep)
        if not abs(dinf / (2 * 0.0863 * A) - 1) <= 1e-3:
            bad("saturation:0.0863", "D(r >> L0) = %r is not twice 0.0863 (L0/r0)^(5/3) = %r to the rounding of that figure" % (dinf, 2 * 0.0863 * A), **rep)
        if far.any():
            track("saturation:phase_covariance", numpy.abs(C[far]).max(), TC * c0)
        if far.any() and not numpy.all(numpy.abs(C[far]) <= TC * c0):
            bad("saturation:phase_covariance", "C(r >= 30 L0) does not vanish: %r" % float(numpy.abs(C[far]).max()), **rep)
        # continuity at zero: D at the smallest positive separations is as small as the 5/3 law says
        small = (r > 0) & (r <= 1e-6 * L0)
        if small.any() and not numpy.all(D[small] <= 10 * 6.88 * (r[small] / r0) ** (5. / 3) + 1e-12 * sat):
            i = int(numpy.flatnonzero(small)[numpy.argmax(D[small])])
            bad("zero-limit:structure_function_vk", "D(%r) = %r does not tend to 0 with r (r0=%r L0=%r)" % (float(r[i]), float(D[i]), r0, L0),
                r=float(r[i]), **rep)
        # ---- r0^(-5/3) scaling
        c = logu(rng, 0.2, 5.0)
        s = c ** (-5. / 3)
        for fn, f, v, extra in (("structure_function_vk", sc.structure_function_vk, D, (L0,)),
                                ("phase_covariance", turb.phase_covariance, C, (L0,)),
                                ("structure_function_kolmogorov", sc.structure_function_kolmogorov, Ko, ())):
            v2 = numpy.asarray(call(f, r, c * r0, *extra), dtype=float)
            tol_abs = TC * c0 * s if fn == "phase_covariance" else 1e-300
            e = numpy.abs(v2 - s * v) - 1e-11 * numpy.abs(s * v)
            i = int(numpy.argmax(e))
            if fn == "phase_covariance":
                track("scaling:phase_covariance", e[i], tol_abs)
            if not e[i] <= tol_abs:
                bad("scaling:" + fn, "%s(r, c r0) = %r but c^(-5/3) %s(r, r0) = %r at r=%r r0=%r c=%r L0=%r"
                    % (fn, float(v2[i]), fn, float(s * v[i]), float(r[i]), r0, c, L0), fn=fn, r=float(r[i]), c=c, **rep)
        # ---- Kolmogorov law 6.88 (r/r0)^(5/3) as L0 grows: first correction -1.485 (r/L0)^(1/3) (Yao), both copies
        q = r / L0
        m = (q >= 1e-7) & (q <= 0.03)
        br = 1 - 1.485 * q[m] ** (1. / 3) + 5.383 * q[m] ** 2 - 6.281 * q[m] ** (7. / 3)
        e = numpy.abs(D[m] / Ko[m] - br)
        if m.any() and not e.max() <= 1e-3:
            i = int(numpy.flatnonzero(m)[numpy.argmax(e)])
            bad("kolmogorov-limit:structure_function_vk", "D_vk / (6.88 (r/r0)^(5/3)) = %r at r/L0 = %r, expected %r (-> 1 as L0 grows)"
                % (float(D[i] / Ko[i]), float(q[i]), float(1 - 1.485 * q[i] ** (1. / 3) + 5.383 * q[i] ** 2 - 6.281 * q[i] ** (7. / 3))),
                r=float(r[i]), **rep)
        Y = numpy.asarray(call(kl.stf_vonKarman_yao, r[m] / r0, L0 / r0), dtype=float)
        e = numpy.abs(Y / Kd[m] - 1)
        if m.any() and not e.max() <= 1e-3:
            i = int(numpy.argmax(e))
            bad("yao:stf_vonKarman_yao", "stf_vonKarman_yao = %r but stf_vonKarman = %r at r/r0=%r L0/r0=%r"
                % (float(Y[i]), float(Kd[m][i]), float(r[m][i] / r0), L0 / r0), r=float(r[m][i]), **rep)

    # ---- the limit itself, as far as binary64 allows: at r/L0 = 1e-7 the ratio to 6.88 (r/r0)^(5/3) is within 0.7 %
    for L0 in (1e6, 1e7):
        chk.oracle_cases += 1
        r0 = logu(rng, 0.05, 1.0)
        rr = 1e-7 * L0
        ratio = fscalar(call(sc.structure_function_vk, rr, r0, L0)) / fscalar(call(sc.structure_function_kolmogorov, rr, r0))
        chk.case(("oracle-limit", L0, r0))
        if not abs(ratio - 1) <= 7.5e-3:
            bad("kolmogorov-limit:L0=1e6", "structure_function_vk / Kolmogorov = %r at r=%r r0=%r L0=%r" % (ratio, rr, r0, L0), r=rr, r0=r0, L0=L0)

    # ---- every matrix of covariances between arbitrary points is positive semi-definite
    for it in range(n_psd_mat):
        chk.oracle_cases += 1
        r0, L0 = gen_atm(rng)
        c0 = 0.5 * kc * (L0 / r0) ** (5. / 3)
        npts = rng.randint(2, 40)
        kind = rng.choice(["cloud", "cloud", "grid", "line", "clustered", "duplicates"])
        nprng = numpy.random.default_rng(rng.getrandbits(32))
        scale = logu(rng, 1e-3, 30.0) * L0
        if kind == "grid":
            k = max(2, int(math.sqrt(npts)))
            g = numpy.stack(numpy.meshgrid(numpy.arange(k), numpy.arange(k)), -1).reshape(-1, 2) * scale / k
            P = g.astype(float)
        elif kind == "line":
            P = numpy.stack([numpy.sort(nprng.uniform(0, scale, npts)), numpy.zeros(npts)], -1)
        elif kind == "clustered":
            P = nprng.normal(size=(npts, 2)) * scale * 1e-3 + nprng.integers(0, 2, size=(npts, 1)) * scale
        else:
            P = nprng.uniform(-scale, scale, size=(npts, 2))
            if kind == "duplicates":
                P[npts // 2:] = P[:npts - npts // 2]
        chk.count("psd-matrix:" + kind)
        chk.case(("oracle-psd", kind, r0, L0, scale, len(P)), sample={"points": kind, "n": len(P), "r0": r0, "L0": L0, "scale": scale} if it < 1 else None)
        dist = numpy.sqrt(((P[:, None, :] - P[None, :, :]) ** 2).sum(-1))
        M = numpy.asarray(call(turb.phase_covariance, dist, r0, L0), dtype=float)
        if M.shape != dist.shape or not numpy.isfinite(M).all():
            bad("nan:phase_covariance:matrix", "phase_covariance of a %s distance matrix is not finite / wrong shape" % (dist.shape,),
                points=P.tolist(), r0=r0, L0=L0)
            continue
        lam = numpy.linalg.eigvalsh(0.5 * (M + M.T))
        track("posdef:phase_covariance", -lam.min(), TE * len(P) * c0)
        if not (numpy.abs(M - M.T).max() <= 1e-12 * c0 and lam.min() >= -TE * len(P) * c0):
            bad("posdef:phase_covariance", "covariance matrix of %d points (%s, scale %r) has smallest eigenvalue %r (C0 = %r), asymmetry %r"
                % (len(P), kind, scale, float(lam.min()), c0, float(numpy.abs(M - M.T).max())), points=P.tolist(), r0=r0, L0=L0)

    # ---- the copy the Karhunen-Loeve code actually USES: the covariance kernel of gkl_kernel holds, for every pair of radii, the
    # azimuthal DFT of the structure function at the separations of the polar grid points; undoing that DFT gives the statistic
    # inside the kernel, which must be the slope-covariance copy at the true separations sqrt(ri²+rj²−2 ri rj cos(2πk/nth))/2
    # (odd and even numbers of radial elements, Kolmogorov and von Kármán)
    for nr in (5, 6, 7, 8, 9, 11, 12):
        for ri in (0.12, 0.45):
            # every spelling of the structure-function tag the kernel accepts, small outer scales included (a series valid for
            # r << L0 is indistinguishable from the closed form at L0 = 20)
            for tag, L0 in (("kolmogorov", None), ("kolstf", None), ("vonKarman", float(rng.choice([0.6, 3.0, 20.0]))),
                            ("karman", float(rng.choice([0.5, 1.0, 3.0]))), ("vk", float(rng.choice([0.5, 1.0, 20.0])))):
                chk.oracle_cases += 1
                chk.count("oracle:kl-kernel:%s" % tag)
                chk.case(("oracle-kl-kernel", nr, ri, tag, L0))
                with numpy.errstate(all="ignore"):
                    rad = numpy.asarray(kl.gkl_radii(ri, nr), dtype=float)
                    ker = numpy.asarray(kl.gkl_kernel(ri, nr, rad.copy(), tag, L0) if L0 else kl.gkl_kernel(ri, nr, rad.copy(), tag))
                nth = ker.shape[2]
                fnorm = 1. / 2. * (-1) / (2 * numpy.pi * (1 - ri ** 2))
                used = numpy.fft.ifft(ker, axis=2).real / (fnorm * 2 * numpy.pi / nth)
                th = 2 * numpy.pi * numpy.arange(nth) / nth
                sep = 0.5 * numpy.sqrt(numpy.maximum(rad[:, None, None] ** 2 + rad[None, :, None] ** 2
                                                     - 2 * rad[:, None, None] * rad[None, :, None] * numpy.cos(th)[None, None, :], 0))
                # reference: the KL module's own copy at the true separations (its agreement with the slope-covariance copy — to the
                # rounding of the published constants 6.8839 / 6.88 — is the `copies:*` clauses above), so this comparison is to rounding
                with numpy.errstate(all="ignore"):
                    want = numpy.asarray(kl.stf_kolmogorov(sep) if L0 is None else kl.stf_vonKarman(sep, L0), dtype=float)
                if L0 is not None:      # … and the von Kármán copy is the slope-covariance one (closed form: constants agree to 1e-9)
                    with numpy.errstate(all="ignore"):
                        want_sc = numpy.asarray(sc.structure_function_vk(sep, 1.0, L0), dtype=float)
                    if not float(numpy.abs(want - want_sc).max()) <= 1e-6 * float(numpy.abs(want_sc).max()):
                        want = want_sc
                err = float(numpy.abs(used - want).max() / numpy.abs(want).max())
                if not err <= 1e-10:         # observed ≤ 1e-15; a wrong angle or radius gives ≥ 1e-2
                    i, j, k = numpy.unravel_index(int(numpy.argmax(numpy.abs(used - want))), used.shape)
                    bad("copies:kl-kernel:%s:%s-nr" % (tag, "odd" if nr % 2 else "even"),
                        "the structure function inside gkl_kernel(ri=%r, nr=%d, %s%s) is %r for radii %r, %r at azimuth 2π·%d/%d, where "
                        "the %s copy gives %r at that separation (max deviation %.3g of the largest value)"
                        % (ri, nr, tag, "" if L0 is None else ", outerscale=%r" % L0, float(used[i, j, k]), float(rad[i]), float(rad[j]),
                           k, nth, "kolmogorov" if L0 is None else "vonKarman", float(want[i, j, k]), err), ri=ri, nr=nr, L0=L0, stfunc=tag)

    # ---- the spectrum used to generate screens: both copies identical, r0^(-5/3), and its Hankel transform is D
    psds = psd_callables(chk)
    # the spectrum each screen function really uses, observed THROUGH the public function (unit draws: t1check.OBSERVERS), against the
    # PSD_phi expression with the parameters the property names — fm = 5.92/(2π l0), f0 = 1/L0: ties the arguments of the expression
    # (which inner / outer scale is handed to it), not only its form
    for fn in ("ft_phase_screen", "ft_sh_phase_screen"):
        obs = t1check.OBSERVERS.get("psd_" + fn)
        if fn not in psds or obs is None or getattr(psds[fn], "is_observer", False):
            continue
        for it in range(6):
            r0, L0, l0 = logu(rng, 0.05, 0.5), logu(rng, 1.0, 100.0), logu(rng, 0.001, 0.05)
            f = logu(rng, 0.02, 20.0)
            fm, f0 = 5.92 / (2 * numpy.pi * l0), 1. / L0
            chk.oracle_cases += 1
            chk.count("oracle:psd-observed:" + fn)
            chk.case(("oracle-psd-observed", fn, r0, L0, l0, f))
            try:
                with numpy.errstate(all="ignore"):
                    got, want = float(obs(f, fm, f0, r0)), float(call(psds[fn], f, fm, f0, r0))
            except Exception as ex:
                chk.broke("correspondence", "the spectrum of %s cannot be observed through the public function (%s: %s)" % (fn, type(ex).__name__, str(ex)[:120]))
                break
            if not abs(got - want) <= 1e-9 * abs(want):
                bad("psd:observed:" + fn, "%s(r0=%.4g, L0=%.4g, l0=%.4g): the spectrum the screen is made from, observed with unit draws at f = %.4g, "
                    "is %.6g; PSD_phi(f, fm = 5.92/(2π l0), f0 = 1/L0, r0) = %.6g" % (fn, r0, L0, l0, f, got, want), r0=r0, L0=L0, l0=l0, f=f)
                break
    if len(psds) == 2:
        for it in range(n_hankel):
            chk.oracle_cases += 1
            r0, L0 = logu(rng, 0.02, 2.0), logu(rng, 0.5, 1e3)
            f = numpy.array([0.0] + [logu(rng, 1e-4, 1e4) / L0 for _ in range(6)])
            fm = logu(rng, 10., 1e5)
            p1, p2 = (numpy.asarray(call(p, f, fm, 1. / L0, r0), dtype=float) for p in (psds["ft_phase_screen"], psds["ft_sh_phase_screen"]))
            chk.case(("oracle-psd-hankel", r0, L0), sample={"hankel": True, "r0": r0, "L0": L0} if it < 1 else None)
            if not numpy.allclose(p1, p2, rtol=1e-12, atol=0):      # the two copies of one formula: equal to rounding (not bitwise — a
                # copy may be written differently, and an observed spectrum carries the rounding of the screen it was read from)
                bad("copies:PSD_phi", "ft_phase_screen and ft_sh_phase_screen use different spectra at f=%s fm=%r L0=%r r0=%r" % (f.tolist(), fm, L0, r0),
                    f=f.tolist(), fm=fm, r0=r0, L0=L0)
            if not (numpy.isfinite(p1).all() and (p1 >= 0).all() and numpy.all(numpy.diff(p1[numpy.argsort(f)]) <= 0)):
                bad("psd:positive-decreasing", "PSD_phi is not a finite, non-negative, decreasing function of f (L0=%r r0=%r fm=%r)" % (L0, r0, fm),
                    f=f.tolist(), fm=fm, r0=r0, L0=L0)
            c = logu(rng, 0.2, 5.0)
            p3 = numpy.asarray(call(psds["ft_phase_screen"], f, fm, 1. / L0, c * r0), dtype=float)
            # atol: where exp(-(f/fm)^2) leaves the spectrum in the subnormal range (< 2.2e-308, a few bits of precision) no scaling law
            # can hold to 1e-11 — that was a false alarm on the unchanged library in 3e-4 of the cases (round 5, thorough seed 11)
            if not numpy.allclose(p3, c ** (-5. / 3) * p1, rtol=1e-11, atol=1e-290):
                bad("scaling:PSD_phi", "PSD_phi does not scale as r0^(-5/3) (r0=%r c=%r)" % (r0, c), r0=r0, c=c, L0=L0)
            ratios = []
            for q in (0.003, 0.05, 0.7, 6.0):
                rr = q * L0
                dv = fscalar(call(sc.structure_function_vk, rr, r0, L0))
                dp = sf_from_psd(psds["ft_phase_screen"], rr, r0, L0)
                ratios.append(dp / dv)
            if not (max(ratios) - min(ratios) <= 1e-5 and abs(ratios[0] - 1) <= 1e-2):
                bad("hankel:PSD_phi", "4 pi int f PSD (1 - J0(2 pi f r)) df / structure_function_vk(r) = %s at r/L0 = (0.003, 0.05, 0.7, 6) "
                    "(must be one constant within 1 %% of 1: rounding of 0.023), r0=%r L0=%r" % (ratios, r0, L0), r0=r0, L0=L0)
            elif it == 0:
                chk.notes.append("Hankel transform of PSD_phi / structure_function_vk = %.6f (constant in r to %.1e): the rounding of 0.023"
                                 % (ratios[0], max(ratios) - min(ratios)))


def input_classes(chk, n):
    """the same separations / atmosphere handed over in the other forms callers use — integer arrays and Python / NumPy
    integer scalars for r, integer r0 and L0 (the stf_vonKarman docstring suggests L0 = 3), 2-D and 3-D arrays, non-contiguous
    views (strided, reversed, transposed, broadcast, Fortran order) — must give the values of the plain float64 1-D call"""
    from aotools.turbulence import turb, slopecovariance as sc
    from aotools.functions import karhunenLoeve as kl
    rng = chk.rng
    fns = [("structure_function_vk", lambda r, r0, L0: sc.structure_function_vk(r, r0, L0)),
           ("phase_covariance", lambda r, r0, L0: turb.phase_covariance(r, r0, L0)),
           ("stf_vonKarman", lambda r, r0, L0: kl.stf_vonKarman(r, L0)),
           ("structure_function_kolmogorov", lambda r, r0, L0: sc.structure_function_kolmogorov(r, r0)),
           ("stf_kolmogorov", lambda r, r0, L0: kl.stf_kolmogorov(r))]

    def views(x):
        """(class, array holding the same values as the 1-D float64 array x — 24 elements — in another layout)"""
        big = numpy.empty(2 * x.size, dtype=x.dtype)
        big[::2] = x
        big[1::2] = -1.0 if x.dtype.kind == "f" else 7
        rev = x[::-1].copy()
        out = [("2-D", x.reshape(4, 6)), ("3-D", x.reshape(2, 3, 4)), ("strided", big[::2]), ("reversed", rev[::-1]),
               ("transposed", numpy.ascontiguousarray(x.reshape(4, 6).T).T), ("fortran", numpy.asfortranarray(x.reshape(4, 6))),
               ("column-of-2-D", numpy.stack([x, x + 1], -1)[:, 0]), ("broadcast", numpy.broadcast_to(x, (3, x.size)))]
        return out

    for it in range(n):
        chk.oracle_cases += 1
        L0i = rng.choice([3, 3, 20, 25, 100])
        r0i = rng.choice([1, 1, 2])
        ri = numpy.array([0, 0, 1, 2, 3, 5] + [rng.randint(0, 4 * L0i) for _ in range(18)], dtype=numpy.int64)
        rng.shuffle(ri)
        rf = ri.astype(float)
        r0f, L0f = gen_atm(rng)
        rfrac = numpy.array([gen_r(rng, L0f)[0] for _ in range(24)])
        chk.case(("input-classes", r0i, L0i, ri.tolist(), r0f, L0f), sample={"r0": r0i, "L0": L0i, "r": ri[:6].tolist()} if it < 1 else None)
        for fn, f in fns:
            def ev(r, r0, L0):
                with numpy.errstate(all="ignore"):
                    return numpy.asarray(f(r, r0, L0), dtype=float)

            def same(cls, got, want, **rep):
                chk.count("input-class:" + cls)
                if got.shape != want.shape or not numpy.allclose(got, want, rtol=1e-13, atol=0, equal_nan=False):
                    w = None if got.shape != want.shape else int(numpy.argmax(~numpy.isclose(got, want, rtol=1e-13, atol=0)))
                    chk.fail("input-class:%s:%s" % (fn, cls), "%s with %s returns %s, the plain float64 call %s (r0=%r L0=%r)"
                             % (fn, cls, "shape %s" % (got.shape,) if w is None else repr(float(got.reshape(-1)[w])),
                                "shape %s" % (want.shape,) if w is None else repr(float(want.reshape(-1)[w])), rep.get("r0"), rep.get("L0")),
                             dict(fn=fn, input_class=cls, **rep))
            # -- integer-valued separations and atmosphere
            ref = ev(rf, float(r0i), float(L0i))
            rep = dict(r0=r0i, L0=L0i, r=ri.tolist())
            for cls, arr in (("r:int64-array", ri), ("r:int32-array", ri.astype(numpy.int32)), ("r:uint16-array", ri.astype(numpy.uint16))):
                keep = arr.copy()
                same(cls, ev(arr, float(r0i), float(L0i)), ref, **rep)
                if not numpy.array_equal(arr, keep):
                    chk.fail("inplace:%s" % fn, "%s modified its integer separation array in place" % fn, dict(fn=fn, **rep))
            same("r0,L0:int", ev(rf, r0i, L0i), ref, **rep)
            same("r0,L0:numpy.int64", ev(rf, numpy.int64(r0i), numpy.int64(L0i)), ref, **rep)
            same("r,r0,L0:all-int", ev(ri, r0i, L0i), ref, **rep)
            for k in (0, 1, rng.randrange(24)):
                for cls, conv in (("r:int-scalar", int), ("r:numpy.int64-scalar", numpy.int64), ("r:0-d-int-array", numpy.array)):
                    same(cls, ev(conv(int(ri[k])), r0i, L0i), ref[k], **dict(rep, r=int(ri[k])))
            # -- layouts, on generic (fractional) and on integer separations
            for x, a, b, rp in ((rfrac, r0f, L0f, dict(r0=r0f, L0=L0f, r=rfrac.tolist())), (ri, r0i, L0i, rep)):
                base = ev(x.astype(float), float(a), float(b))
                for cls, v in views(x):
                    want = numpy.broadcast_to(base, v.shape) if cls == "broadcast" else base.reshape(v.shape)
                    assert numpy.array_equal(numpy.asarray(v, dtype=float), numpy.broadcast_to(x.astype(float), v.shape).reshape(v.shape)
                                             if cls == "broadcast" else x.astype(float).reshape(v.shape))
                    same("layout:" + cls, ev(v, a, b), want, **rp)
                # a SQUARE 2-D array of separations that is not a symmetric matrix (the cross block between two different point sets of
                # equal size): the value at [i, j] is that of the separation at [i, j] (seeded change C08-J evaluated the upper triangle
                # of every square array and mirrored it)
                sq = x[:16].astype(float).reshape(4, 4)
                same("layout:square-non-symmetric", ev(sq, a, b), base[:16].reshape(4, 4), **rp)
                sq9 = numpy.concatenate([x, x[:1]]).astype(float).reshape(5, 5)[::-1]
                same("layout:square-non-symmetric", ev(sq9, a, b), numpy.concatenate([base, base[:1]]).reshape(5, 5)[::-1], **rp)


def float32_separations(chk, n):
    """phase_covariance converts its separations to double precision before anything else: single-precision separations (exact in
    float32, so both spellings denote the same geometry) give the double-precision covariance — including at r = 0 for any outer
    scale, at millimetre separations, and for dense point sets, where a covariance evaluated in float32 is off by per cent, not PSD,
    or NaN"""
    from aotools.turbulence import turb
    rng = chk.rng
    for it in range(n):
        r0, L0 = logu(rng, 0.05, 0.5), rng.choice([logu(rng, 1.0, 100.0), logu(rng, 100.0, 1e4), 1e6, 1e7])
        r64 = numpy.array([0.0, 2 ** -9, 2 ** -8, 3 * 2 ** -9] + [rng.randint(0, 2 ** 16) * 2.0 ** -9 for _ in range(20)])
        r32 = r64.astype(numpy.float32)
        assert numpy.array_equal(r32.astype(float), r64)
        chk.oracle_cases += 1
        chk.count("oracle:float32-separations")
        chk.case(("float32-separations", r0, L0, it))
        with numpy.errstate(all="ignore"):
            ref = numpy.asarray(turb.phase_covariance(r64, r0, L0), dtype=float)
            c0 = float(ref[0])
            for cls, got in (("float32-array", turb.phase_covariance(r32, r0, L0)),
                             ("float32-scalar", numpy.array([turb.phase_covariance(x, r0, L0) for x in r32[:6]], dtype=float).ravel()),
                             ("float32-2d", numpy.asarray(turb.phase_covariance(r32.reshape(4, 6), r0, L0)).ravel())):
                got = numpy.asarray(got, dtype=float).ravel()
                want = ref[:len(got)]
                if got.shape != want.shape or not (numpy.isfinite(got).all() and float(numpy.abs(got - want).max()) <= 1e-12 * c0):
                    k = int(numpy.argmax(numpy.where(numpy.isfinite(got), numpy.abs(got - want), numpy.inf))) if got.shape == want.shape else 0
                    chk.fail("input-class:phase_covariance:%s" % cls, "phase_covariance(%s r, r0=%.4g, L0=%.4g) differs from the same separations "
                             "in double precision: %r vs %r at r = %r (C(0) = %.6g)" % (cls, r0, L0, float(got[k]) if len(got) else None,
                                                                                      float(want[k]), float(r64[k]), c0),
                             dict(r0=r0, L0=L0, r=r64.tolist(), cls=cls))
                    break



# ------------------------------------------------------------------------------------------ round 5: generator audit
def _fn_table():
    from aotools.turbulence import turb, slopecovariance as sc
    from aotools.functions import karhunenLoeve as kl
    return [("structure_function_vk", lambda r, r0, L0: sc.structure_function_vk(r, r0, L0)),
            ("phase_covariance", lambda r, r0, L0: turb.phase_covariance(r, r0, L0)),
            ("stf_vonKarman", lambda r, r0, L0: kl.stf_vonKarman(r, L0)),
            ("structure_function_kolmogorov", lambda r, r0, L0: sc.structure_function_kolmogorov(r, r0)),
            ("stf_kolmogorov", lambda r, r0, L0: kl.stf_kolmogorov(r))]


def _ev(f, r, r0, L0):
    with numpy.errstate(all="ignore"):
        return numpy.asarray(f(r, r0, L0), dtype=float)


def near_equal_history(chk, n):
    """call HISTORIES a cache keyed on rounded parameters gets wrong (the main oracle draws r0 and L0 afresh for every case, so two
    atmospheres that agree to 4-9 digits only meet by accident): sequences of calls whose r0 or L0 differ by 2.7e-3, 1e-5, 1e-8
    relative (r0 = 0.1500 then 0.1504, L0 = 25 then 25.0004, sub-millimetre r0 pairs), every call checked against the previous
    ones by the exact scaling laws of the one von Kármán model:  f(r; c·r0, L0) = c^(-5/3) f(r; r0, L0)  and
    f(c·r; r0, c·L0) = c^(5/3) f(r; r0, L0)  (D = κ (L0/r0)^(5/3) F(r/L0)), for the structure function, the covariance and the KL
    copy; the KL copy called BEFORE the slope-covariance one for a fresh atmosphere (the main oracle always calls them the other
    way round)."""
    from aotools.turbulence import turb, slopecovariance as sc
    from aotools.functions import karhunenLoeve as kl
    rng = chk.rng
    kc = kappa_c()
    for it in range(n):
        chk.oracle_cases += 1
        u = rng.random()
        if u < 0.25:
            r0, L0 = rng.choice([0.15, 0.1, 0.2]), rng.choice([25.0, 10.0, 100.0])
        elif u < 0.4:
            r0, L0 = rng.choice([2e-4, 3e-4, 1e-4]), logu(rng, 1.0, 100.0)          # both r0 below 5e-4
        else:
            r0, L0 = gen_atm(rng)
        A = (L0 / r0) ** (5. / 3)
        sat, c0 = KD * A, 0.5 * kc * A
        r = numpy.array([0.0] + sorted([logu(rng, 1e-6, 1e3) * L0 for _ in range(9)] + [L0]) + [1e5 * L0])
        chk.count("oracle:near-equal-history")
        chk.case(("near-equal-history", r0, L0, it))
        # KL copy first, then the slope-covariance copy, for this fresh atmosphere
        with numpy.errstate(all="ignore"):
            Kl = numpy.asarray(kl.stf_vonKarman(r, L0), dtype=float)
            D0 = numpy.asarray(sc.structure_function_vk(r, r0, L0), dtype=float)
            C0 = numpy.asarray(turb.phase_covariance(r, r0, L0), dtype=float)
        e = numpy.abs(Kl * r0 ** (-5. / 3) - D0)
        i = int(numpy.argmax(e))
        if not e[i] <= 1e-12 * abs(D0[i]) + 1e-14 * sat:
            chk.fail("copies:stf_vonKarman(r,L0):kl-first", "stf_vonKarman called first, then structure_function_vk: r0^(-5/3) stf_vonKarman(r, L0) "
                     "= %r but structure_function_vk(r, r0, L0) = %r at r=%r r0=%r L0=%r" % (float(Kl[i] * r0 ** (-5. / 3)), float(D0[i]), float(r[i]), r0, L0),
                     dict(r=float(r[i]), r0=r0, L0=L0))
        eps_list = [rng.choice([2.7e-3, -2.7e-3]), 1e-5, 1e-8, 4e-4 / 25.0]
        rng.shuffle(eps_list)
        for eps in eps_list:
            c = 1.0 + eps
            s53 = c ** (5. / 3)
            with numpy.errstate(all="ignore"):
                got = {  # (value at the neighbouring atmosphere, what the scaling law makes of the first call)
                    "r0-scaling:structure_function_vk": (sc.structure_function_vk(r, c * r0, L0), D0 / s53, sat),
                    "r0-scaling:phase_covariance": (turb.phase_covariance(r, c * r0, L0), C0 / s53, c0),
                    "L0-scaling:structure_function_vk": (sc.structure_function_vk(c * r, r0, c * L0), D0 * s53, sat),
                    "L0-scaling:phase_covariance": (turb.phase_covariance(c * r, r0, c * L0), C0 * s53, c0),
                    "L0-scaling:stf_vonKarman": (kl.stf_vonKarman(c * r, c * L0), Kl * s53, KD * L0 ** (5. / 3)),
                }
            for key, (v, want, scale) in got.items():
                v = numpy.asarray(v, dtype=float)
                tol = 1e-11 * numpy.abs(want) + 1e-12 * scale
                if v.shape != want.shape:
                    chk.fail("history:" + key, "%s: shape %s for separations of shape %s" % (key, v.shape, want.shape), dict(r0=r0, L0=L0, c=c))
                    continue
                e = numpy.abs(v - want) - tol
                i = int(numpy.argmax(e))
                track("history:" + key, abs(float(v[i] - want[i])), float(tol[i]))
                if not numpy.all(numpy.abs(v - want) <= tol):
                    chk.fail("history:" + key, "after a call with (r0=%r, L0=%r) the call with the neighbouring atmosphere (c = 1%+.3g: %s) gives %r "
                             "at r=%r where the exact scaling law gives %r" % (r0, L0, eps, "r0 -> c r0" if key.startswith("r0") else "r, L0 -> c r, c L0",
                                                                            float(v[i]), float(r[i]), float(want[i])),
                             dict(r0=r0, L0=L0, c=c, r=float(r[i]), clause=key))


def big_arrays(chk, quick):
    """array SIZES: everything above evaluates at most 73 separations (1600 in a covariance matrix).  300, 2^16+3 and 2^18+1
    elements (thorough: 2^20+1), 1-D and 2-D: the values must be those of the same separations evaluated 37 at a time (elementwise
    functions; observed bit-identical, tolerance 1e-13 relative)"""
    rng = chk.rng
    sizes = [300, 2 ** 16 + 3, 2 ** 18 + 1] + ([] if quick else [2 ** 20 + 1, 5000, 70001])
    for size in sizes:
        r0, L0 = gen_atm(rng)
        nprng = numpy.random.default_rng(rng.getrandbits(32))
        r = numpy.exp(nprng.uniform(math.log(1e-8), math.log(1e4), size)) * L0
        r[nprng.integers(0, size, 5)] = 0.0
        idx = numpy.sort(nprng.choice(size, 8, replace=False))
        idx = numpy.unique(numpy.concatenate([idx, [0, size - 1, size // 2], numpy.flatnonzero(r == 0)[:2]]))
        for fn, f in _fn_table():
            chk.oracle_cases += 1
            chk.count("oracle:big-array:%d" % size)
            chk.case(("big-array", fn, size, r0, L0))
            forms = [("1-D", r)]
            if size % 3 == 0 or size > 1000:
                k = size // 257 if size > 1000 else 3
                forms.append(("2-D", r[:k * (size // k)].reshape(k, size // k)))
            for cls, arr in forms:
                keep = arr.copy()
                v = _ev(f, arr, r0, L0)
                if v.shape != arr.shape or not numpy.array_equal(arr, keep):
                    chk.fail("big-array:%s:%s" % (fn, cls), "%s on %d separations returns shape %s for shape %s%s" % (
                        fn, size, v.shape, arr.shape, "" if numpy.array_equal(arr, keep) else " and modified them in place"), dict(fn=fn, size=size, r0=r0, L0=L0))
                    continue
                flat, src = v.ravel(), arr.ravel()
                sel = idx[idx < flat.size]
                small = numpy.array([float(_ev(f, src[j:j + 1].copy(), r0, L0)[0]) for j in sel])
                chunk = _ev(f, src[:37].copy(), r0, L0)
                # absolute slack 1e-14 of the saturation value / variance (the `elementwise` slack of the main oracle): a 1-ulp difference
                # between array and single-element evaluation of a power is amplified by the cancellation in 1 - h/h0 and is not 1e-13
                # of a subnormal covariance; a size-dependent single-precision path is 1e-7 of that scale
                scale = {"structure_function_vk": KD * (L0 / r0) ** (5. / 3), "stf_vonKarman": KD * L0 ** (5. / 3),
                         "phase_covariance": 0.5 * kappa_c() * (L0 / r0) ** (5. / 3)}.get(fn, 0.0)
                for got, want, where in ((flat[sel], small, sel), (flat[:37], chunk, numpy.arange(37))):
                    ok = numpy.isclose(got, want, rtol=1e-13, atol=1e-14 * scale, equal_nan=False)
                    if not ok.all():
                        j = int(numpy.flatnonzero(~ok)[0])
                        chk.fail("big-array:%s:%s" % (fn, cls), "%s on an array of %d separations (%s) gives %r at r=%r (element %d), on its own %r (r0=%r L0=%r)"
                                 % (fn, size, cls, float(got[j]), float(src[where[j]]), int(where[j]), float(want[j]), r0, L0),
                                 dict(fn=fn, size=size, r=float(src[where[j]]), r0=r0, L0=L0))
                        break


def more_input_classes(chk, n):
    """forms of the separation argument not produced above: NumPy float64 scalars and 0-d float arrays, 1-element and empty arrays,
    all-zero arrays, negative zero, read-only arrays, negative strides in two dimensions, a moved axis / Fortran order in three
    dimensions (with exact zeros inside) — each must give the values of the plain 1-D float64 call, and leave the argument alone"""
    rng = chk.rng
    for it in range(n):
        chk.oracle_cases += 1
        r0, L0 = gen_atm(rng)
        x = numpy.array([gen_r(rng, L0)[0] for _ in range(24)])
        x[rng.randrange(24)] = 0.0
        x[rng.randrange(24)] = 0.0
        chk.case(("more-input-classes", r0, L0, it))
        for fn, f in _fn_table():
            base = _ev(f, x.copy(), r0, L0)

            # scalar and array calls round x**(5/6) differently (1 ulp), which the cancellation in 1 - h(x)/h0 turns into 1e-16 of
            # the saturation value: the slack of the main oracle's `elementwise` clause (1e-14 sat), for the scalar classes only
            # (phase_covariance: no cancellation, but x^(5/6) K(x) is subnormal for x in 705 … 745, where 1 ulp of a factor is not 1e-13)
            sat_fn = {"structure_function_vk": KD * (L0 / r0) ** (5. / 3), "stf_vonKarman": KD * L0 ** (5. / 3),
                      "phase_covariance": 0.5 * kappa_c() * (L0 / r0) ** (5. / 3)}.get(fn, 0.0)

            def same(cls, got, want, r=None, atol=0.0):
                chk.count("input-class:" + cls)
                if got.shape != want.shape or not numpy.allclose(got, want, rtol=1e-13, atol=atol, equal_nan=False):
                    chk.fail("input-class:%s:%s" % (fn, cls), "%s with %s returns %s, the plain float64 call %s (r0=%r L0=%r)"
                             % (fn, cls, "shape %s" % (got.shape,) if got.shape != want.shape else got.ravel()[:4].tolist(),
                                "shape %s" % (want.shape,) if got.shape != want.shape else want.ravel()[:4].tolist(), r0, L0),
                             dict(fn=fn, input_class=cls, r0=r0, L0=L0, r=(x if r is None else numpy.asarray(r)).tolist()))
            for k in (int(numpy.flatnonzero(x == 0)[0]), rng.randrange(24), rng.randrange(24)):
                same("r:numpy.float64-scalar", _ev(f, numpy.float64(x[k]), r0, L0), base[k], r=x[k], atol=1e-14 * sat_fn)
                same("r:0-d-float-array", _ev(f, numpy.array(x[k]), r0, L0), base[k], r=x[k], atol=1e-14 * sat_fn)
                same("r:1-element", _ev(f, x[k:k + 1].copy(), r0, L0), base[k:k + 1], r=x[k], atol=1e-14 * sat_fn)
                same("r:1x1", _ev(f, x[k:k + 1].reshape(1, 1).copy(), r0, L0), base[k:k + 1].reshape(1, 1), r=x[k], atol=1e-14 * sat_fn)
            same("r:empty", _ev(f, numpy.zeros(0), r0, L0), numpy.zeros(0), r=[])
            same("r:empty-2-D", _ev(f, numpy.zeros((0, 3)), r0, L0), numpy.zeros((0, 3)), r=[])
            z = _ev(f, 0.0, r0, L0)
            same("r:all-zeros", _ev(f, numpy.zeros((3, 3)), r0, L0), numpy.full((3, 3), float(z)), r=[0.0])
            same("r:negative-zero", _ev(f, numpy.array([-0.0, x[1], -0.0]), r0, L0), numpy.array([float(z), base[1], float(z)]), r=[-0.0], atol=1e-14 * sat_fn)
            same("r:negative-zero-scalar", _ev(f, -0.0, r0, L0), z, r=-0.0)
            ro = x.copy()
            ro.flags.writeable = False
            try:
                same("layout:read-only", _ev(f, ro, r0, L0), base)
                ro2 = numpy.asfortranarray(x.reshape(4, 6))
                ro2.flags.writeable = False
                same("layout:read-only-fortran", _ev(f, ro2, r0, L0), base.reshape(4, 6))
            except ValueError as ex:
                chk.fail("input-class:%s:read-only:raises" % fn, "%s raises %r on a read-only separation array (it writes into its argument)" % (fn, ex),
                         dict(fn=fn, r0=r0, L0=L0, r=x.tolist()))
            views = [("negative-strides-2-D", numpy.ascontiguousarray(x.reshape(4, 6)[::-1, ::-1])[::-1, ::-1], base.reshape(4, 6)),
                     ("3-D-moveaxis", numpy.moveaxis(numpy.ascontiguousarray(numpy.moveaxis(x.reshape(2, 3, 4), 0, -1)), -1, 0), base.reshape(2, 3, 4)),
                     ("3-D-fortran", numpy.asfortranarray(x.reshape(2, 3, 4)), base.reshape(2, 3, 4)),
                     ("2-D-column-slice", numpy.stack([x.reshape(4, 6), x.reshape(4, 6) + 1], -1)[..., 0], base.reshape(4, 6))]
            for cls, v, want in views:
                assert numpy.array_equal(v, x.reshape(v.shape)) and not v.flags.c_contiguous
                keep = v.copy()
                same("layout:" + cls, _ev(f, v, r0, L0), want)
                if not numpy.array_equal(v, keep):
                    chk.fail("inplace:%s" % fn, "%s modified its %s separation array in place" % (fn, cls), dict(fn=fn, r0=r0, L0=L0, input_class=cls))


def float32_other(chk, n):
    """single precision where the library does NOT promise double: float32 separations of the structure functions are evaluated in
    single precision (1.4e-7 of the saturation value observed; relative accuracy at r << L0 is lost) and float32 r0 / L0 scalars carry
    their own rounding — only gross, dtype-dependent errors are looked for there (1e-4 of the saturation value / of the value; observed 7e-7 over 30 seeds), plus
    exact clauses: finite everywhere, D(0) = 0 exactly.  phase_covariance converts r0 and L0 to Python floats first: float32
    r0 / L0 give exactly the double-precision value at float(r0), float(L0) (1e-13)."""
    from aotools.turbulence import turb
    rng = chk.rng
    for it in range(n):
        chk.oracle_cases += 1
        r0, L0 = logu(rng, 0.05, 0.5), logu(rng, 1.0, 1e3)
        r64 = numpy.array([0.0, 0.0] + [logu(rng, 1e-4, 1e2) * L0 for _ in range(22)])
        r32 = r64.astype(numpy.float32)
        rr = r32.astype(float)
        A = (L0 / r0) ** (5. / 3)
        chk.count("oracle:float32-other")
        chk.case(("float32-other", r0, L0, it))
        for fn, f in _fn_table():
            if fn == "phase_covariance":
                continue
            ref = _ev(f, rr, r0, L0)
            kol = "kolmogorov" in fn
            scale = numpy.abs(ref) if kol else numpy.full(ref.shape, KD * (A if fn == "structure_function_vk" else L0 ** (5. / 3)))
            for cls, arg in (("float32-array", r32), ("float32-2-D-fortran", numpy.asfortranarray(r32.reshape(4, 6))),
                             ("float32-scalars", None)):
                if arg is None:
                    got = numpy.array([float(_ev(f, numpy.float32(v), r0, L0)) for v in r32[:8]])
                    want, sc_ = ref[:8], scale[:8]
                else:
                    got = _ev(f, arg, r0, L0).ravel()
                    want, sc_ = ref, scale
                err = numpy.abs(got - want) if got.shape == want.shape else numpy.array([numpy.inf])
                zero_ok = got.shape == want.shape and numpy.all(got[want == 0] == 0)
                if got.shape == want.shape and numpy.isfinite(got).all():
                    track("float32:" + fn, float((err / (1e-4 * sc_ + 1e-300)).max()), 1.0)
                if not (got.shape == want.shape and numpy.isfinite(got).all() and zero_ok and numpy.all(err <= 1e-4 * sc_)):
                    k = int(numpy.argmax(numpy.where(numpy.isfinite(err), err / (sc_ + 1e-300), numpy.inf))) if got.shape == want.shape else 0
                    chk.fail("input-class:%s:%s" % (fn, cls), "%s(%s r, r0=%.4g, L0=%.4g) = %r at r = %r, in double precision %r"
                             % (fn, cls, r0, L0, float(got[k]) if got.shape == want.shape else None, float(rr[k]), float(want[k])),
                             dict(fn=fn, cls=cls, r0=r0, L0=L0, r=rr.tolist()))
            # float32 r0 / L0 scalars with double-precision separations
            a, b = numpy.float32(r0), numpy.float32(L0)
            ref2 = _ev(f, rr, float(a), float(b))
            got = _ev(f, rr, a, b)
            sc2 = numpy.abs(ref2) if kol else numpy.full(ref2.shape, KD * ((float(b) / float(a)) ** (5. / 3) if fn == "structure_function_vk" else float(b) ** (5. / 3)))
            if got.shape == ref2.shape and numpy.isfinite(got).all():
                track("float32-r0-L0:" + fn, float((numpy.abs(got - ref2) / (1e-4 * sc2 + 1e-300)).max()), 1.0)
            if not (got.shape == ref2.shape and numpy.isfinite(got).all() and numpy.all(got[ref2 == 0] == 0) and numpy.all(numpy.abs(got - ref2) <= 1e-4 * sc2)):
                chk.fail("input-class:%s:float32-r0-L0" % fn, "%s with numpy.float32 r0=%r, L0=%r differs grossly from the call with the same values as "
                         "Python floats" % (fn, float(a), float(b)), dict(fn=fn, r0=float(a), L0=float(b), r=rr.tolist()))
        # phase_covariance: exact
        for a, b, cls in ((numpy.float32(r0), numpy.float32(L0), "float32-r0-L0"), (numpy.float32(r0), L0, "float32-r0"), (r0, numpy.float32(L0), "float32-L0")):
            with numpy.errstate(all="ignore"):
                ref = numpy.asarray(turb.phase_covariance(rr, float(a), float(b)), dtype=float)
                got = numpy.asarray(turb.phase_covariance(rr, a, b), dtype=float)
                gs = numpy.array([float(turb.phase_covariance(float(v), a, b)) for v in rr[:6]])
            for g_, w_ in ((got, ref), (gs, ref[:6])):
                if g_.shape != w_.shape or not numpy.allclose(g_, w_, rtol=1e-13, atol=1e-13 * float(ref[0])):
                    chk.fail("input-class:phase_covariance:%s" % cls, "phase_covariance(r, r0=%r, L0=%r) with numpy.float32 scalars differs from the call with "
                             "the same values as Python floats: %r vs %r" % (float(a), float(b), g_.ravel()[:3].tolist(), w_.ravel()[:3].tolist()),
                             dict(r0=float(a), L0=float(b), r=rr.tolist(), cls=cls))
                    break


def kl_entry_points(chk, quick):
    """the Karhunen-Loève code's copy through every way it is reached: gkl_kernel with the tag / outer scale as keywords and with the
    default tag, more radial resolutions (2 … 40, the default) and obscurations (0.01 … 0.9), integer and very large outer scales;
    gkl_basis and make_kl (their eigenvalues are those of the kernel of the SAME tag and outer scale, and equal for all spellings of
    one statistic)"""
    import contextlib
    import io
    from aotools.turbulence import slopecovariance as sc
    from aotools.functions import karhunenLoeve as kl
    rng = chk.rng

    def kernel_stat(ri, nr, ker):
        rad = numpy.asarray(kl.gkl_radii(ri, nr), dtype=float)
        nth = ker.shape[2]
        fnorm = 1. / 2. * (-1) / (2 * numpy.pi * (1 - ri ** 2))
        used = numpy.fft.ifft(ker, axis=2).real / (fnorm * 2 * numpy.pi / nth)
        th = 2 * numpy.pi * numpy.arange(nth) / nth
        sep = 0.5 * numpy.sqrt(numpy.maximum(rad[:, None, None] ** 2 + rad[None, :, None] ** 2
                                             - 2 * rad[:, None, None] * rad[None, :, None] * numpy.cos(th)[None, None, :], 0))
        return used, sep, rad

    nrs = [2, 3, 4, 13, 16, 25, 40] if quick else list(range(2, 41))
    for nr in nrs:
        for ri in ((rng.choice([0.01, 0.9]), rng.choice([0.12, 0.3, 0.45])) if quick else (0.01, 0.12, 0.3, 0.45, 0.9)):
            for how, tag, L0 in (("default-tag", None, None), ("keywords", "kolmogorov", None), ("keywords", rng.choice(["vonKarman", "karman", "vk"]), float(rng.choice([0.5, 1.0, 3.0]))),
                                 ("int-outerscale", rng.choice(["vonKarman", "karman", "vk"]), rng.choice([1, 3, 20])),
                                 ("huge-outerscale", rng.choice(["vonKarman", "karman", "vk"]), rng.choice([1e3, 1e6]))):
                chk.oracle_cases += 1
                chk.count("oracle:kl-kernel:%s" % how)
                chk.case(("oracle-kl-kernel2", nr, ri, how, tag, L0))
                rad = numpy.asarray(kl.gkl_radii(ri, nr), dtype=float)
                with numpy.errstate(all="ignore"):
                    if how == "default-tag":
                        ker = kl.gkl_kernel(ri, nr, rad.copy())
                    elif how == "keywords":
                        ker = kl.gkl_kernel(ri=ri, nr=nr, rad=rad.copy(), stfunc=tag, **({} if L0 is None else {"outerscale": L0}))
                    else:
                        ker = kl.gkl_kernel(ri, nr, rad.copy(), tag, L0)
                    ker = numpy.asarray(ker)
                    used, sep, _ = kernel_stat(ri, nr, ker)
                    want = numpy.asarray(kl.stf_kolmogorov(sep) if L0 is None else sc.structure_function_vk(sep, 1.0, float(L0)), dtype=float)
                err = float(numpy.abs(used - want).max() / numpy.abs(want).max()) if used.shape == want.shape else float("inf")
                # the closed form 1 - h(x)/h0 is evaluated with absolute error ~1e-16 of the saturation value: for outer scales of 1e3 …
                # 1e6 apertures the separations of the kernel and of this reference (1 ulp apart) give values 1e-16·sat/D apart
                tol = 1e-10 + (0.0 if L0 is None else 1e-13 * KD * float(L0) ** (5. / 3) / float(numpy.abs(want).max()))
                track("kl-kernel:" + how, err, tol)
                if not err <= tol:                              # observed: see the notes (worst fraction of the tolerance)
                    chk.fail("copies:kl-kernel:%s:%s" % (how, "kolmogorov" if L0 is None else "vonKarman"),
                             "the structure function inside gkl_kernel(ri=%r, nr=%d, %s) deviates from the %s one at the separations of the polar grid by "
                             "%.3g of the largest value" % (ri, nr, "default tag" if tag is None else "stfunc=%r, outerscale=%r" % (tag, L0),
                                                           "Kolmogorov" if L0 is None else "slope-covariance von Kármán", err),
                             dict(ri=ri, nr=nr, L0=L0, stfunc=tag, how=how))
    # gkl_basis / make_kl: eigenvalues of the kernel of the same statistic
    for nr, nfunc in ((8, 10), (12, 20)) if quick else ((6, 8), (8, 10), (9, 12), (12, 20), (16, 30)):
        ri = rng.choice([0.1, 0.2, 0.35])
        L0 = float(rng.choice([0.5, 1.0, 2.5]))                # none of the 'typical' values a default could be
        ref = {}
        for stat, tags in (("kolmogorov", ["kolmogorov", "kolstf", None]), ("vonKarman", ["vonKarman", "karman", "vk"])):
            rad = kl.gkl_radii(ri, nr)
            with numpy.errstate(all="ignore"):
                ker = kl.gkl_kernel(ri, nr, rad, stat, L0 if stat == "vonKarman" else None)
                ref[stat] = numpy.asarray(kl.gkl_fcom(ri, ker, nfunc)[0], dtype=float)
            for tag in tags:
                chk.oracle_cases += 1
                chk.count("oracle:kl-entry-point")
                chk.case(("oracle-kl-entry", nr, nfunc, ri, stat, tag, L0))
                out = io.StringIO()
                with contextlib.redirect_stdout(out), numpy.errstate(all="ignore"):
                    if tag is None:
                        ev = kl.gkl_basis(ri=ri, nr=nr, nfunc=nfunc)["evals"]                  # default tag of gkl_basis
                        ev2 = kl.make_kl(nfunc, 16, ri=ri, nr=nr)[1]                           # default tag of make_kl
                    else:
                        kw = {"outerscale": L0} if stat == "vonKarman" else {}
                        ev = kl.gkl_basis(ri, nr, None, nfunc, tag, **kw)["evals"]
                        ev2 = kl.make_kl(nfunc, 16, ri=ri, nr=nr, stf=tag, **kw)[1]
                for name, e_, npp in (("gkl_basis", ev, None), ("make_kl", ev2, int(2 * numpy.pi * nr))):
                    e_ = numpy.asarray(e_, dtype=float)
                    if e_.shape != ref[stat].shape or not numpy.allclose(e_, ref[stat], rtol=1e-12, atol=1e-14 * float(numpy.abs(ref[stat]).max())):
                        chk.fail("copies:kl-entry-point:%s:%s" % (name, stat), "%s(ri=%r, nr=%d, nfunc=%d, stf=%s%s): its eigenvalues %s are not those of "
                                 "gkl_kernel(…, %r%s) %s" % (name, ri, nr, nfunc, "default" if tag is None else repr(tag), "" if stat == "kolmogorov" else ", outerscale=%r" % L0,
                                                            e_[:3].tolist(), stat, "" if stat == "kolmogorov" else ", %r" % L0, ref[stat][:3].tolist()),
                                 dict(fn=name, ri=ri, nr=nr, nfunc=nfunc, stf=tag, L0=L0))


def large_point_sets(chk, quick):
    """covariance matrices with more than 2^16 (thorough: 2^18) entries, a single point, points on an integer lattice"""
    from aotools.turbulence import turb
    rng = chk.rng
    kc = kappa_c()
    for npts, kind in ([(1, "cloud"), (260, "cloud"), (132, "int-lattice")] if quick else [(1, "cloud"), (260, "cloud"), (132, "int-lattice"), (520, "cloud"), (600, "clustered")]):
        chk.oracle_cases += 1
        r0, L0 = gen_atm(rng)
        c0 = 0.5 * kc * (L0 / r0) ** (5. / 3)
        nprng = numpy.random.default_rng(rng.getrandbits(32))
        scale = logu(rng, 1e-2, 30.0) * L0
        if kind == "int-lattice":
            P = numpy.stack(numpy.meshgrid(numpy.arange(12), numpy.arange(11)), -1).reshape(-1, 2).astype(float) * max(1.0, round(scale / 12))
        elif kind == "clustered":
            P = nprng.normal(size=(npts, 2)) * scale * 1e-3 + nprng.integers(0, 3, size=(npts, 1)) * scale
        else:
            P = nprng.uniform(-scale, scale, size=(npts, 2))
        chk.count("psd-matrix:large:" + kind)
        chk.case(("oracle-psd-large", kind, r0, L0, scale, len(P)))
        dist = numpy.sqrt(((P[:, None, :] - P[None, :, :]) ** 2).sum(-1))
        with numpy.errstate(all="ignore"):
            M = numpy.asarray(turb.phase_covariance(dist.copy(), r0, L0), dtype=float)
        if M.shape != dist.shape or not numpy.isfinite(M).all():
            chk.fail("nan:phase_covariance:matrix", "phase_covariance of a %s distance matrix is not finite / wrong shape" % (dist.shape,), dict(n=len(P), r0=r0, L0=L0, kind=kind))
            continue
        lam = numpy.linalg.eigvalsh(0.5 * (M + M.T))
        track("posdef:phase_covariance:large", -lam.min(), TE * len(P) * c0)
        # a few entries against scalar calls (a size-dependent path must not change the values)
        for _ in range(4):
            i, j = rng.randrange(len(P)), rng.randrange(len(P))
            s = fscalar(turb.phase_covariance(float(dist[i, j]), r0, L0))
            if not common.close(s, float(M[i, j]), 1e-13, TC * c0):
                chk.fail("elementwise:phase_covariance:matrix", "phase_covariance(%r) as a scalar gives %r, inside a %dx%d matrix %r (r0=%r L0=%r)"
                         % (float(dist[i, j]), s, len(P), len(P), float(M[i, j]), r0, L0), dict(r=float(dist[i, j]), r0=r0, L0=L0, n=len(P)))
        if not (numpy.abs(M - M.T).max() <= 1e-12 * c0 and lam.min() >= -TE * len(P) * c0):
            chk.fail("posdef:phase_covariance", "covariance matrix of %d points (%s, scale %r) has smallest eigenvalue %r (C0 = %r), asymmetry %r"
                     % (len(P), kind, scale, float(lam.min()), c0, float(numpy.abs(M - M.T).max())), dict(n=len(P), kind=kind, scale=scale, r0=r0, L0=L0))


def aliases(chk):
    """the package-level names are the functions checked here"""
    import aotools
    import aotools.turbulence
    import aotools.functions
    from aotools.turbulence import turb, slopecovariance as sc
    from aotools.functions import karhunenLoeve as kl
    r = numpy.array([0.0, 1e-3, 0.4, 3.0, 70.0, 1e4])
    for mods, home, names in (((aotools, aotools.turbulence), turb, ["phase_covariance"]),
                              ((aotools, aotools.turbulence), sc, ["structure_function_vk", "structure_function_kolmogorov"]),
                              ((aotools, aotools.functions), kl, ["stf_vonKarman", "stf_kolmogorov", "stf_vonKarman_yao", "gkl_kernel", "gkl_basis", "make_kl"])):
        for name in names:
            base = getattr(home, name)
            for mod in mods:
                chk.oracle_cases += 1
                chk.case(("alias", mod.__name__, name))
                f = getattr(mod, name, None)
                if f is None:
                    chk.broke("correspondence", "%s.%s does not exist any more" % (mod.__name__, name))
                elif f is not base:
                    import inspect
                    npar = len(inspect.signature(base).parameters)
                    args = {1: (r,), 2: (r, 0.13), 3: (r, 0.13, 21.0)}.get(npar)
                    same = False
                    if args is not None:
                        with numpy.errstate(all="ignore"):
                            same = numpy.array_equal(numpy.asarray(f(*args)), numpy.asarray(base(*args)))
                    if not same:
                        chk.fail("alias:%s.%s" % (mod.__name__, name), "%s.%s is another function than %s.%s%s" % (
                            mod.__name__, name, home.__name__, name, "" if args is None else " and gives other values"), dict(name=name, module=mod.__name__))


def h1_numeric(chk):
    """the named hypothesis H1 for scipy's K_5/6 on a grid (reported, not a verdict: it is a fact about scipy, not aotools)"""
    from scipy.special import kv
    x = numpy.exp(numpy.linspace(math.log(1e-12), math.log(600.), 4000))
    h = x ** (5. / 6) * kv(5. / 6, x)
    ok = bool(numpy.all(numpy.diff(h) <= 1e-14) and abs(h[0] / h_zero() - 1) < 1e-9 and h[-1] < 1e-200)
    chk.notes.append("H1 on scipy.special.kv over 4000 log-spaced x in [1e-12, 600]: antitone, h(1e-12)/h0 - 1 = %.1e, h(600) = %.1e -> %s"
                     % (h[0] / h_zero() - 1, h[-1], "consistent" if ok else "NOT consistent"))


def run(chk):
    quick = chk.tier == "quick"
    chk.rule = ("T1 self-check: Float instantiation of the regenerated definitions vs the Python functions, rel 1e-7 (Bessel quadrature); "
                "correspondence: regenerated definitions and theorem normal forms at Float vs the real functions on scalars/arrays "
                "(r = 0, tiny, < L0, > L0; L0 up to 3e7): |lean - python| <= 1e-9 |value| + 1e-12 saturation (structure functions), "
                "<= 1e-10 C0 (phase_covariance; observed 2e-14 C0), 1e-12 relative (closed forms, constants); oracle: property clauses on "
                "the real code with the tolerances named in each failure key; every clause that goes through phase_covariance uses 1e-10 C0 "
                "(double precision; observed <= 8e-15 C0 over 10 seeds, worst fractions in the notes), so single-precision arithmetic inside it "
                "(6e-8) is a violation; input classes: float64/float32/int arrays of rank 0-3, Python/NumPy int scalars, int r0/L0, strided / "
                "reversed / transposed / broadcast views; round 5: call sequences with r0 or L0 differing by 2.7e-3 … 1e-8 relative checked by "
                "the exact scaling laws f(r; c r0, L0) = c^(-5/3) f and f(c r; r0, c L0) = c^(5/3) f (1e-11 relative + 1e-12 saturation; observed "
                "9e-4 of that), arrays of 300 … 2^18+1 (thorough 2^20+1) separations against the same separations 37 at a time (1e-13), NumPy "
                "float scalars / 0-d / 1-element / empty / all-zero / negative-zero / read-only / negative-stride / moved-axis arguments, float32 "
                "separations and float32 r0, L0 of the structure functions (gross errors only: 1e-4 of the saturation value, observed 7e-7; "
                "phase_covariance with float32 r0, L0 exact), 10 % of the oracle cases with r0 in 1e-4 … 1e3 and L0 in 1e-3 … 1e10, separations "
                "to 1e12 L0, gkl_kernel by keywords / default tag / nr 2 … 40 / ri 0.01 … 0.9 / integer and 1e3 … 1e6 outer scales (tolerance "
                "1e-10 + 1e-13 sat/D: the closed form's own conditioning), eigenvalues of gkl_basis and make_kl for every tag spelling, covariance "
                "matrices of 260 (thorough 600) points, package-level names; distinct = distinct (r0, L0, separations) tuples")
    chk.assumptions = [
        "H1 (x^(5/6) K_5/6(x) antitone on (0,inf), -> 2^(-1/6) Gamma(5/6) at 0+, -> 0 at inf) is a theorem hypothesis of D_nonneg, D_le_sat, "
        "D_monotone, D_tendsto_zero, D_saturates, cov_bounds, cov_antitone, cov_tendsto_zero; for the real Bessel function it is checked "
        "numerically only (oracle monotonicity/saturation clauses; grid check of scipy's kv in the notes)",
        "NOT PROVED: 'every matrix of phase covariances between arbitrary points is positive semi-definite'. cov_posSemidef / "
        "covExt_posSemidef ASSUME H2 = PosDefKernel (the radial kernel h(2 pi (r + 1e-40)/L0) is positive definite on the point space), "
        "which is the conclusion itself up to the non-negative factor C0/h0: the theorems only transport the property from h to the coded "
        "covariance. The clause is carried by the eigenvalue oracle ONLY: smallest eigenvalue of covariance matrices of generated planar point "
        "sets (clouds, grids, lines, clusters, duplicated points; 2-40 points) >= -1e-10 n C0 (observed: -2e-16 n C0). H1 and H2 are jointly "
        "satisfiable by one kv (H1_H2_jointly_satisfiable, on the line), i.e. the hypothesis set is consistent, nothing more",
        "Hankel-transform identity D(r) = 4 pi int f PSD(f) (1 - J0(2 pi f r)) df: not provable in Mathlib (no Bessel J0); evaluated by "
        "quadrature on the real PSD expression; holds with the constant ratio 1.0051 (rounding of 0.023)",
        "Kolmogorov limit L0 -> infinity: numeric only (ratio to 6.88 (r/r0)^(5/3) follows 1 - 1.485 (r/L0)^(1/3) to 1e-4); proved only "
        "for Yao's series (yao_tendsto_kolmogorov)",
        "closeness of the published constants (kappa_D = 0.17253 vs kappa_C, 0.0863, 0.023) is numeric, to their rounding (1e-3, 1e-2)",
        "phase_covariance(0) equals C0 only up to its own 1e-40 offset (limit form covIdeal_tendsto_covZero under H1)",
        "0 < 2 pi r / L0 < 2.2e-305 is outside the generated domain: scipy's kv overflows there (AMOS underflow guard), an IEEE range "
        "limit like overflow at huge L0/r0, not modelled over the reals",
        "Real.rpow / Real.Gamma / pi model Python's ** / scipy.special.gamma / numpy.pi up to IEEE rounding; NumPy broadcasting is "
        "exercised by the correspondence and the oracle (ranks 0-2), not modelled",
    ]
    meta = t1check.regenerate(chk)
    chk.build_and_audit("AoVerif.Props.C08", "AoVerif.Props.C08", REQUIRED)
    if meta is not None:
        try:
            t1check.selfcheck(chk, meta, T1_NAMES, arggen, 8 if quick else 80, rtol=1e-7)
            correspondence(chk, 300 if quick else 12000)
        except common.LeanError as ex:
            chk.broke("translator", "generated Lean does not compile / run", str(ex))
    h1_numeric(chk)
    WORST.clear()
    if quick:
        oracle(chk, 250, 10, 150)
    else:
        oracle(chk, 20000, 300, 10000)
    input_classes(chk, 6 if quick else 200)
    float32_separations(chk, 8 if quick else 200)
    # round 5 (generator audit): input classes, sizes, entry points and call histories the sections above never produce
    near_equal_history(chk, 40 if quick else 2000)
    big_arrays(chk, quick)
    more_input_classes(chk, 6 if quick else 200)
    float32_other(chk, 8 if quick else 200)
    kl_entry_points(chk, quick)
    large_point_sets(chk, quick)
    aliases(chk)
    chk.notes.append("oracle: worst observed value as a fraction of its tolerance, per phase_covariance clause: %s"
                     % json.dumps({k: float("%.2e" % v) for k, v in sorted(WORST.items())}))
